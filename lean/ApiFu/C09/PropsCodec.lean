/-
  C09 — property theorems about the cursor codec model (`Codec.lean`: Go's base64.RawURLEncoding and
  the vmihailenco/msgpack v4 wire format of integers, strings and structs of them), and the C09
  theorems that had a "lawful codec" HYPOTHESIS restated for the CONCRETE codec: no assumption about
  `SerializeCursor` / `DeserializeCursor` is left in `walk_exact_codec`, `edges_eq_relay_codec`,
  `cursor_roundtrip_codec`.

  Cursor values are `Codec.Val` (an integer, a byte string, or a struct of such fields) of a cursor
  type `t : Codec.Ty`; "a value of the type" is `Val.WellTyped v t`: integers inside the range of
  their Go type, strings shorter than 2^32 bytes (beyond that `encodeStrLen` truncates the length).
  `Ty.Ok t`: field names distinct (always so for a Go struct without tags), fewer than 2^32 fields.
-/
import ApiFu.C09.Props
import ApiFu.C09.WalkOn
import ApiFu.C09.CodecLemmas

namespace ApiFu.C09

open Codec

/-! ### base64.RawURLEncoding -/

/-- **b64_roundtrip** — for every byte string: `DecodeString(EncodeToString(b)) = b`, no error. -/
theorem b64_roundtrip (bs : Bytes) : b64dec (b64enc bs) = some bs := b64dec_b64enc bs

/-- **b64enc_injective** — different byte strings have different encodings. -/
theorem b64enc_injective {a b : Bytes} (h : b64enc a = b64enc b) : a = b := by
  have := b64_roundtrip a
  rw [h, b64_roundtrip b] at this
  exact (Option.some.inj this).symm

/-- **b64dec_accepts_iff** — exactly which texts Go's `RawURLEncoding.DecodeString` accepts: once
    `'\r'` and `'\n'` are dropped (they are ignored wherever they stand), every character is one of
    the 64 of the URL alphabet (so `'='`, `'+'`, `'/'`, blanks and every non-ASCII character are
    rejected) and the number of characters is not 1 modulo 4. Nothing else is checked — in
    particular not the unused low bits of a final 2- or 3-character group. -/
theorem b64dec_accepts_iff (s : String) :
    (b64dec s).isSome = true ↔
      (∀ c ∈ s.toList.filter notNewline, c ∈ alphabet) ∧ (s.toList.filter notNewline).length % 4 ≠ 1 := by
  unfold b64dec
  cases hd : decChars (s.toList.filter notNewline) with
  | none =>
    have : ¬ ∀ c ∈ s.toList.filter notNewline, c ∈ alphabet := fun h => by
      have h' := (decChars_isSome_iff _).mpr h; rw [hd] at h'; simp at h'
    simp only [Option.isSome_none, Bool.false_eq_true, false_iff, not_and]
    exact fun h => absurd h this
  | some is =>
    have h1 : ∀ c ∈ s.toList.filter notNewline, c ∈ alphabet := (decChars_isSome_iff _).mp (by simp [hd])
    simp only [decGroups_isSome_iff, decChars_length hd]
    exact ⟨fun h => ⟨h1, h⟩, fun h => h.2⟩

/-- Non-strict decoding is real: two different texts decode to the same byte. -/
example : b64dec "AA" = some [0] ∧ b64dec "AB" = some [0] ∧ b64dec "A\nA" = some [0] ∧
    b64dec "A" = none ∧ b64dec "AA=" = none ∧ b64dec "A+" = none := by decide

/-! ### msgpack -/

/-- **msgpack_roundtrip** — for every cursor type and every value of it:
    `Unmarshal(Marshal(v), new(t))` succeeds and yields `v` (also when more bytes follow: `rest`). -/
theorem msgpack_roundtrip (t : Ty) (ht : t.Ok) (v : Val) (hv : v.WellTyped t) (rest : Bytes) :
    mpDecodeRest t (mpEncode t v ++ rest) = some (v, rest) ∧ mpDecode t (mpEncode t v) = some v :=
  ⟨mpDecodeRest_mpEncode t ht v hv rest, mpDecode_mpEncode t ht v hv⟩

/-- **msgpack_injective** — two values of the type with the same encoding are equal. -/
theorem msgpack_injective (t : Ty) (ht : t.Ok) {v w : Val} (hv : v.WellTyped t) (hw : w.WellTyped t)
    (h : mpEncode t v = mpEncode t w) : v = w := by
  have := mpDecode_mpEncode t ht v hv
  rw [h, mpDecode_mpEncode t ht w hw] at this
  exact (Option.some.inj this).symm

/-! ### The cursor codec -/

/-- **cursor_codec_roundtrip** — `DeserializeCursor(t, SerializeCursor(v)) = v` for every value of
    every modelled cursor type, and the serialized cursor is never the empty string (which the
    connection field reads as "absent"). -/
theorem cursor_codec_roundtrip (t : Ty) (ht : t.Ok) (v : Val) (hv : v.WellTyped t) :
    cursorDec t (cursorEnc t v) = some v ∧ cursorEnc t v ≠ "" :=
  ⟨cursorDec_cursorEnc t ht v hv, cursorEnc_ne_empty t v hv⟩

/-- **cursor_codec_injective** — different cursors serialize to different strings. -/
theorem cursor_codec_injective (t : Ty) (ht : t.Ok) {v w : Val} (hv : v.WellTyped t) (hw : w.WellTyped t)
    (h : cursorEnc t v = cursorEnc t w) : v = w := by
  have := cursorDec_cursorEnc t ht v hv
  rw [h, cursorDec_cursorEnc t ht w hw] at this
  exact (Option.some.inj this).symm

/-- **cursor_codec_lawful** — the concrete codec satisfies the hypothesis the C09 / C16 theorems
    were stated under, on the values of the cursor type. -/
theorem cursor_codec_lawful (t : Ty) (ht : t.Ok) :
    LawfulCodecOn (fun v => v.WellTyped t) (cursorDec t) (cursorEnc t) where
  dec_enc := fun v hv => cursorDec_cursorEnc t ht v hv
  enc_ne := fun v hv => cursorEnc_ne_empty t v hv

/-- **cursorDec_total** — `DeserializeCursor` on ARBITRARY text: the model is a total function with
    no crash outcome (every length read from the input only ever feeds `readN`, which fails on a
    short read), and whatever it accepts is a value of the cursor type (`WellTyped`): every integer
    inside the range of its Go type (the decoder converts with Go's truncating conversions), every
    string shorter than 2^32 bytes, a struct with exactly the fields of the type. Garbage is
    rejected or is a position; nothing else exists. -/
theorem cursorDec_total (t : Ty) (s : String) :
    cursorDec t s = none ∨ ∃ v, cursorDec t s = some v ∧ v.WellTyped t := by
  cases h : cursorDec t s with
  | none => exact Or.inl rfl
  | some v => exact Or.inr ⟨v, rfl, cursorDec_wellTyped h⟩

/-- **cursor_reemit** — every text the server accepts denotes a position whose own serialization is
    accepted back as the same position (and is not empty): a client may send a non-canonical cursor
    (compact integers, other key order, trailing bytes, line breaks in the base64 text, …) and
    continue from the `startCursor` / `endCursor` the server derives from it. -/
theorem cursor_reemit (t : Ty) (ht : t.Ok) {s : String} {v : Val} (h : cursorDec t s = some v) :
    cursorDec t (cursorEnc t v) = some v ∧ cursorEnc t v ≠ "" :=
  cursor_codec_roundtrip t ht v (cursorDec_wellTyped h)

/-- **decoded_positions_wellTyped** — the position a cursor argument decodes to (absent, `""`, or
    accepted text) is a value of the cursor type: the premise of `walk_exact_codec` /
    `edges_eq_relay_codec` about cursors holds for everything `edges_eq_relay_raw` can produce. -/
theorem decoded_positions_wellTyped (t : Ty) {s : Option String} {av : Option Val}
    (h : decodeArg (cursorDec t) s = some av) : ∀ p ∈ av, p.WellTyped t := by
  intro p hp
  cases s with
  | none => simp [decodeArg] at h; subst h; cases hp
  | some s =>
    by_cases hs : s = ""
    · simp [decodeArg, hs] at h; subst h; cases hp
    · cases hc : cursorDec t s with
      | none => simp [decodeArg, hs, hc] at h
      | some c =>
        simp only [decodeArg, hs, if_false, hc, Option.some.injEq] at h
        subst h
        cases hp
        exact cursorDec_wellTyped hc

/-- **never_crashes_codec** — with the concrete decoder in place, for every application, sort and
    argument combination (arbitrary `after` / `before` text included) the connection field answers
    with an error or a page at the decoded positions; it never reaches a Go panic. -/
theorem never_crashes_codec (t : Ty) (lt : Val → Val → Bool) (sort : List Val → List Val)
    (app : App Val) (mode : Mode) (a : Args) (sel : Sel) :
    resolve lt sort (cursorDec t) app mode a sel ≠ .crash ∧
    ((∃ e, resolve lt sort (cursorDec t) app mode a sel = .error e) ∨
     (∃ av bv c, resolve lt sort (cursorDec t) app mode a sel = resolveDecoded lt sort app mode a sel av bv ∧
        resolveDecoded lt sort app mode a sel av bv = .ok c)) :=
  never_crashes lt sort (cursorDec t) app mode a sel

/-! ### The C09 theorems at the concrete codec (no codec hypothesis) -/

/-- **cursor_roundtrip_codec** — `cursor_roundtrip` without the codec hypothesis: sending the
    serialized form of cursors `ca` / `cb` of type `t` is the request at the positions `ca` / `cb`. -/
theorem cursor_roundtrip_codec (t : Ty) (ht : t.Ok) (lt : Val → Val → Bool) (sort : List Val → List Val)
    (app : App Val) (mode : Mode) (sel : Sel) (f l : Option Int) (ca cb : Option Val)
    (hca : ∀ c ∈ ca, c.WellTyped t) (hcb : ∀ c ∈ cb, c.WellTyped t)
    (hc : checkArgs { first := f, last := l, after := ca.map (cursorEnc t), before := cb.map (cursorEnc t) } = none) :
    resolve lt sort (cursorDec t) app mode
        { first := f, last := l, after := ca.map (cursorEnc t), before := cb.map (cursorEnc t) } sel =
      resolveDecoded lt sort app mode
        { first := f, last := l, after := ca.map (cursorEnc t), before := cb.map (cursorEnc t) } sel ca cb := by
  apply resolve_accepted _ _ _ _ _ _ _ _ _ hc
  · cases ca with
    | none => simp [decodeArg]
    | some c => exact decodeArg_enc_on (cursor_codec_lawful t ht) c (hca c rfl)
  · cases cb with
    | none => simp [decodeArg]
    | some c => exact decodeArg_enc_on (cursor_codec_lawful t ht) c (hcb c rfl)

/-- **edges_eq_relay_codec** — `edges_eq_relay` with the real codec in place of the `Accepted`
    decoding hypothesis: a request whose `after` / `before` are the serialized cursors `ca` / `cb`
    (any values of the cursor type, edges of the connection or not) is answered with exactly the
    edges the Relay algorithm selects between the positions `ca` and `cb`. -/
theorem edges_eq_relay_codec (t : Ty) (ht : t.Ok) {lt : Val → Val → Bool} (h : StrictTotal lt)
    {sort : List Val → List Val} (hs : LawfulSort lt sort) {E S : List Val} (hperm : S.Perm E)
    (hsorted : Sorted lt S) {app : App Val} {mode : Mode} (hserve : Serves lt E app mode)
    (f l : Option Int) (ca cb : Option Val) (hca : ∀ c ∈ ca, c.WellTyped t) (hcb : ∀ c ∈ cb, c.WellTyped t)
    (hc : checkArgs { first := f, last := l, after := ca.map (cursorEnc t), before := cb.map (cursorEnc t) } = none)
    (sel : Sel) :
    ∃ c, resolve lt sort (cursorDec t) app mode
        { first := f, last := l, after := ca.map (cursorEnc t), before := cb.map (cursorEnc t) } sel = .ok c ∧
      some c.edges = Relay.edgesToReturn lt S cb ca f l ∧ Sorted lt c.edges := by
  have hacc : Accepted (cursorDec t)
      { first := f, last := l, after := ca.map (cursorEnc t), before := cb.map (cursorEnc t) } ca cb := by
    refine ⟨hc, ?_, ?_⟩
    · cases ca with
      | none => simp [decodeArg]
      | some c => exact decodeArg_enc_on (cursor_codec_lawful t ht) c (hca c rfl)
    · cases cb with
      | none => simp [decodeArg]
      | some c => exact decodeArg_enc_on (cursor_codec_lawful t ht) c (hcb c rfl)
  exact edges_eq_relay h hs hperm hsorted hserve hacc sel

/-- **walk_exact_codec** — `walk_exact` with the real codec: for every cursor type `t`, every
    connection whose edge cursors are values of `t`, every page size `n ≥ 1`, in either mode, the
    client that follows the *serialized* `endCursor` / `startCursor` strings visits every edge
    exactly once, in cursor order, in at most `|E| + 1` requests. No hypothesis about
    `SerializeCursor` / `DeserializeCursor` remains. -/
theorem walk_exact_codec (t : Ty) (ht : t.Ok) {lt : Val → Val → Bool} (h : StrictTotal lt)
    {sort : List Val → List Val} (hs : LawfulSort lt sort) {E S : List Val} (hperm : S.Perm E)
    (hsorted : Sorted lt S) {app : App Val} {mode : Mode} (hserve : Serves lt E app mode)
    (hE : ∀ c ∈ E, c.WellTyped t) (n : Nat) (hn : 1 ≤ n) :
    (∃ pages, walkForward lt sort (cursorDec t) (cursorEnc t) app mode n (E.length + 1) none = some pages ∧
      pages.flatten = S ∧ ∀ p, p ∈ pages → p.length ≤ n) ∧
    (∃ pages, walkBackward lt sort (cursorDec t) (cursorEnc t) app mode n (E.length + 1) none = some pages ∧
      pages.flatten = S ∧ ∀ p, p ∈ pages → p.length ≤ n) ∧
    S.Nodup :=
  walk_exact_on h hs hperm hsorted hserve hE (cursor_codec_lawful t ht) n hn

/-- **edges_eq_relay_raw** — the connection field on a RAW request, cursor arguments as arbitrary
    text, decoded by the concrete codec: either an error — exactly when the counts are wrong or a
    non-empty cursor text is not accepted by `DeserializeCursor` — or the page the Relay algorithm
    selects between the decoded positions. There is no third outcome and no hypothesis on the
    request. -/
theorem edges_eq_relay_raw (t : Ty) {lt : Val → Val → Bool} (h : StrictTotal lt)
    {sort : List Val → List Val} (hs : LawfulSort lt sort) {E S : List Val} (hperm : S.Perm E)
    (hsorted : Sorted lt S) {app : App Val} {mode : Mode} (hserve : Serves lt E app mode)
    (a : Args) (sel : Sel) :
    (∃ e, resolve lt sort (cursorDec t) app mode a sel = .error e ∧
      (checkArgs a ≠ none ∨ decodeArg (cursorDec t) a.after = none ∨ decodeArg (cursorDec t) a.before = none)) ∨
    (∃ av bv c, checkArgs a = none ∧ decodeArg (cursorDec t) a.after = some av ∧
      decodeArg (cursorDec t) a.before = some bv ∧
      resolve lt sort (cursorDec t) app mode a sel = .ok c ∧
      some c.edges = Relay.edgesToReturn lt S bv av a.first a.last ∧ Sorted lt c.edges) := by
  cases hc : checkArgs a with
  | some e => exact Or.inl ⟨e, by simp [resolve, hc], Or.inl (by simp)⟩
  | none =>
    cases hda : decodeArg (cursorDec t) a.after with
    | none => exact Or.inl ⟨.invalidAfter, by simp [resolve, hc, hda], Or.inr (Or.inl rfl)⟩
    | some av =>
      cases hdb : decodeArg (cursorDec t) a.before with
      | none => exact Or.inl ⟨.invalidBefore, by simp [resolve, hc, hda, hdb], Or.inr (Or.inr rfl)⟩
      | some bv =>
        obtain ⟨c, h1, h2, h3⟩ := edges_eq_relay h hs hperm hsorted hserve (dec := cursorDec t)
          (a := a) (av := av) (bv := bv) ⟨hc, hda, hdb⟩ sel
        exact Or.inr ⟨av, bv, c, rfl, rfl, rfl, h1, h2, h3⟩

/-! ### Non-vacuity -/

section examples

/-- `struct { K int; P string }` — the cursor type of the harness's connections. -/
def curTy : Ty := .struct [([75], .int .w64), ([80], .str)]

/-- The harness's cursor type is one the encoder writes faithfully (distinct field names). -/
theorem curTy_ok : curTy.Ok := by
  refine ⟨by decide, by decide, ?_⟩
  intro f hf
  simp only [List.mem_cons, List.mem_nil_iff, or_false] at hf
  rcases hf with rfl | rfl <;> decide

set_option maxRecDepth 8000 in
/-- The concrete bytes of one cursor: `{K: 300, P: "p"}` → fixmap 2, "K", int64 300, "P", "p". -/
example : mpEncode curTy (.struct [.int 300, .str [112]]) =
    [0x82, 0xa1, 75, 0xd3, 0, 0, 0, 0, 0, 0, 1, 44, 0xa1, 80, 0xa1, 112] := by decide

set_option maxRecDepth 8000 in
/-- The decoder accepts more than the encoder writes: compact integers and another key order; nil;
    and it rejects a string where the integer field is expected, and a map shorter than announced. -/
example :
    mpDecode curTy [0x82, 0xa1, 80, 0xa1, 112, 0xa1, 75, 0xcd, 1, 44] = some (.struct [.int 300, .str [112]]) ∧
    mpDecode curTy [0xc0] = some (.struct [.int 0, .str []]) ∧
    mpDecode curTy [0x81, 0xa1, 75, 0xa1, 112] = none ∧
    mpDecode curTy [0x82, 0xa1, 75, 1] = none := by
  refine ⟨?_, ?_, ?_, ?_⟩ <;> decide

set_option maxRecDepth 8000 in
/-- `cursor_reemit` is not vacuous: a client-made, non-canonical cursor (compact integer, keys in
    the other order, a line break in the text) is accepted, and what the server re-emits for that
    position is a different text that decodes to the same position. -/
example :
    cursorDec curTy "gqFQoXChS80B\nLA" = some (.struct [.int 300, .str [112]]) ∧
    cursorEnc curTy (.struct [.int 300, .str [112]]) = "gqFL0wAAAAAAAAEsoVChcA" ∧
    cursorDec curTy "gqFL0wAAAAAAAAEsoVChcA" = some (.struct [.int 300, .str [112]]) := by
  refine ⟨by decide, by decide, by decide⟩

end examples

end ApiFu.C09
