/-
  C09 — walking the pages the way a client does: request a page, read `hasNextPage` and
  `endCursor`, send `endCursor` back as `after` (or `hasPreviousPage` / `startCursor` / `before`).
-/
import ApiFu.C09.Resolve

namespace ApiFu.C09

variable {α : Type}

/-- The cursor codec is lawful: what the server emits is accepted back as the same cursor, and is
    never the empty string (which the connection field treats as "absent"). `SerializeCursor` /
    `DeserializeCursor` (msgpack + base64url) are not modelled; this is the hypothesis about them,
    checked on every run by the harness's round-trip oracle. -/
structure LawfulCodec (dec : String → Option α) (enc : α → String) : Prop where
  dec_enc : ∀ c, dec (enc c) = some c
  enc_ne : ∀ c, enc c ≠ ""

theorem decodeArg_enc {dec : String → Option α} {enc : α → String} (hc : LawfulCodec dec enc) (c : α) :
    decodeArg dec (some (enc c)) = some (some c) := by
  simp [decodeArg, hc.enc_ne c, hc.dec_enc c]

/-- What a client reads off one page of a forward walk: the edges, `hasNextPage`, `endCursor`. -/
def fwdStep (lt : α → α → Bool) (sort : List α → List α) (dec : String → Option α) (app : App α)
    (mode : Mode) (n : Nat) (cur : Option String) : Option (List α × Bool × Option α) :=
  match resolve lt sort dec app mode { first := some (n : Int), last := none, after := cur, before := none }
      { pageInfo := true, totalCount := false } with
  | .ok c =>
    match c.pageInfo with
    | some pi => some (c.edges, pi.hasNextPage, pi.endCursor)
    | none => none
  | _ => none

/-- Forward walk with page size `n`: pages in the order visited. `none` = an error response, a page
    that says `hasNextPage` without an `endCursor`, or fuel exhausted. -/
def walkForward (lt : α → α → Bool) (sort : List α → List α) (dec : String → Option α) (enc : α → String)
    (app : App α) (mode : Mode) (n : Nat) : Nat → Option String → Option (List (List α))
  | 0, _ => none
  | fuel + 1, cur =>
    match fwdStep lt sort dec app mode n cur with
    | none => none
    | some (edges, hasNext, endC) =>
      if hasNext then
        match endC with
        | none => none
        | some c => (walkForward lt sort dec enc app mode n fuel (some (enc c))).map (fun ps => edges :: ps)
      else some [edges]

/-- One page of a backward walk: the edges, `hasPreviousPage`, `startCursor`. -/
def bwdStep (lt : α → α → Bool) (sort : List α → List α) (dec : String → Option α) (app : App α)
    (mode : Mode) (n : Nat) (cur : Option String) : Option (List α × Bool × Option α) :=
  match resolve lt sort dec app mode { first := none, last := some (n : Int), after := none, before := cur }
      { pageInfo := true, totalCount := false } with
  | .ok c =>
    match c.pageInfo with
    | some pi => some (c.edges, pi.hasPreviousPage, pi.startCursor)
    | none => none
  | _ => none

/-- Backward walk; the pages are listed in connection order (the page visited last comes first). -/
def walkBackward (lt : α → α → Bool) (sort : List α → List α) (dec : String → Option α) (enc : α → String)
    (app : App α) (mode : Mode) (n : Nat) : Nat → Option String → Option (List (List α))
  | 0, _ => none
  | fuel + 1, cur =>
    match bwdStep lt sort dec app mode n cur with
    | none => none
    | some (edges, hasPrev, startC) =>
      if hasPrev then
        match startC with
        | none => none
        | some c => (walkBackward lt sort dec enc app mode n fuel (some (enc c))).map (fun ps => ps ++ [edges])
      else some [edges]

theorem resolve_accepted (lt : α → α → Bool) (sort : List α → List α) (dec : String → Option α)
    (app : App α) (mode : Mode) (a : Args) (sel : Sel) (av bv : Option α)
    (h1 : checkArgs a = none) (h2 : decodeArg dec a.after = some av) (h3 : decodeArg dec a.before = some bv) :
    resolve lt sort dec app mode a sel = resolveDecoded lt sort app mode a sel av bv := by
  simp only [resolve, h1, h2, h3]

section
variable [DecidableEq α]

theorem fwdStep_spec {lt : α → α → Bool} (h : StrictTotal lt) {sort : List α → List α}
    (hs : LawfulSort lt sort) {E S : List α} (hperm : S.Perm E) (hsorted : Sorted lt S)
    {app : App α} {mode : Mode} (hserve : Serves lt E app mode) (dec : String → Option α)
    (n : Nat) (cur : Option String) (av : Option α) (hcur : decodeArg dec cur = some av) :
    fwdStep lt sort dec app mode n cur =
      some ((S.filter (inRange lt av none)).take n,
            decide (n < (S.filter (inRange lt av none)).length),
            ((S.filter (inRange lt av none)).take n).getLast?) := by
  have hc : checkArgs { first := some (n : Int), last := none, after := cur, before := none } = none := by
    have : ¬ ((n : Int) < 0) := by omega
    simp [checkArgs, this]
  obtain ⟨c, hres, hedges, _, hpi, _⟩ := conn_closed_form h hs hperm hsorted hserve
    { first := some (n : Int), last := none, after := cur, before := none }
    { pageInfo := true, totalCount := false } av none hc
  obtain ⟨pi, hpi1, _, hend, hnext, _, _, _⟩ := hpi rfl
  unfold fwdStep
  rw [resolve_accepted lt sort dec app mode _ _ av none hc hcur (by simp [decodeArg]), hres]
  simp only [hpi1]
  have hedges' : c.edges = (S.filter (inRange lt av none)).take n := by
    rw [hedges]; simp [firstTrunc, lastTrunc]
  rw [hnext (n : Int) rfl, hend, hedges']
  have hd : decide ((((S.filter (inRange lt av none)).length : Nat) : Int) > (n : Int)) =
      decide (n < (S.filter (inRange lt av none)).length) := decide_eq_decide.mpr (by omega)
  rw [hd]

theorem bwdStep_spec {lt : α → α → Bool} (h : StrictTotal lt) {sort : List α → List α}
    (hs : LawfulSort lt sort) {E S : List α} (hperm : S.Perm E) (hsorted : Sorted lt S)
    {app : App α} {mode : Mode} (hserve : Serves lt E app mode) (dec : String → Option α)
    (n : Nat) (cur : Option String) (bv : Option α) (hcur : decodeArg dec cur = some bv) :
    bwdStep lt sort dec app mode n cur =
      some ((S.filter (inRange lt none bv)).drop ((S.filter (inRange lt none bv)).length - n),
            decide (n < (S.filter (inRange lt none bv)).length),
            ((S.filter (inRange lt none bv)).drop ((S.filter (inRange lt none bv)).length - n)).head?) := by
  have hc : checkArgs { first := none, last := some (n : Int), after := none, before := cur } = none := by
    have : ¬ ((n : Int) < 0) := by omega
    simp [checkArgs, this]
  obtain ⟨c, hres, hedges, _, hpi, _⟩ := conn_closed_form h hs hperm hsorted hserve
    { first := none, last := some (n : Int), after := none, before := cur }
    { pageInfo := true, totalCount := false } none bv hc
  obtain ⟨pi, hpi1, hstart, _, _, hprev, _, _⟩ := hpi rfl
  unfold bwdStep
  rw [resolve_accepted lt sort dec app mode _ _ none bv hc (by simp [decodeArg]) hcur, hres]
  simp only [hpi1]
  have hedges' : c.edges = (S.filter (inRange lt none bv)).drop ((S.filter (inRange lt none bv)).length - n) := by
    rw [hedges]; simp [firstTrunc, lastTrunc]
  rw [hprev (n : Int) rfl, hstart, hedges']
  have hd : decide ((((S.filter (inRange lt none bv)).length : Nat) : Int) > (n : Int)) =
      decide (n < (S.filter (inRange lt none bv)).length) := decide_eq_decide.mpr (by omega)
  rw [hd]

omit [DecidableEq α] in
theorem inRange_after_trans {lt : α → α → Bool} (h : StrictTotal lt) (av : Option α) (c x : α)
    (hcr : inRange lt av none c = true) :
    inRange lt (some c) none x = (lt c x && inRange lt av none x) := by
  cases av with
  | none => simp [inRange, pastBefore, notPastAfter]
  | some a =>
    have hac : lt a c = true := by simpa [inRange, pastBefore, notPastAfter] using hcr
    cases hx : lt c x with
    | false => simp [inRange, pastBefore, notPastAfter, hx]
    | true => simp [inRange, pastBefore, notPastAfter, hx, h.trans hac hx]

omit [DecidableEq α] in
theorem inRange_before_trans {lt : α → α → Bool} (h : StrictTotal lt) (bv : Option α) (c x : α)
    (hcr : inRange lt none bv c = true) :
    inRange lt none (some c) x = (lt x c && inRange lt none bv x) := by
  cases bv with
  | none => simp [inRange, pastBefore, notPastAfter]
  | some b =>
    have hcb : lt c b = true := by simpa [inRange, pastBefore, notPastAfter] using hcr
    cases hx : lt x c with
    | false => simp [inRange, pastBefore, notPastAfter, hx]
    | true => simp [inRange, pastBefore, notPastAfter, hx, h.trans hx hcb]

omit [DecidableEq α] in
/-- The range after the last edge of a page is the rest of the range. -/
theorem range_after_page {lt : α → α → Bool} (h : StrictTotal lt) {S : List α} (hsorted : Sorted lt S)
    (av : Option α) (n : Nat) (hn : 1 ≤ n) (hlen : n < (S.filter (inRange lt av none)).length) :
    ∃ c, ((S.filter (inRange lt av none)).take n).getLast? = some c ∧
      S.filter (inRange lt (some c) none) = (S.filter (inRange lt av none)).drop n := by
  have hR : Sorted lt (S.filter (inRange lt av none)) := List.Pairwise.filter _ hsorted
  have hi : n - 1 < (S.filter (inRange lt av none)).length := by omega
  refine ⟨(S.filter (inRange lt av none))[n - 1], ?_, ?_⟩
  · rw [List.getLast?_take]
    have : ¬ n = 0 := by omega
    simp [this, List.getElem?_eq_getElem hi]
  · have hd := filter_gt_getElem h hR (n - 1) hi
    have hn1 : n - 1 + 1 = n := by omega
    rw [hn1] at hd
    rw [← hd, List.filter_filter]
    apply List.filter_congr
    intro x _
    exact inRange_after_trans h av _ x (List.mem_filter.mp (List.getElem_mem hi)).2

omit [DecidableEq α] in
/-- The range before the first edge of a (backward) page is the rest of the range. -/
theorem range_before_page {lt : α → α → Bool} (h : StrictTotal lt) {S : List α} (hsorted : Sorted lt S)
    (bv : Option α) (n : Nat) (hn : 1 ≤ n) (hlen : n < (S.filter (inRange lt none bv)).length) :
    ∃ c, ((S.filter (inRange lt none bv)).drop ((S.filter (inRange lt none bv)).length - n)).head? = some c ∧
      S.filter (inRange lt none (some c)) =
        (S.filter (inRange lt none bv)).take ((S.filter (inRange lt none bv)).length - n) := by
  have hR : Sorted lt (S.filter (inRange lt none bv)) := List.Pairwise.filter _ hsorted
  have hi : (S.filter (inRange lt none bv)).length - n < (S.filter (inRange lt none bv)).length := by omega
  refine ⟨(S.filter (inRange lt none bv))[(S.filter (inRange lt none bv)).length - n], ?_, ?_⟩
  · rw [List.head?_drop, List.getElem?_eq_getElem hi]
  · have hd := filter_lt_getElem h hR _ hi
    rw [← hd, List.filter_filter]
    apply List.filter_congr
    intro x _
    exact inRange_before_trans h bv _ x (List.mem_filter.mp (List.getElem_mem hi)).2

theorem walkForward_spec {lt : α → α → Bool} (h : StrictTotal lt) {sort : List α → List α}
    (hs : LawfulSort lt sort) {E S : List α} (hperm : S.Perm E) (hsorted : Sorted lt S)
    {app : App α} {mode : Mode} (hserve : Serves lt E app mode)
    {dec : String → Option α} {enc : α → String} (hcodec : LawfulCodec dec enc) (n : Nat) (hn : 1 ≤ n) :
    ∀ (fuel : Nat) (cur : Option String) (av : Option α), decodeArg dec cur = some av →
      (S.filter (inRange lt av none)).length < fuel →
      ∃ pages, walkForward lt sort dec enc app mode n fuel cur = some pages ∧
        pages.flatten = S.filter (inRange lt av none) ∧ ∀ p, p ∈ pages → p.length ≤ n
  | 0, _, _, _, hfuel => by omega
  | fuel + 1, cur, av, hcur, hfuel => by
    unfold walkForward
    rw [fwdStep_spec h hs hperm hsorted hserve dec n cur av hcur]
    simp only
    by_cases hlen : n < (S.filter (inRange lt av none)).length
    · simp only [hlen, decide_true, if_true]
      obtain ⟨c, hc1, hc2⟩ := range_after_page h hsorted av n hn hlen
      rw [hc1]
      simp only
      have hfuel' : (S.filter (inRange lt (some c) none)).length < fuel := by
        rw [hc2, List.length_drop]; omega
      obtain ⟨pages, hp1, hp2, hp3⟩ := walkForward_spec h hs hperm hsorted hserve hcodec n hn fuel
        (some (enc c)) (some c) (decodeArg_enc hcodec c) hfuel'
      refine ⟨(S.filter (inRange lt av none)).take n :: pages, by rw [hp1]; rfl, ?_, ?_⟩
      · rw [List.flatten_cons, hp2, hc2, List.take_append_drop]
      · intro p hp
        rcases List.mem_cons.mp hp with rfl | hp
        · rw [List.length_take]; omega
        · exact hp3 p hp
    · simp only [hlen, decide_false, Bool.false_eq_true, if_false]
      refine ⟨[(S.filter (inRange lt av none)).take n], rfl, ?_, ?_⟩
      · simp only [List.flatten_cons, List.flatten_nil, List.append_nil]
        exact List.take_of_length_le (by omega)
      · intro p hp
        rw [List.mem_singleton.mp hp, List.length_take]; omega

theorem walkBackward_spec {lt : α → α → Bool} (h : StrictTotal lt) {sort : List α → List α}
    (hs : LawfulSort lt sort) {E S : List α} (hperm : S.Perm E) (hsorted : Sorted lt S)
    {app : App α} {mode : Mode} (hserve : Serves lt E app mode)
    {dec : String → Option α} {enc : α → String} (hcodec : LawfulCodec dec enc) (n : Nat) (hn : 1 ≤ n) :
    ∀ (fuel : Nat) (cur : Option String) (bv : Option α), decodeArg dec cur = some bv →
      (S.filter (inRange lt none bv)).length < fuel →
      ∃ pages, walkBackward lt sort dec enc app mode n fuel cur = some pages ∧
        pages.flatten = S.filter (inRange lt none bv) ∧ ∀ p, p ∈ pages → p.length ≤ n
  | 0, _, _, _, hfuel => by omega
  | fuel + 1, cur, bv, hcur, hfuel => by
    unfold walkBackward
    rw [bwdStep_spec h hs hperm hsorted hserve dec n cur bv hcur]
    simp only
    by_cases hlen : n < (S.filter (inRange lt none bv)).length
    · simp only [hlen, decide_true, if_true]
      obtain ⟨c, hc1, hc2⟩ := range_before_page h hsorted bv n hn hlen
      rw [hc1]
      simp only
      have hfuel' : (S.filter (inRange lt none (some c))).length < fuel := by
        rw [hc2, List.length_take]; omega
      obtain ⟨pages, hp1, hp2, hp3⟩ := walkBackward_spec h hs hperm hsorted hserve hcodec n hn fuel
        (some (enc c)) (some c) (decodeArg_enc hcodec c) hfuel'
      refine ⟨pages ++ [(S.filter (inRange lt none bv)).drop ((S.filter (inRange lt none bv)).length - n)],
        by rw [hp1]; rfl, ?_, ?_⟩
      · rw [List.flatten_append, hp2, hc2]
        simp only [List.flatten_cons, List.flatten_nil, List.append_nil]
        exact List.take_append_drop _ _
      · intro p hp
        rcases List.mem_append.mp hp with hp | hp
        · exact hp3 p hp
        · rw [List.mem_singleton.mp hp, List.length_drop]; omega
    · simp only [hlen, decide_false, Bool.false_eq_true, if_false]
      refine ⟨[(S.filter (inRange lt none bv)).drop ((S.filter (inRange lt none bv)).length - n)], rfl, ?_, ?_⟩
      · simp only [List.flatten_cons, List.flatten_nil, List.append_nil]
        have : (S.filter (inRange lt none bv)).length - n = 0 := by omega
        rw [this, List.drop_zero]
      · intro p hp
        rw [List.mem_singleton.mp hp, List.length_drop]; omega

end

end ApiFu.C09
