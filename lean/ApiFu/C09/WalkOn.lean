/-
  C09 — the walk theorems under a codec that is lawful *on the cursors that occur* (`LawfulCodecOn P`):
  the concrete msgpack + base64url codec round-trips the values of the cursor's Go type (64-bit
  integers, strings shorter than 2^32 bytes), not every mathematical integer; so the hypothesis is
  relativised to a predicate `P` that every edge cursor of the connection satisfies. With `P := True`
  this is `LawfulCodec` of Walk.lean.
-/
import ApiFu.C09.Walk

namespace ApiFu.C09

variable {α : Type}

/-- `dec (enc c) = some c` and `enc c ≠ ""` for every cursor satisfying `P`. -/
structure LawfulCodecOn (P : α → Prop) (dec : String → Option α) (enc : α → String) : Prop where
  dec_enc : ∀ c, P c → dec (enc c) = some c
  enc_ne : ∀ c, P c → enc c ≠ ""

theorem LawfulCodec.on {dec : String → Option α} {enc : α → String} (h : LawfulCodec dec enc) (P : α → Prop) :
    LawfulCodecOn P dec enc := ⟨fun c _ => h.dec_enc c, fun c _ => h.enc_ne c⟩

theorem decodeArg_enc_on {P : α → Prop} {dec : String → Option α} {enc : α → String}
    (hc : LawfulCodecOn P dec enc) (c : α) (hp : P c) :
    decodeArg dec (some (enc c)) = some (some c) := by
  simp [decodeArg, hc.enc_ne c hp, hc.dec_enc c hp]

section
variable [DecidableEq α]

theorem walkForward_spec_on {lt : α → α → Bool} (h : StrictTotal lt) {sort : List α → List α}
    (hs : LawfulSort lt sort) {E S : List α} (hperm : S.Perm E) (hsorted : Sorted lt S)
    {app : App α} {mode : Mode} (hserve : Serves lt E app mode) {P : α → Prop} (hP : ∀ c ∈ S, P c)
    {dec : String → Option α} {enc : α → String} (hcodec : LawfulCodecOn P dec enc) (n : Nat) (hn : 1 ≤ n) :
    ∀ (fuel : Nat) (cur : Option String) (av : Option α), decodeArg dec cur = some av →
      (S.filter (inRange lt av none)).length < fuel →
      ∃ pages, walkForward lt sort dec enc app mode n fuel cur = some pages ∧
        pages.flatten = S.filter (inRange lt av none) ∧ ∀ p, p ∈ pages → p.length ≤ n
  | 0, _, _, _, hfuel => by omega
  | fuel + 1, cur, av, hcur, hfuel => by
    unfold walkForward
    rw [fwdStep_spec h hs hperm hsorted hserve dec n cur av hcur]
    simp only
    by_cases hlen : n < (S.filter (inRange lt av none)).length
    · simp only [hlen, decide_true, if_true]
      obtain ⟨c, hc1, hc2⟩ := range_after_page h hsorted av n hn hlen
      rw [hc1]
      simp only
      have hcS : c ∈ S := (List.mem_filter.mp (List.mem_of_mem_take (List.mem_of_getLast? hc1))).1
      have hfuel' : (S.filter (inRange lt (some c) none)).length < fuel := by
        rw [hc2, List.length_drop]; omega
      obtain ⟨pages, hp1, hp2, hp3⟩ := walkForward_spec_on h hs hperm hsorted hserve hP hcodec n hn fuel
        (some (enc c)) (some c) (decodeArg_enc_on hcodec c (hP c hcS)) hfuel'
      refine ⟨(S.filter (inRange lt av none)).take n :: pages, by rw [hp1]; rfl, ?_, ?_⟩
      · rw [List.flatten_cons, hp2, hc2, List.take_append_drop]
      · intro p hp
        rcases List.mem_cons.mp hp with rfl | hp
        · rw [List.length_take]; omega
        · exact hp3 p hp
    · simp only [hlen, decide_false, Bool.false_eq_true, if_false]
      refine ⟨[(S.filter (inRange lt av none)).take n], rfl, ?_, ?_⟩
      · simp only [List.flatten_cons, List.flatten_nil, List.append_nil]
        exact List.take_of_length_le (by omega)
      · intro p hp
        rw [List.mem_singleton.mp hp, List.length_take]; omega

theorem walkBackward_spec_on {lt : α → α → Bool} (h : StrictTotal lt) {sort : List α → List α}
    (hs : LawfulSort lt sort) {E S : List α} (hperm : S.Perm E) (hsorted : Sorted lt S)
    {app : App α} {mode : Mode} (hserve : Serves lt E app mode) {P : α → Prop} (hP : ∀ c ∈ S, P c)
    {dec : String → Option α} {enc : α → String} (hcodec : LawfulCodecOn P dec enc) (n : Nat) (hn : 1 ≤ n) :
    ∀ (fuel : Nat) (cur : Option String) (bv : Option α), decodeArg dec cur = some bv →
      (S.filter (inRange lt none bv)).length < fuel →
      ∃ pages, walkBackward lt sort dec enc app mode n fuel cur = some pages ∧
        pages.flatten = S.filter (inRange lt none bv) ∧ ∀ p, p ∈ pages → p.length ≤ n
  | 0, _, _, _, hfuel => by omega
  | fuel + 1, cur, bv, hcur, hfuel => by
    unfold walkBackward
    rw [bwdStep_spec h hs hperm hsorted hserve dec n cur bv hcur]
    simp only
    by_cases hlen : n < (S.filter (inRange lt none bv)).length
    · simp only [hlen, decide_true, if_true]
      obtain ⟨c, hc1, hc2⟩ := range_before_page h hsorted bv n hn hlen
      rw [hc1]
      simp only
      have hcS : c ∈ S :=
        (List.mem_filter.mp (List.mem_of_mem_drop (List.mem_of_mem_head? (Option.mem_def.mpr hc1)))).1
      have hfuel' : (S.filter (inRange lt none (some c))).length < fuel := by
        rw [hc2, List.length_take]; omega
      obtain ⟨pages, hp1, hp2, hp3⟩ := walkBackward_spec_on h hs hperm hsorted hserve hP hcodec n hn fuel
        (some (enc c)) (some c) (decodeArg_enc_on hcodec c (hP c hcS)) hfuel'
      refine ⟨pages ++ [(S.filter (inRange lt none bv)).drop ((S.filter (inRange lt none bv)).length - n)],
        by rw [hp1]; rfl, ?_, ?_⟩
      · rw [List.flatten_append, hp2, hc2]
        simp only [List.flatten_cons, List.flatten_nil, List.append_nil]
        exact List.take_append_drop _ _
      · intro p hp
        rcases List.mem_append.mp hp with hp | hp
        · exact hp3 p hp
        · rw [List.mem_singleton.mp hp, List.length_drop]; omega
    · simp only [hlen, decide_false, Bool.false_eq_true, if_false]
      refine ⟨[(S.filter (inRange lt none bv)).drop ((S.filter (inRange lt none bv)).length - n)], rfl, ?_, ?_⟩
      · simp only [List.flatten_cons, List.flatten_nil, List.append_nil]
        have : (S.filter (inRange lt none bv)).length - n = 0 := by omega
        rw [this, List.drop_zero]
      · intro p hp
        rw [List.mem_singleton.mp hp, List.length_drop]; omega

/-- `walk_exact` (Props.lean) with the codec hypothesis relativised to the cursors of the connection. -/
theorem walk_exact_on {lt : α → α → Bool} (h : StrictTotal lt) {sort : List α → List α}
    (hs : LawfulSort lt sort) {E S : List α} (hperm : S.Perm E) (hsorted : Sorted lt S)
    {app : App α} {mode : Mode} (hserve : Serves lt E app mode) {P : α → Prop} (hP : ∀ c ∈ E, P c)
    {dec : String → Option α} {enc : α → String} (hcodec : LawfulCodecOn P dec enc) (n : Nat) (hn : 1 ≤ n) :
    (∃ pages, walkForward lt sort dec enc app mode n (E.length + 1) none = some pages ∧
      pages.flatten = S ∧ ∀ p, p ∈ pages → p.length ≤ n) ∧
    (∃ pages, walkBackward lt sort dec enc app mode n (E.length + 1) none = some pages ∧
      pages.flatten = S ∧ ∀ p, p ∈ pages → p.length ≤ n) ∧
    S.Nodup := by
  have hPS : ∀ c ∈ S, P c := fun c hc => hP c (hperm.mem_iff.mp hc)
  have hall : S.filter (inRange lt none none) = S :=
    List.filter_eq_self.mpr (fun a _ => by simp [inRange, pastBefore, notPastAfter])
  have hlen : (S.filter (inRange lt none none)).length < E.length + 1 := by
    rw [hall, hperm.length_eq]; omega
  refine ⟨?_, ?_, Sorted.nodup h hsorted⟩
  · obtain ⟨pages, h1, h2, h3⟩ := walkForward_spec_on h hs hperm hsorted hserve hPS hcodec n hn (E.length + 1)
      none none (by simp [decodeArg]) hlen
    exact ⟨pages, h1, by rw [h2, hall], h3⟩
  · obtain ⟨pages, h1, h2, h3⟩ := walkBackward_spec_on h hs hperm hsorted hserve hPS hcodec n hn (E.length + 1)
      none none (by simp [decodeArg]) hlen
    exact ⟨pages, h1, by rw [h2, hall], h3⟩

end

end ApiFu.C09
