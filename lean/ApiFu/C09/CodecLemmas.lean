/-
  C09 / C16 — lemmas about the cursor codec model (`Codec.lean`): base64 and msgpack round trips.
  Core Lean only.
-/
import ApiFu.C09.Codec

namespace ApiFu.C09.Codec

/-! ## base64 -/

set_option maxRecDepth 4000 in
theorem decChar_encChar : ∀ i : Fin 64, decChar (encChar i.val) = some i.val := by decide

set_option maxRecDepth 4000 in
theorem notNewline_encChar_fin : ∀ i : Fin 64, notNewline (encChar i.val) = true := by decide

theorem decChars_map_encChar (is : List Nat) (h : ∀ i ∈ is, i < 64) :
    decChars (is.map encChar) = some is := by
  induction is with
  | nil => rfl
  | cons i is ih =>
    have hi : i < 64 := h i (List.mem_cons_self ..)
    have := decChar_encChar ⟨i, hi⟩
    simp only [List.map_cons, decChars, this, ih (fun j hj => h j (List.mem_cons_of_mem _ hj))]

theorem filter_notNewline_map_encChar (is : List Nat) (h : ∀ i ∈ is, i < 64) :
    (is.map encChar).filter notNewline = is.map encChar := by
  apply List.filter_eq_self.mpr
  intro c hc
  obtain ⟨i, hi, rfl⟩ := List.mem_map.mp hc
  exact notNewline_encChar_fin ⟨i, h i hi⟩

theorem encGroups_lt : ∀ (bs : Bytes), ∀ i ∈ encGroups bs, i < 64
  | [] => by simp [encGroups]
  | [a] => by
    intro i hi
    simp only [encGroups, List.mem_cons, List.mem_nil_iff, or_false] at hi
    omega
  | [a, b] => by
    intro i hi
    simp only [encGroups, List.mem_cons, List.mem_nil_iff, or_false] at hi
    omega
  | a :: b :: c :: rest => by
    intro i hi
    simp only [encGroups, List.mem_cons] at hi
    rcases hi with h | h | h | h | h
    · omega
    · omega
    · omega
    · omega
    · exact encGroups_lt rest i h

theorem ofNat_eq_of_toNat {x : Nat} {a : UInt8} (h : x = a.toNat) : UInt8.ofNat x = a := by
  rw [h]; exact UInt8.ofNat_toNat

theorem decGroups_encGroups : ∀ (bs : Bytes), decGroups (encGroups bs) = some bs
  | [] => rfl
  | [a] => by
    have ha := a.toNat_lt
    simp only [encGroups, decGroups]
    congr 2
    apply ofNat_eq_of_toNat; omega
  | [a, b] => by
    have ha := a.toNat_lt
    have hb := b.toNat_lt
    simp only [encGroups, decGroups]
    congr 2
    · apply ofNat_eq_of_toNat; omega
    · congr 1; apply ofNat_eq_of_toNat; omega
  | a :: b :: c :: rest => by
    have ha := a.toNat_lt
    have hb := b.toNat_lt
    have hc := c.toNat_lt
    simp only [encGroups, decGroups, decGroups_encGroups rest]
    congr 2
    · apply ofNat_eq_of_toNat; omega
    · congr 1
      · apply ofNat_eq_of_toNat; omega
      · congr 1; apply ofNat_eq_of_toNat; omega

/-- base64 round trip. -/
theorem b64dec_b64enc (bs : Bytes) : b64dec (b64enc bs) = some bs := by
  unfold b64dec b64enc
  rw [String.toList_ofList, filter_notNewline_map_encChar _ (encGroups_lt bs),
    decChars_map_encChar _ (encGroups_lt bs)]
  exact decGroups_encGroups bs

theorem b64enc_ne_empty {bs : Bytes} (h : bs ≠ []) : b64enc bs ≠ "" := by
  intro he
  have := congrArg String.toList he
  rw [b64enc, String.toList_ofList] at this
  match bs, h with
  | [_], _ => simp [encGroups] at this
  | [_, _], _ => simp [encGroups] at this
  | _ :: _ :: _ :: _, _ => simp [encGroups] at this

/-! ## msgpack -/

theorem foldl_beBytes (k v acc : Nat) :
    (beBytes k v).foldl (fun acc b => acc * 256 + b.toNat) acc = acc * 256 ^ k + v % 256 ^ k := by
  induction k generalizing acc with
  | zero => simp [beBytes, Nat.mod_one]
  | succ k ih =>
    have hd : (UInt8.ofNat (v / 256 ^ k % 256)).toNat = v / 256 ^ k % 256 := by
      rw [UInt8.toNat_ofNat']; omega
    simp only [beBytes, List.foldl_cons, ih, hd]
    rw [Nat.mod_pow_succ, Nat.pow_succ]
    grind

theorem beNat_beBytes (k v : Nat) : beNat (beBytes k v) = v % 256 ^ k := by
  simp [beNat, foldl_beBytes]

theorem length_beBytes (k v : Nat) : (beBytes k v).length = k := by
  induction k with
  | zero => rfl
  | succ k ih => simp [beBytes, ih]

theorem readN_append {n : Nat} (x rest : Bytes) (h : x.length = n) : readN n (x ++ rest) = some (x, rest) := by
  subst h
  simp [readN]

theorem readN_beBytes (k v : Nat) (rest : Bytes) : readN k (beBytes k v ++ rest) = some (beBytes k v, rest) :=
  readN_append _ _ (length_beBytes k v)

theorem decScalar_enc_int (w : W) (n : Int) (rest : Bytes) (h : SVal.HasType (.int n) (.int w)) :
    decScalar (.int w) (encScalar (.int w) (.int n) ++ rest) = some (.int n, rest) := by
  cases w <;>
  · simp only [SVal.HasType, W.bits, W.bytes] at h
    simp only [decScalar, encScalar, decInt64, rawInt, W.idx, W.bytes, W.bits, List.cons_append, UInt8.toNat_ofNat',
      readN_beBytes, beNat_beBytes, Option.map_some, pattern, toSigned, signExtend]
    simp
    (repeat' split) <;> omega

theorem decScalar_enc_uint (w : W) (n : Int) (rest : Bytes) (h : SVal.HasType (.int n) (.uint w)) :
    decScalar (.uint w) (encScalar (.uint w) (.int n) ++ rest) = some (.int n, rest) := by
  cases w <;>
  · simp only [SVal.HasType, W.bits, W.bytes] at h
    simp only [decScalar, encScalar, decInt64, rawInt, W.idx, W.bytes, W.bits, List.cons_append, UInt8.toNat_ofNat',
      readN_beBytes, beNat_beBytes, Option.map_some, pattern]
    simp
    omega

theorem decStr_encStr (b rest : Bytes) (h : b.length < 2 ^ 32) : decStr (encStr b ++ rest) = some (b, rest) := by
  unfold encStr strHeader
  split
  · have h1 : (0xa0 + b.length) % 2 ^ 8 = 160 + b.length := by omega
    simp only [List.cons_append, List.nil_append, decStr, bytesLen, UInt8.toNat_ofNat', h1]
    have h2 : ¬ (160 + b.length = 192) := by omega
    have h3 : 160 ≤ 160 + b.length ∧ 160 + b.length ≤ 191 := by omega
    have h4 : (160 + b.length) % 32 = b.length := by omega
    simp only [h2, h3, h4, if_false, if_true, and_self, readN_append b rest rfl]
  · split
    · have h1 : b.length % 256 ^ 1 = b.length := by omega
      simp [decStr, bytesLen, readN_beBytes, beNat_beBytes, h1, readN_append b rest rfl]
    · split
      · have h1 : b.length % 256 ^ 2 = b.length := by omega
        simp [decStr, bytesLen, readN_beBytes, beNat_beBytes, h1, readN_append b rest rfl]
      · have h1 : b.length % 256 ^ 4 = b.length := by omega
        simp [decStr, bytesLen, readN_beBytes, beNat_beBytes, h1, readN_append b rest rfl]


/-- Size side conditions of the wire format: a string longer than 2^32 − 1 bytes has its length
    truncated by `uint32(l)` in `encodeStrLen`. -/
def SVal.Small : SVal → Prop
  | .int _ => True
  | .str b => b.length < 2 ^ 32

theorem decScalar_encScalar (t : STy) (v : SVal) (rest : Bytes) (h : v.HasType t) (hs : v.Small) :
    decScalar t (encScalar t v ++ rest) = some (v, rest) := by
  cases t with
  | int w =>
    cases v with
    | int n => exact decScalar_enc_int w n rest h
    | str b => exact absurd h (by simp [SVal.HasType])
  | uint w =>
    cases v with
    | int n => exact decScalar_enc_uint w n rest h
    | str b => exact absurd h (by simp [SVal.HasType])
  | str =>
    cases v with
    | int n => exact absurd h (by simp [SVal.HasType])
    | str b => simp [decScalar, encScalar, decStr_encStr b rest hs]

theorem lookup_append (pre : List (Bytes × STy)) (name : Bytes) (t : STy) (suf : List (Bytes × STy))
    (h : name ∉ pre.map (·.1)) : lookup name (pre ++ (name, t) :: suf) = some (pre.length, t) := by
  induction pre with
  | nil => simp [lookup]
  | cons f pre ih =>
    obtain ⟨nm, t'⟩ := f
    have h1 : nm ≠ name := fun e => h (by simp [e])
    have h2 : name ∉ pre.map (·.1) := fun e => h (by simp [e])
    simp [lookup, h1, ih h2]

/-- A struct type the encoder writes faithfully: distinct field names (always so for a Go struct
    without tags), fewer than 2^32 fields, names shorter than 2^32 bytes. -/
structure SchemaOk (fs : List (Bytes × STy)) : Prop where
  nodup : (fs.map (·.1)).Nodup
  count : fs.length < 2 ^ 32
  names : ∀ f ∈ fs, f.1.length < 2 ^ 32

/-- Field values of the field types. -/
def FieldsTyped : List SVal → List (Bytes × STy) → Prop
  | [], [] => True
  | v :: vs, f :: fs => v.HasType f.2 ∧ v.Small ∧ FieldsTyped vs fs
  | _, _ => False

theorem mapLoop_encFields (fields : List (Bytes × STy)) (hnd : (fields.map (·.1)).Nodup)
    (hnm : ∀ f ∈ fields, f.1.length < 2 ^ 32) (rest : Bytes) :
    ∀ (suf pre : List (Bytes × STy)) (vpre vsuf junk : List SVal), fields = pre ++ suf →
      FieldsTyped vsuf suf → junk.length = suf.length → vpre.length = pre.length →
      mapLoop fields suf.length (vpre ++ junk) (encFields suf vsuf ++ rest) = some (vpre ++ vsuf, rest)
  | [], pre, vpre, vsuf, junk, _, ht, hj, _ => by
    cases vsuf with
    | nil =>
      cases junk with
      | nil => simp [mapLoop, encFields]
      | cons _ _ => simp at hj
    | cons _ _ => simp [FieldsTyped] at ht
  | (name, t) :: suf, pre, vpre, vsuf, junk, hf, ht, hj, hp => by
    cases vsuf with
    | nil => simp [FieldsTyped] at ht
    | cons v vsuf =>
      cases junk with
      | nil => simp at hj
      | cons j junk =>
        obtain ⟨ht1, ht2, ht3⟩ := ht
        have hname : name.length < 2 ^ 32 := hnm (name, t) (by rw [hf]; simp)
        have hnotin : name ∉ pre.map (·.1) := by
          rw [hf, List.map_append, List.nodup_append] at hnd
          intro hmem
          exact hnd.2.2 name hmem name (by simp) rfl
        have hset : (vpre ++ j :: junk).set pre.length v = (vpre ++ [v]) ++ junk := by
          rw [← hp]; simp
        have ih := mapLoop_encFields fields hnd hnm rest suf (pre ++ [(name, t)]) (vpre ++ [v]) vsuf junk
          (by rw [hf]; simp) ht3 (by simpa using hj) (by simp [hp])
        simp only [List.length_cons, mapLoop, encFields, List.append_assoc,
          decStr_encStr name _ hname, hf, lookup_append pre name t suf hnotin,
          decScalar_encScalar t v _ ht1 ht2]
        rw [hset, ← hf, ih]
        simp


theorem decStruct_encStruct (fs : List (Bytes × STy)) (hok : SchemaOk fs) (vs : List SVal)
    (ht : FieldsTyped vs fs) (rest : Bytes) :
    decStruct fs (mapHeader fs.length ++ encFields fs vs ++ rest) = some (vs, rest) := by
  have hloop := mapLoop_encFields fs hok.nodup hok.names rest fs [] [] vs (fs.map (fun f => f.2.zero))
    rfl ht (by simp) rfl
  simp only [List.nil_append] at hloop
  have hc := hok.count
  unfold mapHeader
  split
  · have h1 : (0x80 + fs.length) % 2 ^ 8 = 128 + fs.length := by omega
    have h2 : ¬ (128 + fs.length = 192) := by omega
    have h3 : 128 ≤ 128 + fs.length ∧ 128 + fs.length ≤ 143 := by omega
    have h4 : (128 + fs.length) % 16 = fs.length := by omega
    simp only [List.cons_append, List.nil_append, decStruct, UInt8.toNat_ofNat', h1, h2, h3, h4, if_false,
      if_true, and_self, hloop]
  · split
    · have h1 : fs.length % 256 ^ 2 = fs.length := by omega
      simp [decStruct, List.append_assoc, readN_beBytes, beNat_beBytes, h1, hloop]
    · have h1 : fs.length % 256 ^ 4 = fs.length := by omega
      simp [decStruct, List.append_assoc, readN_beBytes, beNat_beBytes, h1, hloop]

/-- The type is one the encoder writes faithfully. -/
def Ty.Ok : Ty → Prop
  | .scalar _ => True
  | .struct fs => SchemaOk fs

/-- The value is a value of the type (and short enough for the 32-bit length fields). -/
def Val.WellTyped : Val → Ty → Prop
  | .scalar v, .scalar t => v.HasType t ∧ v.Small
  | .struct vs, .struct fs => FieldsTyped vs fs
  | _, _ => False

theorem mpDecodeRest_mpEncode (t : Ty) (ht : t.Ok) (v : Val) (hv : v.WellTyped t) (rest : Bytes) :
    mpDecodeRest t (mpEncode t v ++ rest) = some (v, rest) := by
  cases t with
  | scalar t =>
    cases v with
    | scalar v => simp [mpDecodeRest, mpEncode, decScalar_encScalar t v rest hv.1 hv.2]
    | struct vs => exact absurd hv (by simp [Val.WellTyped])
  | struct fs =>
    cases v with
    | scalar v => exact absurd hv (by simp [Val.WellTyped])
    | struct vs =>
      have := decStruct_encStruct fs ht vs hv rest
      rw [List.append_assoc] at this
      simp [mpDecodeRest, mpEncode, this]

/-- msgpack round trip. -/
theorem mpDecode_mpEncode (t : Ty) (ht : t.Ok) (v : Val) (hv : v.WellTyped t) :
    mpDecode t (mpEncode t v) = some v := by
  have := mpDecodeRest_mpEncode t ht v hv []
  rw [List.append_nil] at this
  simp [mpDecode, this]

theorem strHeader_ne_nil (l : Nat) : strHeader l ≠ [] := by
  unfold strHeader; repeat' split
  all_goals simp

theorem mapHeader_ne_nil (l : Nat) : mapHeader l ≠ [] := by
  unfold mapHeader; repeat' split
  all_goals simp

theorem mpEncode_ne_nil (t : Ty) (v : Val) (hv : v.WellTyped t) : mpEncode t v ≠ [] := by
  cases t with
  | scalar t =>
    cases v with
    | scalar v =>
      cases t <;> cases v <;> simp [Val.WellTyped, SVal.HasType] at hv <;>
        simp [mpEncode, encScalar, encStr, strHeader_ne_nil]
    | struct vs => exact absurd hv (by simp [Val.WellTyped])
  | struct fs =>
    cases v with
    | scalar v => exact absurd hv (by simp [Val.WellTyped])
    | struct vs => simp [mpEncode, mapHeader_ne_nil]

/-- The cursor codec round trip: `DeserializeCursor(t, SerializeCursor(v)) = v`. -/
theorem cursorDec_cursorEnc (t : Ty) (ht : t.Ok) (v : Val) (hv : v.WellTyped t) :
    cursorDec t (cursorEnc t v) = some v := by
  simp [cursorDec, cursorEnc, b64dec_b64enc, mpDecode_mpEncode t ht v hv]

theorem cursorEnc_ne_empty (t : Ty) (v : Val) (hv : v.WellTyped t) : cursorEnc t v ≠ "" :=
  b64enc_ne_empty (mpEncode_ne_nil t v hv)

/-! ## which texts are accepted -/

theorem decChars_isSome_iff (cs : List Char) :
    (decChars cs).isSome = true ↔ ∀ c ∈ cs, c ∈ alphabet := by
  induction cs with
  | nil => simp [decChars]
  | cons c cs ih =>
    have hc : (decChar c).isSome = true ↔ c ∈ alphabet := by
      have hlen : alphabet.length = 64 := by decide
      have hiff : alphabet.idxOf c < 64 ↔ c ∈ alphabet := by rw [← hlen]; exact List.idxOf_lt_length_iff
      show (if alphabet.idxOf c < 64 then some (alphabet.idxOf c) else none).isSome = true ↔ _
      by_cases hi : alphabet.idxOf c < 64
      · simp [hi, hiff.mp hi]
      · simp only [hi, if_false, Option.isSome_none, Bool.false_eq_true, false_iff]
        exact fun hm => hi (hiff.mpr hm)
    cases hd : decChar c with
    | none =>
      have : c ∉ alphabet := fun hm => by have h' := hc.mpr hm; rw [hd] at h'; simp at h'
      simp [decChars, hd, this]
    | some i =>
      have hm : c ∈ alphabet := hc.mp (by simp [hd])
      cases hr : decChars cs with
      | none =>
        have : ¬ ∀ c ∈ cs, c ∈ alphabet := fun h => by have h' := ih.mpr h; rw [hr] at h'; simp at h'
        simp only [decChars, hd, hr, Option.isSome_none, Bool.false_eq_true, List.mem_cons, forall_eq_or_imp,
          false_iff, not_and]
        exact fun _ => this
      | some is =>
        have : ∀ c ∈ cs, c ∈ alphabet := ih.mp (by simp [hr])
        simp only [decChars, hd, hr, Option.isSome_some, List.mem_cons, forall_eq_or_imp, true_iff]
        exact ⟨hm, this⟩

theorem decChars_length {cs : List Char} {is : List Nat} (h : decChars cs = some is) : is.length = cs.length := by
  induction cs generalizing is with
  | nil => simp [decChars] at h; simp [← h]
  | cons c cs ih =>
    unfold decChars at h
    split at h
    · cases h
    · split at h
      · cases h
      · rename_i is' hr
        cases h
        simp [ih hr]

theorem decGroups_isSome_iff : ∀ (is : List Nat), (decGroups is).isSome = true ↔ is.length % 4 ≠ 1
  | [] => by simp [decGroups]
  | [_] => by simp [decGroups]
  | [_, _] => by simp [decGroups]
  | [_, _, _] => by simp [decGroups]
  | a :: b :: c :: d :: rest => by
    have ih := decGroups_isSome_iff rest
    have hl : (a :: b :: c :: d :: rest).length % 4 = rest.length % 4 := by
      simp only [List.length_cons]; omega
    rw [hl, ← ih]
    simp only [decGroups]
    cases decGroups rest <;> simp


/-! ## what the decoder returns has the shape of the type -/

theorem zero_hasType (t : STy) : t.zero.HasType t := by
  cases t with
  | int w => cases w <;> simp [STy.zero, SVal.HasType, W.bits, W.bytes]
  | uint w => cases w <;> simp [STy.zero, SVal.HasType, W.bits, W.bytes]
  | str => trivial

theorem decScalar_hasType {t : STy} {bs r : Bytes} {v : SVal} (h : decScalar t bs = some (v, r)) : v.HasType t := by
  cases t with
  | int w =>
    simp only [decScalar, Option.map_eq_some_iff, Prod.mk.injEq, Prod.exists] at h
    obtain ⟨x, r', _, rfl, _⟩ := h
    cases w <;> simp only [SVal.HasType, toSigned, W.bits, W.bytes, Nat.reduceMul, Nat.reduceSub, Nat.reducePow, Int.reducePow] <;> grind
  | uint w =>
    simp only [decScalar, Option.map_eq_some_iff, Prod.mk.injEq, Prod.exists] at h
    obtain ⟨x, r', _, rfl, _⟩ := h
    cases w <;> simp only [SVal.HasType, W.bits, W.bytes] <;> omega
  | str =>
    simp only [decScalar, Option.map_eq_some_iff, Prod.mk.injEq, Prod.exists] at h
    obtain ⟨x, r', _, rfl, _⟩ := h
    trivial

/-- The values have the types of the fields (ranges only; no length bound). -/
def FieldsShaped : List SVal → List (Bytes × STy) → Prop
  | [], [] => True
  | v :: vs, f :: fs => v.HasType f.2 ∧ FieldsShaped vs fs
  | _, _ => False

theorem zeros_shaped : ∀ (fs : List (Bytes × STy)), FieldsShaped (fs.map (fun f => f.2.zero)) fs
  | [] => trivial
  | f :: fs => ⟨zero_hasType f.2, zeros_shaped fs⟩

theorem set_shaped : ∀ (fs : List (Bytes × STy)) (vs : List SVal) (name : Bytes) (i : Nat) (t : STy) (v : SVal),
    FieldsShaped vs fs → lookup name fs = some (i, t) → v.HasType t → FieldsShaped (vs.set i v) fs
  | [], _, _, _, _, _, _, hl, _ => by simp [lookup] at hl
  | (nm, t') :: fs, [], _, _, _, _, hs, _, _ => by simp [FieldsShaped] at hs
  | (nm, t') :: fs, v' :: vs, name, i, t, v, hs, hl, hv => by
    unfold lookup at hl
    split at hl
    · cases hl
      exact ⟨hv, hs.2⟩
    · simp only [Option.map_eq_some_iff, Prod.mk.injEq, Prod.exists] at hl
      obtain ⟨j, t'', hl', rfl, rfl⟩ := hl
      exact ⟨hs.1, set_shaped fs vs name j t'' v hs.2 hl' hv⟩

theorem mapLoop_shaped (fields : List (Bytes × STy)) :
    ∀ (n : Nat) (vs : List SVal) (bs : Bytes) (out : List SVal) (r : Bytes),
      FieldsShaped vs fields → mapLoop fields n vs bs = some (out, r) → FieldsShaped out fields
  | 0, vs, bs, out, r, hs, h => by
    simp only [mapLoop, Option.some.injEq, Prod.mk.injEq] at h
    rw [← h.1]; exact hs
  | n + 1, vs, bs, out, r, hs, h => by
    unfold mapLoop at h
    split at h
    · cases h
    · rename_i name bs1 _
      split at h
      · rename_i i t hl
        split at h
        · cases h
        · rename_i v bs2 hd
          exact mapLoop_shaped fields n _ bs2 out r (set_shaped fields vs name i t v hs hl (decScalar_hasType hd)) h
      · split at h
        · cases h
        · rename_i bs2 _
          exact mapLoop_shaped fields n vs bs2 out r hs h

theorem arrLoop_shaped : ∀ (fs : List (Bytes × STy)) (n : Nat) (bs : Bytes) (out : List SVal) (r : Bytes),
    arrLoop fs n bs = some (out, r) → FieldsShaped out fs
  | [], n, bs, out, r, h => by
    simp only [arrLoop, Option.some.injEq, Prod.mk.injEq] at h
    rw [← h.1]; trivial
  | f :: fs, 0, bs, out, r, h => by
    simp only [arrLoop, Option.some.injEq, Prod.mk.injEq] at h
    rw [← h.1]; exact zeros_shaped (f :: fs)
  | (nm, t) :: fs, n + 1, bs, out, r, h => by
    unfold arrLoop at h
    split at h
    · cases h
    · rename_i v bs1 hd
      split at h
      · cases h
      · rename_i vs bs2 hr
        simp only [Option.some.injEq, Prod.mk.injEq] at h
        rw [← h.1]
        exact ⟨decScalar_hasType hd, arrLoop_shaped fs n bs1 vs bs2 hr⟩


theorem decStruct_shaped {fs : List (Bytes × STy)} {bs r : Bytes} {out : List SVal}
    (h : decStruct fs bs = some (out, r)) : FieldsShaped out fs := by
  cases bs with
  | nil => simp [decStruct] at h
  | cons c bs =>
    unfold decStruct at h
    simp only at h
    repeat' split at h
    all_goals first
      | exact mapLoop_shaped _ _ _ _ _ _ (zeros_shaped _) h
      | (cases h; done)
      | (simp only [Option.some.injEq, Prod.mk.injEq] at h
         obtain ⟨rfl, rfl⟩ := h
         first
           | exact zeros_shaped _
           | exact arrLoop_shaped _ _ _ _ _ (by assumption))

/-- The value has the shape of the type: every integer lies in the range of its Go type, a struct
    has exactly the fields of the type. -/
def Val.Shaped : Val → Ty → Prop
  | .scalar v, .scalar t => v.HasType t
  | .struct vs, .struct fs => FieldsShaped vs fs
  | _, _ => False

theorem mpDecode_shaped {t : Ty} {bs : Bytes} {v : Val} (h : mpDecode t bs = some v) : v.Shaped t := by
  cases t with
  | scalar t =>
    simp only [mpDecode, mpDecodeRest, Option.map_eq_some_iff, Prod.exists] at h
    obtain ⟨v', r, ⟨sv, r', hd, heq⟩, rfl⟩ := h
    cases heq
    exact decScalar_hasType hd
  | struct fs =>
    simp only [mpDecode, mpDecodeRest, Option.map_eq_some_iff, Prod.exists] at h
    obtain ⟨v', r, ⟨vs, r', hd, heq⟩, rfl⟩ := h
    cases heq
    exact decStruct_shaped hd

theorem cursorDec_shaped {t : Ty} {s : String} {v : Val} (h : cursorDec t s = some v) : v.Shaped t := by
  unfold cursorDec at h
  split at h
  · cases h
  · exact mpDecode_shaped h


/-! ## what the decoder returns is a value of the type (also the 32-bit length bound) -/

theorem foldl_beNat_lt (bs : Bytes) (acc : Nat) :
    bs.foldl (fun acc b => acc * 256 + b.toNat) acc < (acc + 1) * 256 ^ bs.length := by
  induction bs generalizing acc with
  | nil => simp
  | cons b bs ih =>
    have hb := b.toNat_lt
    have h1 := ih (acc * 256 + b.toNat)
    simp only [List.foldl_cons, List.length_cons, Nat.pow_succ]
    have h2 : (acc * 256 + b.toNat + 1) * 256 ^ bs.length ≤ (acc + 1) * (256 ^ bs.length * 256) := by
      have : acc * 256 + b.toNat + 1 ≤ (acc + 1) * 256 := by omega
      calc (acc * 256 + b.toNat + 1) * 256 ^ bs.length ≤ ((acc + 1) * 256) * 256 ^ bs.length :=
            Nat.mul_le_mul_right _ this
        _ = (acc + 1) * (256 ^ bs.length * 256) := by
            rw [Nat.mul_assoc, Nat.mul_comm 256]
    omega

theorem beNat_lt (bs : Bytes) : beNat bs < 256 ^ bs.length := by
  have := foldl_beNat_lt bs 0
  simpa [beNat] using this

theorem readN_eq {n : Nat} {bs x r : Bytes} (h : readN n bs = some (x, r)) : x.length = n ∧ x ++ r = bs := by
  unfold readN at h
  split at h
  · cases h
    exact ⟨by simp; omega, List.take_append_drop n bs⟩
  · cases h

theorem bytesLen_small {c : UInt8} {bs r : Bytes} {n : Nat} (hb : bytesLen c bs = some (some n, r)) : n < 2 ^ 32 := by
  unfold bytesLen at hb
  simp only at hb
  repeat' split at hb
  all_goals first
    | (cases hb; done)
    | (simp only [Option.some.injEq, Prod.mk.injEq] at hb
       obtain ⟨h1, _⟩ := hb
       cases h1
       omega)
    | (simp only [Option.map_eq_some_iff, Prod.mk.injEq, Prod.exists] at hb
       obtain ⟨x, r'', hr, h1, _⟩ := hb
       cases h1
       have := beNat_lt x
       rw [(readN_eq hr).1] at this
       omega)

theorem decStr_small {bs b r : Bytes} (h : decStr bs = some (b, r)) : b.length < 2 ^ 32 := by
  cases bs with
  | nil => simp [decStr] at h
  | cons c bs =>
    cases hb : bytesLen c bs with
    | none => simp [decStr, hb] at h
    | some p =>
      obtain ⟨on, r'⟩ := p
      cases on with
      | none =>
        simp only [decStr, hb, Option.some.injEq, Prod.mk.injEq] at h
        rw [← h.1]; simp
      | some n =>
        simp only [decStr, hb] at h
        rw [(readN_eq h).1]; exact bytesLen_small hb


def AllSmall (vs : List SVal) : Prop := ∀ v ∈ vs, v.Small

theorem decScalar_small {t : STy} {bs r : Bytes} {v : SVal} (h : decScalar t bs = some (v, r)) : v.Small := by
  cases t with
  | int w =>
    simp only [decScalar, Option.map_eq_some_iff, Prod.mk.injEq, Prod.exists] at h
    obtain ⟨x, r', _, rfl, _⟩ := h
    trivial
  | uint w =>
    simp only [decScalar, Option.map_eq_some_iff, Prod.mk.injEq, Prod.exists] at h
    obtain ⟨x, r', _, rfl, _⟩ := h
    trivial
  | str =>
    simp only [decScalar, Option.map_eq_some_iff, Prod.mk.injEq, Prod.exists] at h
    obtain ⟨x, r', hd, rfl, _⟩ := h
    exact decStr_small hd

theorem zero_small (t : STy) : t.zero.Small := by
  cases t <;> simp [STy.zero, SVal.Small]

theorem zeros_small (fs : List (Bytes × STy)) : AllSmall (fs.map (fun f => f.2.zero)) := by
  intro v hv
  obtain ⟨f, _, rfl⟩ := List.mem_map.mp hv
  exact zero_small f.2

theorem set_small {vs : List SVal} {i : Nat} {v : SVal} (hs : AllSmall vs) (hv : v.Small) :
    AllSmall (vs.set i v) := by
  intro x hx
  rcases List.mem_or_eq_of_mem_set hx with h | h
  · exact hs x h
  · rw [h]; exact hv

theorem mapLoop_small (fields : List (Bytes × STy)) :
    ∀ (n : Nat) (vs : List SVal) (bs : Bytes) (out : List SVal) (r : Bytes),
      AllSmall vs → mapLoop fields n vs bs = some (out, r) → AllSmall out
  | 0, vs, bs, out, r, hs, h => by
    simp only [mapLoop, Option.some.injEq, Prod.mk.injEq] at h
    rw [← h.1]; exact hs
  | n + 1, vs, bs, out, r, hs, h => by
    unfold mapLoop at h
    split at h
    · cases h
    · rename_i name bs1 _
      split at h
      · rename_i i t hl
        split at h
        · cases h
        · rename_i v bs2 hd
          exact mapLoop_small fields n _ bs2 out r (set_small hs (decScalar_small hd)) h
      · split at h
        · cases h
        · rename_i bs2 _
          exact mapLoop_small fields n vs bs2 out r hs h

theorem arrLoop_small : ∀ (fs : List (Bytes × STy)) (n : Nat) (bs : Bytes) (out : List SVal) (r : Bytes),
    arrLoop fs n bs = some (out, r) → AllSmall out
  | [], n, bs, out, r, h => by
    simp only [arrLoop, Option.some.injEq, Prod.mk.injEq] at h
    rw [← h.1]; intro v hv; cases hv
  | f :: fs, 0, bs, out, r, h => by
    simp only [arrLoop, Option.some.injEq, Prod.mk.injEq] at h
    rw [← h.1]; exact zeros_small (f :: fs)
  | (nm, t) :: fs, n + 1, bs, out, r, h => by
    unfold arrLoop at h
    split at h
    · cases h
    · rename_i v bs1 hd
      split at h
      · cases h
      · rename_i vs bs2 hr
        simp only [Option.some.injEq, Prod.mk.injEq] at h
        rw [← h.1]
        intro x hx
        rcases List.mem_cons.mp hx with rfl | hx
        · exact decScalar_small hd
        · exact arrLoop_small fs n bs1 vs bs2 hr x hx

theorem decStruct_small {fs : List (Bytes × STy)} {bs r : Bytes} {out : List SVal}
    (h : decStruct fs bs = some (out, r)) : AllSmall out := by
  cases bs with
  | nil => simp [decStruct] at h
  | cons c bs =>
    unfold decStruct at h
    simp only at h
    repeat' split at h
    all_goals first
      | exact mapLoop_small _ _ _ _ _ _ (zeros_small _) h
      | (cases h; done)
      | (simp only [Option.some.injEq, Prod.mk.injEq] at h
         obtain ⟨rfl, rfl⟩ := h
         first
           | exact zeros_small _
           | exact arrLoop_small _ _ _ _ _ (by assumption))

theorem fieldsTyped_of : ∀ (vs : List SVal) (fs : List (Bytes × STy)),
    FieldsShaped vs fs → AllSmall vs → FieldsTyped vs fs
  | [], [], _, _ => trivial
  | [], _ :: _, h, _ => by simp [FieldsShaped] at h
  | _ :: _, [], h, _ => by simp [FieldsShaped] at h
  | v :: vs, f :: fs, h, hs =>
    ⟨h.1, hs v (List.mem_cons_self ..), fieldsTyped_of vs fs h.2 (fun x hx => hs x (List.mem_cons_of_mem _ hx))⟩

theorem mpDecode_wellTyped {t : Ty} {bs : Bytes} {v : Val} (h : mpDecode t bs = some v) : v.WellTyped t := by
  cases t with
  | scalar t =>
    simp only [mpDecode, mpDecodeRest, Option.map_eq_some_iff, Prod.exists] at h
    obtain ⟨v', r, ⟨sv, r', hd, heq⟩, rfl⟩ := h
    cases heq
    exact ⟨decScalar_hasType hd, decScalar_small hd⟩
  | struct fs =>
    simp only [mpDecode, mpDecodeRest, Option.map_eq_some_iff, Prod.exists] at h
    obtain ⟨v', r, ⟨vs, r', hd, heq⟩, rfl⟩ := h
    cases heq
    exact fieldsTyped_of _ _ (decStruct_shaped hd) (decStruct_small hd)

theorem cursorDec_wellTyped {t : Ty} {s : String} {v : Val} (h : cursorDec t s = some v) : v.WellTyped t := by
  unfold cursorDec at h
  split at h
  · cases h
  · exact mpDecode_wellTyped h


end ApiFu.C09.Codec
