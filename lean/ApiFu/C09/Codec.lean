/-
  C09 / C16 — executable model of the cursor codec (pagination.go:94-113):

      SerializeCursor(c)      = base64.RawURLEncoding.EncodeToString(msgpack.Marshal(c))
      DeserializeCursor(t, s) = b, err := base64.RawURLEncoding.DecodeString(s); err == nil →
                                msgpack.Unmarshal(b, new(t)); err == nil → the value; otherwise nil

  Part 1 — unpadded base64url exactly as Go's `encoding/base64` (go1.23, `RawURLEncoding`, non-strict):
    * `Encoding.Encode` (base64.go:140-183): 3 bytes → 4 characters through the 24-bit `val`;
      a remainder of 1 / 2 bytes gives 2 / 3 characters, no padding.
    * `Encoding.decodeQuantum` (base64.go:312-407): `'\r'` and `'\n'` are skipped wherever they stand
      (also in the raw encodings); every other byte outside the alphabet — `'='` included, since
      `padChar == NoPadding` — is a `CorruptInputError`; a final quantum of one character is an
      error; a final quantum of 2 / 3 characters gives 1 / 2 bytes and its unused low bits are
      IGNORED (`enc.strict` is false), so e.g. "AB" and "AA" both decode to [0].
  Part 2 — the msgpack encoding of github.com/vmihailenco/msgpack v4.0.4 as `Marshal` / `Unmarshal`
    use it (no compact encoding, no struct-as-array, no tags), for the cursor kinds connections use:
    fixed-width integers, strings, and structs of such fields (`TimeBasedCursor{Nano int64; Id string}`).
    * encoder: an integer is written with the code of its *static Go type* and all its bytes
      (encode_number.go `EncodeInt64` = 0xd3 + 8 bytes big endian, …; Go `int` is `int64`); a string
      with the shortest of fixstr/str8/str16/str32 (encode_slice.go `encodeStrLen`); a struct as a
      map: `EncodeMapLen(#fields)`, then per field its name as a string and its value (encode_map.go
      `encodeStructValue`).
    * decoder — everything `Unmarshal` accepts, not only what `Marshal` writes:
      integers (decode_number.go `int`/`uint`): nil (= 0), positive/negative fixnum, uint8/16/32/64,
      int8/16/32/64 — any of them into any integer type, converted with Go's truncating conversion;
      strings (decode_string.go `bytesLen`/`string`): nil (= ""), fixstr, str8/16/32 and bin8/16/32;
      structs (decode_map.go `decodeStructValue`): nil (= zero value), a map (fixmap/map16/map32) whose
      keys are strings, known keys in any order and any number of times (the last one wins), unknown
      keys skipped with `Skip` (decode.go:379-425: any msgpack value, nested arrays/maps, ext), missing
      fields keep the zero value; or an array (fixarray/array16/array32): fields in declaration
      order, surplus elements skipped; bytes after the value are ignored (`Unmarshal` does not look).
      A short read is an error. There is no panic branch (none exists in the Go code for these types;
      a claimed length is only ever passed to `readN`, which fails on a short read).

  Strings of the Go program are byte strings (`Bytes`); the serialized cursor is text and is modelled
  as a Lean `String` (the cursor argument arrives through JSON, i.e. as valid UTF-8; a character
  outside ASCII is outside the alphabet whichever bytes encode it).

  Core Lean only (linked into the drivers `c09model`, `c16model`).
-/
namespace ApiFu.C09.Codec

abbrev Bytes := List UInt8

/-! ## Part 1: base64.RawURLEncoding -/

/-- `encodeURL` (base64.go:33). -/
def alphabet : List Char :=
  ['A', 'B', 'C', 'D', 'E', 'F', 'G', 'H', 'I', 'J', 'K', 'L', 'M', 'N', 'O', 'P', 'Q', 'R', 'S',
  'T', 'U', 'V', 'W', 'X', 'Y', 'Z', 'a', 'b', 'c', 'd', 'e', 'f', 'g', 'h', 'i', 'j', 'k', 'l',
  'm', 'n', 'o', 'p', 'q', 'r', 's', 't', 'u', 'v', 'w', 'x', 'y', 'z', '0', '1', '2', '3', '4',
  '5', '6', '7', '8', '9', '-', '_']

/-- `enc.encode[i]`. -/
def encChar (i : Nat) : Char := alphabet.getD i 'A'

/-- `enc.decodeMap[c]` (`none` = 0xff): the index of the character in the alphabet. -/
def decChar (c : Char) : Option Nat :=
  let i := alphabet.idxOf c
  if i < 64 then some i else none

/-- The 6-bit groups `Encode` produces (base64.go:150-182). -/
def encGroups : Bytes → List Nat
  | [] => []
  | [a] =>
    let val := a.toNat * 65536
    [val / 262144 % 64, val / 4096 % 64]
  | [a, b] =>
    let val := a.toNat * 65536 + b.toNat * 256
    [val / 262144 % 64, val / 4096 % 64, val / 64 % 64]
  | a :: b :: c :: rest =>
    let val := a.toNat * 65536 + b.toNat * 256 + c.toNat
    val / 262144 % 64 :: val / 4096 % 64 :: val / 64 % 64 :: val % 64 :: encGroups rest

/-- `base64.RawURLEncoding.EncodeToString`. -/
def b64enc (bs : Bytes) : String := String.ofList ((encGroups bs).map encChar)

/-- All characters through `decodeMap`; `none` as soon as one is outside the alphabet. -/
def decChars : List Char → Option (List Nat)
  | [] => some []
  | c :: cs =>
    match decChar c with
    | none => none
    | some i =>
      match decChars cs with
      | none => none
      | some is => some (i :: is)

/-- `decodeQuantum` on the 6-bit values (base64.go:384-406, `strict == false`): `val` is assembled
    from up to four values, the bytes are `byte(val>>16)`, `byte(val>>8)`, `byte(val)`; `dlen - 1` of
    them are kept. One left-over value: `CorruptInputError`. -/
def decGroups : List Nat → Option Bytes
  | [] => some []
  | [_] => none
  | [a, b] =>
    let val := a * 262144 + b * 4096
    some [UInt8.ofNat (val / 65536 % 256)]
  | [a, b, c] =>
    let val := a * 262144 + b * 4096 + c * 64
    some [UInt8.ofNat (val / 65536 % 256), UInt8.ofNat (val / 256 % 256)]
  | a :: b :: c :: d :: rest =>
    let val := a * 262144 + b * 4096 + c * 64 + d
    match decGroups rest with
    | none => none
    | some bs => some (UInt8.ofNat (val / 65536 % 256) :: UInt8.ofNat (val / 256 % 256) :: UInt8.ofNat (val % 256) :: bs)

/-- `'\r'` / `'\n'` are dropped by `decodeQuantum` at every position (base64.go:340-343). -/
def notNewline (c : Char) : Bool := c != '\n' && c != '\r'

/-- `base64.RawURLEncoding.DecodeString`; `none` = `CorruptInputError`. -/
def b64dec (s : String) : Option Bytes :=
  match decChars (s.toList.filter notNewline) with
  | none => none
  | some is => decGroups is

/-! ## Part 2: msgpack -/

/-- `Encoder.write1/2/4/8`: the `k` low bytes of `v`, big endian. -/
def beBytes : Nat → Nat → Bytes
  | 0, _ => []
  | k + 1, v => UInt8.ofNat (v / 256 ^ k % 256) :: beBytes k v

/-- `Decoder.uint16/32/64`: big endian. -/
def beNat (bs : Bytes) : Nat := bs.foldl (fun acc b => acc * 256 + b.toNat) 0

/-- `Decoder.readN`: exactly `n` bytes or an error (`io.ErrUnexpectedEOF` / `io.EOF`). -/
def readN (n : Nat) (bs : Bytes) : Option (Bytes × Bytes) :=
  if n ≤ bs.length then some (bs.take n, bs.drop n) else none

/-- Integer widths. -/
inductive W where
  | w8 | w16 | w32 | w64
  deriving DecidableEq, Repr

def W.bytes : W → Nat
  | .w8 => 1 | .w16 => 2 | .w32 => 4 | .w64 => 8

def W.bits (w : W) : Nat := 8 * w.bytes

/-- Position of the width in the code tables: `Uint8 = 0xcc … Uint64 = 0xcf`, `Int8 = 0xd0 … Int64 = 0xd3`. -/
def W.idx : W → Nat
  | .w8 => 0 | .w16 => 1 | .w32 => 2 | .w64 => 3

/-- Scalar Go types (`int` is `int w64`, `uint` is `uint w64` on the 64-bit platforms the check runs on). -/
inductive STy where
  | int (w : W)
  | uint (w : W)
  | str
  deriving DecidableEq, Repr

/-- Scalar Go values: an integer or a (byte) string. -/
inductive SVal where
  | int (n : Int)
  | str (b : Bytes)
  deriving DecidableEq, Repr

/-- Cursor types: a scalar or a struct of exported scalar fields (name, type) in declaration order. -/
inductive Ty where
  | scalar (t : STy)
  | struct (fields : List (Bytes × STy))
  deriving DecidableEq, Repr

inductive Val where
  | scalar (v : SVal)
  | struct (vs : List SVal)
  deriving DecidableEq, Repr

/-- The value is one of the type (integers within the type's range). -/
def SVal.HasType : SVal → STy → Prop
  | .int n, .int w => -(2 : Int) ^ (w.bits - 1) ≤ n ∧ n < (2 : Int) ^ (w.bits - 1)
  | .int n, .uint w => 0 ≤ n ∧ n < (2 : Int) ^ w.bits
  | .str _, .str => True
  | _, _ => False

/-- `reflect.Zero`. -/
def STy.zero : STy → SVal
  | .int _ => .int 0
  | .uint _ => .int 0
  | .str => .str []

/-- `encodeStrLen` (encode_slice.go:52-63). `uint32(l)` truncates. -/
def strHeader (l : Nat) : Bytes :=
  if l < 32 then [UInt8.ofNat (0xa0 + l)]
  else if l < 256 then 0xd9 :: beBytes 1 l
  else if l < 65536 then 0xda :: beBytes 2 l
  else 0xdb :: beBytes 4 l

/-- `EncodeString`. -/
def encStr (b : Bytes) : Bytes := strHeader b.length ++ b

/-- `EncodeMapLen` (encode_map.go:130-138). -/
def mapHeader (l : Nat) : Bytes :=
  if l < 16 then [UInt8.ofNat (0x80 + l)]
  else if l < 65536 then 0xde :: beBytes 2 l
  else 0xdf :: beBytes 4 l

/-- The two's-complement bit pattern of `n` in `bits` bits (`uint8(int8 n)`, … — Go conversions). -/
def pattern (bits : Nat) (n : Int) : Nat := (n % (2 : Int) ^ bits).toNat

/-- `encodeInt8/16/32/64CondValue`, `encodeUint…CondValue` with `useCompact == false`,
    `encodeStringValue`. A value that is not of the type does not occur (`[]`). -/
def encScalar : STy → SVal → Bytes
  | .int w, .int n => UInt8.ofNat (0xd0 + w.idx) :: beBytes w.bytes (pattern w.bits n)
  | .uint w, .int n => UInt8.ofNat (0xcc + w.idx) :: beBytes w.bytes (pattern w.bits n)
  | .str, .str b => encStr b
  | _, _ => []

/-- The fields of `encodeStructValue`'s loop: name, value, name, value, … -/
def encFields : List (Bytes × STy) → List SVal → Bytes
  | (name, t) :: fs, v :: vs => encStr name ++ encScalar t v ++ encFields fs vs
  | _, _ => []

/-- `msgpack.Marshal`. -/
def mpEncode : Ty → Val → Bytes
  | .scalar t, .scalar v => encScalar t v
  | .struct fs, .struct vs => mapHeader fs.length ++ encFields fs vs
  | _, _ => []

/-- Sign extension of a `bits`-bit pattern to 64 bits (`int64(int8(x))` as a bit pattern). -/
def signExtend (bits : Nat) (x : Nat) : Nat :=
  if x < 2 ^ (bits - 1) then x else x + 2 ^ 64 - 2 ^ bits

/-- `Decoder.int(c)` / `Decoder.uint(c)` (decode_number.go:88-160) — the two produce the same 64-bit
    pattern; `c` is the code already read. -/
def rawInt (c : UInt8) (bs : Bytes) : Option (Nat × Bytes) :=
  let n := c.toNat
  if n = 0xc0 then some (0, bs)
  else if n ≤ 0x7f then some (n, bs)
  else if 0xe0 ≤ n then some (signExtend 8 n, bs)
  else if n = 0xcc then (readN 1 bs).map fun (x, r) => (beNat x, r)
  else if n = 0xcd then (readN 2 bs).map fun (x, r) => (beNat x, r)
  else if n = 0xce then (readN 4 bs).map fun (x, r) => (beNat x, r)
  else if n = 0xcf then (readN 8 bs).map fun (x, r) => (beNat x, r)
  else if n = 0xd0 then (readN 1 bs).map fun (x, r) => (signExtend 8 (beNat x), r)
  else if n = 0xd1 then (readN 2 bs).map fun (x, r) => (signExtend 16 (beNat x), r)
  else if n = 0xd2 then (readN 4 bs).map fun (x, r) => (signExtend 32 (beNat x), r)
  else if n = 0xd3 then (readN 8 bs).map fun (x, r) => (beNat x, r)
  else none

/-- `DecodeInt64` / `DecodeUint64`: `readCode`, then `int(c)`. -/
def decInt64 : Bytes → Option (Nat × Bytes)
  | [] => none
  | c :: bs => rawInt c bs

/-- Go's conversion of a 64-bit pattern to a signed type of `bits` bits. -/
def toSigned (bits : Nat) (x : Nat) : Int :=
  let y := x % 2 ^ bits
  if y < 2 ^ (bits - 1) then (y : Int) else (y : Int) - (2 : Int) ^ bits

/-- `Decoder.bytesLen(c)` (decode_string.go:10-28): inner `none` = nil (`-1`). -/
def bytesLen (c : UInt8) (bs : Bytes) : Option (Option Nat × Bytes) :=
  let n := c.toNat
  if n = 0xc0 then some (none, bs)
  else if 0xa0 ≤ n ∧ n ≤ 0xbf then some (some (n % 32), bs)
  else if n = 0xd9 ∨ n = 0xc4 then (readN 1 bs).map fun (x, r) => (some (beNat x), r)
  else if n = 0xda ∨ n = 0xc5 then (readN 2 bs).map fun (x, r) => (some (beNat x), r)
  else if n = 0xdb ∨ n = 0xc6 then (readN 4 bs).map fun (x, r) => (some (beNat x), r)
  else none

/-- `DecodeString`. -/
def decStr : Bytes → Option (Bytes × Bytes)
  | [] => none
  | c :: bs =>
    match bytesLen c bs with
    | none => none
    | some (none, r) => some ([], r)
    | some (some n, r) => readN n r

/-- `decodeInt64Value` / `decodeUint64Value` (`SetInt` / `SetUint` truncate to the field's width),
    `decodeStringValue`. -/
def decScalar : STy → Bytes → Option (SVal × Bytes)
  | .int w, bs => (decInt64 bs).map fun (x, r) => (.int (toSigned w.bits x), r)
  | .uint w, bs => (decInt64 bs).map fun (x, r) => (.int ((x % 2 ^ w.bits : Nat) : Int), r)
  | .str, bs => (decStr bs).map fun (b, r) => (.str b, r)

/-- `parseExtLen` (ext.go:137-163). -/
def extLen (n : Nat) (bs : Bytes) : Option (Nat × Bytes) :=
  if n = 0xd4 then some (1, bs)
  else if n = 0xd5 then some (2, bs)
  else if n = 0xd6 then some (4, bs)
  else if n = 0xd7 then some (8, bs)
  else if n = 0xd8 then some (16, bs)
  else if n = 0xc7 then (readN 1 bs).map fun (x, r) => (beNat x, r)
  else if n = 0xc8 then (readN 2 bs).map fun (x, r) => (beNat x, r)
  else if n = 0xc9 then (readN 4 bs).map fun (x, r) => (beNat x, r)
  else none

theorem readN_length {n : Nat} {bs x r : Bytes} (h : readN n bs = some (x, r)) : r.length ≤ bs.length := by
  unfold readN at h
  split at h
  · cases h; simp
  · cases h

theorem map_readN_length {k l : Nat} {f : Bytes → Nat} {bs r : Bytes}
    (h : ((readN k bs).map fun (x, r) => (f x, r)) = some (l, r)) : r.length ≤ bs.length := by
  cases hr : readN k bs with
  | none => simp [hr] at h
  | some p =>
    obtain ⟨x, r'⟩ := p
    simp only [hr, Option.map_some, Option.some.injEq, Prod.mk.injEq] at h
    have := readN_length hr
    rw [← h.2]; exact this

theorem extLen_length {n l : Nat} {bs r : Bytes} (h : extLen n bs = some (l, r)) : r.length ≤ bs.length := by
  unfold extLen at h
  iterate 5 (split at h; · cases h; exact Nat.le_refl _)
  iterate 3 (split at h; · exact map_readN_length h)
  cases h

/-- `Decoder.Skip` (decode.go:379-425) applied `pending` times: the recursion of `skipSlice` /
    `skipMap` is a counter of values still to skip (an array of `n` adds `n`, a map `2n`). Every
    step reads at least the code byte. -/
def skipAll (pending : Nat) (bs : Bytes) : Option Bytes :=
  match pending with
  | 0 => some bs
  | p + 1 =>
    match bs with
    | [] => none
    | c :: r =>
      let n := c.toNat
      -- IsFixedNum, nil, false, true
      if n ≤ 0x7f ∨ 0xe0 ≤ n ∨ n = 0xc0 ∨ n = 0xc2 ∨ n = 0xc3 then skipAll p r
      -- IsFixedMap
      else if 0x80 ≤ n ∧ n ≤ 0x8f then skipAll (p + 2 * (n % 16)) r
      -- IsFixedArray
      else if 0x90 ≤ n ∧ n ≤ 0x9f then skipAll (p + n % 16) r
      -- IsFixedString
      else if 0xa0 ≤ n ∧ n ≤ 0xbf then
        match h : readN (n % 32) r with
        | none => none
        | some (_, r') => skipAll p r'
      else if n = 0xcc ∨ n = 0xd0 then
        match h : readN 1 r with
        | none => none
        | some (_, r') => skipAll p r'
      else if n = 0xcd ∨ n = 0xd1 then
        match h : readN 2 r with
        | none => none
        | some (_, r') => skipAll p r'
      else if n = 0xce ∨ n = 0xd2 ∨ n = 0xca then
        match h : readN 4 r with
        | none => none
        | some (_, r') => skipAll p r'
      else if n = 0xcf ∨ n = 0xd3 ∨ n = 0xcb then
        match h : readN 8 r with
        | none => none
        | some (_, r') => skipAll p r'
      -- bin8/16/32, str8/16/32: skipBytes
      else if n = 0xc4 ∨ n = 0xd9 then
        match h1 : readN 1 r with
        | none => none
        | some (x, r1) =>
          match h2 : readN (beNat x) r1 with
          | none => none
          | some (_, r') => skipAll p r'
      else if n = 0xc5 ∨ n = 0xda then
        match h1 : readN 2 r with
        | none => none
        | some (x, r1) =>
          match h2 : readN (beNat x) r1 with
          | none => none
          | some (_, r') => skipAll p r'
      else if n = 0xc6 ∨ n = 0xdb then
        match h1 : readN 4 r with
        | none => none
        | some (x, r1) =>
          match h2 : readN (beNat x) r1 with
          | none => none
          | some (_, r') => skipAll p r'
      -- array16/32, map16/32
      else if n = 0xdc then
        match h : readN 2 r with
        | none => none
        | some (x, r') => skipAll (p + beNat x) r'
      else if n = 0xdd then
        match h : readN 4 r with
        | none => none
        | some (x, r') => skipAll (p + beNat x) r'
      else if n = 0xde then
        match h : readN 2 r with
        | none => none
        | some (x, r') => skipAll (p + 2 * beNat x) r'
      else if n = 0xdf then
        match h : readN 4 r with
        | none => none
        | some (x, r') => skipAll (p + 2 * beNat x) r'
      -- ext: skipExt = parseExtLen, then skipN(len + 1)
      else if n = 0xd4 ∨ n = 0xd5 ∨ n = 0xd6 ∨ n = 0xd7 ∨ n = 0xd8 ∨ n = 0xc7 ∨ n = 0xc8 ∨ n = 0xc9 then
        match h1 : extLen n r with
        | none => none
        | some (l, r1) =>
          match h2 : readN (l + 1) r1 with
          | none => none
          | some (_, r') => skipAll p r'
      -- 0xc1: "unknown code"
      else none
termination_by bs.length
decreasing_by
  all_goals simp_wf
  all_goals first
    | omega
    | (have := readN_length h; omega)
    | (have := readN_length h1; have := readN_length h2; omega)
    | (have := extLen_length h1; have := readN_length h2; omega)

/-- `Decoder.Skip`. -/
def skip (bs : Bytes) : Option Bytes := skipAll 1 bs

/-- `fields.Table[name]`: the field and its position. (Field names of a Go struct without tags are
    distinct; the first match is the only one.) -/
def lookup (name : Bytes) : List (Bytes × STy) → Option (Nat × STy)
  | [] => none
  | (nm, t) :: fs =>
    if nm = name then some (0, t)
    else (lookup name fs).map fun (i, t) => (i + 1, t)

/-- The map loop of `decodeStructValue` (decode_map.go:322-336): `n` times a key and either the
    field's value or a skipped value. -/
def mapLoop (fields : List (Bytes × STy)) : Nat → List SVal → Bytes → Option (List SVal × Bytes)
  | 0, vs, bs => some (vs, bs)
  | n + 1, vs, bs =>
    match decStr bs with
    | none => none
    | some (name, bs1) =>
      match lookup name fields with
      | some (i, t) =>
        match decScalar t bs1 with
        | none => none
        | some (v, bs2) => mapLoop fields n (vs.set i v) bs2
      | none =>
        match skip bs1 with
        | none => none
        | some bs2 => mapLoop fields n vs bs2

/-- The array loop (decode_map.go:303-312): the first `n` fields in order (`i >= n` ⇒ break). -/
def arrLoop : List (Bytes × STy) → Nat → Bytes → Option (List SVal × Bytes)
  | [], _, bs => some ([], bs)
  | fs, 0, bs => some (fs.map (fun f => f.2.zero), bs)
  | (_, t) :: fs, n + 1, bs =>
    match decScalar t bs with
    | none => none
    | some (v, bs1) =>
      match arrLoop fs n bs1 with
      | none => none
      | some (vs, bs2) => some (v :: vs, bs2)

/-- `decodeStructValue` (decode_map.go:270-339): `readCode`, `_mapLen(c)`, on `errInvalidCode`
    `arrayLen(c)`. -/
def decStruct (fields : List (Bytes × STy)) : Bytes → Option (List SVal × Bytes)
  | [] => none
  | c :: bs =>
    let n := c.toNat
    let zeros := fields.map (fun f => f.2.zero)
    if n = 0xc0 then some (zeros, bs)
    else if 0x80 ≤ n ∧ n ≤ 0x8f then mapLoop fields (n % 16) zeros bs
    else if n = 0xde then
      match readN 2 bs with
      | none => none
      | some (x, r) => mapLoop fields (beNat x) zeros r
    else if n = 0xdf then
      match readN 4 bs with
      | none => none
      | some (x, r) => mapLoop fields (beNat x) zeros r
    else
      let arr (k : Nat) (r : Bytes) : Option (List SVal × Bytes) :=
        match arrLoop fields k r with
        | none => none
        | some (vs, r1) =>
          -- "Skip extra values."
          match skipAll (k - fields.length) r1 with
          | none => none
          | some r2 => some (vs, r2)
      if 0x90 ≤ n ∧ n ≤ 0x9f then arr (n % 16) bs
      else if n = 0xdc then
        match readN 2 bs with
        | none => none
        | some (x, r) => arr (beNat x) r
      else if n = 0xdd then
        match readN 4 bs with
        | none => none
        | some (x, r) => arr (beNat x) r
      else none

/-- `Decoder.Decode(new(t))`. -/
def mpDecodeRest : Ty → Bytes → Option (Val × Bytes)
  | .scalar t, bs => (decScalar t bs).map fun (v, r) => (.scalar v, r)
  | .struct fs, bs => (decStruct fs bs).map fun (vs, r) => (.struct vs, r)

/-- `msgpack.Unmarshal`: the bytes after the first value are not looked at. -/
def mpDecode (t : Ty) (bs : Bytes) : Option Val := (mpDecodeRest t bs).map (·.1)

/-! ## The cursor codec -/

/-- `apifu.SerializeCursor`. -/
def cursorEnc (t : Ty) (v : Val) : String := b64enc (mpEncode t v)

/-- `apifu.DeserializeCursor(t, s)`; `none` = `nil`. -/
def cursorDec (t : Ty) (s : String) : Option Val :=
  match b64dec s with
  | none => none
  | some bs => mpDecode t bs

end ApiFu.C09.Codec
