/-
  C09 — the limited-window mode: the documented `ResolveEdges` contract and why a getter that
  honours it cannot change the page.
-/
import ApiFu.C09.Lemmas

namespace ApiFu.C09

variable {α : Type}

/-- The documented contract of `ConnectionConfig.ResolveEdges` (pagination.go:52-66) for a
    connection whose edge set is `E`:
    * the getter returns edges of the connection, none twice ("you should ensure that no duplicate
      edges are returned"); edges outside the range and out-of-order edges are allowed;
    * for a positive limit it returns at least the first `limit` edges of the range — an edge of the
      range that fewer than `limit` edges of the range precede must be present;
    * for a negative limit, the last `-limit` edges of the range. -/
structure HonoursWindow (lt : α → α → Bool) (E : List α) (g : Option α → Option α → Int → List α) : Prop where
  sub : ∀ a b lim c, c ∈ g a b lim → c ∈ E
  nodup : ∀ a b lim, (g a b lim).Nodup
  first : ∀ a b lim c, 0 < lim → c ∈ E → inRange lt a b c = true →
    (E.filter (fun d => inRange lt a b d && lt d c)).length < lim.toNat → c ∈ g a b lim
  last : ∀ a b lim c, lim < 0 → c ∈ E → inRange lt a b c = true →
    (E.filter (fun d => inRange lt a b d && lt c d)).length < (-lim).toNat → c ∈ g a b lim

theorem strictTotal_flip {lt : α → α → Bool} (h : StrictTotal lt) : StrictTotal (fun a b => lt b a) where
  irrefl := h.irrefl
  trans := fun h1 h2 => h.trans h2 h1
  total := fun a b => by
    rcases h.total a b with h' | h' | h'
    · exact Or.inr (Or.inr h')
    · exact Or.inr (Or.inl h')
    · exact Or.inl h'

theorem sorted_reverse {lt : α → α → Bool} {l : List α} (hs : Sorted lt l) :
    Sorted (fun a b => lt b a) l.reverse := by
  unfold Sorted at *
  exact List.pairwise_reverse.mpr hs

theorem sorted_nondecr {lt : α → α → Bool} (h : StrictTotal lt) {l : List α} (hs : Sorted lt l) :
    l.Pairwise (fun a b => lt b a = false) :=
  List.Pairwise.imp (fun hab => h.asymm hab) hs

/-- With distinct cursors `sort.Slice` yields the strictly increasing arrangement. -/
theorem sorted_sort {lt : α → α → Bool} (h : StrictTotal lt) {sort : List α → List α}
    (hs : LawfulSort lt sort) {l : List α} (hn : l.Nodup) : Sorted lt (sort l) := by
  have hnd : (sort l).Nodup := (hs l).1.symm.nodup hn
  have hp := (hs l).2
  unfold Sorted
  have hnd' := List.nodup_iff_pairwise_ne.mp hnd
  have := hp.and hnd'
  exact List.Pairwise.imp (fun ⟨h1, h2⟩ => h.lt_of_not_gt h1 h2) this

section
variable [DecidableEq α]

/-- An increasing list whose elements all occur in another increasing list is that list filtered. -/
theorem sorted_subset_eq_filter {lt : α → α → Bool} (h : StrictTotal lt) {R RG : List α}
    (hR : Sorted lt R) (hG : Sorted lt RG) (hsub : ∀ x, x ∈ RG → x ∈ R) :
    RG = R.filter (fun x => decide (x ∈ RG)) := by
  apply sorted_perm_unique h _ _ _ hG (sorted_nondecr h (List.Pairwise.filter _ hR))
  apply (List.perm_ext_iff_of_nodup (Sorted.nodup h hG) (Sorted.nodup h (List.Pairwise.filter _ hR))).mpr
  intro x
  simp only [List.mem_filter, decide_eq_true_eq]
  exact ⟨fun hx => ⟨hsub x hx, hx⟩, fun hx => hx.2⟩

/-- If an increasing sub-collection `RG` of the increasing list `R` contains the first `k`
    elements of `R`, its own first `k` elements are those. -/
theorem prefix_lemma {lt : α → α → Bool} (h : StrictTotal lt) {R RG : List α}
    (hR : Sorted lt R) (hG : Sorted lt RG) (hsub : ∀ x, x ∈ RG → x ∈ R) (k : Nat)
    (hpre : ∀ x, x ∈ R.take k → x ∈ RG) : RG.take k = R.take k := by
  have hf := sorted_subset_eq_filter h hR hG hsub
  have hsplit : R.filter (fun x => decide (x ∈ RG)) =
      R.take k ++ (R.drop k).filter (fun x => decide (x ∈ RG)) := by
    conv => lhs; rw [← List.take_append_drop k R]
    rw [List.filter_append]
    congr 1
    exact List.filter_eq_self.mpr (fun a ha => by simpa using hpre a ha)
  by_cases hk : k ≤ R.length
  · rw [hf, hsplit]
    exact List.take_left' (List.length_take_of_le hk)
  · have hk' : R.length ≤ k := by omega
    have hd : R.drop k = [] := List.drop_of_length_le hk'
    rw [hd] at hsplit
    simp only [List.filter_nil, List.append_nil] at hsplit
    rw [hf, hsplit, List.take_take]
    simp
end

/-- The number of range edges that precede the `i`-th range edge is `i` (in any arrangement `E` of
    the edge set). -/
theorem rank_lemma {lt : α → α → Bool} (h : StrictTotal lt) {E S : List α} (hperm : S.Perm E)
    (hs : Sorted lt S) (p : α → Bool) (i : Nat) (hi : i < (S.filter p).length) :
    (E.filter (fun d => p d && lt d (S.filter p)[i])).length = i := by
  have h1 : (E.filter (fun d => p d && lt d (S.filter p)[i])).length =
      (S.filter (fun d => p d && lt d (S.filter p)[i])).length :=
    (List.Perm.filter _ hperm).length_eq.symm
  have h2 : S.filter (fun d => p d && lt d (S.filter p)[i]) =
      (S.filter p).filter (fun d => lt d (S.filter p)[i]) := by
    rw [List.filter_filter]
    exact List.filter_congr (fun c _ => by simp [Bool.and_comm])
  rw [h1, h2, filter_lt_getElem h (List.Pairwise.filter p hs) i hi, List.length_take_of_le (by omega)]

section
variable [DecidableEq α]

/-- Forward window: the first `lim` edges of the range computed from the getter's reply are the
    first `lim` edges of the range of the whole connection. -/
theorem window_first {lt : α → α → Bool} (h : StrictTotal lt) {E S : List α}
    {g : Option α → Option α → Int → List α} (hg : HonoursWindow lt E g)
    (hperm : S.Perm E) (hsorted : Sorted lt S) (a b : Option α) (lim : Int) (hl : 0 < lim)
    {SG : List α} (hpG : SG.Perm (g a b lim)) (hsG : Sorted lt SG) :
    (SG.filter (inRange lt a b)).take lim.toNat = (S.filter (inRange lt a b)).take lim.toNat := by
  apply prefix_lemma h (List.Pairwise.filter _ hsorted) (List.Pairwise.filter _ hsG)
  · intro x hx
    have hx' := List.mem_filter.mp hx
    exact List.mem_filter.mpr ⟨hperm.mem_iff.mpr (hg.sub a b lim x (hpG.mem_iff.mp hx'.1)), hx'.2⟩
  · intro x hx
    obtain ⟨i, hi, hxi⟩ := List.mem_take_iff_getElem.mp hx
    have hil : i < (S.filter (inRange lt a b)).length := by omega
    have hxR : x ∈ S.filter (inRange lt a b) := List.mem_of_mem_take hx
    have hxR' := List.mem_filter.mp hxR
    have hrank := rank_lemma h hperm hsorted (inRange lt a b) i hil
    rw [hxi] at hrank
    have hxg : x ∈ g a b lim := hg.first a b lim x hl (hperm.mem_iff.mp hxR'.1) hxR'.2 (by omega)
    exact List.mem_filter.mpr ⟨hpG.mem_iff.mpr hxg, hxR'.2⟩

/-- Backward window: the same for the last `-lim` edges (the mirror image: reversed lists, flipped
    order). -/
theorem window_last {lt : α → α → Bool} (h : StrictTotal lt) {E S : List α}
    {g : Option α → Option α → Int → List α} (hg : HonoursWindow lt E g)
    (hperm : S.Perm E) (hsorted : Sorted lt S) (a b : Option α) (lim : Int) (hl : lim < 0)
    {SG : List α} (hpG : SG.Perm (g a b lim)) (hsG : Sorted lt SG) :
    (SG.filter (inRange lt a b)).reverse.take (-lim).toNat =
      (S.filter (inRange lt a b)).reverse.take (-lim).toNat := by
  have hflip := strictTotal_flip h
  rw [← List.filter_reverse, ← List.filter_reverse]
  apply prefix_lemma hflip (List.Pairwise.filter _ (sorted_reverse hsorted))
    (List.Pairwise.filter _ (sorted_reverse hsG))
  · intro x hx
    have hx' := List.mem_filter.mp hx
    refine List.mem_filter.mpr ⟨List.mem_reverse.mpr (hperm.mem_iff.mpr (hg.sub a b lim x (hpG.mem_iff.mp (List.mem_reverse.mp hx'.1)))), hx'.2⟩
  · intro x hx
    obtain ⟨i, hi, hxi⟩ := List.mem_take_iff_getElem.mp hx
    have hil : i < (S.reverse.filter (inRange lt a b)).length := by omega
    have hxR : x ∈ S.reverse.filter (inRange lt a b) := List.mem_of_mem_take hx
    have hxR' := List.mem_filter.mp hxR
    have hrank := rank_lemma hflip ((List.reverse_perm S).trans hperm) (sorted_reverse hsorted)
      (inRange lt a b) i hil
    rw [hxi] at hrank
    have hxE : x ∈ E := hperm.mem_iff.mp (List.mem_reverse.mp hxR'.1)
    have hxg : x ∈ g a b lim := hg.last a b lim x hl hxE hxR'.2 (by omega)
    exact List.mem_filter.mpr ⟨List.mem_reverse.mpr (hpG.mem_iff.mpr hxg), hxR'.2⟩

end

end ApiFu.C09
