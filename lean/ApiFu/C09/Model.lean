/-
  C09 — executable model of the connection machinery of api-fu, transliterated from the Go code.

    pagination/pagination.go:25-45   ApplyCursorsToEdges      → `applyCursorsToEdges`
    pagination/pagination.go:48-84   EdgesToReturn            → `edgesToReturn`
    pagination.go:484-573            Connection's Resolve     → `resolve` (argument checks, cursor
                                                                 decoding, limit, lazy zero-edge path)
    pagination.go:577-657            completeConnection       → `complete`

  The Go code is generic in the cursor type and only ever calls `LessThan`; so is the model: cursors
  are any type `α` with a comparator `lt : α → α → Bool` (the driver `c09model` uses `Int` with `<`,
  the C16 model uses (nanoseconds, id) pairs ordered lexicographically). An edge is identified by
  its cursor (the property is about edge sets with distinct cursors). What the model does *not* fix
  is a parameter:

    * `sort`   : what `sort.Slice` does to the filtered slice (theorems assume only that it returns a
                 permutation ordered by the comparator; the driver uses `isort`);
    * `dec`    : `DeserializeCursor` (msgpack + base64url). Theorems about emitted cursors assume the
                 codec is lawful (`dec (enc c) = some c`, `enc c ≠ ""`); the driver's `dec` is a table
                 the harness fills from the real `DeserializeCursor`;
    * `App`    : the application callbacks — `allEdges` (what `ResolveAllEdges` returns, in the
                 application's order), `getter` (`ResolveEdges`), `totalCount` (`ResolveTotalCount`).

  Go panics are explicit: `edgesToReturn` returns `none` where the Go code slices with a negative
  count (`edges[:*first]`, `edges[len(edges)-*last:]` with a negative value panic), `resolve`
  returns `Out.crash` if that were ever reached.  Promise chaining (`chain`, api.go:135-148) applies
  the same continuation to the resolved slice, so the model's result does not depend on whether the
  slice arrives directly or through a promise; that this is also true of the code is observed by the
  correspondence in all four resolver modes.

  Core Lean only (linked into the driver `c09model`).
-/
namespace ApiFu.C09

/-- `pagination.PageInfo`. -/
structure PageInfo (α : Type) where
  hasPreviousPage : Bool
  hasNextPage : Bool
  startCursor : Option α
  endCursor : Option α
  deriving Repr, DecidableEq, Inhabited

section
variable {α : Type} (lt : α → α → Bool)

/-- `before != nil && !c.LessThan(*before)` (pagination.go:32). -/
def pastBefore (before : Option α) (c : α) : Bool :=
  match before with
  | none => false
  | some b => !(lt c b)

/-- `after != nil && !(*after).LessThan(c)` (pagination.go:36). -/
def notPastAfter (after : Option α) (c : α) : Bool :=
  match after with
  | none => false
  | some a => !(lt a c)

/-- The loop of `ApplyCursorsToEdges` (pagination.go:30-41). Result: (filtered,
    hadEdgesBeforeAfter, hadEdgesAfterBefore). -/
def applyCursorsLoop (after before : Option α) : List α → List α × Bool × Bool
  | [] => ([], false, false)
  | c :: rest =>
    let r := applyCursorsLoop after before rest
    if pastBefore lt before c then (r.1, r.2.1, true)
    else if notPastAfter lt after c then (r.1, true, r.2.2)
    else (c :: r.1, r.2.1, r.2.2)

/-- `ApplyCursorsToEdges` (pagination.go:25-45). -/
def applyCursorsToEdges (edges : List α) (after before : Option α) : List α × Bool × Bool :=
  if after.isNone && before.isNone then (edges, false, false)
  else applyCursorsLoop lt after before edges

/-- `if first != nil { … }` (pagination.go:56-63). `none` = the Go slice expression panics. -/
def truncateFirst (es : List α) (hadAfterBefore : Bool) : Option Int → Option (List α × Bool)
  | none => some (es, hadAfterBefore)
  | some f =>
    if (es.length : Int) > f then
      (if f < 0 then none else some (es.take f.toNat, true))
    else some (es, false)

/-- `if last != nil { … }` (pagination.go:65-72). -/
def truncateLast (es : List α) (hadBeforeAfter : Bool) : Option Int → Option (List α × Bool)
  | none => some (es, hadBeforeAfter)
  | some l =>
    if (es.length : Int) > l then
      (if l < 0 then none else some (es.drop (es.length - l.toNat), true))
    else some (es, false)

/-- `EdgesToReturn` (pagination.go:48-84). `none` = panic (negative `first`/`last`). -/
def edgesToReturn (sort : List α → List α) (edges : List α)
    (after before : Option α) (first last : Option Int) : Option (List α × PageInfo α) :=
  let r := applyCursorsToEdges lt edges after before
  let es := sort r.1
  match truncateFirst es r.2.2 first with
  | none => none
  | some (es2, hasNext) =>
    match truncateLast es2 r.2.1 last with
    | none => none
    | some (es3, hasPrev) =>
      some (es3, { hasPreviousPage := hasPrev, hasNextPage := hasNext,
                   startCursor := es3.head?, endCursor := es3.getLast? })

/-- Insertion sort by the strict comparator — the driver's instance of `sort.Slice`. -/
def insertSorted (c : α) : List α → List α
  | [] => [c]
  | d :: ds => if lt c d then c :: d :: ds else d :: insertSorted c ds

def isort : List α → List α
  | [] => []
  | c :: cs => insertSorted lt c (isort cs)

end

/-! ## The `Connection` resolver -/

inductive Mode where
  | all      -- `ResolveAllEdges` configured
  | window   -- `ResolveEdges` configured
  deriving Repr, DecidableEq

/-- The error messages of pagination.go:485-515, as classes. -/
inductive Err where
  | firstNegative        -- "The `first` argument cannot be negative."
  | bothFirstAndLast     -- "You cannot provide both `first` and `last` arguments."
  | lastNegative         -- "The `last` argument cannot be negative."
  | neitherFirstNorLast  -- "You must provide either the `first` or `last` argument."
  | invalidAfter         -- "Invalid after cursor."
  | invalidBefore        -- "Invalid before cursor."
  deriving Repr, DecidableEq

/-- The connection arguments as the resolver sees them in `ctx.Arguments` (absent and `null` are
    both `none`: the type assertions `.(int)`, `.(string)` fail on both). -/
structure Args where
  first : Option Int
  last : Option Int
  after : Option String
  before : Option String
  deriving Repr

/-- Which lazily computed fields of the connection the query selects (`edges` costs nothing). -/
structure Sel where
  pageInfo : Bool
  totalCount : Bool
  deriving Repr

/-- Calls received by the application: `ResolveAllEdges(ctx)` or `ResolveEdges(ctx, after, before, limit)`. -/
inductive Call (α : Type) where
  | all
  | window (after before : Option α) (limit : Int)
  deriving Repr, DecidableEq

/-- The application. -/
structure App (α : Type) where
  allEdges : List α
  getter : Option α → Option α → Int → List α
  totalCount : Option Int          -- `config.ResolveTotalCount`'s answer; `none` = not configured

structure Conn (α : Type) where
  edges : List α
  pageInfo : Option (PageInfo α)   -- `some` iff selected
  totalCount : Option Int          -- `some` iff selected and the field exists
  calls : List (Call α)
  deriving Repr, DecidableEq

inductive Out (α : Type) where
  | error (e : Err)
  | crash                          -- a Go panic would have been reached
  | ok (c : Conn α)
  deriving Repr, DecidableEq

/-- pagination.go:485-497. -/
def checkArgs (a : Args) : Option Err :=
  match a.first with
  | some f =>
    if f < 0 then some .firstNegative
    else if a.last.isSome then some .bothFirstAndLast
    else none
  | none =>
    match a.last with
    | some l => if l < 0 then some .lastNegative else none
    | none => some .neitherFirstNorLast

/-- pagination.go:501-515: `""` and absent are the same; otherwise `DeserializeCursor`, `nil` ⇒ error. -/
def decodeArg {α : Type} (dec : String → Option α) : Option String → Option (Option α)   -- outer none = invalid
  | none => some none
  | some s => if s = "" then some none else
    match dec s with
    | none => none
    | some c => some (some c)

/-- pagination.go:517-522. Only meaningful after `checkArgs` succeeded. -/
def limitOf (a : Args) : Int :=
  match a.first with
  | some f => f + 1
  | none => -((a.last.getD 0) + 1)

/-- The closure `resolve` of pagination.go:523-530: one call on the application. -/
def fetch {α : Type} (app : App α) (mode : Mode) (after before : Option α) (limit : Int) : List α × Call α :=
  match mode with
  | .all => (app.allEdges, .all)
  | .window => (app.getter after before limit, .window after before limit)

/-- `completeConnection` (pagination.go:577-657) on a resolved slice: the page, its page info and
    the connection's total count. `none` = panic inside `EdgesToReturn`. -/
def complete {α : Type} (lt : α → α → Bool) (sort : List α → List α) (app : App α) (slice : List α)
    (after before : Option α) (first last : Option Int) : Option (List α × PageInfo α × Int) :=
  match edgesToReturn lt sort slice after before first last with
  | none => none
  | some (es, pi) =>
    some (es, pi, match app.totalCount with
                  | some n => n
                  | none => (slice.length : Int))

/-- Does the `totalCount` field exist (pagination.go:462)? -/
def hasTotalCountField {α : Type} (app : App α) (mode : Mode) : Bool :=
  mode == .all || app.totalCount.isSome

/-- pagination.go:517-573 — what happens once the arguments are checked and the cursors decoded:
    the limit, the lazy zero-edge path, the fetch and `completeConnection`, together with the lazily
    evaluated `pageInfo` / `totalCount` field resolvers of the returned `*connection`. -/
def resolveDecoded {α : Type} (lt : α → α → Bool) (sort : List α → List α)
    (app : App α) (mode : Mode) (a : Args) (sel : Sel) (after before : Option α) : Out α :=
  let limit := limitOf a
  let wantTC := sel.totalCount && hasTotalCountField app mode
  if limit = 1 ∨ limit = -1 then
    -- lazy zero-edge path (pagination.go:531-566): nothing is fetched unless asked for
    let piPart : Option (Option (PageInfo α) × List (Call α)) :=
      if sel.pageInfo then
        let (slice, call) := fetch app mode after before limit
        match complete lt sort app slice after before a.first a.last with
        | none => none
        | some (_, pi, _) => some (some pi, [call])
      else some (none, [])
    let tcPart : Option Int × List (Call α) :=
      if wantTC then
        match app.totalCount with
        | some n => (some n, [])
        | none => (some (app.allEdges.length : Int), [.all])    -- only reachable in mode `all`
      else (none, [])
    match piPart with
    | none => .crash
    | some (pi, calls) => .ok { edges := [], pageInfo := pi, totalCount := tcPart.1, calls := calls ++ tcPart.2 }
  else
    let (slice, call) := fetch app mode after before limit
    match complete lt sort app slice after before a.first a.last with
    | none => .crash
    | some (es, pi, tc) =>
      .ok { edges := es,
            pageInfo := if sel.pageInfo then some pi else none,
            totalCount := if wantTC then some tc else none,
            calls := [call] }

/-- The `Resolve` function of `Connection` (pagination.go:484-573). -/
def resolve {α : Type} (lt : α → α → Bool) (sort : List α → List α) (dec : String → Option α)
    (app : App α) (mode : Mode) (a : Args) (sel : Sel) : Out α :=
  match checkArgs a with
  | some e => .error e
  | none =>
    match decodeArg dec a.after with
    | none => .error .invalidAfter
    | some after =>
      match decodeArg dec a.before with
      | none => .error .invalidBefore
      | some before => resolveDecoded lt sort app mode a sel after before

end ApiFu.C09
