/-
  Driver operations for the cursor codec model (`Codec.lean`); used by `c09model` and `c16model`.

    (b64enc HEX)                → (ok "<text>")          base64.RawURLEncoding.EncodeToString
    (b64dec "<text>")           → invalid | (ok HEX)     base64.RawURLEncoding.DecodeString
    (cursor-enc TY VAL)         → (ok "<text>")          apifu.SerializeCursor
    (cursor-dec TY "<text>")    → invalid | (ok VAL)     apifu.DeserializeCursor(TY, text)

  HEX  = the bytes in lower-case hexadecimal (`""` for none)
  TY   = i8 | i16 | i32 | i64 | u8 | u16 | u32 | u64 | str | (struct (NAME sty) …)
  VAL  = integer | (s HEX) | (v sval …)
-/
import ApiFu.Common.Sexp
import ApiFu.C09.Codec

open ApiFu

namespace ApiFu.C09.Codec.Driver

def hexDigit (n : Nat) : Char :=
  if n < 10 then Char.ofNat (n + 48) else Char.ofNat (n - 10 + 97)

def toHex (bs : Bytes) : String :=
  String.ofList (bs.flatMap fun b => [hexDigit (b.toNat / 16), hexDigit (b.toNat % 16)])

def hexVal (c : Char) : Option Nat :=
  if '0' ≤ c ∧ c ≤ '9' then some (c.toNat - 48)
  else if 'a' ≤ c ∧ c ≤ 'f' then some (c.toNat - 97 + 10)
  else none

def ofHexChars : List Char → Option Bytes
  | [] => some []
  | [_] => none
  | a :: b :: rest =>
    match hexVal a, hexVal b, ofHexChars rest with
    | some x, some y, some bs => some (UInt8.ofNat (x * 16 + y) :: bs)
    | _, _, _ => none

def ofHex (s : String) : Option Bytes := ofHexChars s.toList

def sty? : Sexp → Option STy
  | Sexp.atom "i8" => some (.int .w8)
  | Sexp.atom "i16" => some (.int .w16)
  | Sexp.atom "i32" => some (.int .w32)
  | Sexp.atom "i64" => some (.int .w64)
  | Sexp.atom "u8" => some (.uint .w8)
  | Sexp.atom "u16" => some (.uint .w16)
  | Sexp.atom "u32" => some (.uint .w32)
  | Sexp.atom "u64" => some (.uint .w64)
  | Sexp.atom "str" => some .str
  | _ => none

def field? : Sexp → Option (Bytes × STy)
  | Sexp.list [Sexp.atom name, t] => (sty? t).map fun t => (name.toUTF8.toList, t)
  | _ => none

def ty? : Sexp → Option Ty
  | Sexp.list (Sexp.atom "struct" :: fs) => (fs.mapM field?).map Ty.struct
  | x => (sty? x).map Ty.scalar

def sval? : Sexp → Option SVal
  | Sexp.list [Sexp.atom "s", Sexp.atom h] => (ofHex h).map SVal.str
  | x => x.int?.map SVal.int

def val? : Sexp → Option Val
  | Sexp.list (Sexp.atom "v" :: vs) => (vs.mapM sval?).map Val.struct
  | x => (sval? x).map Val.scalar

def svalSexp : SVal → Sexp
  | .int n => Sexp.ofInt n
  | .str b => Sexp.list [Sexp.atom "s", Sexp.atom (toHex b)]

def valSexp : Val → Sexp
  | .scalar v => svalSexp v
  | .struct vs => Sexp.list (Sexp.atom "v" :: vs.map svalSexp)

/-- Executable form of `SVal.HasType`. -/
def hasTypeB : SVal → STy → Bool
  | .int n, .int w => decide (-(2 : Int) ^ (w.bits - 1) ≤ n ∧ n < (2 : Int) ^ (w.bits - 1))
  | .int n, .uint w => decide (0 ≤ n ∧ n < (2 : Int) ^ w.bits)
  | .str _, .str => true
  | _, _ => false

def wellTypedB : Val → Ty → Bool
  | .scalar v, .scalar t => hasTypeB v t
  | .struct vs, .struct fs => vs.length == fs.length && (vs.zip fs).all fun (v, f) => hasTypeB v f.2
  | _, _ => false

/-- The cursor type of the harness's plain connections: `struct { K int; P string }`. -/
def harnessCurTy : Ty := .struct [([75], .int .w64), ([80], .str)]

/-- `DeserializeCursor(reflect.TypeOf(cur{}), s)` followed by `.K` — the position of a `cur` cursor
    (the harness's comparator orders by `K`; `P` is padding). -/
def decK (s : String) : Option Int :=
  match cursorDec harnessCurTy s with
  | some (.struct [.int k, .str _]) => some k
  | _ => none

/-- The harness's `curOf(c) = cur{c, pad(c)}` with `pad(c) = "p" × (((c % 3) + 3) % 3)`, serialized. -/
def encK (k : Int) : String :=
  cursorEnc harnessCurTy (.struct [.int k, .str (List.replicate (k % 3).toNat 112)])

/-- `none` = not a codec operation. -/
def handle? : Sexp → Option String
  | Sexp.list [Sexp.atom "b64enc", Sexp.atom h] =>
    some (match ofHex h with
      | some bs => toString (Sexp.list [Sexp.atom "ok", Sexp.atom (b64enc bs)])
      | none => "bad-op")
  | Sexp.list [Sexp.atom "b64dec", Sexp.atom s] =>
    some (match b64dec s with
      | some bs => toString (Sexp.list [Sexp.atom "ok", Sexp.atom (toHex bs)])
      | none => "invalid")
  | Sexp.list [Sexp.atom "cursor-enc", t, v] =>
    some (match ty? t, val? v with
      | some t, some v =>
        if wellTypedB v t then toString (Sexp.list [Sexp.atom "ok", Sexp.atom (cursorEnc t v)]) else "bad-op"
      | _, _ => "bad-op")
  | Sexp.list [Sexp.atom "cursor-dec", t, Sexp.atom s] =>
    some (match ty? t with
      | some t =>
        match cursorDec t s with
        | some v => toString (Sexp.list [Sexp.atom "ok", valSexp v])
        | none => "invalid"
      | none => "bad-op")
  | _ => none

end ApiFu.C09.Codec.Driver
