/-
  C09 — property theorems.

  Standing hypotheses (exactly what the property statement grants):
    * `StrictTotal lt`  — cursors are totally ordered by `LessThan`;
    * `S.Perm E`, `Sorted lt S` — the edge set `E` has distinct cursors and `S` is its arrangement in
      cursor order (`Sorted` is strict, so it implies distinctness);
    * `LawfulSort lt sort` — `sort.Slice` returns a permutation ordered by the comparator;
    * `Serves lt E app mode` — the application supplies all edges of `E` in some order
      (`ResolveAllEdges`) or honours the documented `ResolveEdges` contract for `E`;
    * `LawfulCodec dec enc` — where emitted cursors are sent back.
  The theorems hold for every cursor type, every edge set of every size, every argument combination
  and every page size; nothing here is checked on samples.
-/
import ApiFu.C09.Walk

namespace ApiFu.C09

variable {α : Type}

/-- A request the connection field accepts: exactly one non-negative count (`checkArgs`), and the
    `after` / `before` strings decode to the positions `av` / `bv` (`none` = absent or `""`). -/
structure Accepted (dec : String → Option α) (a : Args) (av bv : Option α) : Prop where
  args : checkArgs a = none
  after : decodeArg dec a.after = some av
  before : decodeArg dec a.before = some bv

theorem Accepted.resolve_eq {dec : String → Option α} {a : Args} {av bv : Option α}
    (hacc : Accepted dec a av bv) (lt : α → α → Bool) (sort : List α → List α) (app : App α)
    (mode : Mode) (sel : Sel) :
    resolve lt sort dec app mode a sel = resolveDecoded lt sort app mode a sel av bv :=
  resolve_accepted lt sort dec app mode a sel av bv hacc.args hacc.after hacc.before

section
variable [DecidableEq α]

/-! ### pagination.EdgesToReturn (the direct API) -/

/-- **edgesToReturn_eq_relay** — for every edge list `E` with distinct cursors, in any order, and
    every `after`/`before`/`first`/`last`, `EdgesToReturn` returns exactly the edges the Relay
    algorithm selects from the list in cursor order — and panics exactly where the specification
    says "throw an error" (a negative count). -/
theorem edgesToReturn_eq_relay {lt : α → α → Bool} (h : StrictTotal lt) {sort : List α → List α}
    (hs : LawfulSort lt sort) {E S : List α} (hperm : S.Perm E) (hsorted : Sorted lt S)
    (after before : Option α) (f l : Option Int) :
    (edgesToReturn lt sort E after before f l).map (·.1) = Relay.edgesToReturn lt S before after f l := by
  by_cases hnn : NonNeg f ∧ NonNeg l
  · rw [edgesToReturn_eq h hs hperm hsorted after before f l hnn.1 hnn.2,
      relay_edgesToReturn_eq h hsorted after before f l hnn.1 hnn.2]
    rfl
  · rw [edgesToReturn_neg lt sort E after before f l hnn]
    unfold Relay.edgesToReturn
    by_cases hf : NonNeg f
    · have hl : ¬ NonNeg l := fun hl => hnn ⟨hf, hl⟩
      cases l with
      | none => exact absurd trivial hl
      | some n =>
        have hn : n < 0 := by
          have : ¬ (0 ≤ n) := hl
          omega
        cases f with
        | none => simp [hn]
        | some m =>
          have hm : ¬ m < 0 := by
            have : 0 ≤ m := hf
            omega
          simp only [hm, if_false, hn, if_true]
          split <;> rfl
    · cases f with
      | none => exact absurd trivial hf
      | some m =>
        have hm : m < 0 := by
          have : ¬ (0 ≤ m) := hf
          omega
        simp [hm]

/-- **edgesToReturn_page_info** — whenever `EdgesToReturn` returns: the page is in cursor order,
    `StartCursor`/`EndCursor` are the first/last returned edge's cursor, a page-info flag is true
    only if an edge of `E` exists outside the page beyond it in that direction, and (unless `first`
    and `last` are both given, which the connection field rejects) each flag is one the Relay
    specification admits: where it prescribes a value the flag has it. -/
theorem edgesToReturn_page_info {lt : α → α → Bool} (h : StrictTotal lt) {sort : List α → List α}
    (hs : LawfulSort lt sort) {E S : List α} (hperm : S.Perm E) (hsorted : Sorted lt S)
    (after before : Option α) (f l : Option Int) (page : List α) (pi : PageInfo α)
    (hret : edgesToReturn lt sort E after before f l = some (page, pi)) :
    Sorted lt page ∧
    pi.startCursor = page.head? ∧ pi.endCursor = page.getLast? ∧
    (pi.hasNextPage = true → ∃ e, e ∈ E ∧ e ∉ page ∧ ∀ p, p ∈ page → lt p e = true) ∧
    (pi.hasPreviousPage = true → ∃ e, e ∈ E ∧ e ∉ page ∧ ∀ p, p ∈ page → lt e p = true) ∧
    ((f = none ∨ l = none) →
      (Relay.hasNextPage lt S before after f l).admits pi.hasNextPage = true ∧
      (Relay.hasPreviousPage lt S before after f l).admits pi.hasPreviousPage = true) := by
  have hnn : NonNeg f ∧ NonNeg l := by
    apply Classical.byContradiction
    intro hneg
    rw [edgesToReturn_neg lt sort E after before f l hneg] at hret
    cases hret
  rw [edgesToReturn_eq h hs hperm hsorted after before f l hnn.1 hnn.2] at hret
  have hpage : page = lastTrunc (firstTrunc (S.filter (inRange lt after before)) f) l :=
    (congrArg Prod.fst (Option.some.inj hret)).symm
  have hpi : pi = pageInfoOf lt E (S.filter (inRange lt after before)) after before f l :=
    (congrArg Prod.snd (Option.some.inj hret)).symm
  -- names
  have hR : Sorted lt (S.filter (inRange lt after before)) := List.Pairwise.filter _ hsorted
  have hXsub : (firstTrunc (S.filter (inRange lt after before)) f).Sublist (S.filter (inRange lt after before)) := by
    cases f with
    | none => exact List.Sublist.refl _
    | some n => exact List.take_sublist _ _
  have hPsub : page.Sublist (firstTrunc (S.filter (inRange lt after before)) f) := by
    rw [hpage]
    cases l with
    | none => exact List.Sublist.refl _
    | some n => exact List.drop_sublist _ _
  have hX : Sorted lt (firstTrunc (S.filter (inRange lt after before)) f) := List.Pairwise.sublist hXsub hR
  have hP : Sorted lt page := List.Pairwise.sublist hPsub hX
  have hmemR : ∀ x, x ∈ S.filter (inRange lt after before) → x ∈ E ∧ inRange lt after before x = true :=
    fun x hx => ⟨hperm.mem_iff.mp (List.mem_filter.mp hx).1, (List.mem_filter.mp hx).2⟩
  have hpageR : ∀ p, p ∈ page → p ∈ S.filter (inRange lt after before) :=
    fun p hp => hXsub.subset (hPsub.subset hp)
  refine ⟨hP, by rw [hpi, hpage]; rfl, by rw [hpi, hpage]; rfl, ?_, ?_, ?_⟩
  · -- hasNextPage is sound
    intro hflag
    rw [hpi] at hflag
    cases f with
    | some n =>
      simp only [pageInfoOf, decide_eq_true_eq] at hflag
      have hn : 0 ≤ n := hnn.1
      have hlen : n.toNat < (S.filter (inRange lt after before)).length := by omega
      -- the edge right after the cut
      have hsplit := List.take_append_drop n.toNat (S.filter (inRange lt after before))
      have hpw : Sorted lt (List.take n.toNat (S.filter (inRange lt after before)) ++
          List.drop n.toNat (S.filter (inRange lt after before))) := by rw [hsplit]; exact hR
      have hcross := (List.pairwise_append.mp hpw).2.2
      have he : (S.filter (inRange lt after before))[n.toNat] ∈ List.drop n.toNat (S.filter (inRange lt after before)) := by
        rw [List.drop_eq_getElem_cons hlen]; exact List.mem_cons_self
      have hbeyond : ∀ p, p ∈ page → lt p (S.filter (inRange lt after before))[n.toNat] = true :=
        fun p hp => hcross p (hPsub.subset hp) _ he
      refine ⟨_, (hmemR _ (List.getElem_mem hlen)).1, ?_, hbeyond⟩
      intro hin
      have := hbeyond _ hin
      rw [h.irrefl] at this; cases this
    | none =>
      simp only [pageInfoOf] at hflag
      obtain ⟨e, heE, hpb⟩ := List.any_eq_true.mp hflag
      have hbeyond : ∀ p, p ∈ page → lt p e = true := by
        intro p hp
        have hr := (hmemR p (hpageR p hp)).2
        cases before with
        | none => simp [pastBefore] at hpb
        | some b =>
          simp only [pastBefore, Bool.not_eq_true'] at hpb
          have hpb' : lt p b = true := by
            simp only [inRange, pastBefore, Bool.and_eq_true, Bool.not_eq_true', Bool.not_eq_false'] at hr
            simpa using hr.1
          -- p < b and ¬ e < b give p < e
          rcases h.total p e with h1 | h1 | h1
          · exact h1
          · subst h1; rw [hpb] at hpb'; cases hpb'
          · have := h.trans h1 hpb'; rw [hpb] at this; cases this
      refine ⟨e, heE, ?_, hbeyond⟩
      intro hin
      have := hbeyond _ hin
      rw [h.irrefl] at this; cases this
  · -- hasPreviousPage is sound
    intro hflag
    rw [hpi] at hflag
    cases l with
    | some n =>
      simp only [pageInfoOf, decide_eq_true_eq] at hflag
      have hn : 0 ≤ n := hnn.2
      have hlen : n.toNat < (firstTrunc (S.filter (inRange lt after before)) f).length := by omega
      have hk : (firstTrunc (S.filter (inRange lt after before)) f).length - n.toNat - 1 <
          (firstTrunc (S.filter (inRange lt after before)) f).length := by omega
      have hsplit := List.take_append_drop ((firstTrunc (S.filter (inRange lt after before)) f).length - n.toNat)
        (firstTrunc (S.filter (inRange lt after before)) f)
      have hpw : Sorted lt (List.take ((firstTrunc (S.filter (inRange lt after before)) f).length - n.toNat)
          (firstTrunc (S.filter (inRange lt after before)) f) ++
          List.drop ((firstTrunc (S.filter (inRange lt after before)) f).length - n.toNat)
          (firstTrunc (S.filter (inRange lt after before)) f)) := by rw [hsplit]; exact hX
      have hcross := (List.pairwise_append.mp hpw).2.2
      have he : (firstTrunc (S.filter (inRange lt after before)) f)[(firstTrunc (S.filter (inRange lt after before)) f).length - n.toNat - 1] ∈
          List.take ((firstTrunc (S.filter (inRange lt after before)) f).length - n.toNat)
            (firstTrunc (S.filter (inRange lt after before)) f) := by
        rw [List.mem_take_iff_getElem]
        exact ⟨_, by omega, rfl⟩
      have hbeyond : ∀ p, p ∈ page → lt (firstTrunc (S.filter (inRange lt after before)) f)[(firstTrunc (S.filter (inRange lt after before)) f).length - n.toNat - 1] p = true := by
        intro p hp
        rw [hpage] at hp
        exact hcross _ he p hp
      refine ⟨_, (hmemR _ (hXsub.subset (List.getElem_mem hk))).1, ?_, hbeyond⟩
      intro hin
      have := hbeyond _ hin
      rw [h.irrefl] at this; cases this
    | none =>
      simp only [pageInfoOf] at hflag
      obtain ⟨e, heE, hpb⟩ := List.any_eq_true.mp hflag
      simp only [Bool.and_eq_true, Bool.not_eq_true'] at hpb
      have hbeyond : ∀ p, p ∈ page → lt e p = true := by
        intro p hp
        have hr := (hmemR p (hpageR p hp)).2
        cases after with
        | none => simp [notPastAfter] at hpb
        | some a =>
          have hea : lt a e = false := by simpa [notPastAfter] using hpb.2
          have hap : lt a p = true := by
            simp only [inRange, notPastAfter, Bool.and_eq_true, Bool.not_eq_true', Bool.not_eq_false'] at hr
            simpa using hr.2
          rcases h.total e p with h1 | h1 | h1
          · exact h1
          · subst h1; rw [hea] at hap; cases hap
          · have := h.trans hap h1; rw [hea] at this; cases this
      refine ⟨e, heE, ?_, hbeyond⟩
      intro hin
      have := hbeyond _ hin
      rw [h.irrefl] at this; cases this
  · -- the flags are admitted by the specification
    intro hone
    rw [hpi]
    constructor
    · cases f with
      | some n =>
        simp [Relay.hasNextPage, relay_applyCursors_eq h hsorted, pageInfoOf, Relay.Req.admits]
      | none =>
        cases before with
        | none => simp [Relay.hasNextPage, pageInfoOf, Relay.Req.admits, pastBefore]
        | some b =>
          have hfun : S.any (fun c => !(lt c b)) = E.any (pastBefore lt (some b)) := by
            rw [hperm.any_eq]; rfl
          simp only [Relay.hasNextPage, pageInfoOf, Relay.Req.admits, hfun]
          cases E.any (pastBefore lt (some b)) <;> rfl
    · cases l with
      | some n =>
        have hf : f = none := by
          rcases hone with h1 | h1
          · exact h1
          · cases h1
        subst hf
        simp [Relay.hasPreviousPage, relay_applyCursors_eq h hsorted, pageInfoOf, Relay.Req.admits, firstTrunc]
      | none =>
        cases after with
        | none => simp [Relay.hasPreviousPage, pageInfoOf, Relay.Req.admits, notPastAfter]
        | some a =>
          simp only [Relay.hasPreviousPage, pageInfoOf, Relay.Req.admits, notPastAfter]
          rw [← hperm.any_eq]
          cases hany : S.any (fun c => !pastBefore lt before c && !lt a c) with
          | false => simp
          | true =>
            obtain ⟨e, he, hp⟩ := List.any_eq_true.mp hany
            simp only [Bool.and_eq_true] at hp
            have : S.any (fun c => !lt a c) = true := List.any_eq_true.mpr ⟨e, he, hp.2⟩
            simp [this]

/-! ### The connection field -/

/-- **edges_eq_relay** — a connection field, in either resolver mode, answers every accepted
    request with exactly the edges the Relay algorithm selects from the connection in cursor order
    (for cursors that belong to no edge: read as positions). -/
theorem edges_eq_relay {lt : α → α → Bool} (h : StrictTotal lt) {sort : List α → List α}
    (hs : LawfulSort lt sort) {E S : List α} (hperm : S.Perm E) (hsorted : Sorted lt S)
    {app : App α} {mode : Mode} (hserve : Serves lt E app mode)
    {dec : String → Option α} {a : Args} {av bv : Option α} (hacc : Accepted dec a av bv) (sel : Sel) :
    ∃ c, resolve lt sort dec app mode a sel = .ok c ∧
      some c.edges = Relay.edgesToReturn lt S bv av a.first a.last ∧ Sorted lt c.edges := by
  obtain ⟨c, hres, hedges, _⟩ := conn_closed_form h hs hperm hsorted hserve a sel av bv hacc.args
  obtain ⟨hf, hl⟩ := checkArgs_nonneg hacc.args
  refine ⟨c, by rw [hacc.resolve_eq, hres], ?_, ?_⟩
  · rw [relay_edgesToReturn_eq h hsorted av bv a.first a.last hf hl, hedges]
  · rw [hedges]
    have hR : Sorted lt (S.filter (inRange lt av bv)) := List.Pairwise.filter _ hsorted
    have h1 : (firstTrunc (S.filter (inRange lt av bv)) a.first).Sublist (S.filter (inRange lt av bv)) := by
      cases a.first with
      | none => exact List.Sublist.refl _
      | some n => exact List.take_sublist _ _
    have h2 : (lastTrunc (firstTrunc (S.filter (inRange lt av bv)) a.first) a.last).Sublist
        (firstTrunc (S.filter (inRange lt av bv)) a.first) := by
      cases a.last with
      | none => exact List.Sublist.refl _
      | some n => exact List.drop_sublist _ _
    exact List.Pairwise.sublist (h2.trans h1) hR

/-- **cursors_first_last** — `startCursor` / `endCursor` are the cursor of the first / last returned
    edge (absent on an empty page; the field then serialises `""`). -/
theorem cursors_first_last {lt : α → α → Bool} (h : StrictTotal lt) {sort : List α → List α}
    (hs : LawfulSort lt sort) {E S : List α} (hperm : S.Perm E) (hsorted : Sorted lt S)
    {app : App α} {mode : Mode} (hserve : Serves lt E app mode)
    {dec : String → Option α} {a : Args} {av bv : Option α} (hacc : Accepted dec a av bv) (sel : Sel)
    (hsel : sel.pageInfo = true) :
    ∃ c pi, resolve lt sort dec app mode a sel = .ok c ∧ c.pageInfo = some pi ∧
      pi.startCursor = c.edges.head? ∧ pi.endCursor = c.edges.getLast? := by
  obtain ⟨c, hres, _, _, hpi, _⟩ := conn_closed_form h hs hperm hsorted hserve a sel av bv hacc.args
  obtain ⟨pi, hpi1, hstart, hend, _⟩ := hpi hsel
  exact ⟨c, pi, by rw [hacc.resolve_eq, hres], hpi1, hstart, hend⟩

/-- **flags_sound** — in either mode: each flag is one the Relay specification admits (where it
    prescribes a value — the side of the count — the flag has exactly that value; where it only
    permits `true` the flag is true only if an edge exists at or beyond the cursor), and a flag is
    never true unless an edge of the connection exists outside the page beyond it in that
    direction. -/
theorem flags_sound {lt : α → α → Bool} (h : StrictTotal lt) {sort : List α → List α}
    (hs : LawfulSort lt sort) {E S : List α} (hperm : S.Perm E) (hsorted : Sorted lt S)
    {app : App α} {mode : Mode} (hserve : Serves lt E app mode)
    {dec : String → Option α} {a : Args} {av bv : Option α} (hacc : Accepted dec a av bv) (sel : Sel)
    (hsel : sel.pageInfo = true) :
    ∃ c pi, resolve lt sort dec app mode a sel = .ok c ∧ c.pageInfo = some pi ∧
      (Relay.hasNextPage lt S bv av a.first a.last).admits pi.hasNextPage = true ∧
      (Relay.hasPreviousPage lt S bv av a.first a.last).admits pi.hasPreviousPage = true ∧
      (pi.hasNextPage = true → ∃ e, e ∈ E ∧ e ∉ c.edges ∧ ∀ p, p ∈ c.edges → lt p e = true) ∧
      (pi.hasPreviousPage = true → ∃ e, e ∈ E ∧ e ∉ c.edges ∧ ∀ p, p ∈ c.edges → lt e p = true) := by
  obtain ⟨c, hres, hedges, _, hpi, _⟩ := conn_closed_form h hs hperm hsorted hserve a sel av bv hacc.args
  obtain ⟨pi, hpi1, _, _, hnext, hprev, hnextfree, hprevfree⟩ := hpi hsel
  obtain ⟨hf, hl⟩ := checkArgs_nonneg hacc.args
  -- the all-edges computation over `S` itself yields flags that dominate ours and satisfy everything
  obtain ⟨hP, _, _, hsn, hsp, hadm⟩ := edgesToReturn_page_info h hs hperm hsorted av bv a.first a.last
    _ _ (edgesToReturn_eq h hs hperm hsorted av bv a.first a.last hf hl)
  have hone : a.first = none ∨ a.last = none := by
    rcases checkArgs_none hacc.args with ⟨n, _, _, h3⟩ | ⟨n, h1, _, _⟩
    · exact Or.inr h3
    · exact Or.inl h1
  obtain ⟨hadmN, hadmP⟩ := hadm hone
  rw [← hedges] at hsn hsp
  -- our flags imply the all-edges flags
  have himpN : pi.hasNextPage = true →
      (pageInfoOf lt E (S.filter (inRange lt av bv)) av bv a.first a.last).hasNextPage = true := by
    intro hflag
    cases hfirst : a.first with
    | some n => rw [hnext n hfirst] at hflag; simp only [pageInfoOf]; exact hflag
    | none =>
      obtain ⟨e, he, hp⟩ := hnextfree hfirst hflag
      simp only [pageInfoOf]
      exact List.any_eq_true.mpr ⟨e, he, hp⟩
  have himpP : pi.hasPreviousPage = true →
      (pageInfoOf lt E (S.filter (inRange lt av bv)) av bv a.first a.last).hasPreviousPage = true := by
    intro hflag
    cases hlast : a.last with
    | some n =>
      have hfn : a.first = none := by
        rcases hone with h1 | h1
        · exact h1
        · rw [hlast] at h1; cases h1
      rw [hprev n hlast] at hflag
      simp only [pageInfoOf, hfn, firstTrunc]; exact hflag
    | none =>
      obtain ⟨e, he, hp1, hp2⟩ := hprevfree hlast hflag
      simp only [pageInfoOf]
      exact List.any_eq_true.mpr ⟨e, he, by simp [hp1, hp2]⟩
  refine ⟨c, pi, by rw [hacc.resolve_eq, hres], hpi1, ?_, ?_, fun hflag => hsn (himpN hflag),
    fun hflag => hsp (himpP hflag)⟩
  · -- admitted: prescribed values coincide, permitted `true` is implied
    cases hfirst : a.first with
    | some n =>
      rw [hfirst] at hadmN
      have : pi.hasNextPage = (pageInfoOf lt E (S.filter (inRange lt av bv)) av bv (some n) a.last).hasNextPage := by
        rw [hnext n hfirst]; simp [pageInfoOf]
      rw [this]; exact hadmN
    | none =>
      rw [hfirst] at hadmN himpN
      cases hflag : pi.hasNextPage with
      | false =>
        cases hb : bv with
        | none => simp [Relay.hasNextPage, Relay.Req.admits]
        | some b => simp [Relay.hasNextPage, Relay.Req.admits]
      | true =>
        rw [himpN hflag] at hadmN; exact hadmN
  · cases hlast : a.last with
    | some n =>
      have hfn : a.first = none := by
        rcases hone with h1 | h1
        · exact h1
        · rw [hlast] at h1; cases h1
      rw [hlast, hfn] at hadmP
      have : pi.hasPreviousPage = (pageInfoOf lt E (S.filter (inRange lt av bv)) av bv none (some n)).hasPreviousPage := by
        rw [hprev n hlast]; simp [pageInfoOf, firstTrunc]
      rw [hfn, this]; exact hadmP
    | none =>
      rw [hlast] at hadmP himpP
      cases hflag : pi.hasPreviousPage with
      | false =>
        cases ha : av with
        | none => simp [Relay.hasPreviousPage, Relay.Req.admits]
        | some b => simp [Relay.hasPreviousPage, Relay.Req.admits]
      | true =>
        rw [himpP hflag] at hadmP; exact hadmP

/-- **total_count** — `totalCount` is the size of the connection: the number of edges
    `ResolveAllEdges` supplies, or whatever `ResolveTotalCount` answers when the application
    configured it (then it is the application's statement of the size). Same on the lazy zero-edge
    path. -/
theorem total_count {lt : α → α → Bool} (h : StrictTotal lt) {sort : List α → List α}
    (hs : LawfulSort lt sort) {E S : List α} (hperm : S.Perm E) (hsorted : Sorted lt S)
    {app : App α} {mode : Mode} (hserve : Serves lt E app mode)
    {dec : String → Option α} {a : Args} {av bv : Option α} (hacc : Accepted dec a av bv) (sel : Sel)
    (hsel : sel.totalCount = true) (hfield : hasTotalCountField app mode = true)
    (happ : app.totalCount = none ∨ app.totalCount = some (E.length : Int)) :
    ∃ c, resolve lt sort dec app mode a sel = .ok c ∧ c.totalCount = some (E.length : Int) := by
  obtain ⟨c, hres, _, _, _, htc⟩ := conn_closed_form h hs hperm hsorted hserve a sel av bv hacc.args
  refine ⟨c, by rw [hacc.resolve_eq, hres], ?_⟩
  rw [htc, hsel, hfield]
  simp only [Bool.and_self, if_true, totalCountValue]
  rcases happ with h0 | h0
  · rw [h0]
    cases mode with
    | all =>
      have : app.allEdges.Perm E := hserve
      simp [this.length_eq]
    | window => simp [hasTotalCountField, h0] at hfield
  · rw [h0]

/-- **window_eq_all** — limited-window mode is indistinguishable from all-edges mode: for any getter
    that honours the `ResolveEdges` contract and any application supplying all edges of the same
    connection, the two connection fields return the same edges, the same start/end cursors, the
    same flag on the side of the count, and a "free" flag (the other side) can be true in window mode
    only if it is true in all-edges mode. -/
theorem window_eq_all {lt : α → α → Bool} (h : StrictTotal lt) {sort : List α → List α}
    (hs : LawfulSort lt sort) {E S : List α} (hperm : S.Perm E) (hsorted : Sorted lt S)
    {appW appA : App α} (hW : HonoursWindow lt E appW.getter) (hA : appA.allEdges.Perm E)
    {dec : String → Option α} {a : Args} {av bv : Option α} (hacc : Accepted dec a av bv) :
    ∃ cW cA piW piA,
      resolve lt sort dec appW .window a { pageInfo := true, totalCount := false } = .ok cW ∧
      resolve lt sort dec appA .all a { pageInfo := true, totalCount := false } = .ok cA ∧
      cW.edges = cA.edges ∧ cW.pageInfo = some piW ∧ cA.pageInfo = some piA ∧
      piW.startCursor = piA.startCursor ∧ piW.endCursor = piA.endCursor ∧
      (a.first ≠ none → piW.hasNextPage = piA.hasNextPage) ∧
      (a.last ≠ none → piW.hasPreviousPage = piA.hasPreviousPage) ∧
      (piW.hasNextPage = true → piA.hasNextPage = true) ∧
      (piW.hasPreviousPage = true → piA.hasPreviousPage = true) := by
  obtain ⟨cW, hresW, hedgesW, _, hpiW, _⟩ := conn_closed_form h hs hperm hsorted (mode := .window) (app := appW) hW
    a { pageInfo := true, totalCount := false } av bv hacc.args
  obtain ⟨cA, hresA, hedgesA, hpiA, _⟩ := resolveDecoded_shape lt sort appA .all a
    { pageInfo := true, totalCount := false } av bv hacc.args
  obtain ⟨piW, hpiW1, hstartW, hendW, hnextW, hprevW, hnextfree, hprevfree⟩ := hpiW rfl
  have hsortA : sort (appA.allEdges.filter (inRange lt av bv)) = S.filter (inRange lt av bv) :=
    sort_filter_eq h hs (hperm.trans hA.symm) hsorted _
  simp only [fetch, hsortA, if_true] at hedgesA hpiA
  have hone : a.first = none ∨ a.last = none := by
    rcases checkArgs_none hacc.args with ⟨n, _, _, h3⟩ | ⟨n, h1, _, _⟩
    · exact Or.inr h3
    · exact Or.inl h1
  refine ⟨cW, cA, piW, _, by rw [hacc.resolve_eq, hresW], by rw [hacc.resolve_eq, hresA],
    by rw [hedgesW, hedgesA], hpiW1, hpiA, ?_, ?_, ?_, ?_, ?_, ?_⟩
  · rw [hstartW, hedgesW]; rfl
  · rw [hendW, hedgesW]; rfl
  · intro hne
    cases hfirst : a.first with
    | none => exact absurd hfirst hne
    | some n => rw [hnextW n hfirst]; simp [pageInfoOf]
  · intro hne
    cases hlast : a.last with
    | none => exact absurd hlast hne
    | some n =>
      have hfn : a.first = none := by
        rcases hone with h1 | h1
        · exact h1
        · rw [hlast] at h1; cases h1
      rw [hprevW n hlast]; simp [pageInfoOf, hfn, firstTrunc]
  · intro hflag
    cases hfirst : a.first with
    | some n => rw [hnextW n hfirst] at hflag; simp only [pageInfoOf]; exact hflag
    | none =>
      obtain ⟨e, he, hp⟩ := hnextfree hfirst hflag
      simp only [pageInfoOf]
      exact List.any_eq_true.mpr ⟨e, hA.mem_iff.mpr he, hp⟩
  · intro hflag
    cases hlast : a.last with
    | some n =>
      have hfn : a.first = none := by
        rcases hone with h1 | h1
        · exact h1
        · rw [hlast] at h1; cases h1
      rw [hprevW n hlast] at hflag
      simp only [pageInfoOf, hfn, firstTrunc]; exact hflag
    | none =>
      obtain ⟨e, he, hp1, hp2⟩ := hprevfree hlast hflag
      simp only [pageInfoOf]
      exact List.any_eq_true.mpr ⟨e, hA.mem_iff.mpr he, by simp [hp1, hp2]⟩

/-- **edges_le_first** — a page never holds more edges than the count asked for (feeds C14: the
    `edges` cost multiplier is an upper bound). -/
theorem edges_le_first {lt : α → α → Bool} (h : StrictTotal lt) {sort : List α → List α}
    (hs : LawfulSort lt sort) {E S : List α} (hperm : S.Perm E) (hsorted : Sorted lt S)
    {app : App α} {mode : Mode} (hserve : Serves lt E app mode)
    {dec : String → Option α} {a : Args} {av bv : Option α} (hacc : Accepted dec a av bv) (sel : Sel) :
    ∃ c, resolve lt sort dec app mode a sel = .ok c ∧
      (∀ n, a.first = some n → (c.edges.length : Int) ≤ n) ∧
      (∀ n, a.last = some n → (c.edges.length : Int) ≤ n) := by
  obtain ⟨c, hres, hedges, _⟩ := conn_closed_form h hs hperm hsorted hserve a sel av bv hacc.args
  refine ⟨c, by rw [hacc.resolve_eq, hres], ?_, ?_⟩
  · intro n hn
    rcases checkArgs_none hacc.args with ⟨m, h1, h2, h3⟩ | ⟨m, h1, _, _⟩
    · rw [hedges, h1, h3]
      have : m = n := by rw [h1] at hn; exact Option.some.inj hn
      subst this
      simp only [firstTrunc, lastTrunc, List.length_take]
      omega
    · rw [h1] at hn; cases hn
  · intro n hn
    rcases checkArgs_none hacc.args with ⟨m, _, _, h3⟩ | ⟨m, h1, h2, h3⟩
    · rw [h3] at hn; cases hn
    · rw [hedges, h1, h2]
      have : m = n := by rw [h2] at hn; exact Option.some.inj hn
      subst this
      simp only [firstTrunc, lastTrunc, List.length_drop]
      omega

end

/-- **arg_errors** — a negative count, a missing count, or `first` and `last` together yield an
    error, whatever the application, the cursors and the mode — and the application is not called
    (an `Out.error` carries no calls; only `Out.ok` does). Conversely these are the only argument
    errors besides undecodable cursors. -/
theorem arg_errors (lt : α → α → Bool) (sort : List α → List α) (dec : String → Option α)
    (app : App α) (mode : Mode) (a : Args) (sel : Sel) :
    ((∃ n, a.first = some n ∧ n < 0) → resolve lt sort dec app mode a sel = .error .firstNegative) ∧
    ((∃ n, a.first = some n ∧ 0 ≤ n) → a.last ≠ none →
      resolve lt sort dec app mode a sel = .error .bothFirstAndLast) ∧
    (a.first = none → (∃ n, a.last = some n ∧ n < 0) →
      resolve lt sort dec app mode a sel = .error .lastNegative) ∧
    (a.first = none → a.last = none → resolve lt sort dec app mode a sel = .error .neitherFirstNorLast) ∧
    ((∃ e, resolve lt sort dec app mode a sel = .error e) ↔
      (checkArgs a ≠ none ∨ decodeArg dec a.after = none ∨ decodeArg dec a.before = none)) := by
  refine ⟨?_, ?_, ?_, ?_, ?_⟩
  · rintro ⟨n, h1, h2⟩
    simp [resolve, checkArgs, h1, h2]
  · rintro ⟨n, h1, h2⟩ hl
    have : ¬ n < 0 := by omega
    have hl' : a.last.isSome = true := by cases hx : a.last <;> simp_all
    simp [resolve, checkArgs, h1, this, hl']
  · rintro h1 ⟨n, h2, h3⟩
    simp [resolve, checkArgs, h1, h2, h3]
  · intro h1 h2
    simp [resolve, checkArgs, h1, h2]
  · constructor
    · rintro ⟨e, he⟩
      by_cases hc : checkArgs a = none
      · right
        cases hda : decodeArg dec a.after with
        | none => exact Or.inl rfl
        | some av =>
          cases hdb : decodeArg dec a.before with
          | none => exact Or.inr rfl
          | some bv =>
            rw [resolve_accepted lt sort dec app mode a sel av bv hc hda hdb] at he
            obtain ⟨c, hres, _⟩ := resolveDecoded_shape lt sort app mode a sel av bv hc
            rw [hres] at he; cases he
      · exact Or.inl hc
    · intro hor
      cases hc : checkArgs a with
      | some e => exact ⟨e, by simp [resolve, hc]⟩
      | none =>
        rcases hor with h1 | h1 | h1
        · exact absurd hc h1
        · exact ⟨.invalidAfter, by simp [resolve, hc, h1]⟩
        · cases hda : decodeArg dec a.after with
          | none => exact ⟨.invalidAfter, by simp [resolve, hc, hda]⟩
          | some av => exact ⟨.invalidBefore, by simp [resolve, hc, hda, h1]⟩

/-- **never_crashes** — for every application (contract-honouring or not), every `sort`, every
    decoder and every argument combination — in particular arbitrary cursor strings — the resolver
    never reaches a Go panic: it answers with an error or with a connection. An arbitrary string is
    either rejected (`invalidAfter` / `invalidBefore`) or treated as the position the decoder
    assigns to it. -/
theorem never_crashes (lt : α → α → Bool) (sort : List α → List α) (dec : String → Option α)
    (app : App α) (mode : Mode) (a : Args) (sel : Sel) :
    resolve lt sort dec app mode a sel ≠ .crash ∧
    ((∃ e, resolve lt sort dec app mode a sel = .error e) ∨
     (∃ av bv c, resolve lt sort dec app mode a sel = resolveDecoded lt sort app mode a sel av bv ∧
        resolveDecoded lt sort app mode a sel av bv = .ok c)) := by
  cases hc : checkArgs a with
  | some e => exact ⟨by simp [resolve, hc], Or.inl ⟨e, by simp [resolve, hc]⟩⟩
  | none =>
    cases hda : decodeArg dec a.after with
    | none => exact ⟨by simp [resolve, hc, hda], Or.inl ⟨.invalidAfter, by simp [resolve, hc, hda]⟩⟩
    | some av =>
      cases hdb : decodeArg dec a.before with
      | none => exact ⟨by simp [resolve, hc, hda, hdb], Or.inl ⟨.invalidBefore, by simp [resolve, hc, hda, hdb]⟩⟩
      | some bv =>
        obtain ⟨c, hres, _⟩ := resolveDecoded_shape lt sort app mode a sel av bv hc
        have heq := resolve_accepted lt sort dec app mode a sel av bv hc hda hdb
        exact ⟨by rw [heq, hres]; simp, Or.inr ⟨av, bv, c, heq, hres⟩⟩

/-- **cursor_roundtrip** — under a lawful codec every cursor the server emits is accepted back and
    denotes the same position: sending `enc c` as `after` (or `before`) is the request with the
    decoded position `c`. -/
theorem cursor_roundtrip {dec : String → Option α} {enc : α → String} (hcodec : LawfulCodec dec enc)
    (lt : α → α → Bool) (sort : List α → List α) (app : App α) (mode : Mode) (sel : Sel)
    (f l : Option Int) (ca cb : Option α)
    (hc : checkArgs { first := f, last := l, after := ca.map enc, before := cb.map enc } = none) :
    resolve lt sort dec app mode { first := f, last := l, after := ca.map enc, before := cb.map enc } sel =
      resolveDecoded lt sort app mode { first := f, last := l, after := ca.map enc, before := cb.map enc } sel ca cb := by
  apply resolve_accepted _ _ _ _ _ _ _ _ _ hc
  · cases ca with
    | none => simp [decodeArg]
    | some c => exact decodeArg_enc hcodec c
  · cases cb with
    | none => simp [decodeArg]
    | some c => exact decodeArg_enc hcodec c

section
variable [DecidableEq α]

/-- **walk_exact** — for every page size `n ≥ 1`, in either mode: following `endCursor` with
    `after` while `hasNextPage` (respectively `startCursor` with `before` while `hasPreviousPage`)
    terminates within `|E| + 1` requests, never meets an error, and the pages concatenate to the
    connection in cursor order — every edge exactly once (`S` has no duplicates), no page longer
    than `n`. By induction on the remaining range; unbounded in `|E|` and `n`. -/
theorem walk_exact {lt : α → α → Bool} (h : StrictTotal lt) {sort : List α → List α}
    (hs : LawfulSort lt sort) {E S : List α} (hperm : S.Perm E) (hsorted : Sorted lt S)
    {app : App α} {mode : Mode} (hserve : Serves lt E app mode)
    {dec : String → Option α} {enc : α → String} (hcodec : LawfulCodec dec enc) (n : Nat) (hn : 1 ≤ n) :
    (∃ pages, walkForward lt sort dec enc app mode n (E.length + 1) none = some pages ∧
      pages.flatten = S ∧ ∀ p, p ∈ pages → p.length ≤ n) ∧
    (∃ pages, walkBackward lt sort dec enc app mode n (E.length + 1) none = some pages ∧
      pages.flatten = S ∧ ∀ p, p ∈ pages → p.length ≤ n) ∧
    S.Nodup := by
  have hall : S.filter (inRange lt none none) = S :=
    List.filter_eq_self.mpr (fun a _ => by simp [inRange, pastBefore, notPastAfter])
  have hlen : (S.filter (inRange lt none none)).length < E.length + 1 := by
    rw [hall, hperm.length_eq]; omega
  refine ⟨?_, ?_, Sorted.nodup h hsorted⟩
  · obtain ⟨pages, h1, h2, h3⟩ := walkForward_spec h hs hperm hsorted hserve hcodec n hn (E.length + 1)
      none none (by simp [decodeArg]) hlen
    exact ⟨pages, h1, by rw [h2, hall], h3⟩
  · obtain ⟨pages, h1, h2, h3⟩ := walkBackward_spec h hs hperm hsorted hserve hcodec n hn (E.length + 1)
      none none (by simp [decodeArg]) hlen
    exact ⟨pages, h1, by rw [h2, hall], h3⟩

end

/-! ### Non-vacuity: the hypotheses are jointly satisfiable and the statements say something -/

section examples

/-- Integer cursors ordered by `<` (the driver's instance). -/
def ltI (a b : Int) : Bool := decide (a < b)

theorem strictTotal_ltI : StrictTotal ltI where
  irrefl := fun a => by simp [ltI]
  trans := fun {a b c} h1 h2 => by simp only [ltI, decide_eq_true_eq] at *; omega
  total := fun a b => by simp only [ltI, decide_eq_true_eq]; omega

/-- A unary toy codec on naturals: lawful. -/
def encU (n : Nat) : String := String.ofList (List.replicate (n + 1) 'x')
def decU (s : String) : Option Nat :=
  match s.toList.length with
  | 0 => none
  | k + 1 => some k

theorem lawfulCodecU : LawfulCodec decU encU where
  dec_enc := fun c => by simp [decU, encU]
  enc_ne := fun c h => by
    have := congrArg String.toList h
    simp [encU, List.replicate_succ] at this

def ltN (a b : Nat) : Bool := decide (a < b)

theorem strictTotal_ltN : StrictTotal ltN where
  irrefl := fun a => by simp [ltN]
  trans := fun {a b c} h1 h2 => by simp only [ltN, decide_eq_true_eq] at *; omega
  total := fun a b => by simp only [ltN, decide_eq_true_eq]; omega

/-- A getter that returns everything honours the contract (extra edges are allowed). -/
theorem honours_everything {lt : α → α → Bool} {E : List α} (hn : E.Nodup) :
    HonoursWindow lt E (fun _ _ _ => E) where
  sub := fun _ _ _ _ hc => hc
  nodup := fun _ _ _ => hn
  first := fun _ _ _ _ _ hc _ _ => hc
  last := fun _ _ _ _ _ hc _ _ => hc

/-- All hypotheses of `walk_exact` hold for a concrete three-edge connection served in window mode,
    and the conclusion is the concrete statement that the pages concatenate to `[10, 20, 30]`. -/
example : ∃ pages, walkForward ltN (isort ltN) decU encU
      { allEdges := [], getter := fun _ _ _ => [30, 10, 20], totalCount := some 3 } .window 2 4 none = some pages ∧
    pages.flatten = [10, 20, 30] :=
  let hw := walk_exact strictTotal_ltN (isort_lawful strictTotal_ltN) (E := [30, 10, 20]) (S := [10, 20, 30])
    (by decide) (by simp [Sorted, ltN])
    (app := { allEdges := [], getter := fun _ _ _ => [30, 10, 20], totalCount := some 3 }) (mode := .window)
    (honours_everything (by decide)) lawfulCodecU 2 (by omega)
  let ⟨pages, h1, h2, _⟩ := hw.1
  ⟨pages, h1, h2⟩

/-- The model computes: `first: 2, after: 10` over `{30, 10, 40, 20}` in both modes. -/
example :
    edgesToReturn ltI (isort ltI) [30, 10, 40, 20] (some 10) none (some 2) none =
      some ([20, 30], { hasPreviousPage := true, hasNextPage := true, startCursor := some 20, endCursor := some 30 }) := by
  decide

/-- A negative count reaches the Go panic in `EdgesToReturn` … -/
example : edgesToReturn ltI (isort ltI) [1, 2] none none (some (-1)) none = none := by decide

/-- … but never through the connection field (`arg_errors`, `never_crashes`). -/
example : resolve ltI (isort ltI) (fun _ => none) { allEdges := [1, 2], getter := fun _ _ _ => [], totalCount := none }
    .all { first := some (-1), last := none, after := none, before := none } { pageInfo := true, totalCount := true }
    = .error .firstNegative := by decide

/-- The Relay flags are three-valued: with `last` only and a `before` cursor, `hasNextPage` may be
    true (an edge exists at `before`) but need not. -/
example : Relay.hasNextPage ltI [10, 20, 30] (some 30) none none (some 1) = .mayBeTrueIf true := by decide
example : (Relay.Req.mayBeTrueIf true).admits false = true ∧ (Relay.Req.mayBeTrueIf false).admits true = false := by decide

end examples

end ApiFu.C09
