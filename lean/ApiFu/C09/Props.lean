import ApiFu.C09.Model
import ApiFu.C09.Spec
namespace ApiFu.C09
end ApiFu.C09
