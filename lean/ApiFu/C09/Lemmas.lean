/-
  C09 — helper lemmas: ordered lists, the closed form of the model's `edgesToReturn`, the closed
  form of the Relay specification on a list in cursor order.
-/
import ApiFu.C09.Model
import ApiFu.C09.Spec

namespace ApiFu.C09

variable {α : Type}

/-- The hypothesis of the property: cursors are totally ordered by `LessThan` (strict, total). -/
structure StrictTotal (lt : α → α → Bool) : Prop where
  irrefl : ∀ a, lt a a = false
  trans : ∀ {a b c}, lt a b = true → lt b c = true → lt a c = true
  total : ∀ a b, lt a b = true ∨ a = b ∨ lt b a = true

/-- Strictly increasing in cursor order. -/
def Sorted (lt : α → α → Bool) (l : List α) : Prop := l.Pairwise (fun a b => lt a b = true)

/-- What `sort.Slice(edges, less)` guarantees: a permutation in which no later element is less than
    an earlier one. (Nothing about stability — it is not stable.) -/
def LawfulSort (lt : α → α → Bool) (sort : List α → List α) : Prop :=
  ∀ l, (sort l).Perm l ∧ (sort l).Pairwise (fun a b => lt b a = false)

theorem StrictTotal.asymm {lt : α → α → Bool} (h : StrictTotal lt) {a b : α} (hab : lt a b = true) :
    lt b a = false := by
  cases hba : lt b a with
  | false => rfl
  | true =>
    have := h.trans hab hba
    rw [h.irrefl] at this
    cases this

theorem StrictTotal.ne {lt : α → α → Bool} (h : StrictTotal lt) {a b : α} (hab : lt a b = true) : a ≠ b := by
  intro e
  subst e
  rw [h.irrefl] at hab
  cases hab

/-- `¬ b < a` and `a ≠ b` give `a < b`. -/
theorem StrictTotal.lt_of_not_gt {lt : α → α → Bool} (h : StrictTotal lt) {a b : α}
    (h1 : lt b a = false) (h2 : a ≠ b) : lt a b = true := by
  rcases h.total a b with h' | h' | h'
  · exact h'
  · exact absurd h' h2
  · rw [h1] at h'; cases h'

theorem Sorted.nodup {lt : α → α → Bool} (h : StrictTotal lt) {l : List α} (hs : Sorted lt l) : l.Nodup := by
  unfold Sorted at hs
  exact List.Pairwise.imp (fun hab => h.ne hab) hs

/-- A strictly increasing list and a non-decreasing list with the same elements are equal. -/
theorem sorted_perm_unique {lt : α → α → Bool} (h : StrictTotal lt) :
    ∀ (l₁ l₂ : List α), l₁.Perm l₂ → Sorted lt l₁ → l₂.Pairwise (fun a b => lt b a = false) → l₁ = l₂
  | [], l₂, hp, _, _ => (List.Perm.nil_eq hp)
  | a :: t, [], hp, _, _ => by
    have := hp.length_eq
    simp at this
  | a :: t, b :: t₂, hp, h1, h2 => by
    have h1' := List.pairwise_cons.mp h1
    have h2' := List.pairwise_cons.mp h2
    have ha : a ∈ b :: t₂ := hp.mem_iff.mp (List.mem_cons_self)
    have hb : b ∈ a :: t := hp.mem_iff.mpr (List.mem_cons_self)
    have hab : a = b := by
      rcases h.total a b with hlt | heq | hgt
      · rcases List.mem_cons.mp ha with e | hm
        · exact e
        · have := h2'.1 a hm
          rw [hlt] at this; cases this
      · exact heq
      · rcases List.mem_cons.mp hb with e | hm
        · exact e.symm
        · have := h1'.1 b hm
          have := h.asymm this
          rw [hgt] at this; cases this
    subst hab
    have := sorted_perm_unique h t t₂ (List.Perm.cons_inv hp) h1'.2 h2'.2
    rw [this]

/-! ## The driver's sort is a lawful instance -/

theorem insertSorted_perm (lt : α → α → Bool) (c : α) : ∀ l : List α, (insertSorted lt c l).Perm (c :: l)
  | [] => List.Perm.refl _
  | d :: ds => by
    unfold insertSorted
    split
    · exact List.Perm.refl _
    · exact ((insertSorted_perm lt c ds).cons d).trans (List.Perm.swap c d ds)

theorem isort_perm (lt : α → α → Bool) : ∀ l : List α, (isort lt l).Perm l
  | [] => List.Perm.refl _
  | c :: cs => (insertSorted_perm lt c (isort lt cs)).trans ((isort_perm lt cs).cons c)

theorem insertSorted_pairwise {lt : α → α → Bool} (h : StrictTotal lt) (c : α) :
    ∀ l : List α, l.Pairwise (fun a b => lt b a = false) →
      (insertSorted lt c l).Pairwise (fun a b => lt b a = false)
  | [], _ => by simp [insertSorted]
  | d :: ds, hp => by
    have hp' := List.pairwise_cons.mp hp
    unfold insertSorted
    split
    · rename_i hcd
      refine List.pairwise_cons.mpr ⟨?_, hp⟩
      intro x hx
      rcases List.mem_cons.mp hx with rfl | hx
      · exact h.asymm hcd
      · cases hxc : lt x c with
        | false => rfl
        | true =>
          have := h.trans hxc hcd
          rw [hp'.1 x hx] at this; cases this
    · rename_i hcd
      refine List.pairwise_cons.mpr ⟨?_, insertSorted_pairwise h c ds hp'.2⟩
      intro x hx
      rcases List.mem_cons.mp ((insertSorted_perm lt c ds).mem_iff.mp hx) with rfl | hx
      · simpa using hcd
      · exact hp'.1 x hx

theorem isort_pairwise {lt : α → α → Bool} (h : StrictTotal lt) :
    ∀ l : List α, (isort lt l).Pairwise (fun a b => lt b a = false)
  | [] => List.Pairwise.nil
  | c :: cs => insertSorted_pairwise h c _ (isort_pairwise h cs)

/-- Insertion sort (the driver's stand-in for `sort.Slice`) satisfies `LawfulSort`. -/
theorem isort_lawful {lt : α → α → Bool} (h : StrictTotal lt) : LawfulSort lt (isort lt) :=
  fun l => ⟨isort_perm lt l, isort_pairwise h l⟩

/-! ## The filtering loop -/

/-- An edge survives `ApplyCursorsToEdges`: strictly after `after` and strictly before `before`. -/
def inRange (lt : α → α → Bool) (after before : Option α) (c : α) : Bool :=
  !pastBefore lt before c && !notPastAfter lt after c

theorem loop_eq (lt : α → α → Bool) (after before : Option α) (es : List α) :
    applyCursorsLoop lt after before es =
      (es.filter (inRange lt after before),
       es.any (fun c => !pastBefore lt before c && notPastAfter lt after c),
       es.any (pastBefore lt before)) := by
  induction es with
  | nil => rfl
  | cons c rest ih =>
    simp only [applyCursorsLoop, ih, inRange, List.filter_cons, List.any_cons]
    by_cases hb : pastBefore lt before c = true
    · simp [hb]
    · by_cases ha : notPastAfter lt after c = true
      · simp [hb, ha]
      · simp [hb, ha]

theorem applyCursorsToEdges_eq (lt : α → α → Bool) (after before : Option α) (es : List α) :
    applyCursorsToEdges lt es after before =
      (es.filter (inRange lt after before),
       es.any (fun c => !pastBefore lt before c && notPastAfter lt after c),
       es.any (pastBefore lt before)) := by
  unfold applyCursorsToEdges
  split
  · rename_i hnone
    have ha : after = none := by cases after <;> simp_all
    have hb : before = none := by cases before <;> simp_all
    subst ha; subst hb
    have hf : es.filter (inRange lt none none) = es :=
      List.filter_eq_self.mpr (fun a _ => by simp [inRange, pastBefore, notPastAfter])
    simp [hf, pastBefore, notPastAfter]
  · exact loop_eq lt after before es

/-! ## Truncation, closed form -/

def firstTrunc (R : List α) : Option Int → List α
  | none => R
  | some n => R.take n.toNat

def lastTrunc (X : List α) : Option Int → List α
  | none => X
  | some n => X.drop (X.length - n.toNat)

def NonNeg : Option Int → Prop
  | none => True
  | some n => 0 ≤ n

theorem truncateFirst_eq (R : List α) (flag : Bool) (f : Option Int) (hf : NonNeg f) :
    truncateFirst R flag f =
      some (firstTrunc R f, match f with
                            | none => flag
                            | some n => decide ((R.length : Int) > n)) := by
  cases f with
  | none => rfl
  | some n =>
    have hn : 0 ≤ n := hf
    unfold truncateFirst firstTrunc
    by_cases h : (R.length : Int) > n
    · have : ¬ n < 0 := by omega
      simp [h, this]
    · have hle : R.length ≤ n.toNat := by omega
      simp [h, List.take_of_length_le hle]

theorem truncateLast_eq (X : List α) (flag : Bool) (l : Option Int) (hl : NonNeg l) :
    truncateLast X flag l =
      some (lastTrunc X l, match l with
                           | none => flag
                           | some n => decide ((X.length : Int) > n)) := by
  cases l with
  | none => rfl
  | some n =>
    have hn : 0 ≤ n := hl
    unfold truncateLast lastTrunc
    by_cases h : (X.length : Int) > n
    · have : ¬ n < 0 := by omega
      simp [h, this]
    · have hle : X.length - n.toNat = 0 := by omega
      simp [h, hle]

theorem truncateFirst_neg (R : List α) (flag : Bool) (n : Int) (hn : n < 0) :
    truncateFirst R flag (some n) = none := by
  unfold truncateFirst
  have : (R.length : Int) > n := by omega
  simp [this, hn]

theorem truncateLast_neg (X : List α) (flag : Bool) (n : Int) (hn : n < 0) :
    truncateLast X flag (some n) = none := by
  unfold truncateLast
  have : (X.length : Int) > n := by omega
  simp [this, hn]

/-- The filtered, sorted slice equals the filtered cursor-ordered edge list. -/
theorem sort_filter_eq {lt : α → α → Bool} (h : StrictTotal lt) {sort : List α → List α}
    (hs : LawfulSort lt sort) {E S : List α} (hperm : S.Perm E) (hsorted : Sorted lt S) (p : α → Bool) :
    sort (E.filter p) = S.filter p := by
  have h1 : (S.filter p).Perm (sort (E.filter p)) :=
    (List.Perm.filter p hperm).trans (hs (E.filter p)).1.symm
  exact (sorted_perm_unique h _ _ h1 (List.Pairwise.filter p hsorted) (hs (E.filter p)).2).symm

/-- The page info computed by `EdgesToReturn` from the raw slice `es` and the filtered, sorted
    slice `X` — closed form. -/
def pageInfoOf (lt : α → α → Bool) (es X : List α) (after before : Option α) (f l : Option Int) : PageInfo α :=
  { hasPreviousPage := match l with
      | none => es.any (fun c => !pastBefore lt before c && notPastAfter lt after c)
      | some n => decide (((firstTrunc X f).length : Int) > n),
    hasNextPage := match f with
      | none => es.any (pastBefore lt before)
      | some n => decide ((X.length : Int) > n),
    startCursor := (lastTrunc (firstTrunc X f) l).head?,
    endCursor := (lastTrunc (firstTrunc X f) l).getLast? }

/-- Closed form of `edgesToReturn` for non-negative counts, for any `sort`. -/
theorem edgesToReturn_raw (lt : α → α → Bool) (sort : List α → List α) (es : List α)
    (after before : Option α) (f l : Option Int) (hf : NonNeg f) (hl : NonNeg l) :
    edgesToReturn lt sort es after before f l =
      some (lastTrunc (firstTrunc (sort (es.filter (inRange lt after before))) f) l,
            pageInfoOf lt es (sort (es.filter (inRange lt after before))) after before f l) := by
  cases f <;> cases l <;>
  simp only [edgesToReturn, applyCursorsToEdges_eq, truncateFirst_eq _ _ _ hf, truncateLast_eq _ _ _ hl,
    pageInfoOf]

/-- A negative count makes `edgesToReturn` panic. -/
theorem edgesToReturn_neg (lt : α → α → Bool) (sort : List α → List α) (es : List α)
    (after before : Option α) (f l : Option Int) (hneg : ¬ (NonNeg f ∧ NonNeg l)) :
    edgesToReturn lt sort es after before f l = none := by
  by_cases hf : NonNeg f
  · have hl : ¬ NonNeg l := fun h => hneg ⟨hf, h⟩
    cases l with
    | none => exact absurd trivial hl
    | some n =>
      have hn : n < 0 := by
        have : ¬ (0 ≤ n) := hl
        omega
      simp only [edgesToReturn, truncateFirst_eq _ _ f hf, truncateLast_neg _ _ n hn]
  · cases f with
    | none => exact absurd trivial hf
    | some n =>
      have hn : n < 0 := by
        have : ¬ (0 ≤ n) := hf
        omega
      simp only [edgesToReturn, truncateFirst_neg _ _ n hn]

/-- The page the model returns, the flags, start and end cursor — closed form over the edge set in
    cursor order `S`. -/
theorem edgesToReturn_eq {lt : α → α → Bool} (h : StrictTotal lt) {sort : List α → List α}
    (hs : LawfulSort lt sort) {E S : List α} (hperm : S.Perm E) (hsorted : Sorted lt S)
    (after before : Option α) (f l : Option Int) (hf : NonNeg f) (hl : NonNeg l) :
    edgesToReturn lt sort E after before f l =
      some (lastTrunc (firstTrunc (S.filter (inRange lt after before)) f) l,
            pageInfoOf lt E (S.filter (inRange lt after before)) after before f l) := by
  rw [edgesToReturn_raw lt sort E after before f l hf hl, sort_filter_eq h hs hperm hsorted]

/-! ## The Relay specification on a list in cursor order -/

section relay
variable [DecidableEq α]

theorem indexOfCursor_none {c : α} : ∀ {l : List α}, Relay.indexOfCursor c l = none → c ∉ l
  | [], _ => by simp
  | d :: ds, hn => by
    unfold Relay.indexOfCursor at hn
    by_cases hd : d = c
    · simp [hd] at hn
    · simp only [hd, if_false, Option.map_eq_none_iff] at hn
      have := indexOfCursor_none hn
      simp [this, Ne.symm hd]

theorem indexOfCursor_some {c : α} : ∀ {l : List α} {i : Nat}, Relay.indexOfCursor c l = some i →
    ∃ (hi : i < l.length), l[i] = c
  | [], _, hn => by simp [Relay.indexOfCursor] at hn
  | d :: ds, i, hn => by
    unfold Relay.indexOfCursor at hn
    by_cases hd : d = c
    · simp only [hd, if_true, Option.some.injEq] at hn
      subst hn
      exact ⟨by simp, by simp [hd]⟩
    · simp only [hd, if_false, Option.map_eq_some_iff] at hn
      obtain ⟨j, hj, rfl⟩ := hn
      obtain ⟨hjl, hjc⟩ := indexOfCursor_some hj
      exact ⟨by simp; omega, by simp [hjc]⟩

omit [DecidableEq α] in
/-- In a strictly increasing list the elements greater than the `i`-th are those after it. -/
theorem filter_gt_getElem {lt : α → α → Bool} (h : StrictTotal lt) :
    ∀ {l : List α} (_ : Sorted lt l) (i : Nat) (hi : i < l.length),
      l.filter (fun c => lt l[i] c) = l.drop (i + 1)
  | [], _, i, hi => by simp at hi
  | d :: ds, hs, 0, _ => by
    have hs' := List.pairwise_cons.mp hs
    simp only [List.getElem_cons_zero, List.filter_cons, h.irrefl]
    simp only [Bool.false_eq_true, if_false, Nat.zero_add, List.drop_succ_cons, List.drop_zero]
    exact List.filter_eq_self.mpr (fun a ha => hs'.1 a ha)
  | d :: ds, hs, i + 1, hi => by
    have hs' := List.pairwise_cons.mp hs
    have hi' : i < ds.length := by simpa using hi
    have hd : lt d ds[i] = true := hs'.1 _ (List.getElem_mem hi')
    simp only [List.getElem_cons_succ, List.filter_cons, h.asymm hd, Bool.false_eq_true, if_false,
      List.drop_succ_cons]
    exact filter_gt_getElem h hs'.2 i hi'

omit [DecidableEq α] in
/-- In a strictly increasing list the elements less than the `i`-th are those before it. -/
theorem filter_lt_getElem {lt : α → α → Bool} (h : StrictTotal lt) :
    ∀ {l : List α} (_ : Sorted lt l) (i : Nat) (hi : i < l.length),
      l.filter (fun c => lt c l[i]) = l.take i
  | [], _, i, hi => by simp at hi
  | d :: ds, hs, 0, _ => by
    have hs' := List.pairwise_cons.mp hs
    simp only [List.getElem_cons_zero, List.filter_cons, h.irrefl, Bool.false_eq_true, if_false,
      List.take_zero]
    exact List.filter_eq_nil_iff.mpr (fun a ha => by simp [h.asymm (hs'.1 a ha)])
  | d :: ds, hs, i + 1, hi => by
    have hs' := List.pairwise_cons.mp hs
    have hi' : i < ds.length := by simpa using hi
    have hd : lt d ds[i] = true := hs'.1 _ (List.getElem_mem hi')
    simp only [List.getElem_cons_succ, List.filter_cons, hd, if_true, List.take_succ_cons]
    rw [filter_lt_getElem h hs'.2 i hi']

/-- On a list in cursor order, "remove all elements before and including afterEdge" (and the
    position reading of a foreign cursor) is: keep the edges strictly after the cursor. -/
theorem removeThrough_eq_filter {lt : α → α → Bool} (h : StrictTotal lt) {l : List α}
    (hs : Sorted lt l) (a : α) : Relay.removeThrough lt l a = l.filter (fun c => lt a c) := by
  unfold Relay.removeThrough
  cases hi : Relay.indexOfCursor a l with
  | none => rfl
  | some i =>
    obtain ⟨hil, hia⟩ := indexOfCursor_some hi
    have := filter_gt_getElem h hs i hil
    rw [hia] at this
    exact this.symm

theorem removeFrom_eq_filter {lt : α → α → Bool} (h : StrictTotal lt) {l : List α}
    (hs : Sorted lt l) (b : α) : Relay.removeFrom lt l b = l.filter (fun c => lt c b) := by
  unfold Relay.removeFrom
  cases hi : Relay.indexOfCursor b l with
  | none => rfl
  | some i =>
    obtain ⟨hil, hib⟩ := indexOfCursor_some hi
    have := filter_lt_getElem h hs i hil
    rw [hib] at this
    exact this.symm

/-- The specification's `ApplyCursorsToEdges` on the list in cursor order keeps exactly the range. -/
theorem relay_applyCursors_eq {lt : α → α → Bool} (h : StrictTotal lt) {S : List α} (hs : Sorted lt S)
    (after before : Option α) :
    Relay.applyCursorsToEdges lt S before after = S.filter (inRange lt after before) := by
  unfold Relay.applyCursorsToEdges
  cases after with
  | none =>
    cases before with
    | none =>
      exact (List.filter_eq_self.mpr (fun a _ => by simp [inRange, pastBefore, notPastAfter])).symm
    | some b =>
      show Relay.removeFrom lt S b = _
      rw [removeFrom_eq_filter h hs b]
      exact List.filter_congr (fun c _ => by simp [inRange, pastBefore, notPastAfter])
  | some a =>
    have hs' : Sorted lt (S.filter (fun c => lt a c)) := List.Pairwise.filter _ hs
    cases before with
    | none =>
      show Relay.removeThrough lt S a = _
      rw [removeThrough_eq_filter h hs a]
      exact List.filter_congr (fun c _ => by simp [inRange, pastBefore, notPastAfter])
    | some b =>
      show Relay.removeFrom lt (Relay.removeThrough lt S a) b = _
      rw [removeThrough_eq_filter h hs a, removeFrom_eq_filter h hs' b, List.filter_filter]
      exact List.filter_congr (fun c _ => by simp [inRange, pastBefore, notPastAfter])

theorem relay_edgesToReturn_eq {lt : α → α → Bool} (h : StrictTotal lt) {S : List α} (hs : Sorted lt S)
    (after before : Option α) (f l : Option Int) (hf : NonNeg f) (hl : NonNeg l) :
    Relay.edgesToReturn lt S before after f l =
      some (lastTrunc (firstTrunc (S.filter (inRange lt after before)) f) l) := by
  unfold Relay.edgesToReturn
  simp only [relay_applyCursors_eq h hs]
  cases f with
  | none =>
    cases l with
    | none => rfl
    | some n =>
      have hn : ¬ n < 0 := by have : 0 ≤ n := hl; omega
      simp only [hn, if_false, firstTrunc, lastTrunc]
      split
      · rfl
      · rename_i hle
        have : (List.filter (inRange lt after before) S).length - n.toNat = 0 := by omega
        simp [this]
  | some m =>
    have hm : ¬ m < 0 := by have : 0 ≤ m := hf; omega
    simp only [hm, if_false, firstTrunc]
    have hX : (if (List.filter (inRange lt after before) S).length > m.toNat
        then some (List.take m.toNat (List.filter (inRange lt after before) S))
        else some (List.filter (inRange lt after before) S)) =
        some (List.take m.toNat (List.filter (inRange lt after before) S)) := by
      split
      · rfl
      · rename_i hle
        rw [List.take_of_length_le (by omega)]
    rw [hX]
    cases l with
    | none => rfl
    | some n =>
      have hn : ¬ n < 0 := by have : 0 ≤ n := hl; omega
      simp only [hn, if_false, lastTrunc]
      split
      · rfl
      · rename_i hle
        have : (List.take m.toNat (List.filter (inRange lt after before) S)).length - n.toNat = 0 := by omega
        rw [this, List.drop_zero]

end relay

end ApiFu.C09
