import ApiFu.C11.Model
namespace ApiFu.C11
end ApiFu.C11
