/-
  C11 — mutation root fields execute strictly serially in document order.
  Theorems over the executor model with forceSerial (`ApiFu.C02.execSerial`, reached through
  `execute` for `rq.mutation = true`), for every mutation, every async subset (`Mode` per field
  invocation, at any depth) and every schedule. Proof scripts: ApiFu/C11/Lemmas.lean.

  Full statement of the property (DESIGN.md §7 C11):

      mutation_log_serial : ∀ mutation with root keys k₁…kₙ, ∀ A, ∀ σ,
          log (run) = log₁ ++ … ++ logₙ with every event of logᵢ under kᵢ,
          and data lists k₁…kₙ in that order

  It does NOT hold for the code as it is (finding F-11a, `strict_serial_fails` below): when a
  selection set beneath root field kᵢ fails early (After/Join resolve to the first error without
  waiting for their other children) a promise of kᵢ may be abandoned while still outstanding, and
  the idle handler fulfils it during the block of a later root field. What is proved:

    * `mutation_log_serial_partial` — the log is log₁ ++ … ++ logₙ where logᵢ contains resolver
      starts only under kᵢ, `Set`s only beneath kᵢ (or of root slot i with key kᵢ), and
      fulfilments under kᵢ *or of a promise that was already outstanding when logᵢ began*; such
      promises lie under earlier keys. Hence no resolver of a later root field, and no fulfilment
      of one of its promises, ever happens before the earlier root fields have returned.
    * `mutation_starts_strictly_serial` — restricted to resolver starts the statement holds in
      full (every start of logᵢ is under kᵢ).
    * `mutation_root_slots_in_document_order` — root slot j is only ever set with key kⱼ.
  Missing for the full statement: "no promise is outstanding when a root field returns", which
  is false for the code (F-11a).

  The repair (repo-patches/C11/01-fix-*.patch, `settleSerialPromises`: after `wait` the executor
  keeps calling the idle handler until every promise returned beneath the current root field has
  been received) is the model's `rq.settle = true` (`ApiFu.C02.waitSettle`). For it the full
  statement is proved:

    * `mutation_log_serial` — with `settle`, the log is log₁ ++ … ++ logₙ with every event of logᵢ
      under kᵢ (StrictSerial), for every mutation, async subset and schedule;
    * `f11a_repaired` — the F-11a request with `settle`: `a.x` is fulfilled before `b` starts.
-/
import ApiFu.C11.Lemmas

namespace ApiFu.C11
open ApiFu.C02

/-- **mutation_log_serial_partial.** For every mutation, async subset and schedule, the resolver
    event log (starts and fulfilments, in order) of the whole execution splits into consecutive
    blocks, one per root field in document order (execution may stop early after a failing
    non-null root field): the block of `k` has resolver starts only under `k` and fulfilments
    only under `k` or of promises that were already outstanding — abandoned by an earlier root
    field — when the block began. -/
theorem mutation_log_serial_partial (rq : Request) (hm : rq.mutation = true) :
    SerialLog (rootKeys rq.fields) [] (events (execute rq).2.log) := by
  obtain ⟨l, hl, hs, _⟩ := execSerial_serial rq.settle (Field.invocationsL rq.fields + 1) rq.fields rq.fields.length 0
    rq.sched {}
  unfold execute
  simp only [hm, if_true]
  rcases hx : execSerial rq.settle (Field.invocationsL rq.fields + 1) rq.fields rq.fields.length 0 rq.sched {} with ⟨w, s', S⟩
  rw [hx] at hl
  simp only at hl
  have hlog : S.log = l := by simpa using hl
  have key : SerialLog (rootKeys rq.fields) [] (events S.log) := by rw [hlog]; exact hs.events
  cases w with
  | done r =>
    cases r with
    | ok v => simpa using key
    | err e => simp only [Store.push, events_append]; simpa [events] using key
  | stuck => simpa using key
  | outOfFuel => simpa using key

/-- **mutation_starts_strictly_serial.** Restricted to resolver calls, the full statement holds:
    the sequence of resolver starts is start-block₁ ++ … ++ start-blockₙ with every start of
    blockᵢ under kᵢ — no resolver belonging to a later root field (or to its sub-selections at any
    depth) is called before every earlier root field has returned, and none belonging to an earlier
    one is called afterwards. -/
theorem mutation_starts_strictly_serial (rq : Request) (hm : rq.mutation = true) :
    StrictSerial (rootKeys rq.fields) (starts (execute rq).2.log) := by
  have h := mutation_log_serial_partial rq hm
  have hst : ∀ l, starts (events l) = starts l := by
    intro l; induction l with
    | nil => rfl
    | cons e l ih => cases e <;> simp [events, starts, ih]
  rw [← hst]
  generalize events (execute rq).2.log = l at h
  generalize rootKeys rq.fields = keys at h ⊢
  generalize ([] : List Path) = pending at h
  induction h with
  | stop keys pending => exact StrictSerial.stop _
  | block k keys pending pending' blk rest hb _ _ ih =>
    rw [starts_append]
    refine StrictSerial.block k keys _ _ ?_ ih
    intro e he
    obtain ⟨hmem, p, rfl⟩ := mem_starts e blk he
    rcases hb _ hmem with h | h
    · exact Or.inl (by simpa [evOk] using h)
    · obtain ⟨j, v, h⟩ := h; cases h

/-- **mutation_root_slots_in_document_order.** Root slot `j` of the response is only ever set with
    the response key of root field `j`: the data lists the root keys in document order. -/
theorem mutation_root_slots_in_document_order (rq : Request) (hm : rq.mutation = true) :
    RootWrites 0 (rootKeys rq.fields) (execute rq).2.log := by
  obtain ⟨l, hl, _, hr, _⟩ := execSerial_serial rq.settle (Field.invocationsL rq.fields + 1) rq.fields rq.fields.length 0
    rq.sched {}
  unfold execute
  simp only [hm, if_true]
  rcases hx : execSerial rq.settle (Field.invocationsL rq.fields + 1) rq.fields rq.fields.length 0 rq.sched {} with ⟨w, s', S⟩
  rw [hx] at hl
  simp only at hl
  have hlog : S.log = l := by simpa using hl
  have key : RootWrites 0 (rootKeys rq.fields) S.log := by rw [hlog]; exact hr
  cases w with
  | done r =>
    cases r with
    | ok v => simpa using key
    | err e =>
      intro j k v hmem
      simp only [Store.push] at hmem
      rcases List.mem_append.mp hmem with h | h
      · exact key j k v h
      · simp at h
  | stuck => simpa using key
  | outOfFuel => simpa using key

/-- Projecting a strictly serial log to its resolver events keeps it strictly serial. -/
theorem StrictSerial.events {keys : List String} {l : List Entry}
    (h : StrictSerial keys l) : StrictSerial keys (ApiFu.C11.events l) := by
  induction h with
  | stop keys => simp only [ApiFu.C11.events]; exact StrictSerial.stop _
  | block k keys blk rest hb _ ih =>
    rw [events_append]
    exact StrictSerial.block k keys _ _ (fun e he => hb e (mem_events e blk he)) ih

/-- **mutation_log_serial (full statement, repaired executor).** With `settleSerialPromises`
    (`rq.settle = true`), for every mutation, async subset and schedule the resolver event log is
    block₁ ++ … ++ blockₙ, one block per root field in document order, and *every* event of blockᵢ
    — resolver start or promise fulfilment — lies under kᵢ: nothing belonging to a root field
    happens after that field has returned, nothing belonging to a later one before. -/
theorem mutation_log_serial (rq : Request) (hm : rq.mutation = true) (hs : rq.settle = true) :
    StrictSerial (rootKeys rq.fields) (events (execute rq).2.log) := by
  obtain ⟨l, hl, _, _, hst⟩ := execSerial_serial rq.settle (Field.invocationsL rq.fields + 1) rq.fields
    rq.fields.length 0 rq.sched {}
  have hstrict := hst hs rfl
  unfold execute
  simp only [hm, if_true]
  rcases hx : execSerial rq.settle (Field.invocationsL rq.fields + 1) rq.fields rq.fields.length 0 rq.sched {} with ⟨w, s', S⟩
  rw [hx] at hl
  simp only at hl
  have hlog : S.log = l := by simpa using hl
  have key : StrictSerial (rootKeys rq.fields) (events S.log) := by rw [hlog]; exact hstrict.events
  cases w with
  | done r =>
    cases r with
    | ok v => simpa using key
    | err e => simp only [Store.push, events_append]; simpa [events] using key
  | stuck => simpa using key
  | outOfFuel => simpa using key

/-! ### The full statement fails on the unrepaired executor: F-11a

`mutation { a { x y } b }`, `a.x` answered through a promise, `a.y : Int!` resolving null
synchronously, `b` answered through a promise: `a`'s selection set fails at once, the promise of
`a.x` is abandoned, and the first idle round — during the block of `b` — fulfils it. -/

def f11a : Request :=
  { mutation := true,
    fields := [.mk "a" false .sync none (.object [.mk "x" false .promise none (.scalar "1"),
                                                   .mk "y" true .sync none .null]),
               .mk "b" false .promise none (.scalar "2")],
    sched := [], settle := false }

/-- The event log of the F-11a request: the fulfilment of `a.x` comes after the start of `b`. -/
theorem f11a_events : events (execute f11a).2.log =
    [.start [.key "a"], .start [.key "a", .key "x"], .start [.key "a", .key "y"], .start [.key "b"],
     .fulfil [.key "a", .key "x"], .fulfil [.key "b"]] := by
  simp [execute, f11a, execSerial, waitSettle, execField, catchIfNullable, mkMap, mkAfter, scanReady, mkMapOkValue, mkMapOkToAny,
    Field.invocationsL, Comp.invocations, waitLoop, poll, pollAll, Store.push, idleRound, deliver, picks,
    applyK, complete, execFields, nonNullWrap, applyMap, applyOk, Fut.weight, Fut.weightO, Comp.weight, events,
    Val.isNull, List.replicate]

/-- The F-11a request on the repaired executor: `a.x` is fulfilled (first idle round, driven by
    `settleSerialPromises`) before `b` starts. -/
theorem f11a_repaired : events (execute { f11a with settle := true }).2.log =
    [.start [.key "a"], .start [.key "a", .key "x"], .start [.key "a", .key "y"],
     .fulfil [.key "a", .key "x"], .start [.key "b"], .fulfil [.key "b"]] := by
  simp [execute, f11a, execSerial, waitSettle, settleLoop, execField, catchIfNullable, mkMap, mkAfter, scanReady,
    mkMapOkValue, mkMapOkToAny,
    Field.invocationsL, Comp.invocations, waitLoop, poll, pollAll, Store.push, idleRound, deliver, picks,
    applyK, complete, execFields, nonNullWrap, applyMap, applyOk, Fut.weight, Fut.weightO, Comp.weight, events,
    Val.isNull, List.replicate]

/-- **strict_serial_fails (negation witness, F-11a).** The strict form of the property — every
    event of blockᵢ under kᵢ — is false for the F-11a request: the start of `b` is followed by the
    fulfilment of `a.x`. -/
theorem strict_serial_fails : ¬ StrictSerial (rootKeys f11a.fields) (events (execute f11a).2.log) := by
  rw [f11a_events]
  intro h
  have hk : rootKeys f11a.fields = ["a", "b"] := by simp [rootKeys, f11a, Field.key]
  rw [hk] at h
  have := h.after_foreign
    (pre := [.start [.key "a"], .start [.key "a", .key "x"], .start [.key "a", .key "y"]])
    (e := .start [.key "b"]) (post := [.fulfil [.key "a", .key "x"], .fulfil [.key "b"]]) rfl
    (by
      intro h
      rcases h with h | ⟨j, v, h⟩
      · simp [evOk, under] at h
      · cases h)
    (.fulfil [.key "a", .key "x"]) (by simp)
  obtain ⟨k', hk', h'⟩ := this
  simp only [List.mem_singleton] at hk'
  subst hk'
  rcases h' with h' | ⟨j, v, h'⟩
  · simp [evOk, under] at h'
  · cases h'

end ApiFu.C11
