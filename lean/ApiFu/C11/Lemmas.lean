/-
  C11 helper lemmas: while the executor works on a future whose continuations all live under
  root key `k`, everything it appends to the log and to the outstanding list lies under `k`.
-/
import ApiFu.C02.Lemmas
import ApiFu.C11.Model

namespace ApiFu.C11
open ApiFu.C02

theorem under_append (k : String) (p q : Path) (h : under k p = true) : under k (p ++ q) = true := by
  cases p with
  | nil => simp [under] at h
  | cons s rest => cases s <;> simp_all [under]

/-- A start / fulfil entry, or a `Set` on a result map, is under `k` (errors and notes are
    unconstrained). -/
def evUnder (k : String) : Entry → Prop
  | .start p => under k p = true
  | .fulfil p => under k p = true
  | .write mp _ _ _ => under k mp = true
  | _ => True

/-- `AppK k S S'`: the log and the outstanding list grew only by things under `k`. -/
structure AppK (k : String) (S S' : Store) : Prop where
  log : ∃ l, S'.log = S.log ++ l ∧ ∀ e ∈ l, evUnder k e
  out : ∃ o, S'.outstanding = S.outstanding ++ o ∧ ∀ p ∈ o, under k p.2 = true

theorem AppK.refl (k : String) (S : Store) : AppK k S S := ⟨⟨[], by simp⟩, ⟨[], by simp⟩⟩

theorem AppK.trans {k : String} {A B C : Store} (h1 : AppK k A B) (h2 : AppK k B C) : AppK k A C := by
  obtain ⟨l1, hl1, hp1⟩ := h1.log; obtain ⟨l2, hl2, hp2⟩ := h2.log
  obtain ⟨o1, ho1, hq1⟩ := h1.out; obtain ⟨o2, ho2, hq2⟩ := h2.out
  refine ⟨⟨l1 ++ l2, by rw [hl2, hl1]; simp, ?_⟩, ⟨o1 ++ o2, by rw [ho2, ho1]; simp, ?_⟩⟩
  · intro e he
    rcases List.mem_append.mp he with h | h
    · exact hp1 e h
    · exact hp2 e h
  · intro p hp
    rcases List.mem_append.mp hp with h | h
    · exact hq1 p h
    · exact hq2 p h

theorem AppK.push (k : String) (S : Store) (e : Entry) (he : evUnder k e) : AppK k S (S.push e) :=
  ⟨⟨[e], rfl, by simpa using he⟩, ⟨[], by simp [Store.push], by simp⟩⟩

theorem AppK.of_eq {k : String} {S S' : Store} (h1 : S'.log = S.log) (h2 : S'.outstanding = S.outstanding) :
    AppK k S S' := ⟨⟨[], by simp [h1], by simp⟩, ⟨[], by simp [h2], by simp⟩⟩

/-! ### futures whose continuations all live under `k` -/

mutual
  def futUnder (k : String) : Fut → Bool
    | .ready _ => true
    | .promise _ _ => true
    | .map _ f => futUnder k f
    | .mapOk (.setSlot mp _ _) f => under k mp && futUnder k f
    | .mapOkToAny f => futUnder k f
    | .mapOkValue _ f => futUnder k f
    | .thenK _ _ path f cont => under k path && futUnder k f && futUnderO k cont
    | .thenT _ _ _ _ _ => false          -- scripted continuations do not occur in executor futures
    | .join fs => futUnderL k fs
    | .after fs => futUnderL k fs
  def futUnderO (k : String) : Option Fut → Bool
    | none => true
    | some t => futUnder k t
  def futUnderL (k : String) : List Fut → Bool
    | [] => true
    | f :: fs => futUnder k f && futUnderL k fs
end

theorem mkMap_under (k : String) (fn : MapFn) (f : Fut) (S : Store) (h : futUnder k f = true) :
    futUnder k (mkMap fn f S).1 = true := by
  cases f <;> simp_all [mkMap, futUnder]

theorem mkMapOkToAny_under (k : String) (f : Fut) (h : futUnder k f = true) : futUnder k (mkMapOkToAny f) = true := by
  cases f <;> simp_all [mkMapOkToAny, futUnder]

theorem mkMapOkValue_under (k : String) (v : Val) (f : Fut) (h : futUnder k f = true) :
    futUnder k (mkMapOkValue v f) = true := by
  cases f with
  | ready r => cases r <;> simp [mkMapOkValue, futUnder]
  | _ => simp_all [mkMapOkValue, futUnder]

theorem mkJoin_under (k : String) (fs : List Fut) (h : futUnderL k fs = true) : futUnder k (mkJoin fs) = true := by
  unfold mkJoin; split <;> simp_all [futUnder]

theorem mkAfter_under (k : String) (fs : List Fut) (h : futUnderL k fs = true) : futUnder k (mkAfter fs) = true := by
  unfold mkAfter; split <;> simp_all [futUnder]

theorem futUnderL_append_one (k : String) (acc : List Fut) (g : Fut) :
    futUnderL k (acc ++ [g]) = (futUnderL k acc && futUnder k g) := by
  induction acc with
  | nil => simp [futUnderL]
  | cons a acc ih => simp [futUnderL, ih, Bool.and_assoc]

theorem applyMap_appK (k : String) (fn : MapFn) (r : Res) (S : Store) : AppK k S (applyMap fn r S).2 := by
  cases fn <;> cases r <;> simp only [applyMap] <;> (try split) <;>
    first | exact AppK.refl _ _ | exact AppK.push _ _ _ trivial

theorem applyOk_appK (k : String) (mp : Path) (i : Nat) (key : String) (v : Val) (S : Store)
    (h : under k mp = true) : AppK k S (applyOk (.setSlot mp i key) v S).2 :=
  AppK.push k S (.write mp i key v) h

theorem mkMap_appK (k : String) (fn : MapFn) (f : Fut) (S : Store) : AppK k S (mkMap fn f S).2 := by
  cases f <;> simp only [mkMap] <;> first | exact applyMap_appK _ _ _ _ | exact AppK.refl _ _

theorem nonNullWrap_appK (k : String) (nn : Bool) (path : Path) (f : Fut) (S : Store) :
    AppK k S (nonNullWrap nn path f S).2 := by
  unfold nonNullWrap; cases nn <;> simp <;> first | exact AppK.refl _ _ | exact mkMap_appK _ _ _ _

theorem nonNullWrap_under (k : String) (nn : Bool) (path : Path) (f : Fut) (S : Store) (h : futUnder k f = true) :
    futUnder k (nonNullWrap nn path f S).1 = true := by
  unfold nonNullWrap; cases nn <;> simp <;> first | exact h | exact mkMap_under _ _ _ _ h

theorem catchIfNullable_appK (k : String) (nn : Bool) (f : Fut) (S : Store) : AppK k S (catchIfNullable nn f S).2 := by
  unfold catchIfNullable; cases nn <;> simp <;> first | exact AppK.refl _ _ | exact mkMap_appK _ _ _ _

theorem catchIfNullable_under (k : String) (nn : Bool) (f : Fut) (S : Store) (h : futUnder k f = true) :
    futUnder k (catchIfNullable nn f S).1 = true := by
  unfold catchIfNullable; cases nn <;> simp <;> first | exact h | exact mkMap_under _ _ _ _ h

theorem execField_appK (k : String) (nn : Bool) (mode : Mode) (rerr : Option String) (c : Comp) (itemPath : Path)
    (completed : Store → Fut × Store) (S : Store) (hu : under k itemPath = true)
    (hc : ∀ S', AppK k S' (completed S').2 ∧ futUnder k (completed S').1 = true) :
    AppK k S (execField nn mode rerr c itemPath completed S).2 ∧
      futUnder k (execField nn mode rerr c itemPath completed S).1 = true := by
  unfold execField
  cases mode <;> cases rerr <;> simp only
  all_goals first
    | exact ⟨AppK.push k S (.start itemPath) hu, by simp [futUnder]⟩
    | exact ⟨(AppK.push k S (.start itemPath) hu).trans (hc _).1, (hc _).2⟩
    | (refine ⟨⟨⟨[.start itemPath], rfl, by simpa [evUnder] using hu⟩, ⟨[(S.nextId, itemPath)], rfl, by simpa using hu⟩⟩, ?_⟩
       simp [futUnder, futUnderO, hu])
    | (refine ⟨⟨⟨[.start itemPath, .fulfil itemPath], by simp [Store.push], by simpa [evUnder] using hu⟩,
         ⟨[], by simp [Store.push], by simp⟩⟩, ?_⟩
       simp [futUnder, futUnderO, hu])

theorem fieldCont_shape (rest : List Field) (path : Path) (n i : Nat) (acc : List Fut) (key : String) (f1 : Fut)
    (S11 : Store) (hne : ∀ e, f1 = .ready (.err e) → False) (hno : ∀ v, f1 = .ready (.ok v) → False) :
    fieldCont rest path n i acc key f1 S11 =
      execFields rest path n (i + 1) (acc ++ [Fut.mapOk (OkFn.setSlot path i key) f1]) S11 := by
  unfold fieldCont
  split
  · exact absurd rfl (hne _)
  · exact absurd rfl (hno _)
  · rfl

theorem complete_appK_aux (k : String) :
    (∀ nn c path S, under k path = true →
      AppK k S (complete nn c path S).2 ∧ futUnder k (complete nn c path S).1 = true) ∧
    (∀ fields path n i acc S, under k path = true → futUnderL k acc = true →
      AppK k S (execFields fields path n i acc S).2 ∧ futUnder k (execFields fields path n i acc S).1 = true) ∧
    (∀ inn items path i S, under k path = true →
      AppK k S (completeItems inn items path i S).2 ∧ futUnderL k (completeItems inn items path i S).1 = true) := by
  apply complete.mutual_induct
    (motive_1 := fun nn c path S => under k path = true →
      AppK k S (complete nn c path S).2 ∧ futUnder k (complete nn c path S).1 = true)
    (motive_2 := fun fields path n i acc S => under k path = true → futUnderL k acc = true →
      AppK k S (execFields fields path n i acc S).2 ∧ futUnder k (execFields fields path n i acc S).1 = true)
    (motive_3 := fun inn items path i S => under k path = true →
      AppK k S (completeItems inn items path i S).2 ∧ futUnderL k (completeItems inn items path i S).1 = true)
  · intro nn path S hu; simp only [complete]
    exact ⟨nonNullWrap_appK _ _ _ _ _, nonNullWrap_under _ _ _ _ _ (by simp [futUnder])⟩
  · intro nn path S a hu; simp only [complete]
    exact ⟨nonNullWrap_appK _ _ _ _ _, nonNullWrap_under _ _ _ _ _ (by simp [futUnder])⟩
  · intro nn path S a hu; simp only [complete]
    exact ⟨nonNullWrap_appK _ _ _ _ _, nonNullWrap_under _ _ _ _ _ (by simp [futUnder])⟩
  · intro nn path S inn items fs S1 h ih hu
    have ih := ih hu; rw [h] at ih; simp only [complete, h]
    exact ⟨ih.1.trans (nonNullWrap_appK _ _ _ _ _),
      nonNullWrap_under _ _ _ _ _ (mkMapOkToAny_under _ _ (mkJoin_under _ _ ih.2))⟩
  · intro nn path S fields f S1 h ih hu
    have ih := ih hu (by simp [futUnderL]); rw [h] at ih; simp only [complete, h]
    exact ⟨ih.1.trans (nonNullWrap_appK _ _ _ _ _), nonNullWrap_under _ _ _ _ _ (mkMapOkToAny_under _ _ ih.2)⟩
  · intro inn path i S hu; simp only [completeItems]; exact ⟨AppK.refl _ _, by simp [futUnderL]⟩
  · intro inn path i S c rest f S1 h1 f1 S11 h2 fs S2 h3 ih1 ih2 hu
    have ih1 := ih1 (under_append k path _ hu); rw [h1] at ih1
    have ih2 := ih2 hu; rw [h3] at ih2
    have hc := catchIfNullable_appK k inn f S1
    have hcu := catchIfNullable_under k inn f S1 ih1.2
    rw [h2] at hc hcu
    simp only [completeItems, h1, h2, h3]
    exact ⟨(ih1.1.trans hc).trans ih2.1, by simp [futUnderL, hcu, ih2.2]⟩
  · intro path n i acc S hu hacc; simp only [execFields]
    exact ⟨AppK.refl _ _, mkMapOkValue_under _ _ _ (mkAfter_under _ _ hacc)⟩
  · intro path n i acc S key nn rerr c rest ih hu hacc
    rw [execFields_tname]
    have ih := ih hu hacc
    exact ⟨(AppK.push k S (.write path i key (tnameVal c)) hu).trans ih.1, ih.2⟩
  · intro path n i acc S key nn mode rerr c rest itemPath f S1 h1 S11 e hm h2 ihc hu hacc
    have hm' : mode ≠ .tname := fun h => hm h
    have hf := execField_appK k nn mode rerr c itemPath (fun S' => complete nn c itemPath S') S
      (under_append k path _ hu) (fun S' => ihc S' (under_append k path _ hu))
    rw [h1] at hf
    have hc := catchIfNullable_appK k nn f S1
    rw [h2] at hc
    rw [execFields_cons path key nn mode rerr c rest n i acc S S1 S11 f _ hm' h1 h2]
    simp only [fieldCont]; exact ⟨hf.1.trans hc, by simp [futUnder]⟩
  · intro path n i acc S key nn mode rerr c rest itemPath f S1 h1 S11 v hm h2 ihc ih hu hacc
    have hm' : mode ≠ .tname := fun h => hm h
    have hf := execField_appK k nn mode rerr c itemPath (fun S' => complete nn c itemPath S') S
      (under_append k path _ hu) (fun S' => ihc S' (under_append k path _ hu))
    rw [h1] at hf
    have hc := catchIfNullable_appK k nn f S1
    rw [h2] at hc
    rw [execFields_cons path key nn mode rerr c rest n i acc S S1 S11 f _ hm' h1 h2]
    have ih := ih hu hacc
    simp only [fieldCont]; exact ⟨((hf.1.trans hc).trans (AppK.push k S11 (.write path i key v) hu)).trans ih.1, ih.2⟩
  · intro path n i acc S key nn mode rerr c rest itemPath f S1 h1 S11 f1 hne hno hm h2 ihc ih hu hacc
    have hm' : mode ≠ .tname := fun h => hm h
    have hf := execField_appK k nn mode rerr c itemPath (fun S' => complete nn c itemPath S') S
      (under_append k path _ hu) (fun S' => ihc S' (under_append k path _ hu))
    rw [h1] at hf
    have hc := catchIfNullable_appK k nn f S1
    have hcu := catchIfNullable_under k nn f S1 hf.2
    rw [h2] at hc hcu
    rw [execFields_cons path key nn mode rerr c rest n i acc S S1 S11 f f1 hm' h1 h2,
      fieldCont_shape rest path n i acc key f1 S11 hne hno]
    have ih := ih hu (by rw [futUnderL_append_one]; simp [hacc, futUnder, hcu, hu])
    exact ⟨(hf.1.trans hc).trans ih.1, ih.2⟩

theorem applyK_appK (k : String) (nn : Bool) (c : Comp) (path : Path) (r : Res) (S : Store) (hu : under k path = true) :
    AppK k S (applyK nn c path r S).2 ∧ futUnder k (applyK nn c path r S).1 = true := by
  cases r <;> simp only [applyK]
  · exact (complete_appK_aux k).1 _ _ _ _ hu
  · exact ⟨AppK.refl _ _, by simp [futUnder]⟩

theorem poll_appK_aux (k : String) :
    (∀ f S, futUnder k f = true → AppK k S (poll f S).2.1 ∧ futUnder k (poll f S).1 = true) ∧
    (∀ fs S, futUnderL k fs = true → AppK k S (pollAll fs S).2.1 ∧ futUnderL k (pollAll fs S).1 = true) := by
  apply poll_induct'
    (P1 := fun f S => futUnder k f = true → AppK k S (poll f S).2.1 ∧ futUnder k (poll f S).1 = true)
    (P2 := fun fs S => futUnderL k fs = true → AppK k S (pollAll fs S).2.1 ∧ futUnderL k (pollAll fs S).1 = true)
  · intro r S _; rw [poll_ready]; exact ⟨AppK.refl _ _, by simp [futUnder]⟩
  · intro id res S _
    by_cases h : id ∈ S.chan <;> simp only [poll, h, if_true, if_false]
    · exact ⟨AppK.of_eq rfl rfl, by simp [futUnder]⟩
    · exact ⟨AppK.refl _ _, by simp [futUnder]⟩
  · intro fn g S ih hu
    simp only [futUnder] at hu
    obtain ⟨ha, hf⟩ := ih hu
    rcases hp : poll g S with ⟨g', S1, o⟩
    rw [hp] at ha hf
    cases o with
    | some r => rw [poll_map_some hp]; exact ⟨ha.trans (applyMap_appK _ _ _ _), by simp [futUnder]⟩
    | none => rw [poll_map_none hp]; exact ⟨ha, by simpa [futUnder] using hf⟩
  · intro fn g S ih hu
    cases fn with
    | setSlot mp i key =>
      simp only [futUnder, Bool.and_eq_true] at hu
      obtain ⟨ha, hf⟩ := ih hu.2
      rcases hp : poll g S with ⟨g', S1, o⟩
      rw [hp] at ha hf
      cases o with
      | some r =>
        cases r with
        | ok v => rw [poll_mapOk_ok hp]; exact ⟨ha.trans (applyOk_appK k mp i key v S1 hu.1), by simp [futUnder]⟩
        | err e => rw [poll_mapOk_err hp]; exact ⟨ha, by simp [futUnder]⟩
      | none => rw [poll_mapOk_none hp]; exact ⟨ha, by simp [futUnder, hu.1, hf]⟩
  · intro g S ih hu
    simp only [futUnder] at hu
    obtain ⟨ha, hf⟩ := ih hu
    rcases hp : poll g S with ⟨g', S1, o⟩
    rw [hp] at ha hf
    cases o with
    | some r => rw [poll_mapOkToAny_some hp]; exact ⟨ha, by simp [futUnder]⟩
    | none => rw [poll_mapOkToAny_none hp]; exact ⟨ha, by simpa [futUnder] using hf⟩
  · intro v g S ih hu
    simp only [futUnder] at hu
    obtain ⟨ha, hf⟩ := ih hu
    rcases hp : poll g S with ⟨g', S1, o⟩
    rw [hp] at ha hf
    cases o with
    | some r =>
      cases r with
      | ok w => rw [poll_mapOkValue_ok hp]; exact ⟨ha, by simp [futUnder]⟩
      | err e => rw [poll_mapOkValue_err hp]; exact ⟨ha, by simp [futUnder]⟩
    | none => rw [poll_mapOkValue_none hp]; exact ⟨ha, by simpa [futUnder] using hf⟩
  · intro nn c path g S ih ihk hu
    simp only [futUnder, futUnderO, Bool.and_eq_true, and_true] at hu
    obtain ⟨ha, hf⟩ := ih hu.2
    rcases hp : poll g S with ⟨g', S1, o⟩
    rw [hp] at ha hf
    cases o with
    | none => rw [poll_thenK_wait hp]; exact ⟨ha, by simp [futUnder, futUnderO, hu.1, hf]⟩
    | some r =>
      have hk := applyK_appK k nn c path r S1 hu.1
      obtain ⟨hb, hg⟩ := ihk g' S1 r hp hk.2
      rcases hp2 : poll (applyK nn c path r S1).1 (applyK nn c path r S1).2 with ⟨t', S3, o2⟩
      rw [hp2] at hb hg
      cases o2 with
      | some r' => rw [poll_thenK_fire_some hp hp2]; exact ⟨(ha.trans hk.1).trans hb, by simp [futUnder]⟩
      | none =>
        rw [poll_thenK_fire_none hp hp2]
        exact ⟨(ha.trans hk.1).trans hb, by simp [futUnder, futUnderO, hu.1, hf, hg]⟩
  · intro nn c path g t S ih hu
    simp only [futUnder, futUnderO, Bool.and_eq_true] at hu
    obtain ⟨ha, hf⟩ := ih hu.2
    rcases hp : poll t S with ⟨t', S1, o⟩
    rw [hp] at ha hf
    cases o with
    | some r => rw [poll_thenK_cont_some hp]; exact ⟨ha, by simp [futUnder]⟩
    | none => rw [poll_thenK_cont_none hp]; exact ⟨ha, by simp [futUnder, futUnderO, hu.1, hf]⟩
  · intro tag a b g S _ _ hu; simp [futUnder] at hu
  · intro tag a b g t S _ hu; simp [futUnder] at hu
  · intro fs S ih hu
    simp only [futUnder] at hu
    obtain ⟨ha, hf⟩ := ih hu
    rcases hp : pollAll fs S with ⟨fs', S1, p⟩
    rw [hp] at ha hf
    cases p with
    | failed e => rw [poll_join_failed hp]; exact ⟨ha, by simp [futUnder]⟩
    | done vs => rw [poll_join_done hp]; exact ⟨ha, by simp [futUnder]⟩
    | pending => rw [poll_join_pending hp]; exact ⟨ha, by simpa [futUnder] using hf⟩
  · intro fs S ih hu
    simp only [futUnder] at hu
    obtain ⟨ha, hf⟩ := ih hu
    rcases hp : pollAll fs S with ⟨fs', S1, p⟩
    rw [hp] at ha hf
    cases p with
    | failed e => rw [poll_after_failed hp]; exact ⟨ha, by simp [futUnder]⟩
    | done vs => rw [poll_after_done hp]; exact ⟨ha, by simp [futUnder]⟩
    | pending => rw [poll_after_pending hp]; exact ⟨ha, by simpa [futUnder] using hf⟩
  · intro S _; rw [pollAll_nil]; exact ⟨AppK.refl _ _, by simp [futUnderL]⟩
  · intro f rest S ih ihr hu
    simp only [futUnderL, Bool.and_eq_true] at hu
    obtain ⟨ha, hf⟩ := ih hu.1
    rcases hp : poll f S with ⟨f', S1, o⟩
    rw [hp] at ha hf
    cases o with
    | some r =>
      cases r with
      | err e => rw [pollAll_cons_err hp]; exact ⟨ha, by simp [futUnderL, hf, hu.2]⟩
      | ok v =>
        obtain ⟨hb, hg⟩ := ihr f' S1 _ hp (by intro e h; cases h) hu.2
        rcases hp2 : pollAll rest S1 with ⟨rest', S2, p⟩
        rw [hp2] at hb hg
        rw [pollAll_cons_ok hp hp2]; exact ⟨ha.trans hb, by simp [futUnderL, hf, hg]⟩
    | none =>
      obtain ⟨hb, hg⟩ := ihr f' S1 _ hp (by intro e h; cases h) hu.2
      rcases hp2 : pollAll rest S1 with ⟨rest', S2, p⟩
      rw [hp2] at hb hg
      rw [pollAll_cons_none hp hp2]; exact ⟨ha.trans hb, by simp [futUnderL, hf, hg]⟩

/-! ### waiting on a future under `k` -/

/-- Every outstanding promise is one of the `pending` ones (abandoned by earlier root fields) or
    lies under `k`. -/
def Good (k : String) (pending : List Path) (S : Store) : Prop :=
  ∀ p ∈ S.outstanding, p.2 ∈ pending ∨ under k p.2 = true

theorem evOk_of_evUnder (k : String) (pending : List Path) (e : Entry) (h : evUnder k e) : evOk k pending e := by
  cases e <;> simp_all [evUnder, evOk]

theorem AppK.good {k : String} {pending : List Path} {S S' : Store} (h : AppK k S S') (hg : Good k pending S) :
    Good k pending S' := by
  obtain ⟨o, ho, hq⟩ := h.out
  intro p hp
  rw [ho] at hp
  rcases List.mem_append.mp hp with h1 | h1
  · exact hg p h1
  · exact Or.inr (hq p h1)

theorem fulfilled_subset {α : Type} (ps : List α) (bs : List Bool) : ∀ p ∈ fulfilled ps bs, p ∈ ps := by
  induction ps generalizing bs with
  | nil => simp [fulfilled]
  | cons q ps ih =>
    cases bs with
    | nil => simp [fulfilled]
    | cons b bs =>
      cases b <;> simp only [fulfilled, Bool.false_eq_true, if_false, if_true]
      · intro p hp; exact List.mem_cons_of_mem _ (ih bs p hp)
      · intro p hp
        rcases List.mem_cons.mp hp with h | h
        · exact h ▸ List.mem_cons_self
        · exact List.mem_cons_of_mem _ (ih bs p h)

theorem kept_subset {α : Type} (ps : List α) (bs : List Bool) : ∀ p ∈ kept ps bs, p ∈ ps := by
  induction ps generalizing bs with
  | nil => simp [kept]
  | cons q ps ih =>
    cases bs with
    | nil =>
      simp only [kept]
      intro p hp
      rcases List.mem_cons.mp hp with h | h
      · exact h ▸ List.mem_cons_self
      · exact List.mem_cons_of_mem _ (ih [] p h)
    | cons b bs =>
      cases b <;> simp only [kept, Bool.false_eq_true, if_false, if_true]
      · intro p hp
        rcases List.mem_cons.mp hp with h | h
        · exact h ▸ List.mem_cons_self
        · exact List.mem_cons_of_mem _ (ih bs p h)
      · intro p hp; exact List.mem_cons_of_mem _ (ih bs p hp)

/-- One idle round while root field `k` is being executed: it logs only fulfilments allowed by
    `evOk`, and keeps the store `Good`. -/
theorem idleRound_serial (k : String) (pending : List Path) (mask : Option Nat) (S : Store)
    (hne : S.outstanding ≠ []) (hg : Good k pending S) :
    (∃ l, (idleRound mask S).log = S.log ++ l ∧ ∀ e ∈ l, evOk k pending e) ∧ Good k pending (idleRound mask S) := by
  obtain ⟨_, _, _, _, hlog, hout⟩ := idleRound_spec mask S hne
  refine ⟨⟨_, hlog, ?_⟩, ?_⟩
  · intro e he
    obtain ⟨p, hp, rfl⟩ := List.mem_map.mp he
    have := hg p (fulfilled_subset _ _ p hp)
    simp only [evOk]; exact this.symm
  · intro p hp
    rw [hout] at hp
    exact hg p (kept_subset _ _ p hp)

theorem waitLoop_serial (k : String) (pending : List Path) (fuel : Nat) :
    ∀ (f : Fut) (sched : List Nat) (S : Store), futUnder k f = true → Good k pending S →
      (∃ l, (waitLoop fuel f sched S).2.2.log = S.log ++ l ∧ ∀ e ∈ l, evOk k pending e) ∧
      Good k pending (waitLoop fuel f sched S).2.2 := by
  induction fuel with
  | zero =>
    intro f sched S hu hg
    obtain ⟨ha, _⟩ := (poll_appK_aux k).1 f S hu
    rcases hp : poll f S with ⟨f', S1, o⟩
    rw [hp] at ha
    obtain ⟨l, hl, hle⟩ := ha.log
    have hres : (waitLoop 0 f sched S).2.2 = S1 := by cases o <;> simp [waitLoop, hp]
    rw [hres]
    exact ⟨⟨l, hl, fun e he => evOk_of_evUnder _ _ _ (hle e he)⟩, ha.good hg⟩
  | succ fuel ih =>
    intro f sched S hu hg
    obtain ⟨ha, hf⟩ := (poll_appK_aux k).1 f S hu
    rcases hp : poll f S with ⟨f', S1, o⟩
    rw [hp] at ha hf
    obtain ⟨l, hl, hle⟩ := ha.log
    have hg1 : Good k pending S1 := ha.good hg
    cases o with
    | some r =>
      rw [waitLoop_some (fuel + 1) f f' sched S S1 r hp]
      exact ⟨⟨l, hl, fun e he => evOk_of_evUnder _ _ _ (hle e he)⟩, hg1⟩
    | none =>
      by_cases he : S1.outstanding = []
      · have hres : (waitLoop (fuel + 1) f sched S).2.2 = { S1 with rounds := S1.rounds + 1 } := by
          simp [waitLoop, hp, he]
        rw [hres]
        exact ⟨⟨l, hl, fun e he => evOk_of_evUnder _ _ _ (hle e he)⟩, hg1⟩
      · rw [waitLoop_succ_none fuel f f' sched S S1 hp he]
        obtain ⟨⟨l2, hl2, hle2⟩, hg2⟩ := idleRound_serial k pending sched.head? S1 he hg1
        obtain ⟨⟨l3, hl3, hle3⟩, hg3⟩ := ih f' sched.tail (idleRound sched.head? S1) hf hg2
        refine ⟨⟨l ++ l2 ++ l3, by rw [hl3, hl2, hl]; simp, ?_⟩, hg3⟩
        intro e he
        rcases List.mem_append.mp he with h | h
        · rcases List.mem_append.mp h with h | h
          · exact evOk_of_evUnder _ _ _ (hle e h)
          · exact hle2 e h
        · exact hle3 e h

/-! ### the serial field loop -/

theorem under_root_key (key : String) : under key [Seg.key key] = true := by simp [under]

/-- The response paths of the promises still outstanding. -/
def pendingOf (S : Store) : List Path := S.outstanding.map (·.2)

theorem good_pending {k : String} {pending : List Path} {S : Store} (h : Good k pending S) :
    ∀ p ∈ pendingOf S, p ∈ pending ∨ under k p = true := by
  intro p hp
  obtain ⟨q, hq, rfl⟩ := List.mem_map.mp hp
  exact h q hq

theorem pendingOf_push (S : Store) (e : Entry) : pendingOf (S.push e) = pendingOf S := rfl

theorem not_root_of_evOk (k : String) (pending : List Path) (j : Nat) (key : String) (v : Val) :
    ¬ evOk k pending (.write [] j key v) := by simp [evOk, under]

/-- The settle step of the repaired executor, while root field `k` is current: it logs only
    fulfilments allowed by `evOk` and keeps the store `Good`. -/
theorem settled_serial {k : String} {pending : List Path} {S S' : Store} (h : Settled S S') (hg : Good k pending S) :
    (∃ l, S'.log = S.log ++ l ∧ ∀ e ∈ l, evOk k pending e) ∧ Good k pending S' := by
  obtain ⟨l, hl, hle⟩ := h.log
  refine ⟨⟨l, hl, fun e he => ?_⟩, fun p hp => hg p (h.out p hp)⟩
  obtain ⟨p, hp, rfl⟩ := hle e he
  simp only [evOk]; exact (hg p hp).symm

theorem pendingOf_nil {S : Store} (h : S.outstanding = []) : pendingOf S = [] := by simp [pendingOf, h]

/-- **Main lemma of C11.** Whatever `execSerial` appends to the log splits into one block per root
    field, in document order, each block obeying `evOk` for its key (plus the `Set` of that
    field's root slot); root slot `j` is only ever set with the key of field `j`. On the repaired
    executor (`st = true`, `settleSerialPromises` after every `wait`) nothing is outstanding when a
    block ends, so the split is strict: every event of a block lies under the block's key. -/
theorem execSerial_serial (st : Bool) (fuel : Nat) : ∀ (fields : List Field) (n i : Nat) (sched : List Nat) (S : Store),
    ∃ l, (execSerial st fuel fields n i sched S).2.2.log = S.log ++ l ∧ SerialLog (rootKeys fields) (pendingOf S) l ∧
      RootWrites i (rootKeys fields) l ∧ (st = true → S.outstanding = [] → StrictSerial (rootKeys fields) l) := by
  intro fields
  induction fields with
  | nil =>
    intro n i sched S
    exact ⟨[], by simp [execSerial], SerialLog.stop _ _, by simp [RootWrites], fun _ _ => StrictSerial.stop _⟩
  | cons fld rest ih =>
    intro n i sched S
    cases fld with
    | mk key nn mode rerr c =>
      by_cases hm : mode = .tname
      · subst hm
        obtain ⟨l', hl', hs', hr', hst'⟩ := ih n (i + 1) sched (S.push (.write [] i key (tnameVal c)))
        refine ⟨[.write [] i key (tnameVal c)] ++ l', by simp only [execSerial]; rw [hl']; simp [Store.push], ?_, ?_, ?_⟩
        · exact SerialLog.block key (rootKeys rest) (pendingOf S) (pendingOf S) _ _
            (by intro e he; simp at he; subst he; exact Or.inr ⟨i, _, rfl⟩) (fun p hp => Or.inl hp) hs'
        · intro j key' v hmem
          rcases List.mem_append.mp hmem with h | h
          · simp at h; obtain ⟨rfl, rfl, _⟩ := h; simp [rootKeys, Field.key]
          · obtain ⟨h1, h2⟩ := hr' j key' v h
            refine ⟨by omega, ?_⟩
            have : j - i = (j - (i + 1)) + 1 := by omega
            rw [this]; simpa [rootKeys] using h2
        · intro hst hS
          exact StrictSerial.block key (rootKeys rest) _ _
            (by intro e he; simp at he; subst he; exact Or.inr ⟨i, _, rfl⟩) (hst' hst hS)
      · rcases h1 : execField nn mode rerr c [.key key] (complete nn c [.key key]) S with ⟨f0, S1⟩
        rcases h2 : catchIfNullable nn f0 S1 with ⟨f, S2⟩
        have hf := execField_appK key nn mode rerr c [.key key] (complete nn c [.key key]) S (under_root_key key)
          (fun S' => (complete_appK_aux key).1 nn c [.key key] S' (under_root_key key))
        rw [h1] at hf
        have hc := catchIfNullable_appK key nn f0 S1
        have hcu := catchIfNullable_under key nn f0 S1 hf.2
        rw [h2] at hc hcu
        have happ : AppK key S S2 := hf.1.trans hc
        obtain ⟨l1, hl1, hle1⟩ := happ.log
        have hg0 : Good key (pendingOf S) S := fun p hp => Or.inl (List.mem_map_of_mem hp)
        have hg2 : Good key (pendingOf S) S2 := happ.good hg0
        obtain ⟨⟨l2a, hl2a, hle2a⟩, hg3a⟩ := waitLoop_serial key (pendingOf S) fuel f sched S2 hcu hg2
        rw [execSerial_cons st fuel key nn mode rerr c rest n i sched S S1 S2 f0 f hm h1 h2]
        obtain ⟨sched0, S3', hwl, hset, hempty⟩ := waitSettle_settled st fuel f sched S2
        rcases hws : waitSettle st fuel f sched S2 with ⟨w, sched', S3⟩
        rw [hws] at hwl hset hempty
        rw [hwl] at hl2a hg3a
        simp only at hl2a hg3a hset hempty
        obtain ⟨⟨l2b, hl2b, hle2b⟩, hg3⟩ := settled_serial hset hg3a
        have hl2 : S3.log = S2.log ++ (l2a ++ l2b) := by rw [hl2b, hl2a]; simp
        have hle2 : ∀ e ∈ l2a ++ l2b, evOk key (pendingOf S) e := by
          intro e he
          rcases List.mem_append.mp he with h | h
          · exact hle2a e h
          · exact hle2b e h
        generalize l2a ++ l2b = l2 at hl2 hle2
        have hblk : ∀ e ∈ l1 ++ l2, evOk key (pendingOf S) e := by
          intro e he
          rcases List.mem_append.mp he with h | h
          · exact evOk_of_evUnder _ _ _ (hle1 e h)
          · exact hle2 e h
        have hnoroot : ∀ j key' v, Entry.write [] j key' v ∉ l1 ++ l2 :=
          fun j key' v hmem => not_root_of_evOk key (pendingOf S) j key' v (hblk _ hmem)
        have hstop : ∃ l, S3.log = S.log ++ l ∧ SerialLog (key :: rootKeys rest) (pendingOf S) l ∧
            RootWrites i (key :: rootKeys rest) l ∧
            (st = true → S.outstanding = [] → StrictSerial (key :: rootKeys rest) l) := by
          refine ⟨(l1 ++ l2) ++ [], by rw [hl2, hl1]; simp, ?_, ?_, ?_⟩
          · exact SerialLog.block key (rootKeys rest) (pendingOf S) [] _ _ (fun e he => Or.inl (hblk e he)) (by simp)
              (SerialLog.stop _ _)
          · intro j key' v hmem; simp only [List.append_nil] at hmem; exact absurd hmem (hnoroot j key' v)
          · intro _ hS
            refine StrictSerial.block key (rootKeys rest) _ _ (fun e he => Or.inl ?_) (StrictSerial.stop _)
            have := hblk e he
            rwa [pendingOf_nil hS] at this
        cases w with
        | done r =>
          cases r with
          | err e => simpa [serialCont, rootKeys, Field.key] using hstop
          | ok v =>
            simp only [serialCont]
            obtain ⟨l3, hl3, hs3, hr3, hst3⟩ := ih n (i + 1) sched' (S3.push (.write [] i key v))
            refine ⟨(l1 ++ l2 ++ [.write [] i key v]) ++ l3, by rw [hl3]; simp [Store.push, hl2, hl1], ?_, ?_, ?_⟩
            · refine SerialLog.block key (rootKeys rest) (pendingOf S) (pendingOf S3) _ _ ?_ (good_pending hg3) hs3
              intro e he
              rcases List.mem_append.mp he with h | h
              · exact Or.inl (hblk e h)
              · simp at h; subst h; exact Or.inr ⟨i, v, rfl⟩
            · intro j key' v' hmem
              rcases List.mem_append.mp hmem with h | h
              · rcases List.mem_append.mp h with h | h
                · exact absurd h (hnoroot j key' v')
                · simp at h; obtain ⟨rfl, rfl, _⟩ := h; simp [rootKeys, Field.key]
              · obtain ⟨h1', h2'⟩ := hr3 j key' v' h
                refine ⟨by omega, ?_⟩
                have : j - i = (j - (i + 1)) + 1 := by omega
                rw [this]; simpa [rootKeys] using h2'
            · intro hst hS
              refine StrictSerial.block key (rootKeys rest) _ _ ?_ (hst3 hst (hempty hst _ rfl).1)
              intro e he
              rcases List.mem_append.mp he with h | h
              · refine Or.inl ?_
                have := hblk e h
                rwa [pendingOf_nil hS] at this
              · simp at h; subst h; exact Or.inr ⟨i, v, rfl⟩
        | stuck => simpa [serialCont, rootKeys, Field.key] using hstop
        | outOfFuel => simpa [serialCont, rootKeys, Field.key] using hstop

/-! ### list bookkeeping for the property theorems -/

theorem events_append (a b : List Entry) : events (a ++ b) = events a ++ events b := by
  induction a with
  | nil => simp [events]
  | cons e a ih => cases e <;> simp [events, ih]

theorem mem_events (e : Entry) (l : List Entry) (h : e ∈ events l) : e ∈ l := by
  induction l with
  | nil => simp [events] at h
  | cons x l ih =>
    cases x <;> simp only [events] at h
    all_goals first
      | exact List.mem_cons_of_mem _ (ih h)
      | (rcases List.mem_cons.mp h with h | h
         · exact h ▸ List.mem_cons_self
         · exact List.mem_cons_of_mem _ (ih h))

/-- Projecting a serial log to its resolver events keeps it serial. -/
theorem SerialLog.events {keys : List String} {pending : List Path} {l : List Entry}
    (h : SerialLog keys pending l) : SerialLog keys pending (ApiFu.C11.events l) := by
  induction h with
  | stop keys pending => simp only [ApiFu.C11.events]; exact SerialLog.stop _ _
  | block k keys pending pending' blk rest hb hp _ ih =>
    rw [events_append]
    exact SerialLog.block k keys pending pending' _ _ (fun e he => hb e (mem_events e blk he)) hp ih

/-- Resolver starts of a log. -/
def starts : List Entry → List Entry
  | [] => []
  | .start p :: rest => .start p :: starts rest
  | _ :: rest => starts rest

theorem starts_append (a b : List Entry) : starts (a ++ b) = starts a ++ starts b := by
  induction a with
  | nil => simp [starts]
  | cons e a ih => cases e <;> simp [starts, ih]

theorem mem_starts (e : Entry) (l : List Entry) (h : e ∈ starts l) : e ∈ l ∧ ∃ p, e = .start p := by
  induction l with
  | nil => simp [starts] at h
  | cons x l ih =>
    cases x <;> simp only [starts] at h
    all_goals first
      | exact ⟨List.mem_cons_of_mem _ (ih h).1, (ih h).2⟩
      | (rcases List.mem_cons.mp h with h | h
         · exact ⟨h ▸ List.mem_cons_self, _, h⟩
         · exact ⟨List.mem_cons_of_mem _ (ih h).1, (ih h).2⟩)

/-- An entry some key of the list admits in its block. -/
def AllowedBy (ks : List String) (e : Entry) : Prop := ∃ k ∈ ks, evOk k [] e ∨ isRootWrite k e

theorem StrictSerial.allowed {ks : List String} {l : List Entry} (h : StrictSerial ks l) :
    ∀ e ∈ l, AllowedBy ks e := by
  induction h with
  | stop keys => intro e he; simp at he
  | block k keys blk rest hb _ ih =>
    intro e he
    rcases List.mem_append.mp he with h | h
    · exact ⟨k, List.mem_cons_self, hb e h⟩
    · obtain ⟨k', hk', h'⟩ := ih e h
      exact ⟨k', List.mem_cons_of_mem _ hk', h'⟩

/-- In a strictly serial log, once an entry appears that the first key does not admit, everything
    after it belongs to the later keys. -/
theorem StrictSerial.after_foreign {k : String} {ks : List String} {l pre post : List Entry} {e : Entry}
    (h : StrictSerial (k :: ks) l) (hl : l = pre ++ e :: post) (hne : ¬ (evOk k [] e ∨ isRootWrite k e)) :
    ∀ e' ∈ post, AllowedBy ks e' := by
  cases h with
  | stop => simp at hl
  | block _ _ blk rest hb hrest =>
    rcases List.append_eq_append_iff.mp hl with ⟨a', h1, h2⟩ | ⟨c', h1, h2⟩
    · intro e' he'
      exact hrest.allowed e' (by rw [h2]; simp [he'])
    · cases c' with
      | nil =>
        simp only [List.nil_append] at h2
        intro e' he'
        exact hrest.allowed e' (by rw [← h2]; simp [he'])
      | cons x c'' =>
        simp only [List.cons_append, List.cons.injEq] at h2
        exact absurd (hb e (by rw [h1, h2.1]; simp)) hne


end ApiFu.C11
