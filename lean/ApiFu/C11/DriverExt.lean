/-
  C11 model driver, extended model (ApiFu/C11/Ext.lean). One more request on top of the line
  protocol of ApiFu/C02/Driver.lean:

    (runx (<sel>…) <root type name> (<wfield>…) (<mask>…) <fuel> <panicAt>)
      the mutation given by the document's selection sets and the resolver outcomes (as for `rund`),
      run by `executeX` — repaired serial loop, general idle handler: call k delivers exactly the
      outstanding promises mask k selects (none for 0), everything once the masks are used up; at
      most <fuel> handler calls per wait / settle loop —, the log cut at the <panicAt>-th resolver
      call (0: no panic).
    → (out "<data | PANIC>" ((err "<path>" "<msg>")…) <idle calls> <promises created> ((ev start|fulfil "<path>")…))
      for a run that reached the panic only the events are meaningful (data = PANIC).
-/
import ApiFu.C02.Driver
import ApiFu.C11.Ext

open ApiFu ApiFu.C02

namespace ApiFu.C11.DriverExt

def handleRunX (sels : List Sexp) (tname : String) (world : List Sexp) (sched : List Sexp) (fuel panicAt : Nat) :
    Option Sexp := do
  let sels ← sels.mapM C02.Driver.parseSel
  let world ← world.mapM C02.Driver.parseWField
  let sched ← sched.mapM Sexp.nat?
  let rq := Request.ofDoc { mutation := true, sels := sels, tname := tname, world := world, sched := sched,
                            settle := true }
  let (w, S) := executeX fuel rq.fields sched
  let panicked := panicAt > 0 && startCount S.log ≥ panicAt
  let log := panicCut panicAt S.log
  let data :=
    if panicked then "PANIC" else
    match w with
    | .done (.ok v) => render (Field.weightL rq.fields + 6) S.log v
    | .done (.err _) => "null"
    | .stuck => "STUCK"
    | .outOfFuel => "OUT-OF-FUEL"
  pure (Sexp.node "out" [
    .atom (if S.crash then "CRASH" else data),
    .list (if panicked then [] else (errorsOf S.log).map C02.Driver.errSexp),
    Sexp.ofNat S.rounds, Sexp.ofNat S.nextId, .list (C02.Driver.eventsOf log)])

def handle (line : String) : String :=
  match Sexp.parse line with
  | some (.list [.atom "runx", .list sels, .atom tname, .list world, .list sched, fuel, panicAt]) =>
    match fuel.nat?, panicAt.nat? with
    | some fuel, some panicAt =>
      match handleRunX sels tname world sched fuel panicAt with
      | some s => toString s
      | none => "bad-op"
    | _, _ => "bad-op"
  | _ => C02.Driver.handle line

end ApiFu.C11.DriverExt
