/-
  C11 — mutation root fields execute strictly serially in document order: the extended model
  (ApiFu/C11/Ext.lean). Everything here is for the repaired executor (`settleSerialPromises`), for
  every list of root fields (any number, any nesting of promise-answered fields beneath them), every
  async subset, every bound `fuel` on the idle-handler calls of one `wait` / settle loop and every
  schedule of idle calls — each call delivers the promises its mask selects, **possibly none**, so
  the number of idle calls is unbounded too. Proof scripts: ApiFu/C11/ExtLemmas.lean.

  What the property statement says, and therefore what is stated here:
    * the event log is block₁ ++ … ++ blockₙ, blockᵢ only events under kᵢ (`mutation_log_serial_ext`),
      equivalently every event under kᵢ precedes every event under kⱼ for i < j
      (`mutation_events_ordered_by_root_key`);
    * "including every promise beneath it": nothing is outstanding when a root field has returned
      (`root_field_returns_settled`), whatever `apifu.Go` / `Batch` / hand-chained tasks make the idle
      handler do — the executor sees them only as promises fulfilled during some later handler call;
    * "the response lists the root fields in that same order" (`mutation_root_slots_ext`,
      `mutation_completed_sets_every_root_slot`).
  What it implies for a failing or panicking earlier root field (nothing more is claimed):
    * an error beneath a nullable root field is caught there and the later root fields run, after it
      (`nullable_root_fields_never_stop_the_mutation`); a failing non-null root field ends the
      mutation and no resolver of a later root field is ever called (`nonnull_root_failure_stops`);
    * a panicking resolver (no `recover` in the executor) ends the run at that call; the log up to
      there is strictly serial and no resolver is called afterwards (`panic_log_serial`,
      `panic_calls_no_later_resolver`).
  What it does NOT say: anything about other executions on the same connection. The per-event
  executions of a subscription (each source event is executed like a query, with an executor of its
  own) and other operations may interleave with a mutation's events in any way; the statement is
  about one mutation's own root fields, and that is kept under every interleaving
  (`interleaving_keeps_each_mutation_serial`).
-/
import ApiFu.C11.ExtLemmas

namespace ApiFu.C11
open ApiFu.C02

/-- **mutation_log_serial (extended model).** For every mutation, async subset, bound on idle
    calls and schedule of idle calls (calls that deliver nothing included), the resolver event log
    is block₁ ++ … ++ blockₙ, one block per root field in document order, and every event of blockᵢ
    — resolver start or promise fulfilment, at any depth — lies under kᵢ. -/
theorem mutation_log_serial_ext (fuel : Nat) (fields : List Field) (sched : List Nat) :
    StrictSerial (rootKeys fields) (events (executeX fuel fields sched).2.log) := by
  obtain ⟨l, hl, ho⟩ := execSerialX_serial fuel fields fields.length 0 sched {} rfl
  obtain ⟨tail, ht, hev, _⟩ := executeX_log fuel fields sched
  rw [ht, hl, events_append, events_append, hev]
  simpa [events] using ho.strict.toEvents

/-- **Root slots in document order.** Root slot `j` is only ever set with the key of root field `j`. -/
theorem mutation_root_slots_ext (fuel : Nat) (fields : List Field) (sched : List Nat) :
    RootWrites 0 (rootKeys fields) (executeX fuel fields sched).2.log := by
  obtain ⟨l, hl, ho⟩ := execSerialX_serial fuel fields fields.length 0 sched {} rfl
  obtain ⟨tail, ht, _, hno⟩ := executeX_log fuel fields sched
  intro j key v hmem
  rw [ht, hl] at hmem
  simp only [List.mem_append] at hmem
  rcases hmem with (h | h) | h
  · simp at h
  · exact ho.roots j key v h
  · exact absurd h (hno j key v)

/-- **A mutation that returns data has executed every root field**: each root key's slot was set
    (and, by `mutation_log_serial_ext`, in document order). -/
theorem mutation_completed_sets_every_root_slot (fuel : Nat) (fields : List Field) (sched : List Nat) (v : Val)
    (h : (executeX fuel fields sched).1 = .done (.ok v)) :
    ∀ j key, (rootKeys fields)[j]? = some key → ∃ v', Entry.write [] j key v' ∈ (executeX fuel fields sched).2.log := by
  obtain ⟨l, hl, ho⟩ := execSerialX_serial fuel fields fields.length 0 sched {} rfl
  obtain ⟨tail, ht, _, _⟩ := executeX_log fuel fields sched
  rw [executeX_result] at h
  intro j key hj
  obtain ⟨v', hv'⟩ := ho.completed v h j key hj
  exact ⟨v', by rw [ht, hl]; simp only [List.mem_append]; exact Or.inl (Or.inr (by simpa using hv'))⟩

/-- **A failing non-null root field ends the mutation.** If the mutation's data is null, the root
    field that failed is declared non-null, and the whole event log is strictly serial over the root
    fields *up to and including that one*: no resolver of a later root field was called, no promise of
    one was created or fulfilled. -/
theorem nonnull_root_failure_stops (fuel : Nat) (fields : List Field) (sched : List Nat) (e : Err)
    (h : (executeX fuel fields sched).1 = .done (.err e)) :
    ∃ pre fld post, fields = pre ++ fld :: post ∧ fieldNN fld = true ∧
      StrictSerial (rootKeys (pre ++ [fld])) (events (executeX fuel fields sched).2.log) := by
  obtain ⟨l, hl, ho⟩ := execSerialX_serial fuel fields fields.length 0 sched {} rfl
  obtain ⟨tail, ht, hev, _⟩ := executeX_log fuel fields sched
  rw [executeX_result] at h
  obtain ⟨pre, fld, post, hf, hnn, hst⟩ := ho.failed e h
  refine ⟨pre, fld, post, hf, hnn, ?_⟩
  rw [ht, hl, events_append, events_append, hev]
  simpa [events] using hst.toEvents

/-- **Errors beneath nullable root fields never stop the mutation**: when every root field is
    nullable, the mutation never returns null data, whatever fails beneath them — the error is
    caught at the root field, and the later root fields are executed after it. -/
theorem nullable_root_fields_never_stop_the_mutation (fuel : Nat) (fields : List Field) (sched : List Nat)
    (hn : ∀ f ∈ fields, fieldNN f = false) (e : Err) : (executeX fuel fields sched).1 ≠ .done (.err e) := by
  intro h
  obtain ⟨pre, fld, post, hf, hnn, _⟩ := nonnull_root_failure_stops fuel fields sched e h
  have := hn fld (by rw [hf]; simp)
  rw [this] at hnn
  cases hnn

/-- **Every promise beneath a root field has completed when the field returns**: whenever the
    serial loop comes back with a result, nothing is outstanding — in particular before each next
    root field starts (`SerialOutcome.settled` is what the induction carries from field to field). -/
theorem root_field_returns_settled (fuel : Nat) (fields : List Field) (n i : Nat) (sched : List Nat) (S : Store)
    (hS : S.outstanding = []) (r : Res) (h : (execSerialX fuel fields n i sched S).1 = .done r) :
    (execSerialX fuel fields n i sched S).2.2.outstanding = [] := by
  obtain ⟨l, _, ho⟩ := execSerialX_serial fuel fields n i sched S hS
  exact ho.settled r h

/-! ### a panicking resolver -/

/-- **The log of a run that ends in a resolver's panic is strictly serial**: cut the log at the
    `k`-th resolver call, for any `k`. -/
theorem panic_log_serial (fuel : Nat) (fields : List Field) (sched : List Nat) (k : Nat) :
    StrictSerial (rootKeys fields) (eventsX fuel fields sched k) := by
  unfold eventsX
  obtain ⟨b, hb⟩ := panicCut_prefix k (executeX fuel fields sched).2.log
  have h := mutation_log_serial_ext fuel fields sched
  rw [hb, events_append] at h
  exact h.take _ _ rfl

/-- **No resolver is called after the panic**: the cut log contains at most `k` resolver calls —
    in particular none belonging to a later root field. -/
theorem panic_calls_no_later_resolver (fuel : Nat) (fields : List Field) (sched : List Nat) (k : Nat) (hk : 0 < k) :
    startCount (panicCut k (executeX fuel fields sched).2.log) ≤ k :=
  panicCut_startCount k hk _

/-! ### the quantifier text: every event under kᵢ precedes every event under kᵢ₊₁ -/

/-- **mutation_events_ordered_by_root_key** (the quantifier of the property, literally): when the
    root response keys are pairwise distinct (`ApiFu.C02.collected_keys_distinct`), an event under a
    root key never comes after an event under a later root key — every event under kᵢ precedes every
    event under kⱼ, i < j, in the global start / fulfil log. -/
theorem mutation_events_ordered_by_root_key (fuel : Nat) (fields : List Field) (sched : List Nat)
    (hn : (rootKeys fields).Nodup) (pre post : List Entry) (e1 e2 : Entry) (k1 k2 : String)
    (hl : events (executeX fuel fields sched).2.log = pre ++ e1 :: post) (he2 : e2 ∈ post)
    (hk1 : keyOf e1 = some k1) (hk2 : keyOf e2 = some k2) :
    (rootKeys fields).idxOf k1 ≤ (rootKeys fields).idxOf k2 :=
  (mutation_log_serial_ext fuel fields sched).ordered hn pre e1 post e2 k1 k2 hl he2 hk1 hk2

/-! ### other executions on the same connection -/

/-- **Interleaving keeps each mutation serial.** Take any number of executions on one connection —
    mutations, queries, the per-event executions of subscriptions —, each with its own event log, and
    interleave the logs in any way: the events of a mutation, read off the interleaving, are still
    strictly serial in its own root fields. (Nothing is claimed about the relative order of events
    of different executions: the property speaks about the root fields of one mutation.) -/
theorem interleaving_keeps_each_mutation_serial (logs : List (List Entry)) (l : List (Nat × Entry))
    (h : Shuffle logs l) (j fuel : Nat) (fields : List Field) (sched : List Nat)
    (hj : logs[j]? = some (events (executeX fuel fields sched).2.log)) :
    StrictSerial (rootKeys fields) (proj j l) := by
  rw [proj_shuffle h j, hj]
  exact mutation_log_serial_ext fuel fields sched

/-! ### non-vacuity -/

/-- The F-11a mutation `a { x y } b` (`a.x` and `b` through promises, `a.y : Int!` null) under an
    idle handler whose first call delivers nothing: `wait` returns `a` at once, the settle loop calls
    the handler twice (nothing, then `a.x`), `b` starts afterwards; three handler calls in all. -/
def lazyExample : List Field :=
  [.mk "a" false .sync none (.object [.mk "x" false .promise none (.scalar "1"), .mk "y" true .sync none .null]),
   .mk "b" false .promise none (.scalar "2")]

example : events (executeX 5 lazyExample [0, 1]).2.log =
    [.start [.key "a"], .start [.key "a", .key "x"], .start [.key "a", .key "y"],
     .fulfil [.key "a", .key "x"], .start [.key "b"], .fulfil [.key "b"]] ∧
    (executeX 5 lazyExample [0, 1]).2.rounds = 3 := by
  simp [executeX, lazyExample, execSerialX, afterWaitX, serialContX, waitX, settleX, idleCall, picksX, maskPicks, testBit,
    execField, catchIfNullable, mkMap, mkAfter, scanReady, mkMapOkValue, mkMapOkToAny,
    poll, pollAll, Store.push, deliver, applyK, complete, execFields, nonNullWrap, applyMap, applyOk,
    Fut.weight, Fut.weightO, Comp.weight, events, Val.isNull, List.replicate]

/-- … and with a bound of one handler call per loop the settle loop gives up: the execution stops
    (`outOfFuel`) and `b` is never started. -/
example : (executeX 1 lazyExample [0, 1]).1 = .outOfFuel ∧
    events (executeX 1 lazyExample [0, 1]).2.log =
      [.start [.key "a"], .start [.key "a", .key "x"], .start [.key "a", .key "y"]] := by
  simp [executeX, lazyExample, execSerialX, afterWaitX, serialContX, waitX, settleX, idleCall, picksX, maskPicks, testBit,
    execField, catchIfNullable, mkMap, mkAfter, scanReady, mkMapOkValue, mkMapOkToAny,
    poll, pollAll, Store.push, deliver, applyK, complete, execFields, nonNullWrap, applyMap, applyOk,
    Fut.weight, Fut.weightO, Comp.weight, events, Val.isNull, List.replicate]

/-- A panic of the 2nd resolver called (`a.x`) leaves `start a, start a.x`. -/
example : eventsX 5 lazyExample [0, 1] 2 = [.start [.key "a"], .start [.key "a", .key "x"]] := by
  simp [eventsX, panicCut, executeX, lazyExample, execSerialX, afterWaitX, serialContX, waitX, settleX, idleCall, picksX,
    maskPicks, testBit, execField, catchIfNullable, mkMap, mkAfter, scanReady, mkMapOkValue, mkMapOkToAny,
    poll, pollAll, Store.push, deliver, applyK, complete, execFields, nonNullWrap, applyMap, applyOk,
    Fut.weight, Fut.weightO, Comp.weight, events, Val.isNull, List.replicate]

end ApiFu.C11
