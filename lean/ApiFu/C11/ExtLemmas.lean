/-
  C11, extended model: proof scripts for ApiFu/C11/PropsExt.lean.
  The lemmas about futures under a root key (`poll_appK_aux`, `complete_appK_aux`, `execField_appK`,
  `catchIfNullable_*`) are those of ApiFu/C11/Lemmas.lean; what is new is the general idle call
  (possibly delivering nothing), the fuel-bounded settle loop, the outcome of the serial loop and
  the list lemmas about cuts and interleavings.
-/
import ApiFu.C11.Lemmas
import ApiFu.C11.Ext

namespace ApiFu.C11
open ApiFu.C02

/-! ### one idle call -/

theorem idleCall_spec (mask : Option Nat) (S : Store) :
    (idleCall mask S).log = S.log ++
      (fulfilled S.outstanding (picksX mask S.outstanding.length)).map (fun p => Entry.fulfil p.2) ∧
    (idleCall mask S).outstanding = kept S.outstanding (picksX mask S.outstanding.length) ∧
    (idleCall mask S).rounds = S.rounds + 1 ∧ (idleCall mask S).nextId = S.nextId := by
  have hs := deliver_spec S.outstanding (picksX mask S.outstanding.length)
    { S with outstanding := [], rounds := S.rounds + 1 }
  unfold idleCall
  obtain ⟨h1, _, h3, h4, h5, _⟩ := hs
  exact ⟨by simpa using h3, by simpa using h1, by simpa using h4, by simpa using h5⟩

/-- One idle call while root field `k` is current: it logs only fulfilments of outstanding promises
    and keeps the store `Good` — whatever it selects, also nothing. -/
theorem idleCall_serial (k : String) (pending : List Path) (mask : Option Nat) (S : Store) (hg : Good k pending S) :
    (∃ l, (idleCall mask S).log = S.log ++ l ∧ ∀ e ∈ l, evOk k pending e) ∧ Good k pending (idleCall mask S) := by
  obtain ⟨hlog, hout, _, _⟩ := idleCall_spec mask S
  refine ⟨⟨_, hlog, ?_⟩, ?_⟩
  · intro e he
    obtain ⟨p, hp, rfl⟩ := List.mem_map.mp he
    have := hg p (fulfilled_subset _ _ p hp)
    simp only [evOk]; exact this.symm
  · intro p hp
    rw [hout] at hp
    exact hg p (kept_subset _ _ p hp)

/-! ### `wait` under the general handler -/

theorem waitX_some (fuel : Nat) (f f' : Fut) (sched : List Nat) (S S1 : Store) (r : Res)
    (hp : poll f S = (f', S1, some r)) : waitX fuel f sched S = (.done r, sched, S1) := by
  cases fuel <;> simp [waitX, hp]

theorem waitX_succ_none (fuel : Nat) (f f' : Fut) (sched : List Nat) (S S1 : Store)
    (hp : poll f S = (f', S1, none)) :
    waitX (fuel + 1) f sched S = waitX fuel f' sched.tail (idleCall sched.head? S1) := by
  simp [waitX, hp]

theorem waitX_serial (k : String) (pending : List Path) (fuel : Nat) :
    ∀ (f : Fut) (sched : List Nat) (S : Store), futUnder k f = true → Good k pending S →
      (∃ l, (waitX fuel f sched S).2.2.log = S.log ++ l ∧ ∀ e ∈ l, evOk k pending e) ∧
      Good k pending (waitX fuel f sched S).2.2 := by
  induction fuel with
  | zero =>
    intro f sched S hu hg
    obtain ⟨ha, _⟩ := (poll_appK_aux k).1 f S hu
    rcases hp : poll f S with ⟨f', S1, o⟩
    rw [hp] at ha
    obtain ⟨l, hl, hle⟩ := ha.log
    have hres : (waitX 0 f sched S).2.2 = S1 := by cases o <;> simp [waitX, hp]
    rw [hres]
    exact ⟨⟨l, hl, fun e he => evOk_of_evUnder _ _ _ (hle e he)⟩, ha.good hg⟩
  | succ fuel ih =>
    intro f sched S hu hg
    obtain ⟨ha, hf⟩ := (poll_appK_aux k).1 f S hu
    rcases hp : poll f S with ⟨f', S1, o⟩
    rw [hp] at ha hf
    obtain ⟨l, hl, hle⟩ := ha.log
    have hg1 : Good k pending S1 := ha.good hg
    cases o with
    | some r =>
      rw [waitX_some (fuel + 1) f f' sched S S1 r hp]
      exact ⟨⟨l, hl, fun e he => evOk_of_evUnder _ _ _ (hle e he)⟩, hg1⟩
    | none =>
      rw [waitX_succ_none fuel f f' sched S S1 hp]
      obtain ⟨⟨l2, hl2, hle2⟩, hg2⟩ := idleCall_serial k pending sched.head? S1 hg1
      obtain ⟨⟨l3, hl3, hle3⟩, hg3⟩ := ih f' sched.tail (idleCall sched.head? S1) hf hg2
      refine ⟨⟨l ++ l2 ++ l3, by rw [hl3, hl2, hl]; simp, ?_⟩, hg3⟩
      intro e he
      rcases List.mem_append.mp he with h | h
      · rcases List.mem_append.mp h with h | h
        · exact evOk_of_evUnder _ _ _ (hle e h)
        · exact hle2 e h
      · exact hle3 e h

/-- A future that cannot report an error: the result of `catchErrorIfNullable` at a nullable type. -/
def NoErr (f : Fut) : Prop := (∃ v, f = .ready (.ok v)) ∨ ∃ g, f = .map .catchError g

theorem applyMap_catch_ok (r : Res) (S : Store) : ∃ v, (applyMap .catchError r S).1 = .ok v := by
  cases r <;> simp [applyMap]

theorem poll_noErr (f : Fut) (S : Store) (h : NoErr f) :
    NoErr (poll f S).1 ∧ ∀ e, (poll f S).2.2 ≠ some (.err e) := by
  rcases h with ⟨v, rfl⟩ | ⟨g, rfl⟩
  · rw [poll_ready]; exact ⟨Or.inl ⟨v, rfl⟩, by intro e h; cases h⟩
  · rcases hp : poll g S with ⟨g', S1, o⟩
    cases o with
    | some r =>
      rw [poll_map_some hp]
      obtain ⟨v, hv⟩ := applyMap_catch_ok r S1
      exact ⟨Or.inl ⟨v, by simp [hv]⟩, by intro e h; simp [hv] at h⟩
    | none =>
      rw [poll_map_none hp]
      exact ⟨Or.inr ⟨g', rfl⟩, by intro e h; cases h⟩

theorem waitX_noErr (fuel : Nat) : ∀ (f : Fut) (sched : List Nat) (S : Store), NoErr f →
    ∀ e, (waitX fuel f sched S).1 ≠ .done (.err e) := by
  induction fuel with
  | zero =>
    intro f sched S h e
    obtain ⟨_, hne⟩ := poll_noErr f S h
    rcases hp : poll f S with ⟨f', S1, o⟩
    rw [hp] at hne
    cases o with
    | some r => simp only [waitX, hp]; intro hc; cases hc; exact hne e rfl
    | none => simp [waitX, hp]
  | succ fuel ih =>
    intro f sched S h e
    obtain ⟨hn, hne⟩ := poll_noErr f S h
    rcases hp : poll f S with ⟨f', S1, o⟩
    rw [hp] at hne hn
    cases o with
    | some r => rw [waitX_some (fuel + 1) f f' sched S S1 r hp]; intro hc; cases hc; exact hne e rfl
    | none => rw [waitX_succ_none fuel f f' sched S S1 hp]; exact ih f' _ _ hn e

theorem catchIfNullable_noErr (f : Fut) (S : Store) : NoErr (catchIfNullable false f S).1 := by
  unfold catchIfNullable
  simp only [Bool.false_eq_true, if_false]
  cases f with
  | ready r =>
    obtain ⟨v, hv⟩ := applyMap_catch_ok r S
    exact Or.inl ⟨v, by simp [mkMap, hv]⟩
  | _ => exact Or.inr ⟨_, rfl⟩

/-! ### the settle step -/

theorem settleX_serial (k : String) (pending : List Path) (n : Nat) :
    ∀ (sched : List Nat) (S : Store), Good k pending S →
      (∃ l, (settleX n sched S).2.2.log = S.log ++ l ∧ ∀ e ∈ l, evOk k pending e) ∧
      Good k pending (settleX n sched S).2.2 ∧
      ((settleX n sched S).1 = true → (settleX n sched S).2.2.outstanding = []) := by
  induction n with
  | zero =>
    intro sched S hg
    by_cases he : S.outstanding = []
    · simp only [settleX, he, List.isEmpty_nil, if_true]
      exact ⟨⟨[], by simp, by simp⟩, fun p hp => by simp [he] at hp, by simp [he]⟩
    · have : S.outstanding.isEmpty = false := by cases h : S.outstanding <;> simp_all
      simp only [settleX, this, Bool.false_eq_true, if_false]
      exact ⟨⟨[], by simp, by simp⟩, hg, fun h => by cases h⟩
  | succ n ih =>
    intro sched S hg
    by_cases he : S.outstanding = []
    · simp only [settleX, he, List.isEmpty_nil, if_true]
      exact ⟨⟨[], by simp, by simp⟩, fun p hp => by simp [he] at hp, by simp [he]⟩
    · have : S.outstanding.isEmpty = false := by cases h : S.outstanding <;> simp_all
      simp only [settleX, this, Bool.false_eq_true, if_false]
      obtain ⟨⟨l2, hl2, hle2⟩, hg2⟩ := idleCall_serial k pending sched.head? S hg
      obtain ⟨⟨l3, hl3, hle3⟩, hg3, hout⟩ := ih sched.tail (idleCall sched.head? S) hg2
      refine ⟨⟨l2 ++ l3, by rw [hl3, hl2]; simp, ?_⟩, hg3, hout⟩
      intro e he
      rcases List.mem_append.mp he with h | h
      · exact hle2 e h
      · exact hle3 e h

/-! ### the serial loop -/

def fieldNN : Field → Bool
  | .mk _ nn _ _ _ => nn

/-- Every root key of `keys` has had its root slot set: slot `i + j` with key `keys[j]`. -/
def AllSet (i : Nat) (keys : List String) (l : List Entry) : Prop :=
  ∀ j key, keys[j]? = some key → ∃ v, Entry.write [] (i + j) key v ∈ l

theorem StrictSerial.extend {ks : List String} {l : List Entry} (h : StrictSerial ks l) (more : List String) :
    StrictSerial (ks ++ more) l := by
  induction h with
  | stop keys => exact StrictSerial.stop _
  | block k keys blk rest hb _ ih => exact StrictSerial.block k (keys ++ more) blk rest hb ih

theorem rootKeys_append (a b : List Field) : rootKeys (a ++ b) = rootKeys a ++ rootKeys b := by
  induction a with
  | nil => rfl
  | cons f a ih => simp [rootKeys, ih]

theorem execSerialX_cons (fuel : Nat) (key : String) (nn : Bool) (mode : Mode) (rerr : Option String) (c : Comp)
    (rest : List Field) (n i : Nat) (sched : List Nat) (S S1 S2 : Store) (f0 f : Fut) (hm : mode ≠ .tname)
    (h1 : execField nn mode rerr c [.key key] (complete nn c [.key key]) S = (f0, S1))
    (h2 : catchIfNullable nn f0 S1 = (f, S2)) :
    execSerialX fuel (.mk key nn mode rerr c :: rest) n i sched S =
      afterWaitX (fun s T => execSerialX fuel rest n (i + 1) s T) fuel i key (waitX fuel f sched S2) := by
  cases mode
  all_goals first
    | exact absurd rfl hm
    | simp only [execSerialX, h1, h2]

/-- The outcome of the serial loop, stated on what it appended to the log. -/
structure SerialOutcome (fields : List Field) (i : Nat) (w : WaitResult) (S' : Store) (l : List Entry) : Prop where
  strict : StrictSerial (rootKeys fields) l
  roots : RootWrites i (rootKeys fields) l
  failed : ∀ e, w = .done (.err e) → ∃ pre fld post, fields = pre ++ fld :: post ∧ fieldNN fld = true ∧
    StrictSerial (rootKeys (pre ++ [fld])) l
  completed : ∀ v, w = .done (.ok v) → AllSet i (rootKeys fields) l
  settled : ∀ r, w = .done r → S'.outstanding = []

/-- **Main lemma of the extended model.** From a state with nothing outstanding, whatever
    `execSerialX` appends to the log is strictly serial, for every bound on handler calls and every
    schedule (calls that deliver nothing included); with the outcome facts of `SerialOutcome`. -/
theorem execSerialX_serial (fuel : Nat) : ∀ (fields : List Field) (n i : Nat) (sched : List Nat) (S : Store),
    S.outstanding = [] →
    ∃ l, (execSerialX fuel fields n i sched S).2.2.log = S.log ++ l ∧
      SerialOutcome fields i (execSerialX fuel fields n i sched S).1 (execSerialX fuel fields n i sched S).2.2 l := by
  intro fields
  induction fields with
  | nil =>
    intro n i sched S hS
    refine ⟨[], by simp [execSerialX], StrictSerial.stop _, by simp [RootWrites], ?_, ?_, ?_⟩
    · intro e h; simp [execSerialX] at h
    · intro v _ j key h; simp [rootKeys] at h
    · intro r _; simpa [execSerialX] using hS
  | cons fld rest ih =>
    intro n i sched S hS
    cases fld with
    | mk key nn mode rerr c =>
      have shiftRoots : ∀ (blk l3 : List Entry) (v : Val), (∀ j key' v', Entry.write [] j key' v' ∉ blk) →
          RootWrites (i + 1) (rootKeys rest) l3 →
          RootWrites i (key :: rootKeys rest) ((blk ++ [.write [] i key v]) ++ l3) := by
        intro blk l3 v hno hr3 j key' v' hmem
        rcases List.mem_append.mp hmem with h | h
        · rcases List.mem_append.mp h with h | h
          · exact absurd h (hno j key' v')
          · simp at h; obtain ⟨rfl, rfl, _⟩ := h; simp
        · obtain ⟨h1', h2'⟩ := hr3 j key' v' h
          refine ⟨by omega, ?_⟩
          have : j - i = (j - (i + 1)) + 1 := by omega
          rw [this]; simpa using h2'
      have shiftSet : ∀ (blk l3 : List Entry) (v : Val), AllSet (i + 1) (rootKeys rest) l3 →
          AllSet i (key :: rootKeys rest) ((blk ++ [.write [] i key v]) ++ l3) := by
        intro blk l3 v h3 j key' hj
        cases j with
        | zero => simp at hj; subst hj; exact ⟨v, by simp⟩
        | succ j =>
          obtain ⟨v', hv'⟩ := h3 j key' (by simpa using hj)
          exact ⟨v', List.mem_append_right _ (by rwa [show i + (j + 1) = i + 1 + j by omega])⟩
      by_cases hm : mode = .tname
      · subst hm
        have hS' : (S.push (.write [] i key (tnameVal c))).outstanding = [] := by simpa [Store.push] using hS
        obtain ⟨l', hl', ho'⟩ := ih n (i + 1) sched (S.push (.write [] i key (tnameVal c))) hS'
        have hblk : ∀ e ∈ ([] : List Entry) ++ [Entry.write [] i key (tnameVal c)], evOk key [] e ∨ isRootWrite key e := by
          intro e he; simp at he; subst he; exact Or.inr ⟨i, _, rfl⟩
        refine ⟨([] ++ [.write [] i key (tnameVal c)]) ++ l', by simp only [execSerialX]; rw [hl']; simp [Store.push], ?_⟩
        simp only [execSerialX, rootKeys, Field.key]
        refine ⟨StrictSerial.block key (rootKeys rest) _ _ hblk ho'.strict,
          shiftRoots [] l' _ (by simp) ho'.roots, ?_, ?_, ho'.settled⟩
        · intro e he
          obtain ⟨pre, fld, post, hf, hnn, hst⟩ := ho'.failed e he
          refine ⟨.mk key nn .tname rerr c :: pre, fld, post, by simp [hf], hnn, ?_⟩
          simpa [rootKeys, Field.key] using StrictSerial.block key _ _ _ hblk hst
        · intro v hv; exact shiftSet [] l' _ (ho'.completed v hv)
      · rcases h1 : execField nn mode rerr c [.key key] (complete nn c [.key key]) S with ⟨f0, S1⟩
        rcases h2 : catchIfNullable nn f0 S1 with ⟨f, S2⟩
        have hf := execField_appK key nn mode rerr c [.key key] (complete nn c [.key key]) S (under_root_key key)
          (fun S' => (complete_appK_aux key).1 nn c [.key key] S' (under_root_key key))
        rw [h1] at hf
        have hc := catchIfNullable_appK key nn f0 S1
        have hcu := catchIfNullable_under key nn f0 S1 hf.2
        rw [h2] at hc hcu
        have happ : AppK key S S2 := hf.1.trans hc
        obtain ⟨l1, hl1, hle1⟩ := happ.log
        have hg0 : Good key [] S := fun p hp => by simp [hS] at hp
        have hg2 : Good key [] S2 := happ.good hg0
        obtain ⟨⟨l2a, hl2a, hle2a⟩, hg3a⟩ := waitX_serial key [] fuel f sched S2 hcu hg2
        have hnoerr : nn = false → ∀ e, (waitX fuel f sched S2).1 ≠ .done (.err e) := by
          intro hnn e
          subst hnn
          have := catchIfNullable_noErr f0 S1
          rw [h2] at this
          exact waitX_noErr fuel f sched S2 this e
        rw [execSerialX_cons fuel key nn mode rerr c rest n i sched S S1 S2 f0 f hm h1 h2]
        rcases hw : waitX fuel f sched S2 with ⟨w, sched1, S3⟩
        rw [hw] at hl2a hg3a hnoerr
        simp only at hl2a hg3a hnoerr
        -- the block so far: l1 ++ l2a, all under `key`
        have stopHere : ∀ (l2 : List Entry) (S' : Store) (w' : WaitResult), S'.log = S2.log ++ l2 →
            (∀ e ∈ l2, evOk key [] e) → (∀ r, w' = .done r → (∃ e, r = .err e) ∧ nn = true ∧ S'.outstanding = []) →
            ∃ l, S'.log = S.log ++ l ∧ SerialOutcome (.mk key nn mode rerr c :: rest) i w' S' l := by
          intro l2 S' w' hl2 hle2 hdone
          have hblk : ∀ e ∈ l1 ++ l2, evOk key [] e ∨ isRootWrite key e := by
            intro e he
            rcases List.mem_append.mp he with h | h
            · exact Or.inl (evOk_of_evUnder _ _ _ (hle1 e h))
            · exact Or.inl (hle2 e h)
          have hnoroot : ∀ j key' v, Entry.write [] j key' v ∉ l1 ++ l2 := by
            intro j key' v hmem
            rcases hblk _ hmem with h | h
            · exact not_root_of_evOk key [] j key' v h
            · exact not_root_of_evOk key [] j key' v (by
                rcases List.mem_append.mp hmem with h' | h'
                · exact evOk_of_evUnder _ _ _ (hle1 _ h')
                · exact hle2 _ h')
          have hone : StrictSerial [key] ((l1 ++ l2) ++ []) :=
            StrictSerial.block key [] _ _ hblk (StrictSerial.stop _)
          refine ⟨(l1 ++ l2) ++ [], by rw [hl2, hl1]; simp, ?_, ?_, ?_, ?_, ?_⟩
          · simpa [rootKeys, Field.key] using hone.extend (rootKeys rest)
          · intro j key' v hmem; simp only [List.append_nil] at hmem; exact absurd hmem (hnoroot j key' v)
          · intro e he
            obtain ⟨_, hnn, _⟩ := hdone _ he
            exact ⟨[], .mk key nn mode rerr c, rest, rfl, hnn, by simpa [rootKeys, Field.key] using hone⟩
          · intro v hv
            obtain ⟨⟨e, he⟩, _⟩ := hdone _ hv
            cases he
          · intro r hr; exact (hdone r hr).2.2
        cases w with
        | done r =>
          simp only [afterWaitX]
          obtain ⟨⟨l2b, hl2b, hle2b⟩, hg4, hout⟩ := settleX_serial key [] fuel sched1 S3 hg3a
          rcases hst : settleX fuel sched1 S3 with ⟨ok, sched2, S4⟩
          rw [hst] at hl2b hg4 hout
          simp only at hl2b hg4 hout
          have hl2 : S4.log = S2.log ++ (l2a ++ l2b) := by rw [hl2b, hl2a]; simp
          have hle2 : ∀ e ∈ l2a ++ l2b, evOk key [] e := by
            intro e he
            rcases List.mem_append.mp he with h | h
            · exact hle2a e h
            · exact hle2b e h
          cases ok with
          | false =>
            simp only [serialContX]
            exact stopHere _ S4 .outOfFuel hl2 hle2 (by intro r h; cases h)
          | true =>
            have hS4 : S4.outstanding = [] := hout rfl
            cases r with
            | err e =>
              simp only [serialContX]
              have hnn : nn = true := by
                cases nn with
                | true => rfl
                | false => exact absurd rfl (hnoerr rfl e)
              exact stopHere _ S4 (.done (.err e)) hl2 hle2 (by
                intro r h; cases h; exact ⟨⟨e, rfl⟩, hnn, hS4⟩)
            | ok v =>
              simp only [serialContX]
              have hS4' : (S4.push (.write [] i key v)).outstanding = [] := by simpa [Store.push] using hS4
              obtain ⟨l3, hl3, ho3⟩ := ih n (i + 1) sched2 (S4.push (.write [] i key v)) hS4'
              have hblk0 : ∀ e ∈ l1 ++ (l2a ++ l2b), evOk key [] e := by
                intro e he
                rcases List.mem_append.mp he with h | h
                · exact evOk_of_evUnder _ _ _ (hle1 e h)
                · exact hle2 e h
              have hblk : ∀ e ∈ (l1 ++ (l2a ++ l2b)) ++ [Entry.write [] i key v], evOk key [] e ∨ isRootWrite key e := by
                intro e he
                rcases List.mem_append.mp he with h | h
                · exact Or.inl (hblk0 e h)
                · simp at h; subst h; exact Or.inr ⟨i, v, rfl⟩
              have hnoroot : ∀ j key' v', Entry.write [] j key' v' ∉ l1 ++ (l2a ++ l2b) :=
                fun j key' v' hmem => not_root_of_evOk key [] j key' v' (hblk0 _ hmem)
              refine ⟨((l1 ++ (l2a ++ l2b)) ++ [.write [] i key v]) ++ l3,
                by rw [hl3]; simp [Store.push, hl2, hl1], ?_⟩
              refine ⟨StrictSerial.block key (rootKeys rest) _ _ hblk ho3.strict,
                shiftRoots _ l3 v hnoroot ho3.roots, ?_, ?_, ho3.settled⟩
              · intro e he
                obtain ⟨pre, fld, post, hf', hnn, hst'⟩ := ho3.failed e he
                refine ⟨.mk key nn mode rerr c :: pre, fld, post, by simp [hf'], hnn, ?_⟩
                simpa [rootKeys, Field.key] using StrictSerial.block key _ _ _ hblk hst'
              · intro v' hv'; exact shiftSet _ l3 v (ho3.completed v' hv')
        | stuck => simp only [afterWaitX]; exact stopHere l2a S3 .stuck hl2a hle2a (by intro r h; cases h)
        | outOfFuel => simp only [afterWaitX]; exact stopHere l2a S3 .outOfFuel hl2a hle2a (by intro r h; cases h)

/-! ### cuts and interleavings -/

theorem StrictSerial.take {ks : List String} {l : List Entry} (h : StrictSerial ks l) :
    ∀ a b, l = a ++ b → StrictSerial ks a := by
  induction h with
  | stop keys =>
    intro a b hab
    have : a = [] := by
      cases a with
      | nil => rfl
      | cons x xs => simp at hab
    subst this; exact StrictSerial.stop _
  | block k keys blk rest hb _ ih =>
    intro a b hab
    rcases List.append_eq_append_iff.mp hab with ⟨a', h1, h2⟩ | ⟨c', h1, h2⟩
    · -- a = blk ++ a', rest = a' ++ b
      subst h1
      exact StrictSerial.block k keys blk a' hb (ih a' b h2)
    · -- blk = a ++ c'
      have : a = a ++ [] := by simp
      rw [this]
      exact StrictSerial.block k keys a [] (fun e he => hb e (by rw [h1]; exact List.mem_append_left _ he))
        (StrictSerial.stop _)

theorem panicCut_prefix (k : Nat) (l : List Entry) : ∃ b, l = panicCut k l ++ b := by
  induction l generalizing k with
  | nil => exact ⟨[], by simp [panicCut]⟩
  | cons e rest ih =>
    cases e with
    | start p =>
      match k with
      | 0 => obtain ⟨b, hb⟩ := ih 0; exact ⟨b, by simp only [panicCut]; rw [List.cons_append, ← hb]⟩
      | 1 => exact ⟨rest, by simp [panicCut]⟩
      | k + 2 => obtain ⟨b, hb⟩ := ih (k + 1); exact ⟨b, by simp only [panicCut]; rw [List.cons_append, ← hb]⟩
    | error e => obtain ⟨b, hb⟩ := ih k; exact ⟨b, by simp only [panicCut]; rw [List.cons_append, ← hb]⟩
    | write a b c d => obtain ⟨b', hb⟩ := ih k; exact ⟨b', by simp only [panicCut]; rw [List.cons_append, ← hb]⟩
    | note s => obtain ⟨b, hb⟩ := ih k; exact ⟨b, by simp only [panicCut]; rw [List.cons_append, ← hb]⟩
    | fulfil p => obtain ⟨b, hb⟩ := ih k; exact ⟨b, by simp only [panicCut]; rw [List.cons_append, ← hb]⟩

/-- A cut at the `k`-th resolver call contains at most `k` resolver calls: nothing is called after
    the panic. -/
theorem panicCut_startCount (k : Nat) (hk : 0 < k) (l : List Entry) : startCount (panicCut k l) ≤ k := by
  induction l generalizing k with
  | nil => simp [panicCut, startCount]
  | cons e rest ih =>
    cases e with
    | start p =>
      match k, hk with
      | 1, _ => simp [panicCut, startCount]
      | k + 2, _ => simp only [panicCut, startCount]; have := ih (k + 1) (by omega); omega
    | error e => simpa [panicCut, startCount] using ih k hk
    | write a b c d => simpa [panicCut, startCount] using ih k hk
    | note s => simpa [panicCut, startCount] using ih k hk
    | fulfil p => simpa [panicCut, startCount] using ih k hk

theorem proj_shuffle {α : Type} {ls : List (List α)} {l : List (Nat × α)} (h : Shuffle ls l) (j : Nat) :
    proj j l = ls[j]?.getD [] := by
  induction h with
  | done ls hall =>
    simp only [proj]
    cases hj : ls[j]? with
    | none => rfl
    | some x => simp [hall x (List.mem_of_getElem? hj)]
  | take ls i a tl l hi _ ih =>
    simp only [proj]
    by_cases hij : i = j
    · subst hij
      simp only [if_true, ih]
      have hlt : i < ls.length := by
        rcases Nat.lt_or_ge i ls.length with h | h
        · exact h
        · simp [List.getElem?_eq_none h] at hi
      obtain ⟨_, hget⟩ := List.getElem?_eq_some_iff.mp hi
      simp [hlt, hget]
    · simp only [hij, if_false, ih]
      simp [List.getElem?_set, hij]

/-! ### bookkeeping for the property theorems -/

/-- Projecting a strictly serial log to its resolver events keeps it strictly serial. -/
theorem StrictSerial.toEvents {keys : List String} {l : List Entry}
    (h : StrictSerial keys l) : StrictSerial keys (ApiFu.C11.events l) := by
  induction h with
  | stop keys => simp only [ApiFu.C11.events]; exact StrictSerial.stop _
  | block k keys blk rest hb _ ih =>
    rw [events_append]
    exact StrictSerial.block k keys _ _ (fun e he => hb e (mem_events e blk he)) ih

theorem executeX_log (fuel : Nat) (fields : List Field) (sched : List Nat) :
    ∃ tail, (executeX fuel fields sched).2.log =
      (execSerialX fuel fields fields.length 0 sched {}).2.2.log ++ tail ∧ events tail = [] ∧
      ∀ j key v, Entry.write [] j key v ∉ tail := by
  unfold executeX
  rcases execSerialX fuel fields fields.length 0 sched {} with ⟨w, s', S⟩
  cases w with
  | done r =>
    cases r with
    | ok v => exact ⟨[], by simp, rfl, by simp⟩
    | err e => exact ⟨[.error e], by simp [Store.push], rfl, by simp⟩
  | stuck => exact ⟨[], by simp, rfl, by simp⟩
  | outOfFuel => exact ⟨[], by simp, rfl, by simp⟩

theorem executeX_result (fuel : Nat) (fields : List Field) (sched : List Nat) :
    (executeX fuel fields sched).1 = (execSerialX fuel fields fields.length 0 sched {}).1 := by
  unfold executeX
  rcases execSerialX fuel fields fields.length 0 sched {} with ⟨w, s', S⟩
  cases w with
  | done r => cases r <;> rfl
  | stuck => rfl
  | outOfFuel => rfl

/-- The root response key an event lies under. -/
def keyOf : Entry → Option String
  | .start (.key k :: _) => some k
  | .fulfil (.key k :: _) => some k
  | _ => none

theorem keyOf_allowed {e : Entry} {k k' : String} (hk : keyOf e = some k) (h : evOk k' [] e ∨ isRootWrite k' e) :
    k = k' := by
  cases e with
  | start p =>
    cases p with
    | nil => simp [keyOf] at hk
    | cons s rest =>
      cases s with
      | idx n => simp [keyOf] at hk
      | key k0 =>
        simp only [keyOf, Option.some.injEq] at hk; subst hk
        rcases h with h | ⟨_, _, h⟩
        · simpa [evOk, under] using h
        · cases h
  | fulfil p =>
    cases p with
    | nil => simp [keyOf] at hk
    | cons s rest =>
      cases s with
      | idx n => simp [keyOf] at hk
      | key k0 =>
        simp only [keyOf, Option.some.injEq] at hk; subst hk
        rcases h with h | ⟨_, _, h⟩
        · simpa [evOk, under] using h
        · cases h
  | error _ => simp [keyOf] at hk
  | write _ _ _ _ => simp [keyOf] at hk
  | note _ => simp [keyOf] at hk

theorem StrictSerial.ordered {ks : List String} {l : List Entry} (h : StrictSerial ks l) (hn : ks.Nodup) :
    ∀ pre e1 post e2 k1 k2, l = pre ++ e1 :: post → e2 ∈ post → keyOf e1 = some k1 → keyOf e2 = some k2 →
      ks.idxOf k1 ≤ ks.idxOf k2 := by
  induction h with
  | stop keys => intro pre e1 post e2 k1 k2 hl; simp at hl
  | block k keys blk rest hb hrest ih =>
    intro pre e1 post e2 k1 k2 hl he2 hk1 hk2
    have hnk : k ∉ keys := (List.nodup_cons.mp hn).1
    have inRest : ∀ a', rest = a' ++ e1 :: post → (k :: keys).idxOf k1 ≤ (k :: keys).idxOf k2 := by
      intro a' h2
      obtain ⟨k1', hk1', h1'⟩ := hrest.allowed e1 (by rw [h2]; simp)
      obtain ⟨k2', hk2', h2'⟩ := hrest.allowed e2 (by rw [h2]; simp [he2])
      have e1k := keyOf_allowed hk1 h1'; have e2k := keyOf_allowed hk2 h2'
      subst e1k; subst e2k
      have n1 : k ≠ k1 := fun hc => hnk (hc ▸ hk1')
      have n2 : k ≠ k2 := fun hc => hnk (hc ▸ hk2')
      have := ih (List.nodup_cons.mp hn).2 a' e1 post e2 k1 k2 h2 he2 hk1 hk2
      have b1 : (k == k1) = false := by simp [n1]
      have b2 : (k == k2) = false := by simp [n2]
      simp only [List.idxOf_cons, b1, b2, cond_false]
      omega
    rcases List.append_eq_append_iff.mp hl with ⟨a', h1, h2⟩ | ⟨c', h1, h2⟩
    · exact inRest a' h2
    · cases c' with
      | nil => simp only [List.nil_append] at h2; exact inRest [] (by simpa using h2.symm)
      | cons x c'' =>
        simp only [List.cons_append, List.cons.injEq] at h2
        have : k1 = k := keyOf_allowed hk1 (hb e1 (by rw [h1, h2.1]; simp))
        subst this
        simp [List.idxOf_cons]


end ApiFu.C11
