/-
  C11 model: mutation execution is `ApiFu.C02.execSerial` (executeSelections with forceSerial =
  true) of the C02 executor model; this file adds the observable of C11 — the event log of
  resolver starts and promise fulfilments keyed by response path — and the serial-order predicate.
  Core Lean only.
-/
import ApiFu.C02.Model

namespace ApiFu.C11
open ApiFu.C02

/-- Resolver events of the log: (response path) of every `start` and `fulfil`, in order. -/
def events : List Entry → List Path
  | [] => []
  | .start p :: rest => p :: events rest
  | .fulfil p :: rest => p :: events rest
  | _ :: rest => events rest

/-- The event path lies under root response key `k`. -/
def Under (k : String) (p : Path) : Prop := ∃ rest, p = Seg.key k :: rest

/-- `log` is a concatenation of blocks, the i-th of which only has events under the i-th key. -/
inductive Serial : List String → List Path → Prop where
  | nil : Serial [] []
  | cons (k : String) (ks : List String) (block rest : List Path) :
      (∀ p ∈ block, Under k p) → Serial ks rest → Serial (k :: ks) (block ++ rest)

end ApiFu.C11
