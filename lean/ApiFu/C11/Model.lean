/-
  C11 model: mutation execution is `ApiFu.C02.execSerial` (executeSelections with forceSerial =
  true) of the C02 executor model; this file adds the observable of C11 — the event log of
  resolver starts and promise fulfilments keyed by response path — and the serial-order predicates.
  Core Lean only.
-/
import ApiFu.C02.Model

namespace ApiFu.C11
open ApiFu.C02

/-- The response path lies under root response key `k`. -/
def under (k : String) : Path → Bool
  | .key k' :: _ => k' == k
  | _ => false

/-- Resolver events of the log (`start` = a resolver was called, `fulfil` = a promise was
    delivered), in order. -/
def events : List Entry → List Entry
  | [] => []
  | .start p :: rest => .start p :: events rest
  | .fulfil p :: rest => .fulfil p :: events rest
  | _ :: rest => events rest

/-- An entry that may be logged while root field `k` is being executed, when `pending` are the
    promises of earlier root fields that were abandoned but are still outstanding: resolver starts
    only under `k`; fulfilments under `k` or of a pending promise. -/
def evOk (k : String) (pending : List Path) : Entry → Prop
  | .start p => under k p = true
  | .fulfil p => under k p = true ∨ p ∈ pending
  | .write mp _ _ _ => under k mp = true      -- `Set` on a result map beneath `k`
  | _ => True

/-- The `Set` of root slot `j` to the value of root field `k`. -/
def isRootWrite (k : String) (e : Entry) : Prop := ∃ j v, e = .write [] j k v

/--
`SerialLog keys pending log`: the log splits into consecutive blocks, one per root key in order;
the block of `k` satisfies `evOk k pending`, where `pending` are the promises still outstanding
when the block starts — all of them under earlier keys (second premise). Execution may stop
before the remaining keys are touched (`stop`).
-/
inductive SerialLog : List String → List Path → List Entry → Prop where
  | stop (keys : List String) (pending : List Path) : SerialLog keys pending []
  | block (k : String) (keys : List String) (pending pending' : List Path) (blk rest : List Entry) :
      (∀ e ∈ blk, evOk k pending e ∨ isRootWrite k e) →
      (∀ p ∈ pending', p ∈ pending ∨ under k p = true) →
      SerialLog keys pending' rest →
      SerialLog (k :: keys) pending (blk ++ rest)

/-- Strict form: every event of the block of `k` is under `k`. -/
inductive StrictSerial : List String → List Entry → Prop where
  | stop (keys : List String) : StrictSerial keys []
  | block (k : String) (keys : List String) (blk rest : List Entry) :
      (∀ e ∈ blk, evOk k [] e ∨ isRootWrite k e) → StrictSerial keys rest → StrictSerial (k :: keys) (blk ++ rest)

def rootKeys : List Field → List String
  | [] => []
  | f :: fs => f.key :: rootKeys fs

/-- Root slots are only ever set with the key of the field at that position: every
    `Set(j, key, _)` on the root map among `l` has `j ≥ i` and `key = keys[j - i]`. -/
def RootWrites (i : Nat) (keys : List String) (l : List Entry) : Prop :=
  ∀ j key v, Entry.write [] j key v ∈ l → i ≤ j ∧ keys[j - i]? = some key

end ApiFu.C11
