/-
  C11 model driver executable. The model of C11 is the C02 executor model run with
  forceSerial = true (`ApiFu.C02.execSerial`); the line protocol is that of ApiFu/C02/Driver.lean:
    (run mutation (<field>…) (<mask>…)) → (out "<data>" (<errors>) rounds promises (<events>))
  The harness compares the event list (`start` / `fulfil` with response paths) and the response.
-/
import ApiFu.Common.Loop
import ApiFu.C02.Driver
import ApiFu.C11.Model

def main : IO Unit := ApiFu.lineLoopPure ApiFu.C02.Driver.handle
