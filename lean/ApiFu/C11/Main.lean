/-
  C11 model driver executable. The model of C11 is the C02 executor model run with
  forceSerial = true (`ApiFu.C02.execSerial`); the line protocol is that of ApiFu/C02/Driver.lean:
    (run mutation (<field>…) (<mask>…)) → (out "<data>" (<errors>) rounds promises (<events>))
  The harness compares the event list (`start` / `fulfil` with response paths) and the response.
  Extended model (general idle handler, panic cut): `(runx …)`, see ApiFu/C11/DriverExt.lean.
-/
import ApiFu.Common.Loop
import ApiFu.C11.DriverExt

def main : IO Unit := ApiFu.lineLoopPure ApiFu.C11.DriverExt.handle
