/-
  C11, extended model (core Lean only): the serial mutation loop under a *general* idle handler,
  with a resolver that panics, and next to other executions on the same connection.

  What is added to `ApiFu.C02.execSerial` (whose idle handler fulfils a non-empty subset of the
  outstanding promises in every call and whose `wait` has exactly the fuel it needs):

  * `idleCall` — one call of `Request.IdleHandler` that delivers exactly the promises its mask
    selects, **possibly none**. That is what the executor sees of api-fu's own handler when resolvers
    of a mutation start `apifu.Go` tasks (a promise per task, fulfilled by some later call), `Batch`
    loads (several promises fulfilled by the same call), or chain tasks by hand (`chain`: the handler
    returns after having delivered only to inner channels the executor does not hold — a call that
    delivers nothing). The executor never learns more about a task than "this ResolvePromise was
    fulfilled during that call"; nested promises (a delivered object whose own fields answer through
    promises again, at any depth) are the `thenK` continuations of the C02 model.
  * `waitX` / `settleX` — `wait` and `settleSerialPromises` as loops over such calls with an
    arbitrary bound `fuel` on the number of calls per loop; the theorems are for every `fuel` and
    every schedule, so the number of root fields, promises and idle calls is unbounded. A loop that
    runs out of fuel stops the execution there (`outOfFuel`: in Go it would go on calling the
    handler); the serial loop never goes on to the next root field from an unsettled state.
  * `panicCut` — a resolver that panics: executor.go has no `recover`, the panic unwinds
    `graphql.Execute`, so the run is the run in which that resolver answers, cut right after the
    resolver was called (the log is append-only and the executor does not look ahead).
  * `Shuffle` — the events of several executions on one connection (a mutation, the per-event
    executions of subscriptions — `executeSubscriptionEvent` runs each source event like a query —,
    queries), each with its own executor, interleaved in any way.
-/
import ApiFu.C11.Model

namespace ApiFu.C11
open ApiFu.C02

/-- The selection a call of the idle handler makes among `n` outstanding promises: bit `j` of the
    mask selects position `j` (creation order) — an empty selection stays empty —; without a mask
    (schedule used up) everything is delivered. -/
def picksX (mask : Option Nat) (n : Nat) : List Bool :=
  match mask with
  | none => List.replicate n true
  | some m => maskPicks m 0 n

/-- One call of `IdleHandler`: deliver the selected promises (`ch <- result`, event `fulfil`), keep
    the others outstanding. `rounds` counts calls. -/
def idleCall (mask : Option Nat) (S : Store) : Store :=
  deliver S.outstanding (picksX mask S.outstanding.length) { S with outstanding := [], rounds := S.rounds + 1 }

/-- `wait(e, f)`: `f.Poll(); for !done { e.IdleHandler(); f.Poll() }`, at most `fuel` handler calls. -/
def waitX : Nat → Fut → List Nat → Store → WaitResult × List Nat × Store
  | 0, f, sched, S =>
    match poll f S with
    | (_, S1, some r) => (.done r, sched, S1)
    | (_, S1, none) => (.outOfFuel, sched, S1)
  | fuel + 1, f, sched, S =>
    match poll f S with
    | (_, S1, some r) => (.done r, sched, S1)
    | (f', S1, none) => waitX fuel f' sched.tail (idleCall sched.head? S1)

/-- `settleSerialPromises`: while a promise returned beneath the current root field is unfulfilled,
    call the idle handler and look again; then receive what the channels hold. `false`: the bound on
    handler calls was reached with a promise still unfulfilled (Go would keep calling). -/
def settleX : Nat → List Nat → Store → Bool × List Nat × Store
  | 0, sched, S => if S.outstanding.isEmpty then (true, sched, { S with chan := [] }) else (false, sched, S)
  | n + 1, sched, S =>
    if S.outstanding.isEmpty then (true, sched, { S with chan := [] })
    else settleX n sched.tail (idleCall sched.head? S)

/-- What the serial loop does with a root field's result once `wait` and the settle step are over. -/
def serialContX (rec : List Nat → Store → WaitResult × List Nat × Store) (i : Nat) (key : String)
    (r : Res) (st : Bool × List Nat × Store) : WaitResult × List Nat × Store :=
  match st with
  | (false, sched2, S4) => (.outOfFuel, sched2, S4)
  | (true, sched2, S4) =>
    match r with
    | .err e => (.done (.err e), sched2, S4)                        -- return future.Err(err)
    | .ok v => rec sched2 (S4.push (.write [] i key v))             -- resultMap.Set(i, key, v); next field

/-- What the serial loop does once `wait` has returned: settle, then `serialContX`; a `wait` that
    did not return a result ends the execution. -/
def afterWaitX (rec : List Nat → Store → WaitResult × List Nat × Store) (fuel i : Nat) (key : String)
    (w : WaitResult × List Nat × Store) : WaitResult × List Nat × Store :=
  match w with
  | (.done r, sched1, S3) => serialContX rec i key r (settleX fuel sched1 S3)
  | (w, sched1, S3) => (w, sched1, S3)

/-- The field loop of `executeSelections` with forceSerial = true on the repaired executor, under
    the general idle handler. -/
def execSerialX (fuel : Nat) : List Field → Nat → Nat → List Nat → Store → WaitResult × List Nat × Store
  | [], n, _, sched, S => (.done (.ok (.obj [] n)), sched, S)
  | .mk key nn mode rerr c :: rest, n, i, sched, S =>
    match mode with
    | .tname => execSerialX fuel rest n (i + 1) sched (S.push (.write [] i key (tnameVal c)))
    | _ =>
      let (f0, S1) := execField nn mode rerr c [.key key] (complete nn c [.key key]) S
      let (f, S2) := catchIfNullable nn f0 S1
      afterWaitX (fun s T => execSerialX fuel rest n (i + 1) s T) fuel i key (waitX fuel f sched S2)

/-- `executeMutation` under the general idle handler. -/
def executeX (fuel : Nat) (fields : List Field) (sched : List Nat) : WaitResult × Store :=
  match execSerialX fuel fields fields.length 0 sched {} with
  | (.done (.err e), _, S) => (.done (.err e), S.push (.error e))
  | (w, _, S) => (w, S)

/-- `executeQuery` / `executeSubscriptionEvent` (one source event of a subscription is executed
    like a query: forceSerial = false) under the general idle handler. -/
def executeQX (fuel : Nat) (fields : List Field) (sched : List Nat) : WaitResult × Store :=
  let (f, S1) := execFields fields [] fields.length 0 [] ({} : Store)
  match waitX fuel f sched S1 with
  | (.done (.err e), _, S) => (.done (.err e), S.push (.error e))
  | (w, _, S) => (w, S)

/-! ### a panicking resolver -/

/-- The log up to and including the `k`-th (1-based) resolver call; `k = 0` or more than the log
    has: the whole log. -/
def panicCut : Nat → List Entry → List Entry
  | _, [] => []
  | k, .start p :: rest =>
    match k with
    | 0 => .start p :: panicCut 0 rest
    | 1 => [.start p]
    | k + 2 => .start p :: panicCut (k + 1) rest
  | k, e :: rest => e :: panicCut k rest

/-- The number of resolver calls in a log. -/
def startCount : List Entry → Nat
  | [] => 0
  | .start _ :: rest => startCount rest + 1
  | _ :: rest => startCount rest

/-! ### several executions on one connection -/

/-- `Shuffle ls l`: `l` is an interleaving of the lists `ls` (each element of `l` is tagged with the
    index of the list it was taken from; every list is consumed front to back). -/
inductive Shuffle {α : Type} : List (List α) → List (Nat × α) → Prop where
  | done (ls : List (List α)) : (∀ x ∈ ls, x = []) → Shuffle ls []
  | take (ls : List (List α)) (j : Nat) (a : α) (tl : List α) (l : List (Nat × α)) :
      ls[j]? = some (a :: tl) → Shuffle (ls.set j tl) l → Shuffle ls ((j, a) :: l)

/-- The part of a tagged log that belongs to execution `j`. -/
def proj {α : Type} (j : Nat) : List (Nat × α) → List α
  | [] => []
  | (i, a) :: rest => if i = j then a :: proj j rest else proj j rest

/-! ### observable of the driver -/

/-- Resolver events of the extended run, cut at the `panicAt`-th resolver call when `panicAt > 0`. -/
def eventsX (fuel : Nat) (fields : List Field) (sched : List Nat) (panicAt : Nat) : List Entry :=
  events (panicCut panicAt (executeX fuel fields sched).2.log)

end ApiFu.C11
