/-
  C16 — executable model of the time-based connection, on top of the C09 connection model.

    pagination.go:659-683            TimeBasedCursor, LessThan       → `TCursor`, `ltC`
    pagination/pagination.go:90-137  TimeBasedRangeQueries           → `timeBasedRangeQueries`
    pagination.go:728-811            TimeBasedConnection's adapter   → `adapter` (one getter call per
                                     (ResolveEdges closure)             query, results appended; the
                                                                        promise `join` appends the same
                                                                        slices in the same order)
    pagination.go:484-657            Connection / completeConnection → `ApiFu.C09.resolve`, mode `window`

  The model follows the *fixed* code (repo-patches/C16/01-fix-…: the exact-timestamp queries for
  the `after` / `before` cursor are only issued when that timestamp lies inside the requested time
  window, F-16a).

  Times are integer nanoseconds since the Unix epoch, unbounded (`Int`): Go's `time.Time{}` (the
  default lower bound) and `distantFuture` (year 3000, the default upper bound) are the constants
  `zeroTime` and `distantFuture`; `t.Add(-time.Nanosecond)` is `t - 1`, `time.Unix(0, n+1)` is `n + 1`.
  (Cursor nanoseconds are `int64` in Go; the model does not wrap — the correspondence is exercised
  for |nano| < 2^62 only, an assumption recorded in the check.)

  Ids are any type `ι` with a comparator (`strings.Compare(a, b) < 0` in Go; the driver uses Lean's
  `String` order, which like Go's is the bytewise/lexicographic order on UTF-8). An edge is
  identified by its cursor `(nano, id)`; ids are unique within a data set.

  The application's `EdgeGetter` is a parameter `g : minTime → maxTime → limit → edges`.

  Core Lean only (linked into the driver `c16model`).
-/
import ApiFu.C09.Model

namespace ApiFu.C16

open ApiFu.C09

/-- `apifu.TimeBasedCursor`. -/
structure TCursor (ι : Type) where
  nano : Int
  id : ι
  deriving Repr, DecidableEq

/-- `TimeBasedCursor.LessThan`: nanoseconds, then id. -/
def ltC {ι : Type} (ltId : ι → ι → Bool) (c d : TCursor ι) : Bool :=
  decide (c.nano < d.nano) || (decide (c.nano = d.nano) && ltId c.id d.id)

/-- `pagination.TimeBasedRangeQuery`. -/
structure Query where
  minTime : Int
  maxTime : Int
  limit : Int
  deriving Repr, DecidableEq

/-- `time.Time{}` in nanoseconds since the Unix epoch: 0001-01-01T00:00:00Z. -/
def zeroTime : Int := -62135596800000000000

/-- `distantFuture` (pagination.go:98): 3000-01-01T00:00:00Z. -/
def distantFuture : Int := 32503680000000000000

/-- `TimeBasedRangeQueries` (pagination/pagination.go:100-137, after the F-16a fix). -/
def timeBasedRangeQueries {ι : Type} (after before : Option (TCursor ι))
    (atOrAfterTimeIn beforeTimeIn : Option Int) (limit : Int) : List Query :=
  let atOrAfterTime := atOrAfterTimeIn.getD zeroTime
  let beforeTime := beforeTimeIn.getD distantFuture
  let inWindow : Int → Bool := fun t => !(decide (t < atOrAfterTime)) && decide (t < beforeTime)
  let middle0 : Query := { minTime := atOrAfterTime, maxTime := beforeTime - 1, limit := limit }
  -- if after != nil { … }
  let s1 : List Query × Query :=
    match after with
    | none => ([], middle0)
    | some a =>
      let afterTime := a.nano
      let qs := if inWindow afterTime then [{ minTime := afterTime, maxTime := afterTime, limit := 0 }] else []
      (qs, if afterTime + 1 > middle0.minTime then { middle0 with minTime := afterTime + 1 } else middle0)
  -- if before != nil { … }
  let s2 : List Query × Query :=
    match before with
    | none => s1
    | some b =>
      let beforeTime' := b.nano
      let sameAsAfter : Bool := match after with
        | none => false
        | some a => decide (a.nano = beforeTime')
      let qs := if inWindow beforeTime' && !sameAsAfter
        then s1.1 ++ [{ minTime := beforeTime', maxTime := beforeTime', limit := 0 }] else s1.1
      (qs, if beforeTime' - 1 < s1.2.maxTime then { s1.2 with maxTime := beforeTime' - 1 } else s1.2)
  s2.1 ++ [s2.2]

/-- The `ResolveEdges` closure of `TimeBasedConnection` (pagination.go:766-808): one `EdgeGetter`
    call per range query, the replies appended in query order. -/
def adapter {ι : Type} (g : Int → Int → Int → List (TCursor ι)) (atOrAfterTime beforeTime : Option Int)
    (after before : Option (TCursor ι)) (limit : Int) : List (TCursor ι) :=
  (timeBasedRangeQueries after before atOrAfterTime beforeTime limit).flatMap
    (fun q => g q.minTime q.maxTime q.limit)

/-- The application of a time-based connection, as a C09 `App` in window mode. -/
def timeApp {ι : Type} (g : Int → Int → Int → List (TCursor ι)) (atOrAfterTime beforeTime : Option Int)
    (totalCount : Option Int) : App (TCursor ι) :=
  { allEdges := [], getter := adapter g atOrAfterTime beforeTime, totalCount := totalCount }

/-- A request on a `TimeBasedConnection` field: the connection arguments plus the two time bounds. -/
structure TArgs where
  conn : Args
  atOrAfterTime : Option Int
  beforeTime : Option Int
  deriving Repr

/-- The field's resolver: `Connection(…)` in window mode over the adapter. -/
def resolveTime {ι : Type} (ltId : ι → ι → Bool) (sort : List (TCursor ι) → List (TCursor ι))
    (dec : String → Option (TCursor ι)) (g : Int → Int → Int → List (TCursor ι)) (totalCount : Option Int)
    (a : TArgs) (sel : Sel) : Out (TCursor ι) :=
  resolve (ltC ltId) sort dec (timeApp g a.atOrAfterTime a.beforeTime totalCount) .window a.conn sel

/-- The `(minTime, maxTime, limit)` triples the getter receives for a request, in call order: the
    range queries of the single `ResolveEdges` call the connection makes (none on the lazy zero-edge
    path when `pageInfo` is not selected, none on an argument error). -/
def getterCalls {ι : Type} (a : TArgs) (calls : List (Call (TCursor ι))) : List Query :=
  calls.flatMap fun
    | .all => []
    | .window after before limit => timeBasedRangeQueries after before a.atOrAfterTime a.beforeTime limit

end ApiFu.C16
