/-
  C16 — the adapter (`TimeBasedConnection`'s `ResolveEdges` closure) over a getter that breaks ties
  by id honours the C09 `ResolveEdges` contract for the time-filtered data set.
-/
import ApiFu.C16.Lemmas

namespace ApiFu.C16

open ApiFu.C09

variable {ι : Type}

/-- Go's `int64` range — `TimeBasedCursor.Nano` is an `int64`. -/
def Int64Range (n : Int) : Prop := -9223372036854775808 ≤ n ∧ n < 9223372036854775808

/-- For `int64` nanoseconds the defaults `time.Time{}` / `distantFuture` do not constrain. -/
theorem inTimeWindow_iff (t1 t2 : Option Int) (c : TCursor ι) (hc : Int64Range c.nano) :
    inTimeWindow t1 t2 c = true ↔ lo t1 ≤ c.nano ∧ c.nano < hi t2 := by
  obtain ⟨h1, h2⟩ := hc
  cases t1 <;> cases t2 <;> simp [inTimeWindow, lo, hi, zeroTime, distantFuture] <;> omega

theorem midMin_le_iff (a : Option (TCursor ι)) (t1 : Option Int) (x : Int) :
    midMin a t1 ≤ x ↔ lo t1 ≤ x ∧ ∀ ca, a = some ca → ca.nano + 1 ≤ x := by
  unfold midMin
  cases a with
  | none => simp
  | some ca =>
    simp only [Option.some.injEq, forall_eq']
    split <;> omega

theorem le_midMax_iff (b : Option (TCursor ι)) (t2 : Option Int) (x : Int) :
    x ≤ midMax b t2 ↔ x ≤ hi t2 - 1 ∧ ∀ cb, b = some cb → x ≤ cb.nano - 1 := by
  unfold midMax
  cases b with
  | none => simp
  | some cb =>
    simp only [Option.some.injEq, forall_eq']
    split <;> omega

theorem mem_exactA {a : Option (TCursor ι)} {t1 t2 : Option Int} {q : Query} :
    q ∈ exactA a t1 t2 ↔ ∃ ca, a = some ca ∧ inWin t1 t2 ca.nano = true ∧
      q = { minTime := ca.nano, maxTime := ca.nano, limit := 0 } := by
  unfold exactA
  cases a with
  | none => simp
  | some ca =>
    by_cases hw : inWin t1 t2 ca.nano = true <;> simp [hw]

theorem mem_exactB {a b : Option (TCursor ι)} {t1 t2 : Option Int} {q : Query} :
    q ∈ exactB a b t1 t2 ↔ ∃ cb, b = some cb ∧ inWin t1 t2 cb.nano = true ∧ sameAsAfter a cb.nano = false ∧
      q = { minTime := cb.nano, maxTime := cb.nano, limit := 0 } := by
  unfold exactB
  cases b with
  | none => simp
  | some cb =>
    by_cases hw : inWin t1 t2 cb.nano = true <;> by_cases hs : sameAsAfter a cb.nano = true <;> simp [hw, hs]

theorem inWin_iff (t1 t2 : Option Int) (t : Int) : inWin t1 t2 t = true ↔ lo t1 ≤ t ∧ t < hi t2 := by
  simp [inWin]

/-- Membership in the adapter's reply. -/
theorem mem_adapter (g : Int → Int → Int → List (TCursor ι)) (t1 t2 : Option Int)
    (a b : Option (TCursor ι)) (lim : Int) (c : TCursor ι) :
    c ∈ adapter g t1 t2 a b lim ↔
      (∃ ca, a = some ca ∧ inWin t1 t2 ca.nano = true ∧ c ∈ g ca.nano ca.nano 0) ∨
      (∃ cb, b = some cb ∧ inWin t1 t2 cb.nano = true ∧ sameAsAfter a cb.nano = false ∧ c ∈ g cb.nano cb.nano 0) ∨
      c ∈ g (midMin a t1) (midMax b t2) lim := by
  unfold adapter
  rw [queries_eq]
  simp only [List.flatMap_append, List.mem_append, List.mem_flatMap, mem_exactA, mem_exactB,
    List.mem_singleton]
  constructor
  · rintro ((⟨q, ⟨ca, h1, h2, rfl⟩, hc⟩ | ⟨q, ⟨cb, h1, h2, h3, rfl⟩, hc⟩) | ⟨q, rfl, hc⟩)
    · exact Or.inl ⟨ca, h1, h2, hc⟩
    · exact Or.inr (Or.inl ⟨cb, h1, h2, h3, hc⟩)
    · exact Or.inr (Or.inr hc)
  · rintro (⟨ca, h1, h2, hc⟩ | ⟨cb, h1, h2, h3, hc⟩ | hc)
    · exact Or.inl (Or.inl ⟨_, ⟨ca, h1, h2, rfl⟩, hc⟩)
    · exact Or.inl (Or.inr ⟨_, ⟨cb, h1, h2, h3, rfl⟩, hc⟩)
    · exact Or.inr ⟨_, rfl, hc⟩

/-- C09's range predicate, spelled out for the time-based cursor order. -/
theorem inRange_iff (ltId : ι → ι → Bool) (a b : Option (TCursor ι)) (c : TCursor ι) :
    inRange (ltC ltId) a b c = true ↔
      (∀ ca, a = some ca → ltC ltId ca c = true) ∧ (∀ cb, b = some cb → ltC ltId c cb = true) := by
  cases a with
  | none =>
    cases b with
    | none => simp [inRange, pastBefore, notPastAfter]
    | some cb => simp [inRange, pastBefore, notPastAfter]
  | some ca =>
    cases b with
    | none => simp [inRange, pastBefore, notPastAfter]
    | some cb =>
      simp only [inRange, pastBefore, notPastAfter, Bool.not_not, Bool.and_eq_true, Option.some.injEq,
        forall_eq']
      exact And.comm

/-- The specification's "strictly between the cursors" is C09's range predicate. -/
theorem betweenCursors_eq_inRange (ltId : ι → ι → Bool) (a b : Option (TCursor ι)) (c : TCursor ι) :
    betweenCursors ltId a b c = inRange (ltC ltId) a b c := by
  cases a <;> cases b <;> simp [betweenCursors, inRange, pastBefore, notPastAfter, Bool.and_comm]

/-- Everything the adapter returns comes from the data set and lies inside the time window (this is
    what the F-16a fix establishes: every issued query lies inside the window). Needs only that the
    getter returns edges of the data set within `[min, max]`. -/
theorem adapter_sub {D : List (TCursor ι)} {g : Int → Int → Int → List (TCursor ι)}
    (hsub : ∀ mn mx lim c, c ∈ g mn mx lim → c ∈ D ∧ inQ mn mx c = true)
    (t1 t2 : Option Int) (a b : Option (TCursor ι)) (lim : Int) (c : TCursor ι)
    (hc : c ∈ adapter g t1 t2 a b lim) : c ∈ D ∧ lo t1 ≤ c.nano ∧ c.nano < hi t2 := by
  rcases (mem_adapter g t1 t2 a b lim c).mp hc with ⟨ca, _, hw, hg⟩ | ⟨cb, _, hw, _, hg⟩ | hg
  · obtain ⟨hD, hQ⟩ := hsub _ _ _ _ hg
    have := (inWin_iff t1 t2 ca.nano).mp hw
    simp only [inQ, Bool.and_eq_true, decide_eq_true_eq] at hQ
    exact ⟨hD, by omega, by omega⟩
  · obtain ⟨hD, hQ⟩ := hsub _ _ _ _ hg
    have := (inWin_iff t1 t2 cb.nano).mp hw
    simp only [inQ, Bool.and_eq_true, decide_eq_true_eq] at hQ
    exact ⟨hD, by omega, by omega⟩
  · obtain ⟨hD, hQ⟩ := hsub _ _ _ _ hg
    simp only [inQ, Bool.and_eq_true, decide_eq_true_eq] at hQ
    have h1 := (midMin_le_iff a t1 c.nano).mp hQ.1
    have h2 := (le_midMax_iff b t2 c.nano).mp hQ.2
    exact ⟨hD, h1.1, by omega⟩

section
variable [DecidableEq ι]

/-- **The adapter honours the C09 window contract** for the connection whose edge set is the data
    set restricted to the time window — provided the getter breaks ties by id. -/
theorem adapter_honours_window {ltId : ι → ι → Bool} {D : List (TCursor ι)}
    (hD : ∀ c, c ∈ D → Int64Range c.nano) {g : Int → Int → Int → List (TCursor ι)}
    (hg : HonoursById ltId D g) (t1 t2 : Option Int) :
    HonoursWindow (ltC ltId) (D.filter (inTimeWindow t1 t2)) (adapter g t1 t2) where
  sub := fun a b lim c hc => by
    obtain ⟨h1, h2, h3⟩ := adapter_sub hg.sub t1 t2 a b lim c hc
    exact List.mem_filter.mpr ⟨h1, (inTimeWindow_iff t1 t2 c (hD c h1)).mpr ⟨h2, h3⟩⟩
  nodup := fun a b lim => by
    unfold adapter
    rw [queries_eq]
    simp only [List.flatMap_append, List.flatMap_cons, List.flatMap_nil, List.append_nil]
    -- three blocks with pairwise disjoint instants
    have hA : ∀ c, c ∈ (exactA a t1 t2).flatMap (fun q => g q.minTime q.maxTime q.limit) →
        ∃ ca, a = some ca ∧ c.nano = ca.nano := by
      intro c hc
      obtain ⟨q, hq, hcq⟩ := List.mem_flatMap.mp hc
      obtain ⟨ca, h1, _, rfl⟩ := mem_exactA.mp hq
      have := (hg.sub _ _ _ _ hcq).2
      simp only [inQ, Bool.and_eq_true, decide_eq_true_eq] at this
      exact ⟨ca, h1, by omega⟩
    have hB : ∀ c, c ∈ (exactB a b t1 t2).flatMap (fun q => g q.minTime q.maxTime q.limit) →
        ∃ cb, b = some cb ∧ c.nano = cb.nano ∧ sameAsAfter a cb.nano = false := by
      intro c hc
      obtain ⟨q, hq, hcq⟩ := List.mem_flatMap.mp hc
      obtain ⟨cb, h1, _, h3, rfl⟩ := mem_exactB.mp hq
      have := (hg.sub _ _ _ _ hcq).2
      simp only [inQ, Bool.and_eq_true, decide_eq_true_eq] at this
      exact ⟨cb, h1, by omega, h3⟩
    have hM : ∀ c, c ∈ g (midMin a t1) (midMax b t2) lim →
        (∀ ca, a = some ca → ca.nano + 1 ≤ c.nano) ∧ (∀ cb, b = some cb → c.nano ≤ cb.nano - 1) := by
      intro c hc
      have := (hg.sub _ _ _ _ hc).2
      simp only [inQ, Bool.and_eq_true, decide_eq_true_eq] at this
      exact ⟨((midMin_le_iff a t1 c.nano).mp this.1).2, ((le_midMax_iff b t2 c.nano).mp this.2).2⟩
    have hAn : ((exactA a t1 t2).flatMap (fun q => g q.minTime q.maxTime q.limit)).Nodup := by
      unfold exactA
      cases a with
      | none => simp
      | some ca => by_cases hw : inWin t1 t2 ca.nano = true <;> simp [hw, hg.nodup]
    have hBn : ((exactB a b t1 t2).flatMap (fun q => g q.minTime q.maxTime q.limit)).Nodup := by
      unfold exactB
      cases b with
      | none => simp
      | some cb =>
        by_cases hw : (inWin t1 t2 cb.nano && !sameAsAfter a cb.nano) = true <;> simp [hw, hg.nodup]
    refine List.nodup_append.mpr ⟨List.nodup_append.mpr ⟨hAn, hBn, ?_⟩, hg.nodup _ _ _, ?_⟩
    · intro x hx y hy hxy
      subst hxy
      obtain ⟨ca, h1, h2⟩ := hA x hx
      obtain ⟨cb, _, h4, h5⟩ := hB x hy
      simp [sameAsAfter, h1] at h5
      omega
    · intro x hx y hy hxy
      subst hxy
      obtain ⟨hm1, hm2⟩ := hM x hy
      rcases List.mem_append.mp hx with hx | hx
      · obtain ⟨ca, h1, h2⟩ := hA x hx
        have := hm1 ca h1
        omega
      · obtain ⟨cb, h1, h2, _⟩ := hB x hx
        have := hm2 cb h1
        omega
  first := fun a b lim c hl hcE hcR hrank => by
    obtain ⟨hcD, hcW⟩ := List.mem_filter.mp hcE
    obtain ⟨hw1, hw2⟩ := (inTimeWindow_iff t1 t2 c (hD c hcD)).mp hcW
    obtain ⟨hra, hrb⟩ := (inRange_iff ltId a b c).mp hcR
    rw [mem_adapter]
    by_cases hA : ∃ ca, a = some ca ∧ ca.nano = c.nano
    · obtain ⟨ca, h1, h2⟩ := hA
      left
      refine ⟨ca, h1, (inWin_iff t1 t2 ca.nano).mpr (by omega), hg.all _ _ c hcD ?_⟩
      simp [inQ]; omega
    · by_cases hB : ∃ cb, b = some cb ∧ cb.nano = c.nano
      · obtain ⟨cb, h1, h2⟩ := hB
        right; left
        refine ⟨cb, h1, (inWin_iff t1 t2 cb.nano).mpr (by omega), ?_, hg.all _ _ c hcD ?_⟩
        · cases ha : a with
          | none => rfl
          | some ca =>
            simp only [sameAsAfter, decide_eq_false_iff_not]
            intro heq
            exact hA ⟨ca, ha, by omega⟩
        · simp [inQ]; omega
      · right; right
        -- strictly inside: the middle query
        have hmin : ∀ ca, a = some ca → ca.nano + 1 ≤ c.nano := by
          intro ca ha
          have := (ltC_iff ltId ca c).mp (hra ca ha)
          have hne : ca.nano ≠ c.nano := fun h => hA ⟨ca, ha, h⟩
          omega
        have hmax : ∀ cb, b = some cb → c.nano ≤ cb.nano - 1 := by
          intro cb hb
          have := (ltC_iff ltId c cb).mp (hrb cb hb)
          have hne : cb.nano ≠ c.nano := fun h => hB ⟨cb, hb, h⟩
          omega
        have hcQ : inQ (midMin a t1) (midMax b t2) c = true := by
          simp only [inQ, Bool.and_eq_true, decide_eq_true_eq]
          exact ⟨(midMin_le_iff a t1 c.nano).mpr ⟨hw1, hmin⟩, (le_midMax_iff b t2 c.nano).mpr ⟨by omega, hmax⟩⟩
        apply hg.first_rank _ _ lim hl c hcD hcQ
        refine Nat.lt_of_le_of_lt ?_ hrank
        rw [List.filter_filter]
        apply length_filter_le_of_imp
        intro d hdD hd
        simp only [Bool.and_eq_true, inQ, decide_eq_true_eq] at hd
        obtain ⟨⟨hd1, hd2⟩, hd3⟩ := hd
        have hd1' := (midMin_le_iff a t1 d.nano).mp hd1
        have hd2' := (le_midMax_iff b t2 d.nano).mp hd2
        have hdW : inTimeWindow t1 t2 d = true :=
          (inTimeWindow_iff t1 t2 d (hD d hdD)).mpr ⟨hd1'.1, by omega⟩
        have hdR : inRange (ltC ltId) a b d = true := by
          rw [inRange_iff]
          constructor
          · intro ca ha
            rw [ltC_iff]; left
            have := hd1'.2 ca ha
            omega
          · intro cb hb
            rw [ltC_iff]; left
            have := hd2'.2 cb hb
            omega
        simp [hdW, hdR, hd3]
  last := fun a b lim c hl hcE hcR hrank => by
    obtain ⟨hcD, hcW⟩ := List.mem_filter.mp hcE
    obtain ⟨hw1, hw2⟩ := (inTimeWindow_iff t1 t2 c (hD c hcD)).mp hcW
    obtain ⟨hra, hrb⟩ := (inRange_iff ltId a b c).mp hcR
    rw [mem_adapter]
    by_cases hA : ∃ ca, a = some ca ∧ ca.nano = c.nano
    · obtain ⟨ca, h1, h2⟩ := hA
      left
      refine ⟨ca, h1, (inWin_iff t1 t2 ca.nano).mpr (by omega), hg.all _ _ c hcD ?_⟩
      simp [inQ]; omega
    · by_cases hB : ∃ cb, b = some cb ∧ cb.nano = c.nano
      · obtain ⟨cb, h1, h2⟩ := hB
        right; left
        refine ⟨cb, h1, (inWin_iff t1 t2 cb.nano).mpr (by omega), ?_, hg.all _ _ c hcD ?_⟩
        · cases ha : a with
          | none => rfl
          | some ca =>
            simp only [sameAsAfter, decide_eq_false_iff_not]
            intro heq
            exact hA ⟨ca, ha, by omega⟩
        · simp [inQ]; omega
      · right; right
        have hmin : ∀ ca, a = some ca → ca.nano + 1 ≤ c.nano := by
          intro ca ha
          have := (ltC_iff ltId ca c).mp (hra ca ha)
          have hne : ca.nano ≠ c.nano := fun h => hA ⟨ca, ha, h⟩
          omega
        have hmax : ∀ cb, b = some cb → c.nano ≤ cb.nano - 1 := by
          intro cb hb
          have := (ltC_iff ltId c cb).mp (hrb cb hb)
          have hne : cb.nano ≠ c.nano := fun h => hB ⟨cb, hb, h⟩
          omega
        have hcQ : inQ (midMin a t1) (midMax b t2) c = true := by
          simp only [inQ, Bool.and_eq_true, decide_eq_true_eq]
          exact ⟨(midMin_le_iff a t1 c.nano).mpr ⟨hw1, hmin⟩, (le_midMax_iff b t2 c.nano).mpr ⟨by omega, hmax⟩⟩
        apply hg.last_rank _ _ lim hl c hcD hcQ
        refine Nat.lt_of_le_of_lt ?_ hrank
        rw [List.filter_filter]
        apply length_filter_le_of_imp
        intro d hdD hd
        simp only [Bool.and_eq_true, inQ, decide_eq_true_eq] at hd
        obtain ⟨⟨hd1, hd2⟩, hd3⟩ := hd
        have hd1' := (midMin_le_iff a t1 d.nano).mp hd1
        have hd2' := (le_midMax_iff b t2 d.nano).mp hd2
        have hdW : inTimeWindow t1 t2 d = true :=
          (inTimeWindow_iff t1 t2 d (hD d hdD)).mpr ⟨hd1'.1, by omega⟩
        have hdR : inRange (ltC ltId) a b d = true := by
          rw [inRange_iff]
          constructor
          · intro ca ha
            rw [ltC_iff]; left
            have := hd1'.2 ca ha
            omega
          · intro cb hb
            rw [ltC_iff]; left
            have := hd2'.2 cb hb
            omega
        simp [hdW, hdR, hd3]

end

end ApiFu.C16
