import ApiFu.C16.Model
import ApiFu.C16.Spec
namespace ApiFu.C16
end ApiFu.C16
