/-
  C16 — property theorems.

  Standing hypotheses:
    * `StrictTotal ltId` — ids are totally ordered by `strings.Compare` (ids unique ⇒ the (time, id)
      cursors of a data set are distinct; `Sorted` is strict and implies it);
    * `S.Perm D`, `Sorted (ltC ltId) S` — `S` is the data set `D` in (time, id) order;
    * `∀ c ∈ D, Int64Range c.nano` — `TimeBasedCursor.Nano` is a Go `int64` (so the defaults
      `time.Time{}` and `distantFuture` for absent bounds do not cut anything off);
    * `LawfulSort`, `LawfulCodec`, `Accepted` — as in C09;
    * the getter contract: `Honours D g` (what the property grants: min, max and limit are honoured,
      ties at the cut are the getter's choice) or `HonoursById ltId D g` (ties cut in id order).
  `all_filters_hold` and `range_queries_cover` need only `Honours` (indeed less); result = TimeRef
  and walk exactness need `HonoursById` — and `weak_contract_fails` proves that they are false under
  `Honours` alone (finding F-16b).
-/
import ApiFu.C16.Adapter

namespace ApiFu.C16

open ApiFu.C09

variable {ι : Type}

theorem mem_lastTrunc {α : Type} {X : List α} {l : Option Int} {e : α} (h : e ∈ lastTrunc X l) : e ∈ X := by
  cases l with
  | none => exact h
  | some n => exact List.mem_of_mem_drop h

theorem mem_firstTrunc {α : Type} {X : List α} {f : Option Int} {e : α} (h : e ∈ firstTrunc X f) : e ∈ X := by
  cases f with
  | none => exact h
  | some n => exact List.mem_of_mem_take h

/-- **all_filters_hold** — whatever the getter does at ties (it only has to return edges of the data
    set within the `[min, max]` it is given), every edge of every answered request satisfies every
    filter the client supplied: it lies strictly between the `after` and `before` cursors and its
    time lies in `[atOrAfterTime, beforeTime)`. (False before the F-16a fix: the exact-timestamp
    query for a cursor outside the window returned edges that were filtered by cursor only.) -/
theorem all_filters_hold {ltId : ι → ι → Bool} {sort : List (TCursor ι) → List (TCursor ι)}
    (hs : LawfulSort (ltC ltId) sort) {D : List (TCursor ι)} (hD : ∀ c, c ∈ D → Int64Range c.nano)
    {g : Int → Int → Int → List (TCursor ι)} (hg : Honours D g)
    {dec : String → Option (TCursor ι)} {a : TArgs} {av bv : Option (TCursor ι)}
    (hacc : Accepted dec a.conn av bv) (tc : Option Int) (sel : Sel) :
    ∃ c, resolveTime ltId sort dec g tc a sel = .ok c ∧
      ∀ e, e ∈ c.edges → e ∈ D ∧ inTimeWindow a.atOrAfterTime a.beforeTime e = true ∧
        betweenCursors ltId av bv e = true := by
  obtain ⟨c, hres, hedges, _⟩ := resolveDecoded_shape (ltC ltId) sort
    (timeApp g a.atOrAfterTime a.beforeTime tc) .window a.conn sel av bv hacc.args
  refine ⟨c, by unfold resolveTime; rw [hacc.resolve_eq, hres], ?_⟩
  intro e he
  rw [hedges] at he
  have h1 := mem_firstTrunc (mem_lastTrunc he)
  have h2 := (hs _).1.mem_iff.mp h1
  obtain ⟨h3, h4⟩ := List.mem_filter.mp h2
  have h5 : e ∈ adapter g a.atOrAfterTime a.beforeTime av bv (limitOf a.conn) := h3
  obtain ⟨h6, h7, h8⟩ := adapter_sub hg.sub _ _ _ _ _ e h5
  exact ⟨h6, (inTimeWindow_iff _ _ e (hD e h6)).mpr ⟨h7, h8⟩, by rw [betweenCursors_eq_inRange]; exact h4⟩

/-- **range_queries_within_window** — every issued range query lies inside the requested time
    window (the F-16a fix), so nothing outside the window can reach the connection. -/
theorem range_queries_within_window (a b : Option (TCursor ι)) (t1 t2 : Option Int) (lim : Int)
    (q : Query) (hq : q ∈ timeBasedRangeQueries a b t1 t2 lim) (t : Int) (h1 : q.minTime ≤ t) (h2 : t ≤ q.maxTime) :
    lo t1 ≤ t ∧ t < hi t2 := by
  rw [queries_eq] at hq
  simp only [List.mem_append, List.mem_singleton] at hq
  rcases hq with (hq | hq) | hq
  · obtain ⟨ca, _, hw, rfl⟩ := mem_exactA.mp hq
    have := (inWin_iff t1 t2 ca.nano).mp hw
    simp only at h1 h2
    omega
  · obtain ⟨cb, _, hw, _, rfl⟩ := mem_exactB.mp hq
    have := (inWin_iff t1 t2 cb.nano).mp hw
    simp only at h1 h2
    omega
  · subst hq
    have h3 := (midMin_le_iff a t1 t).mp h1
    have h4 := (le_midMax_iff b t2 t).mp h2
    exact ⟨h3.1, by omega⟩

/-- **range_queries_cover** — the union of the issued `[min, max]` ranges contains every edge that
    matches the client's filters (so in particular every edge of TimeRef's answer), whatever the
    data: also when many edges share the cursor's exact timestamp — those are reached by the
    exact-timestamp queries, which carry no limit. -/
theorem range_queries_cover (ltId : ι → ι → Bool) (a b : Option (TCursor ι)) (t1 t2 : Option Int) (lim : Int)
    (c : TCursor ι) (hc : Int64Range c.nano) (hw : inTimeWindow t1 t2 c = true)
    (hb : betweenCursors ltId a b c = true) :
    ∃ q, q ∈ timeBasedRangeQueries a b t1 t2 lim ∧ q.minTime ≤ c.nano ∧ c.nano ≤ q.maxTime ∧
      (q.limit = 0 ∨ q.limit = lim) := by
  obtain ⟨hw1, hw2⟩ := (inTimeWindow_iff t1 t2 c hc).mp hw
  rw [betweenCursors_eq_inRange] at hb
  obtain ⟨hra, hrb⟩ := (inRange_iff ltId a b c).mp hb
  rw [queries_eq]
  by_cases hA : ∃ ca, a = some ca ∧ ca.nano = c.nano
  · obtain ⟨ca, h1, h2⟩ := hA
    refine ⟨{ minTime := ca.nano, maxTime := ca.nano, limit := 0 }, ?_, by simp; omega, by simp; omega, Or.inl rfl⟩
    simp only [List.mem_append]
    exact Or.inl (Or.inl (mem_exactA.mpr ⟨ca, h1, (inWin_iff t1 t2 ca.nano).mpr (by omega), rfl⟩))
  · by_cases hB : ∃ cb, b = some cb ∧ cb.nano = c.nano
    · obtain ⟨cb, h1, h2⟩ := hB
      refine ⟨{ minTime := cb.nano, maxTime := cb.nano, limit := 0 }, ?_, by simp; omega, by simp; omega, Or.inl rfl⟩
      simp only [List.mem_append]
      refine Or.inl (Or.inr (mem_exactB.mpr ⟨cb, h1, (inWin_iff t1 t2 cb.nano).mpr (by omega), ?_, rfl⟩))
      cases ha : a with
      | none => rfl
      | some ca =>
        simp only [sameAsAfter, decide_eq_false_iff_not]
        intro heq
        exact hA ⟨ca, ha, by omega⟩
    · refine ⟨{ minTime := midMin a t1, maxTime := midMax b t2, limit := lim }, by simp, ?_, ?_, Or.inr rfl⟩
      · apply (midMin_le_iff a t1 c.nano).mpr
        refine ⟨hw1, ?_⟩
        intro ca ha
        have := (ltC_iff ltId ca c).mp (hra ca ha)
        have hne : ca.nano ≠ c.nano := fun h => hA ⟨ca, ha, h⟩
        omega
      · apply (le_midMax_iff b t2 c.nano).mpr
        refine ⟨by omega, ?_⟩
        intro cb hb'
        have := (ltC_iff ltId c cb).mp (hrb cb hb')
        have hne : cb.nano ≠ c.nano := fun h => hB ⟨cb, hb', h⟩
        omega

section
variable [DecidableEq ι]

/-- The C09 reading of a time-based connection: it serves (in window mode) the connection whose
    edge set is the data set restricted to the time window. -/
theorem serves_time_window {ltId : ι → ι → Bool} {D : List (TCursor ι)}
    (hD : ∀ c, c ∈ D → Int64Range c.nano) {g : Int → Int → Int → List (TCursor ι)}
    (hg : HonoursById ltId D g) (t1 t2 : Option Int) (tc : Option Int) :
    Serves (ltC ltId) (D.filter (inTimeWindow t1 t2)) (timeApp g t1 t2 tc) .window :=
  adapter_honours_window hD hg t1 t2

/-- **range_queries_sufficient** — if the getter cuts ties in id order, the range queries are
    sufficient: every accepted request is answered with exactly `TimeRef` — the edges strictly
    between the cursors, inside the time window, in (time, id) order, truncated by first/last —
    however many edges share the cursor's timestamp, and wherever the cursors lie relative to the
    window. -/
theorem range_queries_sufficient {ltId : ι → ι → Bool} (hId : StrictTotal ltId)
    {sort : List (TCursor ι) → List (TCursor ι)} (hs : LawfulSort (ltC ltId) sort)
    {D S : List (TCursor ι)} (hperm : S.Perm D) (hsorted : Sorted (ltC ltId) S)
    (hD : ∀ c, c ∈ D → Int64Range c.nano) {g : Int → Int → Int → List (TCursor ι)}
    (hg : HonoursById ltId D g)
    {dec : String → Option (TCursor ι)} {a : TArgs} {av bv : Option (TCursor ι)}
    (hacc : Accepted dec a.conn av bv) (tc : Option Int) (sel : Sel) :
    ∃ c, resolveTime ltId sort dec g tc a sel = .ok c ∧
      c.edges = timeRef ltId S av bv a.atOrAfterTime a.beforeTime
        (a.conn.first.map Int.toNat) (a.conn.last.map Int.toNat) := by
  have hC := strictTotal_ltC hId
  have hperm' : (S.filter (inTimeWindow a.atOrAfterTime a.beforeTime)).Perm
      (D.filter (inTimeWindow a.atOrAfterTime a.beforeTime)) := List.Perm.filter _ hperm
  have hsorted' : Sorted (ltC ltId) (S.filter (inTimeWindow a.atOrAfterTime a.beforeTime)) :=
    List.Pairwise.filter _ hsorted
  obtain ⟨c, hres, hedges, _⟩ := conn_closed_form hC hs hperm' hsorted'
    (serves_time_window hD hg a.atOrAfterTime a.beforeTime tc) a.conn sel av bv hacc.args
  refine ⟨c, by unfold resolveTime; rw [hacc.resolve_eq, hres], ?_⟩
  rw [hedges]
  unfold timeRef matching
  have hm : S.filter (fun c => inTimeWindow a.atOrAfterTime a.beforeTime c && betweenCursors ltId av bv c) =
      (S.filter (inTimeWindow a.atOrAfterTime a.beforeTime)).filter (inRange (ltC ltId) av bv) := by
    rw [List.filter_filter]
    apply List.filter_congr
    intro x _
    rw [betweenCursors_eq_inRange, Bool.and_comm]
  rw [hm]
  cases a.conn.first <;> cases a.conn.last <;> rfl

/-- **time_page_info** — with the id tie-break, `startCursor`/`endCursor` are the first/last returned
    edge and the flag on the side of the count says exactly whether more matching edges exist than
    were asked for (this is what makes following the cursors terminate at the right place). -/
theorem time_page_info {ltId : ι → ι → Bool} (hId : StrictTotal ltId)
    {sort : List (TCursor ι) → List (TCursor ι)} (hs : LawfulSort (ltC ltId) sort)
    {D S : List (TCursor ι)} (hperm : S.Perm D) (hsorted : Sorted (ltC ltId) S)
    (hD : ∀ c, c ∈ D → Int64Range c.nano) {g : Int → Int → Int → List (TCursor ι)}
    (hg : HonoursById ltId D g)
    {dec : String → Option (TCursor ι)} {a : TArgs} {av bv : Option (TCursor ι)}
    (hacc : Accepted dec a.conn av bv) (tc : Option Int) (sel : Sel) (hsel : sel.pageInfo = true) :
    ∃ c pi, resolveTime ltId sort dec g tc a sel = .ok c ∧ c.pageInfo = some pi ∧
      pi.startCursor = c.edges.head? ∧ pi.endCursor = c.edges.getLast? ∧
      (∀ n, a.conn.first = some n → pi.hasNextPage =
        decide (((matching ltId S av bv a.atOrAfterTime a.beforeTime).length : Int) > n)) ∧
      (∀ n, a.conn.last = some n → pi.hasPreviousPage =
        decide (((matching ltId S av bv a.atOrAfterTime a.beforeTime).length : Int) > n)) := by
  have hC := strictTotal_ltC hId
  have hperm' : (S.filter (inTimeWindow a.atOrAfterTime a.beforeTime)).Perm
      (D.filter (inTimeWindow a.atOrAfterTime a.beforeTime)) := List.Perm.filter _ hperm
  have hsorted' : Sorted (ltC ltId) (S.filter (inTimeWindow a.atOrAfterTime a.beforeTime)) :=
    List.Pairwise.filter _ hsorted
  obtain ⟨c, hres, _, _, hpi, _⟩ := conn_closed_form hC hs hperm' hsorted'
    (serves_time_window hD hg a.atOrAfterTime a.beforeTime tc) a.conn sel av bv hacc.args
  obtain ⟨pi, hpi1, hstart, hend, hnext, hprev, _, _⟩ := hpi hsel
  have hm : matching ltId S av bv a.atOrAfterTime a.beforeTime =
      (S.filter (inTimeWindow a.atOrAfterTime a.beforeTime)).filter (inRange (ltC ltId) av bv) := by
    unfold matching
    rw [List.filter_filter]
    apply List.filter_congr
    intro x _
    rw [betweenCursors_eq_inRange, Bool.and_comm]
  refine ⟨c, pi, by unfold resolveTime; rw [hacc.resolve_eq, hres], hpi1, hstart, hend, ?_, ?_⟩
  · intro n hn; rw [hm]; exact hnext n hn
  · intro n hn; rw [hm]; exact hprev n hn

/-- **time_walk_exact** — if the getter cuts ties in id order, then for every time window and every
    page size `n ≥ 1`, walking forward by `endCursor`/`after` (or backward by `startCursor`/`before`)
    terminates, never meets an error, and visits exactly the edges inside the time window, in
    (time, id) order, each exactly once, at most `n` per page. -/
theorem time_walk_exact {ltId : ι → ι → Bool} (hId : StrictTotal ltId)
    {sort : List (TCursor ι) → List (TCursor ι)} (hs : LawfulSort (ltC ltId) sort)
    {D S : List (TCursor ι)} (hperm : S.Perm D) (hsorted : Sorted (ltC ltId) S)
    (hD : ∀ c, c ∈ D → Int64Range c.nano) {g : Int → Int → Int → List (TCursor ι)}
    (hg : HonoursById ltId D g) (t1 t2 : Option Int) (tc : Option Int)
    {dec : String → Option (TCursor ι)} {enc : TCursor ι → String} (hcodec : LawfulCodec dec enc)
    (n : Nat) (hn : 1 ≤ n) :
    (∃ pages, walkForward (ltC ltId) sort dec enc (timeApp g t1 t2 tc) .window n
        ((D.filter (inTimeWindow t1 t2)).length + 1) none = some pages ∧
      pages.flatten = S.filter (inTimeWindow t1 t2) ∧ ∀ p, p ∈ pages → p.length ≤ n) ∧
    (∃ pages, walkBackward (ltC ltId) sort dec enc (timeApp g t1 t2 tc) .window n
        ((D.filter (inTimeWindow t1 t2)).length + 1) none = some pages ∧
      pages.flatten = S.filter (inTimeWindow t1 t2) ∧ ∀ p, p ∈ pages → p.length ≤ n) ∧
    (S.filter (inTimeWindow t1 t2)).Nodup :=
  walk_exact (strictTotal_ltC hId) hs (List.Perm.filter _ hperm) (List.Pairwise.filter _ hsorted)
    (serves_time_window hD hg t1 t2 tc) hcodec n hn

end

/-! ### Non-vacuity: for every data set a getter honouring the id tie-break contract exists -/

/-- The getter one would write over an index on (time, id): filter the range, cut at the limit. -/
def idealGetter (S : List (TCursor ι)) (mn mx lim : Int) : List (TCursor ι) :=
  if lim = 0 then S.filter (inQ mn mx)
  else if 0 < lim then (S.filter (inQ mn mx)).take lim.toNat
  else (S.filter (inQ mn mx)).drop ((S.filter (inQ mn mx)).length - (-lim).toNat)

theorem idealGetter_mem {S : List (TCursor ι)} {mn mx lim : Int} {c : TCursor ι}
    (h : c ∈ idealGetter S mn mx lim) : c ∈ S.filter (inQ mn mx) := by
  unfold idealGetter at h
  split at h
  · exact h
  · split at h
    · exact List.mem_of_mem_take h
    · exact List.mem_of_mem_drop h

/-- **ideal_getter_honours** — `HonoursById` is satisfiable for every data set with distinct
    cursors (so `range_queries_sufficient` and `time_walk_exact` are not vacuous). -/
theorem ideal_getter_honours {ltId : ι → ι → Bool} (hId : StrictTotal ltId) {D S : List (TCursor ι)}
    (hperm : S.Perm D) (hsorted : Sorted (ltC ltId) S) : HonoursById ltId D (idealGetter S) := by
  have hC := strictTotal_ltC hId
  have hQs : ∀ mn mx, Sorted (ltC ltId) (S.filter (inQ mn mx)) := fun mn mx => List.Pairwise.filter _ hsorted
  have hlen : ∀ mn mx, (S.filter (inQ mn mx)).length = (D.filter (inQ mn mx)).length :=
    fun mn mx => (List.Perm.filter _ hperm).length_eq
  -- an element of the range that is not in the kept prefix lies in the dropped suffix, and is later
  have hsplit_pos : ∀ mn mx (k : Nat) c d, c ∈ (S.filter (inQ mn mx)).take k → d ∈ S.filter (inQ mn mx) →
      d ∉ (S.filter (inQ mn mx)).take k → ltC ltId c d = true := by
    intro mn mx k c d hc hd hnd
    have hpw : Sorted (ltC ltId) ((S.filter (inQ mn mx)).take k ++ (S.filter (inQ mn mx)).drop k) := by
      rw [List.take_append_drop]; exact hQs mn mx
    have hd' : d ∈ (S.filter (inQ mn mx)).drop k := by
      have := (List.take_append_drop k (S.filter (inQ mn mx))) ▸ hd
      rcases List.mem_append.mp this with h | h
      · exact absurd h hnd
      · exact h
    exact (List.pairwise_append.mp hpw).2.2 c hc d hd'
  have hsplit_neg : ∀ mn mx (k : Nat) c d, c ∈ (S.filter (inQ mn mx)).drop k → d ∈ S.filter (inQ mn mx) →
      d ∉ (S.filter (inQ mn mx)).drop k → ltC ltId d c = true := by
    intro mn mx k c d hc hd hnd
    have hpw : Sorted (ltC ltId) ((S.filter (inQ mn mx)).take k ++ (S.filter (inQ mn mx)).drop k) := by
      rw [List.take_append_drop]; exact hQs mn mx
    have hd' : d ∈ (S.filter (inQ mn mx)).take k := by
      have := (List.take_append_drop k (S.filter (inQ mn mx))) ▸ hd
      rcases List.mem_append.mp this with h | h
      · exact h
      · exact absurd h hnd
    exact (List.pairwise_append.mp hpw).2.2 d hd' c hc
  have hposG : ∀ mn mx lim, 0 < lim → idealGetter S mn mx lim = (S.filter (inQ mn mx)).take lim.toNat := by
    intro mn mx lim hl
    have h0 : ¬ lim = 0 := by omega
    simp [idealGetter, h0, hl]
  have hnegG : ∀ mn mx lim, lim < 0 → idealGetter S mn mx lim =
      (S.filter (inQ mn mx)).drop ((S.filter (inQ mn mx)).length - (-lim).toNat) := by
    intro mn mx lim hl
    have h0 : ¬ lim = 0 := by omega
    have h1 : ¬ 0 < lim := by omega
    simp [idealGetter, h0, h1]
  have hmemD : ∀ mn mx d, d ∈ D → inQ mn mx d = true → d ∈ S.filter (inQ mn mx) :=
    fun mn mx d hd hq => List.mem_filter.mpr ⟨hperm.mem_iff.mpr hd, hq⟩
  exact {
    sub := fun mn mx lim c hc => by
      have := List.mem_filter.mp (idealGetter_mem hc)
      exact ⟨hperm.mem_iff.mp this.1, this.2⟩
    nodup := fun mn mx lim => by
      have hn : (S.filter (inQ mn mx)).Nodup := Sorted.nodup hC (hQs mn mx)
      unfold idealGetter
      split
      · exact hn
      · split
        · exact List.Nodup.sublist (List.take_sublist _ _) hn
        · exact List.Nodup.sublist (List.drop_sublist _ _) hn
    all := fun mn mx c hc hq => by
      simp only [idealGetter, if_true]
      exact hmemD mn mx c hc hq
    len_pos := fun mn mx lim hl => by
      rw [hposG mn mx lim hl, List.length_take, hlen]
    earliest := fun mn mx lim hl c hc d hd hq hnd => by
      rw [hposG mn mx lim hl] at hc hnd
      have := (ltC_iff ltId c d).mp (hsplit_pos mn mx _ c d hc (hmemD mn mx d hd hq) hnd)
      omega
    len_neg := fun mn mx lim hl => by
      rw [hnegG mn mx lim hl, List.length_drop, hlen]
      omega
    latest := fun mn mx lim hl c hc d hd hq hnd => by
      rw [hnegG mn mx lim hl] at hc hnd
      have := (ltC_iff ltId d c).mp (hsplit_neg mn mx _ c d hc (hmemD mn mx d hd hq) hnd)
      omega
    tie_pos := fun mn mx lim hl c hc d hd hq hnd heq => by
      rw [hposG mn mx lim hl] at hc hnd
      rcases (ltC_iff ltId c d).mp (hsplit_pos mn mx _ c d hc (hmemD mn mx d hd hq) hnd) with h | h
      · omega
      · exact h.2
    tie_neg := fun mn mx lim hl c hc d hd hq hnd heq => by
      rw [hnegG mn mx lim hl] at hc hnd
      rcases (ltC_iff ltId d c).mp (hsplit_neg mn mx _ c d hc (hmemD mn mx d hd hq) hnd) with h | h
      · omega
      · exact h.2 }

/-! ### F-16b: under the contract the property grants, the result can be wrong -/

section witness

/-- ids 0, 1, 2 (think a, b, c) ordered as numbers. -/
def ltNat (a b : Nat) : Bool := decide (a < b)

theorem strictTotal_ltNat : StrictTotal ltNat where
  irrefl := fun a => by simp [ltNat]
  trans := fun {a b c} h1 h2 => by simp only [ltNat, decide_eq_true_eq] at *; omega
  total := fun a b => by simp only [ltNat, decide_eq_true_eq]; omega

/-- Three edges stamped with the same instant. -/
def D3 : List (TCursor Nat) := [⟨1, 0⟩, ⟨1, 1⟩, ⟨1, 2⟩]

/-- The same three edges, latest id first — how this getter orders equal timestamps. -/
def D3rev : List (TCursor Nat) := [⟨1, 2⟩, ⟨1, 1⟩, ⟨1, 0⟩]

/-- A getter over `D3` that honours min, max and limit, and returns equal timestamps in reverse id
    order. -/
def gRev (mn mx lim : Int) : List (TCursor Nat) :=
  if mn ≤ 1 ∧ 1 ≤ mx then
    (if lim = 0 then D3rev
     else if 0 < lim then D3rev.take lim.toNat
     else D3rev.drop (3 - (-lim).toNat))
  else []

theorem gRev_mem {mn mx lim : Int} {c : TCursor Nat} (h : c ∈ gRev mn mx lim) :
    (mn ≤ 1 ∧ 1 ≤ mx) ∧ c ∈ D3rev := by
  unfold gRev at h
  by_cases hr : mn ≤ 1 ∧ 1 ≤ mx
  · rw [if_pos hr] at h
    refine ⟨hr, ?_⟩
    split at h
    · exact h
    · split at h
      · exact List.mem_of_mem_take h
      · exact List.mem_of_mem_drop h
  · rw [if_neg hr] at h; cases h

theorem D3rev_nano {c : TCursor Nat} (h : c ∈ D3rev) : c.nano = 1 ∧ c ∈ D3 := by
  simp only [D3rev, List.mem_cons, List.not_mem_nil, or_false] at h
  rcases h with rfl | rfl | rfl <;> simp [D3]

theorem D3_filter_inQ (mn mx : Int) :
    D3.filter (inQ mn mx) = if mn ≤ 1 ∧ 1 ≤ mx then D3 else [] := by
  by_cases hr : mn ≤ 1 ∧ 1 ≤ mx
  · rw [if_pos hr]
    exact List.filter_eq_self.mpr (fun c hc => by
      simp only [D3, List.mem_cons, List.not_mem_nil, or_false] at hc
      rcases hc with rfl | rfl | rfl <;> simp [inQ, hr.1, hr.2])
  · rw [if_neg hr]
    exact List.filter_eq_nil_iff.mpr (fun c hc => by
      simp only [D3, List.mem_cons, List.not_mem_nil, or_false] at hc
      rcases hc with rfl | rfl | rfl <;> simp [inQ] <;> omega)

/-- `gRev` honours the contract the property grants. -/
theorem gRev_honours : Honours D3 gRev where
  sub := fun mn mx lim c hc => by
    obtain ⟨hr, hm⟩ := gRev_mem hc
    obtain ⟨h1, h2⟩ := D3rev_nano hm
    exact ⟨h2, by simp [inQ, h1, hr.1, hr.2]⟩
  nodup := fun mn mx lim => by
    unfold gRev
    have hn : D3rev.Nodup := by decide
    split
    · split
      · exact hn
      · split
        · exact List.Nodup.sublist (List.take_sublist _ _) hn
        · exact List.Nodup.sublist (List.drop_sublist _ _) hn
    · exact List.nodup_nil
  all := fun mn mx c hc hq => by
    have hr : mn ≤ 1 ∧ 1 ≤ mx := by
      simp only [D3, List.mem_cons, List.not_mem_nil, or_false] at hc
      rcases hc with rfl | rfl | rfl <;> simpa [inQ] using hq
    simp only [gRev, hr, and_self, if_true]
    simp only [D3, List.mem_cons, List.not_mem_nil, or_false] at hc
    rcases hc with rfl | rfl | rfl <;> simp [D3rev]
  len_pos := fun mn mx lim hl => by
    rw [D3_filter_inQ]
    unfold gRev
    by_cases hr : mn ≤ 1 ∧ 1 ≤ mx
    · have h0 : ¬ lim = 0 := by omega
      simp [hr, h0, hl, D3rev, D3]
    · simp [hr]
  earliest := fun mn mx lim _ c hc d hd _ _ => by
    have h1 := (D3rev_nano (gRev_mem hc).2).1
    have h2 : d.nano = 1 := by
      simp only [D3, List.mem_cons, List.not_mem_nil, or_false] at hd
      rcases hd with rfl | rfl | rfl <;> rfl
    omega
  len_neg := fun mn mx lim hl => by
    rw [D3_filter_inQ]
    unfold gRev
    by_cases hr : mn ≤ 1 ∧ 1 ≤ mx
    · have h0 : ¬ lim = 0 := by omega
      have h1 : ¬ 0 < lim := by omega
      simp only [hr, and_self, if_true, h0, if_false, h1, D3rev, D3, List.length_drop, List.length_cons,
        List.length_nil]
      omega
    · simp [hr]
  latest := fun mn mx lim _ c hc d hd _ _ => by
    have h1 := (D3rev_nano (gRev_mem hc).2).1
    have h2 : d.nano = 1 := by
      simp only [D3, List.mem_cons, List.not_mem_nil, or_false] at hd
      rcases hd with rfl | rfl | rfl <;> rfl
    omega

/-- `first: 1`, no cursors, no time bounds. -/
def firstOne : TArgs :=
  { conn := { first := some 1, last := none, after := none, before := none },
    atOrAfterTime := none, beforeTime := none }

/-- **weak_contract_fails** (negation witness, F-16b) — "provided only that the application's range
    getter honours the minimum time, maximum time and limit it is given" is not enough: there is a
    data set, a getter honouring exactly that contract and a request (`first: 1`, no cursors, no
    time bounds) whose answer is not TimeRef's — the connection returns the edge with id 1 where
    TimeRef selects the edge with id 0. The getter's reply for the middle query (limit 2) is
    `[(1,2), (1,1)]`: the limit cut fell inside the group of equal timestamps. -/
theorem weak_contract_fails :
    ∃ (D S : List (TCursor Nat)) (g : Int → Int → Int → List (TCursor Nat)) (a : TArgs),
      S.Perm D ∧ Sorted (ltC ltNat) S ∧ (∀ c, c ∈ D → Int64Range c.nano) ∧ Honours D g ∧
      Accepted (fun _ => (none : Option (TCursor Nat))) a.conn none none ∧
      ∃ c, resolveTime ltNat (isort (ltC ltNat)) (fun _ => none) g none a { pageInfo := true, totalCount := false } = .ok c ∧
        c.edges = [⟨1, 1⟩] ∧
        timeRef ltNat S none none a.atOrAfterTime a.beforeTime (a.conn.first.map Int.toNat) (a.conn.last.map Int.toNat)
          = [⟨1, 0⟩] ∧
        c.edges ≠ timeRef ltNat S none none a.atOrAfterTime a.beforeTime
          (a.conn.first.map Int.toNat) (a.conn.last.map Int.toNat) := by
  refine ⟨D3, D3, gRev, firstOne, List.Perm.refl _, by simp [Sorted, D3, ltC, ltNat], ?_, gRev_honours,
    ⟨by decide, by decide, by decide⟩, ?_⟩
  · intro c hc
    simp only [D3, List.mem_cons, List.not_mem_nil, or_false] at hc
    rcases hc with rfl | rfl | rfl <;> simp [Int64Range]
  · exact ⟨{ edges := [⟨1, 1⟩],
             pageInfo := some { hasPreviousPage := false, hasNextPage := true,
                                startCursor := some ⟨1, 1⟩, endCursor := some ⟨1, 1⟩ },
             totalCount := none, calls := [.window none none 2] },
      by decide, by decide, by decide, by decide⟩

/-- With the id tie-break the same request over the same data is answered correctly (and by
    `range_queries_sufficient` so is every other request over every data set). -/
example : ∃ c, resolveTime ltNat (isort (ltC ltNat)) (fun _ => none) (idealGetter D3) none firstOne
      { pageInfo := true, totalCount := false } = .ok c ∧ c.edges = [⟨1, 0⟩] :=
  ⟨{ edges := [⟨1, 0⟩],
     pageInfo := some { hasPreviousPage := false, hasNextPage := true,
                        startCursor := some ⟨1, 0⟩, endCursor := some ⟨1, 0⟩ },
     totalCount := none, calls := [.window none none 2] }, by decide, by decide⟩

/-- The range queries for `after = (5, _)`, `before = (9, _)`, window `[3, 20)`, `first: 2`. -/
example : timeBasedRangeQueries (some (⟨5, 0⟩ : TCursor Nat)) (some ⟨9, 0⟩) (some 3) (some 20) 3 =
    [⟨5, 5, 0⟩, ⟨9, 9, 0⟩, ⟨6, 8, 3⟩] := by decide

/-- F-16a, fixed: a cursor outside the time window gets no exact-timestamp query. -/
example : timeBasedRangeQueries (some (⟨1, 0⟩ : TCursor Nat)) none (some 5) none 11 =
    [⟨5, distantFuture - 1, 11⟩] := by decide

end witness

end ApiFu.C16
