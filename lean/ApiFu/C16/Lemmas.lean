/-
  C16 — helper lemmas: the cursor order, the getter contracts, the shape of the range queries, and
  the central fact that the adapter over a getter which breaks ties by id honours the C09
  `ResolveEdges` contract for the time-filtered data set.
-/
import ApiFu.C09.Props
import ApiFu.C16.Model
import ApiFu.C16.Spec

namespace ApiFu.C16

open ApiFu.C09

variable {ι : Type}

/-! ## The cursor order -/

theorem ltC_iff (ltId : ι → ι → Bool) (c d : TCursor ι) :
    ltC ltId c d = true ↔ c.nano < d.nano ∨ (c.nano = d.nano ∧ ltId c.id d.id = true) := by
  simp [ltC]

/-- `(nanoseconds, id)` lexicographically is a strict total order when the id order is. -/
theorem strictTotal_ltC {ltId : ι → ι → Bool} (h : StrictTotal ltId) : StrictTotal (ltC ltId) where
  irrefl := fun a => by
    cases hx : ltC ltId a a with
    | false => rfl
    | true =>
      rcases (ltC_iff ltId a a).mp hx with h1 | ⟨_, h2⟩
      · omega
      · rw [h.irrefl] at h2; cases h2
  trans := fun {a b c} h1 h2 => by
    rw [ltC_iff] at *
    rcases h1 with h1 | ⟨h1, h1'⟩ <;> rcases h2 with h2 | ⟨h2, h2'⟩
    · left; omega
    · left; omega
    · left; omega
    · right; exact ⟨by omega, h.trans h1' h2'⟩
  total := fun a b => by
    simp only [ltC_iff]
    by_cases h1 : a.nano < b.nano
    · exact Or.inl (Or.inl h1)
    · by_cases h2 : b.nano < a.nano
      · exact Or.inr (Or.inr (Or.inl h2))
      · have hn : a.nano = b.nano := by omega
        rcases h.total a.id b.id with h3 | h3 | h3
        · exact Or.inl (Or.inr ⟨hn, h3⟩)
        · right; left
          cases a; cases b; simp_all
        · exact Or.inr (Or.inr (Or.inr ⟨hn.symm, h3⟩))

/-! ## The EdgeGetter contracts -/

/-- `minTime ≤ time ≤ maxTime`. -/
def inQ (mn mx : Int) (c : TCursor ι) : Bool := decide (mn ≤ c.nano) && decide (c.nano ≤ mx)

/-- **The contract the property grants the application's range getter** ("honours the minimum time,
    maximum time and limit it is given", `TimeBasedConnectionConfig.EdgeGetter`'s documentation):
    over the data set `D` the getter returns only edges with `min ≤ time ≤ max`, none twice; all of
    them for limit 0; for a positive limit `min(limit, available)` of them, none later than an
    omitted one (the earliest *by time* — which of several edges sharing the timestamp at the cut
    are returned is the getter's choice); for a negative limit the latest. -/
structure Honours (D : List (TCursor ι)) (g : Int → Int → Int → List (TCursor ι)) : Prop where
  sub : ∀ mn mx lim c, c ∈ g mn mx lim → c ∈ D ∧ inQ mn mx c = true
  nodup : ∀ mn mx lim, (g mn mx lim).Nodup
  all : ∀ mn mx c, c ∈ D → inQ mn mx c = true → c ∈ g mn mx 0
  len_pos : ∀ mn mx lim, 0 < lim → (g mn mx lim).length = min lim.toNat (D.filter (inQ mn mx)).length
  earliest : ∀ mn mx lim, 0 < lim → ∀ c, c ∈ g mn mx lim → ∀ d, d ∈ D → inQ mn mx d = true →
    d ∉ g mn mx lim → c.nano ≤ d.nano
  len_neg : ∀ mn mx lim, lim < 0 → (g mn mx lim).length = min (-lim).toNat (D.filter (inQ mn mx)).length
  latest : ∀ mn mx lim, lim < 0 → ∀ c, c ∈ g mn mx lim → ∀ d, d ∈ D → inQ mn mx d = true →
    d ∉ g mn mx lim → d.nano ≤ c.nano

/-- The stronger contract the implementation actually relies on: ties at the cut are broken by id. -/
structure HonoursById (ltId : ι → ι → Bool) (D : List (TCursor ι)) (g : Int → Int → Int → List (TCursor ι)) : Prop
    extends Honours D g where
  tie_pos : ∀ mn mx lim, 0 < lim → ∀ c, c ∈ g mn mx lim → ∀ d, d ∈ D → inQ mn mx d = true →
    d ∉ g mn mx lim → c.nano = d.nano → ltId c.id d.id = true
  tie_neg : ∀ mn mx lim, lim < 0 → ∀ c, c ∈ g mn mx lim → ∀ d, d ∈ D → inQ mn mx d = true →
    d ∉ g mn mx lim → c.nano = d.nano → ltId d.id c.id = true

theorem length_filter_le_of_imp {α : Type} (l : List α) (p q : α → Bool) (h : ∀ x, x ∈ l → p x = true → q x = true) :
    (l.filter p).length ≤ (l.filter q).length := by
  have : l.filter p = (l.filter q).filter p := by
    rw [List.filter_filter]
    apply List.filter_congr
    intro x hx
    cases hp : p x with
    | false => simp
    | true => simp [h x hx hp]
  rw [this]; exact List.length_filter_le _ _

section
variable [DecidableEq ι]

/-- A duplicate-free list inside `Q`, as long as `Q`, contains every element of `Q`. -/
theorem mem_of_nodup_subset_length {α : Type} [DecidableEq α] {g Q : List α} (hn : g.Nodup)
    (hsub : ∀ x, x ∈ g → x ∈ Q) (hlen : Q.length ≤ g.length) {e : α} (he : e ∈ Q) : e ∈ g := by
  apply Classical.byContradiction
  intro hne
  have h1 : ∀ x, x ∈ g → x ∈ Q.filter (fun x => decide (x ≠ e)) := by
    intro x hx
    refine List.mem_filter.mpr ⟨hsub x hx, ?_⟩
    have : x ≠ e := fun h => hne (h ▸ hx)
    simpa using this
  have h2 := List.Nodup.length_le_of_subset hn h1
  have h3 : (Q.filter (fun x => decide (x ≠ e))).length < Q.length :=
    List.length_filter_lt_length_iff_exists.mpr ⟨e, he, by simp⟩
  omega

/-- Rank form of the id tie-break contract, forward: an edge of the queried range that fewer than
    `limit` edges of the range precede in (time, id) order is returned. -/
theorem HonoursById.first_rank {ltId : ι → ι → Bool} {D : List (TCursor ι)}
    {g : Int → Int → Int → List (TCursor ι)} (hg : HonoursById ltId D g)
    (mn mx lim : Int) (hl : 0 < lim) (e : TCursor ι) (heD : e ∈ D) (heQ : inQ mn mx e = true)
    (hrank : (D.filter (fun d => inQ mn mx d && ltC ltId d e)).length < lim.toNat) : e ∈ g mn mx lim := by
  apply Classical.byContradiction
  intro hne
  have hbefore : ∀ c, c ∈ g mn mx lim → c ∈ D.filter (fun d => inQ mn mx d && ltC ltId d e) := by
    intro c hc
    obtain ⟨hcD, hcQ⟩ := hg.sub mn mx lim c hc
    refine List.mem_filter.mpr ⟨hcD, ?_⟩
    have h1 := hg.earliest mn mx lim hl c hc e heD heQ hne
    have h2 := hg.tie_pos mn mx lim hl c hc e heD heQ hne
    have : ltC ltId c e = true := by
      rw [ltC_iff]
      by_cases heq : c.nano = e.nano
      · exact Or.inr ⟨heq, h2 heq⟩
      · left; omega
    simp [hcQ, this]
  have h1 := List.Nodup.length_le_of_subset (hg.nodup mn mx lim) hbefore
  have h2 := hg.len_pos mn mx lim hl
  have hlen : (D.filter (inQ mn mx)).length ≤ (g mn mx lim).length := by omega
  exact hne (mem_of_nodup_subset_length (hg.nodup mn mx lim)
    (fun x hx => List.mem_filter.mpr (hg.sub mn mx lim x hx)) hlen (List.mem_filter.mpr ⟨heD, heQ⟩))

/-- Rank form, backward. -/
theorem HonoursById.last_rank {ltId : ι → ι → Bool} {D : List (TCursor ι)}
    {g : Int → Int → Int → List (TCursor ι)} (hg : HonoursById ltId D g)
    (mn mx lim : Int) (hl : lim < 0) (e : TCursor ι) (heD : e ∈ D) (heQ : inQ mn mx e = true)
    (hrank : (D.filter (fun d => inQ mn mx d && ltC ltId e d)).length < (-lim).toNat) : e ∈ g mn mx lim := by
  apply Classical.byContradiction
  intro hne
  have hafter : ∀ c, c ∈ g mn mx lim → c ∈ D.filter (fun d => inQ mn mx d && ltC ltId e d) := by
    intro c hc
    obtain ⟨hcD, hcQ⟩ := hg.sub mn mx lim c hc
    refine List.mem_filter.mpr ⟨hcD, ?_⟩
    have h1 := hg.latest mn mx lim hl c hc e heD heQ hne
    have h2 := hg.tie_neg mn mx lim hl c hc e heD heQ hne
    have : ltC ltId e c = true := by
      rw [ltC_iff]
      by_cases heq : c.nano = e.nano
      · exact Or.inr ⟨heq.symm, h2 heq⟩
      · left; omega
    simp [hcQ, this]
  have h1 := List.Nodup.length_le_of_subset (hg.nodup mn mx lim) hafter
  have h2 := hg.len_neg mn mx lim hl
  have hlen : (D.filter (inQ mn mx)).length ≤ (g mn mx lim).length := by omega
  exact hne (mem_of_nodup_subset_length (hg.nodup mn mx lim)
    (fun x hx => List.mem_filter.mpr (hg.sub mn mx lim x hx)) hlen (List.mem_filter.mpr ⟨heD, heQ⟩))

end

/-! ## The shape of the range queries -/

/-- The effective window bounds: absent bounds default to `time.Time{}` / `distantFuture`. -/
def lo (t1 : Option Int) : Int := t1.getD zeroTime
def hi (t2 : Option Int) : Int := t2.getD distantFuture

def inWin (t1 t2 : Option Int) (t : Int) : Bool := !(decide (t < lo t1)) && decide (t < hi t2)

def exactA (a : Option (TCursor ι)) (t1 t2 : Option Int) : List Query :=
  match a with
  | none => []
  | some ca => if inWin t1 t2 ca.nano then [{ minTime := ca.nano, maxTime := ca.nano, limit := 0 }] else []

def sameAsAfter (a : Option (TCursor ι)) (tb : Int) : Bool :=
  match a with
  | none => false
  | some ca => decide (ca.nano = tb)

def exactB (a b : Option (TCursor ι)) (t1 t2 : Option Int) : List Query :=
  match b with
  | none => []
  | some cb =>
    if inWin t1 t2 cb.nano && !sameAsAfter a cb.nano
    then [{ minTime := cb.nano, maxTime := cb.nano, limit := 0 }] else []

def midMin (a : Option (TCursor ι)) (t1 : Option Int) : Int :=
  match a with
  | none => lo t1
  | some ca => if ca.nano + 1 > lo t1 then ca.nano + 1 else lo t1

def midMax (b : Option (TCursor ι)) (t2 : Option Int) : Int :=
  match b with
  | none => hi t2 - 1
  | some cb => if cb.nano - 1 < hi t2 - 1 then cb.nano - 1 else hi t2 - 1

/-- `TimeBasedRangeQueries` issues: (the after cursor's instant, if inside the window), (the before
    cursor's instant, if inside the window and different), and the clamped middle range which alone
    carries the limit. -/
theorem queries_eq (a b : Option (TCursor ι)) (t1 t2 : Option Int) (lim : Int) :
    timeBasedRangeQueries a b t1 t2 lim =
      exactA a t1 t2 ++ exactB a b t1 t2 ++ [{ minTime := midMin a t1, maxTime := midMax b t2, limit := lim }] := by
  unfold timeBasedRangeQueries exactA exactB midMin midMax sameAsAfter inWin lo hi
  cases a with
  | none =>
    cases b with
    | none => simp
    | some cb =>
      simp only
      split <;> split <;> simp_all
  | some ca =>
    cases b with
    | none =>
      simp only
      split <;> split <;> simp_all
    | some cb =>
      simp only
      split <;> split <;> split <;> split <;> simp_all

end ApiFu.C16
