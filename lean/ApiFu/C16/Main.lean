/-
  C16 model driver. One S-expression per line. A cursor/edge is `(nano "id")`.

    (queries AFTER BEFORE atOrAfter beforeT limit)            -- pagination.TimeBasedRangeQueries
        → ((min max limit) …)                                    AFTER/BEFORE = none | (nano "id")
    (timeref (EDGE…) AFTER BEFORE atOrAfter beforeT first last) -- Spec.timeRef on the data set in
        → (EDGE…)                                                (time, id) order
    (tconn (table ((min max limit) (EDGE…)) …) tc selPI selTC first last AFTERS BEFORES atOrAfter beforeT)
        → (error class) | crash | (ok (EDGE…) PI tc (calls (min max limit) …))
          AFTERS/BEFORES = none | (s "<string>" model) | (s "<string>" invalid) | (s "<string>" (nano "id"))
          (`model`: the driver decodes the string itself with the codec model, `decT`; the other two
          forms carry the real DeserializeCursor's answer and are used when the id is not UTF-8)
          PI = none | (pi hasPrev hasNext START END),  START/END = none | (nano "id")

    (twalk fwd|bwd (table …) tc n fuel atOrAfter beforeT)   -- C09/Walk.lean's client over the time-based
        → none | (ok ((EDGE…)…) (sent "<cursor>"…))            connection with the CONCRETE codec (decT/encT):
                                                               pages in connection order, cursor strings sent

  `table` lists the replies of the harness's EdgeGetter for the (min, max, limit) triples it
  received (the getter is a parameter of the model); an unlisted triple is answered with [].
  Optional integers are `none` or the integer.
-/
import ApiFu.Common.Sexp
import ApiFu.Common.Loop
import ApiFu.C16.Model
import ApiFu.C16.Spec
import ApiFu.C09.CodecDriver
import ApiFu.C09.Walk

open ApiFu ApiFu.C09 ApiFu.C16

namespace ApiFu.C16.Driver

abbrev Cur := TCursor String

def ltStr (a b : String) : Bool := decide (a < b)

def optInt? : Sexp → Option (Option Int)
  | Sexp.atom "none" => some none
  | x => x.int?.map some

def ofOptInt : Option Int → Sexp
  | none => Sexp.atom "none"
  | some n => Sexp.ofInt n

def cur? : Sexp → Option Cur
  | Sexp.list [n, Sexp.atom id] => n.int?.map (fun n => { nano := n, id := id })
  | _ => none

def optCur? : Sexp → Option (Option Cur)
  | Sexp.atom "none" => some none
  | x => (cur? x).map some

def curs? : Sexp → Option (List Cur)
  | Sexp.list xs => xs.mapM cur?
  | _ => none

def ofCur (c : Cur) : Sexp := Sexp.list [Sexp.ofInt c.nano, Sexp.str c.id]

def ofOptCur : Option Cur → Sexp
  | none => Sexp.atom "none"
  | some c => ofCur c

def ofCurs (cs : List Cur) : Sexp := Sexp.list (cs.map ofCur)

def ofQuery (q : Query) : Sexp := Sexp.list [Sexp.ofInt q.minTime, Sexp.ofInt q.maxTime, Sexp.ofInt q.limit]

/-- `reflect.TypeOf(apifu.TimeBasedCursor{})` (= `ApiFu.C16.tbcTy` of PropsCodec.lean). -/
def tbcTy : ApiFu.C09.Codec.Ty := .struct [([78, 97, 110, 111], .int .w64), ([73, 100], .str)]

/-- `DeserializeCursor(TimeBasedCursor, s)` through the codec model. The driver's ids are Lean
    strings: the harness asks for this only when the id is valid UTF-8 (or the cursor is invalid). -/
def decT (s : String) : Option Cur :=
  match ApiFu.C09.Codec.cursorDec tbcTy s with
  | some (.struct [.int n, .str b]) => (String.fromUTF8? (ByteArray.mk b.toArray)).map fun id => { nano := n, id := id }
  | _ => none

/-- `SerializeCursor(TimeBasedCursor{…})` through the codec model (the id's UTF-8 bytes). -/
def encT (c : Cur) : String :=
  ApiFu.C09.Codec.cursorEnc tbcTy (.struct [.int c.nano, .str c.id.toUTF8.toList])

/-- `(s "<string>" D)` → the argument string and the decoder's answer for it. -/
def curArg? : Sexp → Option (Option String × Option Cur)
  | Sexp.atom "none" => some (none, none)
  | Sexp.list [Sexp.atom "s", Sexp.atom str, Sexp.atom "invalid"] => some (some str, none)
  -- the cursor string is decoded by the codec model (C09/Codec.lean at TimeBasedCursor), not by the harness
  | Sexp.list [Sexp.atom "s", Sexp.atom str, Sexp.atom "model"] => some (some str, decT str)
  | Sexp.list [Sexp.atom "s", Sexp.atom str, d] => (cur? d).map (fun c => (some str, some c))
  | _ => none

def tableEntry? : Sexp → Option ((Int × Int × Int) × List Cur)
  | Sexp.list [Sexp.list [a, b, l], r] => do
    let a ← a.int?
    let b ← b.int?
    let l ← l.int?
    let r ← curs? r
    pure ((a, b, l), r)
  | _ => none

def errName : Err → String
  | .firstNegative => "first-negative"
  | .bothFirstAndLast => "both"
  | .lastNegative => "last-negative"
  | .neitherFirstNorLast => "neither"
  | .invalidAfter => "invalid-after"
  | .invalidBefore => "invalid-before"

def piSexp : Option (PageInfo Cur) → Sexp
  | none => Sexp.atom "none"
  | some p => Sexp.node "pi" [Sexp.ofBool p.hasPreviousPage, Sexp.ofBool p.hasNextPage, ofOptCur p.startCursor, ofOptCur p.endCursor]

def natOpt (x : Option Int) : Option Nat := x.map Int.toNat

def handle (line : String) : String :=
  match Sexp.parse line with
  | some (Sexp.list [Sexp.atom "queries", a, b, t1, t2, l]) =>
    match optCur? a, optCur? b, optInt? t1, optInt? t2, l.int? with
    | some a, some b, some t1, some t2, some l =>
      toString (Sexp.list ((timeBasedRangeQueries a b t1 t2 l).map ofQuery))
    | _, _, _, _, _ => "bad-op"
  | some (Sexp.list [Sexp.atom "timeref", es, a, b, t1, t2, f, l]) =>
    match curs? es, optCur? a, optCur? b, optInt? t1, optInt? t2, optInt? f, optInt? l with
    | some es, some a, some b, some t1, some t2, some f, some l =>
      toString (ofCurs (timeRef ltStr es a b t1 t2 (natOpt f) (natOpt l)))
    | _, _, _, _, _, _, _ => "bad-op"
  | some (Sexp.list [Sexp.atom "tconn", Sexp.list (Sexp.atom "table" :: tbl), tc, Sexp.atom sp, Sexp.atom st, f, l, a, b, t1, t2]) =>
    match tbl.mapM tableEntry?, optInt? tc, optInt? f, optInt? l, curArg? a, curArg? b, optInt? t1, optInt? t2 with
    | some tbl, some tc, some f, some l, some (astr, adec), some (bstr, bdec), some t1, some t2 =>
      let dec : String → Option Cur := fun s =>
        if some s == astr then adec else if some s == bstr then bdec else none
      let g : Int → Int → Int → List Cur := fun mn mx lim =>
        match tbl.find? (fun e => e.1 == (mn, mx, lim)) with
        | some e => e.2
        | none => []
      let ta : TArgs := { conn := { first := f, last := l, after := astr, before := bstr }, atOrAfterTime := t1, beforeTime := t2 }
      match resolveTime ltStr (isort (ltC ltStr)) dec g tc ta { pageInfo := sp == "true", totalCount := st == "true" } with
      | .error e => toString (Sexp.node "error" [Sexp.atom (errName e)])
      | .crash => "crash"
      | .ok c =>
        toString (Sexp.node "ok" [ofCurs c.edges, piSexp c.pageInfo, ofOptInt c.totalCount,
                                  Sexp.node "calls" ((getterCalls ta c.calls).map ofQuery)])
    | _, _, _, _, _, _, _, _ => "bad-op"
  | some (Sexp.list [Sexp.atom "twalk", Sexp.atom dir, Sexp.list (Sexp.atom "table" :: tbl), tc, n, fuel, t1, t2]) =>
    match tbl.mapM tableEntry?, optInt? tc, n.nat?, fuel.nat?, optInt? t1, optInt? t2 with
    | some tbl, some tc, some n, some fuel, some t1, some t2 =>
      if dir != "fwd" && dir != "bwd" then "bad-op" else
      let g : Int → Int → Int → List Cur := fun mn mx lim =>
        match tbl.find? (fun e => e.1 == (mn, mx, lim)) with
        | some e => e.2
        | none => []
      let app := timeApp g t1 t2 tc
      -- the client of C09/Walk.lean over the time-based connection, with the concrete codec
      if dir == "fwd" then
        match walkForward (ltC ltStr) (isort (ltC ltStr)) decT encT app .window n fuel none with
        | none => "none"
        | some pages =>
          toString (Sexp.node "ok" [Sexp.list (pages.map ofCurs),
            Sexp.node "sent" (pages.dropLast.map fun p => Sexp.atom (match p.getLast? with | some c => encT c | none => ""))])
      else
        match walkBackward (ltC ltStr) (isort (ltC ltStr)) decT encT app .window n fuel none with
        | none => "none"
        | some pages =>
          toString (Sexp.node "ok" [Sexp.list (pages.map ofCurs),
            Sexp.node "sent" ((pages.drop 1).reverse.map fun p => Sexp.atom (match p.head? with | some c => encT c | none => ""))])
    | _, _, _, _, _, _ => "bad-op"
  | some x =>
    -- the cursor codec operations (b64enc, b64dec, cursor-enc, cursor-dec): C09/CodecDriver.lean
    match ApiFu.C09.Codec.Driver.handle? x with
    | some r => r
    | none => "bad-op"
  | none => "bad-op"

end ApiFu.C16.Driver

def main : IO Unit := ApiFu.lineLoopPure ApiFu.C16.Driver.handle
