/-
  C16 — reference semantics of a time-based connection, written from the property statement
  (independently of the Go code and of the model):

    "returns exactly the edges whose (time, id) cursor lies strictly between the after and before
     cursors and whose time lies in [atOrAfterTime, beforeTime), ordered by (time, id) and truncated
     by first/last"

  `allEdges` is the data set in (time, id) order.  Core Lean only.
-/
import ApiFu.C16.Model

namespace ApiFu.C16

variable {ι : Type}

/-- `c` lies strictly between the cursors (an absent cursor does not constrain). -/
def betweenCursors (ltId : ι → ι → Bool) (after before : Option (TCursor ι)) (c : TCursor ι) : Bool :=
  (match after with
   | none => true
   | some a => ltC ltId a c) &&
  (match before with
   | none => true
   | some b => ltC ltId c b)

/-- `atOrAfterTime ≤ time < beforeTime` (an absent bound does not constrain). -/
def inTimeWindow (atOrAfterTime beforeTime : Option Int) (c : TCursor ι) : Bool :=
  (match atOrAfterTime with
   | none => true
   | some t => decide (t ≤ c.nano)) &&
  (match beforeTime with
   | none => true
   | some t => decide (c.nano < t))

/-- The edges that match every filter the client supplied, in (time, id) order. -/
def matching (ltId : ι → ι → Bool) (allEdges : List (TCursor ι)) (after before : Option (TCursor ι))
    (atOrAfterTime beforeTime : Option Int) : List (TCursor ι) :=
  allEdges.filter (fun c => inTimeWindow atOrAfterTime beforeTime c && betweenCursors ltId after before c)

/-- `TimeRef`: the page. `first` keeps the earliest, `last` the latest (exactly one of them is given
    on an accepted request; both are applied in the Relay order if both are present). -/
def timeRef (ltId : ι → ι → Bool) (allEdges : List (TCursor ι)) (after before : Option (TCursor ι))
    (atOrAfterTime beforeTime : Option Int) (first last : Option Nat) : List (TCursor ι) :=
  let m := matching ltId allEdges after before atOrAfterTime beforeTime
  let m := match first with
    | none => m
    | some n => m.take n
  match last with
  | none => m
  | some n => m.drop (m.length - n)

end ApiFu.C16
