/-
  C16 — the cursor codec of `TimeBasedCursor{Nano int64; Id string}` made concrete: the C09 codec
  model (Go's base64.RawURLEncoding + the msgpack wire format of a struct with an int64 and a string
  field) instantiated at the time-based cursor, its round trip, and the C16 theorems that had a
  "lawful codec" / "the strings decode to" hypothesis restated without it.

  Ids are Go strings, i.e. byte strings (`Bytes`); `strings.Compare` is the lexicographic order of
  the bytes (`ltBytes`, proved a strict total order), so the corollaries below are stated for the
  concrete id order as well.
-/
import ApiFu.C16.Props
import ApiFu.C09.PropsCodec

namespace ApiFu.C16

open ApiFu.C09 ApiFu.C09.Codec

/-- `reflect.TypeOf(apifu.TimeBasedCursor{})`: fields "Nano" (int64) and "Id" (string). -/
def tbcTy : Ty := .struct [([78, 97, 110, 111], .int .w64), ([73, 100], .str)]

/-- `TimeBasedCursor` is a type the encoder writes faithfully (two distinct field names). -/
theorem tbcTy_ok : tbcTy.Ok := by
  refine ⟨by decide, by decide, ?_⟩
  intro f hf
  simp only [List.mem_cons, List.mem_nil_iff, or_false] at hf
  rcases hf with rfl | rfl <;> decide

/-- `SerializeCursor(TimeBasedCursor{…})`. -/
def tbcEnc (c : TCursor Bytes) : String := cursorEnc tbcTy (.struct [.int c.nano, .str c.id])

/-- `DeserializeCursor(reflect.TypeOf(TimeBasedCursor{}), s)` and the type assertion. -/
def tbcDec (s : String) : Option (TCursor Bytes) :=
  match cursorDec tbcTy s with
  | some (.struct [.int n, .str b]) => some ⟨n, b⟩
  | _ => none

/-- A cursor value Go can hold and the wire format can carry: `Nano` is an `int64`, the id is
    shorter than 2^32 bytes. -/
def Representable (c : TCursor Bytes) : Prop := Int64Range c.nano ∧ c.id.length < 2 ^ 32

/-- A representable cursor is a value of the cursor type in the sense of the codec model. -/
theorem representable_wellTyped {c : TCursor Bytes} (h : Representable c) :
    (Val.struct [.int c.nano, .str c.id]).WellTyped tbcTy := by
  obtain ⟨⟨h1, h2⟩, h3⟩ := h
  refine ⟨?_, trivial, ?_, h3, trivial⟩
  · simp only [SVal.HasType, W.bits, W.bytes]; constructor <;> omega
  · trivial

/-- **tbc_codec_roundtrip** — every representable time-based cursor survives
    `DeserializeCursor(SerializeCursor(c))`, and its serialized form is not the empty string. -/
theorem tbc_codec_roundtrip (c : TCursor Bytes) (h : Representable c) :
    tbcDec (tbcEnc c) = some c ∧ tbcEnc c ≠ "" := by
  have hw := representable_wellTyped h
  refine ⟨?_, cursorEnc_ne_empty tbcTy _ hw⟩
  simp [tbcDec, tbcEnc, cursorDec_cursorEnc tbcTy tbcTy_ok _ hw]

/-- **tbc_codec_injective** — different time-based cursors have different serialized forms. -/
theorem tbc_codec_injective {c d : TCursor Bytes} (hc : Representable c) (hd : Representable d)
    (h : tbcEnc c = tbcEnc d) : c = d := by
  have := (tbc_codec_roundtrip c hc).1
  rw [h, (tbc_codec_roundtrip d hd).1] at this
  exact (Option.some.inj this).symm

/-- **tbc_codec_lawful** — the concrete codec satisfies the hypothesis of the walk theorems. -/
theorem tbc_codec_lawful : LawfulCodecOn Representable tbcDec tbcEnc where
  dec_enc := fun c h => (tbc_codec_roundtrip c h).1
  enc_ne := fun c h => (tbc_codec_roundtrip c h).2

/-- **tbcDec_int64** — whatever text a client sends: if `DeserializeCursor` accepts it, the cursor's
    `Nano` lies in the `int64` range (the decoder converts every integer wire format with Go's
    truncating conversion). So the `Int64Range` premise of the C16 theorems holds for every decoded
    `after` / `before` position, not only for the cursors the server emitted. -/
theorem tbcDec_int64 {s : String} {c : TCursor Bytes} (h : tbcDec s = some c) : Int64Range c.nano := by
  unfold tbcDec at h
  split at h
  · rename_i n b hd
    cases h
    have hs := cursorDec_shaped hd
    have h1 : (SVal.int n).HasType (.int .w64) := hs.1
    simp only [SVal.HasType, W.bits, W.bytes] at h1
    show -9223372036854775808 ≤ n ∧ n < 9223372036854775808
    constructor <;> omega
  · cases h

/-- **tbcDec_representable** — every accepted client cursor is a representable `TimeBasedCursor`
    (int64 nanoseconds, id shorter than 2^32 bytes): it serializes back to a text that decodes to the
    same cursor (`tbc_codec_roundtrip` applies to it). -/
theorem tbcDec_representable {s : String} {c : TCursor Bytes} (h : tbcDec s = some c) : Representable c := by
  refine ⟨tbcDec_int64 h, ?_⟩
  unfold tbcDec at h
  split at h
  · rename_i n b hd
    cases h
    have hw : (Val.struct [.int n, .str b]).WellTyped tbcTy := cursorDec_wellTyped hd
    exact hw.2.2.2.1
  · cases h

/-- `strings.Compare(a, b) < 0` on Go strings: lexicographic on bytes. -/
def ltBytes : Bytes → Bytes → Bool
  | _, [] => false
  | [], _ :: _ => true
  | a :: s, b :: t => decide (a < b) || (a == b && ltBytes s t)

/-- Bytes are totally ordered. -/
theorem uint8_trichotomy (x y : UInt8) : x < y ∨ x = y ∨ y < x := by
  rcases Nat.lt_trichotomy x.toNat y.toNat with h | h | h
  · exact Or.inl (UInt8.lt_iff_toNat_lt.mpr h)
  · exact Or.inr (Or.inl (UInt8.toNat_inj.mp h))
  · exact Or.inr (Or.inr (UInt8.lt_iff_toNat_lt.mpr h))

/-- **strictTotal_ltBytes** — the order of `strings.Compare` (lexicographic on bytes) is a strict
    total order: the `StrictTotal ltId` premise of the C16 theorems holds at the real id order. -/
theorem strictTotal_ltBytes : StrictTotal ltBytes where
  irrefl := by
    intro a
    induction a with
    | nil => rfl
    | cons x xs ih => simp [ltBytes, ih]
  trans := by
    intro a
    induction a with
    | nil =>
      intro b c h1 h2
      cases b with
      | nil => simp [ltBytes] at h1
      | cons y ys =>
        cases c with
        | nil => simp [ltBytes] at h2
        | cons z zs => rfl
    | cons x xs ih =>
      intro b c h1 h2
      cases b with
      | nil => simp [ltBytes] at h1
      | cons y ys =>
        cases c with
        | nil => simp [ltBytes] at h2
        | cons z zs =>
          simp only [ltBytes, Bool.or_eq_true, decide_eq_true_eq, Bool.and_eq_true, beq_iff_eq] at *
          rcases h1 with h1 | ⟨rfl, h1⟩
          · rcases h2 with h2 | ⟨rfl, _⟩
            · exact Or.inl (UInt8.lt_trans h1 h2)
            · exact Or.inl h1
          · rcases h2 with h2 | ⟨rfl, h2⟩
            · exact Or.inl h2
            · exact Or.inr ⟨rfl, ih h1 h2⟩
  total := by
    intro a
    induction a with
    | nil =>
      intro b
      cases b with
      | nil => exact Or.inr (Or.inl rfl)
      | cons y ys => exact Or.inl rfl
    | cons x xs ih =>
      intro b
      cases b with
      | nil => exact Or.inr (Or.inr rfl)
      | cons y ys =>
        simp only [ltBytes, Bool.or_eq_true, decide_eq_true_eq, Bool.and_eq_true, beq_iff_eq, List.cons.injEq]
        rcases uint8_trichotomy x y with h | rfl | h
        · exact Or.inl (Or.inl h)
        · rcases ih ys with h | rfl | h
          · exact Or.inl (Or.inr ⟨rfl, h⟩)
          · exact Or.inr (Or.inl ⟨rfl, rfl⟩)
          · exact Or.inr (Or.inr (Or.inr ⟨rfl, h⟩))
        · exact Or.inr (Or.inr (Or.inl h))

section
variable {ltId : Bytes → Bytes → Bool}

/-- **range_queries_sufficient_codec** — `range_queries_sufficient` with the real codec: a request
    whose `after` / `before` are the serialized forms of representable cursors `ca` / `cb` (edges of
    the data set or not) is answered with exactly `TimeRef` between `ca` and `cb`. No hypothesis about
    `SerializeCursor` / `DeserializeCursor` remains. -/
theorem range_queries_sufficient_codec (hId : StrictTotal ltId)
    {sort : List (TCursor Bytes) → List (TCursor Bytes)} (hs : LawfulSort (ltC ltId) sort)
    {D S : List (TCursor Bytes)} (hperm : S.Perm D) (hsorted : Sorted (ltC ltId) S)
    (hD : ∀ c, c ∈ D → Int64Range c.nano) {g : Int → Int → Int → List (TCursor Bytes)}
    (hg : HonoursById ltId D g) (f l : Option Int) (ca cb : Option (TCursor Bytes))
    (hca : ∀ c ∈ ca, Representable c) (hcb : ∀ c ∈ cb, Representable c) (t1 t2 : Option Int)
    (hc : checkArgs { first := f, last := l, after := ca.map tbcEnc, before := cb.map tbcEnc } = none)
    (tc : Option Int) (sel : Sel) :
    ∃ c, resolveTime ltId sort tbcDec g tc
        { conn := { first := f, last := l, after := ca.map tbcEnc, before := cb.map tbcEnc },
          atOrAfterTime := t1, beforeTime := t2 } sel = .ok c ∧
      c.edges = timeRef ltId S ca cb t1 t2 (f.map Int.toNat) (l.map Int.toNat) := by
  have hacc : Accepted tbcDec { first := f, last := l, after := ca.map tbcEnc, before := cb.map tbcEnc } ca cb := by
    refine ⟨hc, ?_, ?_⟩
    · cases ca with
      | none => simp [decodeArg]
      | some c => exact decodeArg_enc_on tbc_codec_lawful c (hca c rfl)
    · cases cb with
      | none => simp [decodeArg]
      | some c => exact decodeArg_enc_on tbc_codec_lawful c (hcb c rfl)
  exact range_queries_sufficient hId hs hperm hsorted hD hg
    (a := { conn := { first := f, last := l, after := ca.map tbcEnc, before := cb.map tbcEnc },
            atOrAfterTime := t1, beforeTime := t2 }) hacc tc sel

/-- **time_walk_exact_codec** — `time_walk_exact` with the real codec: the client that follows the
    *serialized* `endCursor` / `startCursor` of a time-based connection (ids shorter than 2^32
    bytes, int64 nanoseconds) visits exactly the edges inside the time window, in (time, id) order,
    each once, at most `n` per page. No codec hypothesis remains. -/
theorem time_walk_exact_codec (hId : StrictTotal ltId)
    {sort : List (TCursor Bytes) → List (TCursor Bytes)} (hs : LawfulSort (ltC ltId) sort)
    {D S : List (TCursor Bytes)} (hperm : S.Perm D) (hsorted : Sorted (ltC ltId) S)
    (hD : ∀ c, c ∈ D → Representable c) {g : Int → Int → Int → List (TCursor Bytes)}
    (hg : HonoursById ltId D g) (t1 t2 : Option Int) (tc : Option Int) (n : Nat) (hn : 1 ≤ n) :
    (∃ pages, walkForward (ltC ltId) sort tbcDec tbcEnc (timeApp g t1 t2 tc) .window n
        ((D.filter (inTimeWindow t1 t2)).length + 1) none = some pages ∧
      pages.flatten = S.filter (inTimeWindow t1 t2) ∧ ∀ p, p ∈ pages → p.length ≤ n) ∧
    (∃ pages, walkBackward (ltC ltId) sort tbcDec tbcEnc (timeApp g t1 t2 tc) .window n
        ((D.filter (inTimeWindow t1 t2)).length + 1) none = some pages ∧
      pages.flatten = S.filter (inTimeWindow t1 t2) ∧ ∀ p, p ∈ pages → p.length ≤ n) ∧
    (S.filter (inTimeWindow t1 t2)).Nodup :=
  walk_exact_on (strictTotal_ltC hId) hs (List.Perm.filter _ hperm) (List.Pairwise.filter _ hsorted)
    (serves_time_window (fun c hc => (hD c hc).1) hg t1 t2 tc)
    (fun c hc => hD c (List.mem_filter.mp hc).1) tbc_codec_lawful n hn

end

/-- **all_filters_hold_raw** — the time-based connection on a RAW request (cursor arguments as
    arbitrary text, decoded by the concrete codec of `TimeBasedCursor`), for any getter that returns
    only edges inside the `[min, max]` it is given: either an error response, or every returned edge
    is an edge of the data set, inside `[atOrAfterTime, beforeTime)` and strictly between the
    positions the `after` / `before` texts decode to — and those positions have int64 nanoseconds.
    No hypothesis on the request, none on the codec. -/
theorem all_filters_hold_raw {ltId : Bytes → Bytes → Bool} {sort : List (TCursor Bytes) → List (TCursor Bytes)}
    (hs : LawfulSort (ltC ltId) sort) {D : List (TCursor Bytes)} (hD : ∀ c, c ∈ D → Int64Range c.nano)
    {g : Int → Int → Int → List (TCursor Bytes)} (hg : Honours D g) (a : TArgs) (tc : Option Int) (sel : Sel) :
    (∃ e, resolveTime ltId sort tbcDec g tc a sel = .error e) ∨
    (∃ av bv c, decodeArg tbcDec a.conn.after = some av ∧ decodeArg tbcDec a.conn.before = some bv ∧
      (∀ p ∈ av, Int64Range p.nano) ∧ (∀ p ∈ bv, Int64Range p.nano) ∧
      resolveTime ltId sort tbcDec g tc a sel = .ok c ∧
      ∀ e, e ∈ c.edges → e ∈ D ∧ inTimeWindow a.atOrAfterTime a.beforeTime e = true ∧
        betweenCursors ltId av bv e = true) := by
  have hrange : ∀ (s : Option String) (v : Option (TCursor Bytes)), decodeArg tbcDec s = some v →
      ∀ p ∈ v, Int64Range p.nano := by
    intro s v hd p hp
    cases s with
    | none => simp [decodeArg] at hd; subst hd; cases hp
    | some s =>
      by_cases hs : s = ""
      · simp [decodeArg, hs] at hd; subst hd; cases hp
      · cases hc : tbcDec s with
        | none => simp [decodeArg, hs, hc] at hd
        | some c =>
          simp only [decodeArg, hs, if_false, hc, Option.some.injEq] at hd
          subst hd
          cases hp
          exact tbcDec_int64 hc
  cases hc : checkArgs a.conn with
  | some e => exact Or.inl ⟨e, by simp [resolveTime, resolve, hc]⟩
  | none =>
    cases hda : decodeArg tbcDec a.conn.after with
    | none => exact Or.inl ⟨.invalidAfter, by simp [resolveTime, resolve, hc, hda]⟩
    | some av =>
      cases hdb : decodeArg tbcDec a.conn.before with
      | none => exact Or.inl ⟨.invalidBefore, by simp [resolveTime, resolve, hc, hda, hdb]⟩
      | some bv =>
        obtain ⟨c, h1, h2⟩ := all_filters_hold hs hD hg (dec := tbcDec) (a := a) (av := av) (bv := bv)
          ⟨hc, hda, hdb⟩ tc sel
        exact Or.inr ⟨av, bv, c, rfl, rfl, hrange _ _ hda, hrange _ _ hdb, h1, h2⟩

/-! ### Non-vacuity -/

/-- The serialized form of `TimeBasedCursor{Nano: 1000000000, Id: "a"}`, byte for byte: fixmap 2,
    "Nano", int64, "Id", "a". -/
example : mpEncode tbcTy (.struct [.int 1000000000, .str [97]]) =
    [0x82, 0xa4, 78, 97, 110, 111, 0xd3, 0, 0, 0, 0, 0x3b, 0x9a, 0xca, 0, 0xa2, 73, 100, 0xa1, 97] := by decide

/-- `time_walk_exact_codec` at the byte order of `strings.Compare` and the index-style getter. -/
example (D S : List (TCursor Bytes)) (hperm : S.Perm D) (hsorted : Sorted (ltC ltBytes) S)
    (hD : ∀ c, c ∈ D → Representable c) {sort : List (TCursor Bytes) → List (TCursor Bytes)}
    (hs : LawfulSort (ltC ltBytes) sort) (n : Nat) (hn : 1 ≤ n) :
    ∃ pages, walkForward (ltC ltBytes) sort tbcDec tbcEnc (timeApp (idealGetter S) none none none) .window n
        ((D.filter (inTimeWindow none none)).length + 1) none = some pages ∧
      pages.flatten = S.filter (inTimeWindow none none) :=
  let ⟨pages, h1, h2, _⟩ := (time_walk_exact_codec strictTotal_ltBytes hs hperm hsorted hD
    (ideal_getter_honours strictTotal_ltBytes hperm hsorted) none none none n hn).1
  ⟨pages, h1, h2⟩

end ApiFu.C16
