/-
  C06 — property theorems over the parser model (Model.lean), against the grammar specification
  (Spec.lean). All statements are for the fixed code (`leak = false`), every `maxRecursion`, every
  token list, every amount of fuel; scanner behaviour is a parameter (property C07).
-/
import ApiFu.C06.Lemmas
import ApiFu.C06.Fuel
import ApiFu.C06.Complete

namespace ApiFu.C06

/-- **rec_balanced** — every production of the parser returns with `p.recursion` at its entry value, on
    every return path (this is what makes "maximum recursion depth exceeded" a statement about the
    depth of the production call stack). It holds for the code after the F-12a fix; `rec_leaks_before_fix`
    below is the machine-checked witness that it failed before. -/
theorem rec_balanced (f : Nat) :
    Balanced parseName ∧ Balanced parseVariable ∧ Balanced parseNamedType ∧ Balanced parseTypeCondition ∧
    Balanced parseOperationType ∧ Balanced (parseType f) ∧ (∀ c, Balanced (parseValue f c)) ∧
    Balanced (parseArgument f) ∧ Balanced (parseOptionalArguments f) ∧ Balanced (parseOptionalDirectives f) ∧
    Balanced (parseVariableDefinition f) ∧ Balanced (parseOptionalVariableDefinitions f) ∧
    Balanced (parseSelectionSet f) ∧ Balanced (parseSelection f) ∧ Balanced (parseField f) ∧
    Balanced (parseOptionalSelectionSet f) ∧ Balanced (parseOptionalFragmentDefinition f) ∧
    Balanced (parseOperationDefinition f) ∧ Balanced (parseDefinition f) ∧ Balanced (parseDocument f) :=
  ⟨parseName_sound.balanced, parseVariable_sound.balanced, parseNamedType_sound.balanced,
   parseTypeCondition_sound.balanced, parseOperationType_sound.balanced, (parseType_sound f).balanced,
   fun c => (parseValue_sound f c).balanced, (parseArgument_sound f).balanced,
   (parseOptionalArguments_sound f).balanced, (parseOptionalDirectives_sound f).balanced,
   (parseVariableDefinition_sound f).balanced, (parseOptionalVariableDefinitions_sound f).balanced,
   (parseSelectionSet_sound f).balanced, (sel_sound f).2.2.1.balanced, (sel_sound f).2.2.2.1.balanced,
   (parseOptionalSelectionSet_sound f).balanced, (parseOptionalFragmentDefinition_sound f).balanced,
   (parseOperationDefinition_sound f).balanced, (parseDefinition_sound f).balanced,
   fun env st _ _ hl hx => (wp_ok (parseDocument_sound f env st hl) hx).1.1⟩

/-- Non-vacuity of `rec_balanced`, and the F-12a witness: on the one-token input `a` the fixed
    parseSelection returns with the counter where it was; the code before the fix (`leak = true`)
    returns one level higher — one leaked level per sibling field. -/
def witnessEnv (leak : Bool) : Env := { maxRec := 1000, eofPos := ⟨1, 2⟩, leak := leak }
def witnessSt : St := { toks := [{ kind := .name, value := "a", pos := ⟨1, 1⟩ }], recursion := 5, errors := [] }

example : ∃ a st', parseSelection 5 (witnessEnv false) witnessSt = .ok a st' ∧ st'.recursion = 5 :=
  ⟨_, _, rfl, rfl⟩

theorem rec_leaks_before_fix :
    ∃ a st', parseSelection 5 (witnessEnv true) witnessSt = .ok a st' ∧ st'.recursion = witnessSt.recursion + 1 :=
  ⟨_, _, rfl, rfl⟩

/-- **parse_sound** — whatever `ParseDocument` returns as a document is in the grammar and is the
    *whole* input: the returned tree is well-formed (`wfDocument`: every side condition of the
    executable-document grammar), the complete token list is a rendering of the tree's own token
    sequence (same kinds and values, every position the tree records is the position of that token) —
    so nothing outside the grammar is accepted and no truncated or partial document is ever returned —
    and the error list returned with it is exactly the scanner's error list (empty iff the scanner
    reported nothing). -/
theorem parse_sound (maxRec : Nat) (inp : Input) (d : Document) (errs : List Err)
    (h : ParseDocument maxRec inp = .returned d errs) :
    wfDocument d = true ∧ Renders inp.toks d.stoks = true ∧ errs = scannerErrs inp := by
  unfold ParseDocument at h
  cases hr : parseDocument (defaultFuel inp) (inp.env maxRec false) inp.init with
  | ok a st' =>
    rw [hr] at h
    simp only [Res.outcome, Outcome.returned.injEq] at h
    obtain ⟨rfl, rfl⟩ := h
    obtain ⟨⟨_, ⟨htot, ts, hts, hren⟩, hwf⟩, hnil⟩ := wp_ok (parseDocument_sound _ _ _ rfl) hr
    refine ⟨hwf, ?_, ?_⟩
    · have : inp.toks = ts := by
        have := hts; simp only [Input.init, hnil, List.append_nil] at this; exact this
      rw [this]; exact hren
    · rw [← total_init inp maxRec false, ← htot]
      simp [total, hnil, pendingErrs]
  | fail es => rw [hr] at h; simp [Res.outcome] at h
  | oof => rw [hr] at h; simp [Res.outcome] at h

/-- `ParseDocument` returned a document and no error. -/
def Outcome.accepted {α : Type} : Outcome α → Bool
  | .returned _ [] => true
  | _ => false

/-- The error list of a recovered panic. -/
def Outcome.recoveredErrs {α : Type} : Outcome α → Option (List Err)
  | .recovered es => some es
  | _ => none

/-- Non-vacuity of `parse_sound`: `{ a }` is returned without error (kernel evaluation of the model). -/
example : (ParseDocument 1000
    { toks := [{ kind := .punct, value := "{", pos := ⟨1, 1⟩ }, { kind := .name, value := "a", pos := ⟨1, 3⟩ },
               { kind := .punct, value := "}", pos := ⟨1, 5⟩ }], eofPos := ⟨1, 6⟩ }).accepted = true := by
  decide +kernel

/-- What `Renders` means pointwise: the i-th concrete token has the kind and value of the i-th token of
    the tree, and stands where the tree says whenever the tree records a position for it. -/
theorem renders_pointwise {ts : List Tok} {ss : List STok} (h : Renders ts ss = true) :
    ts.length = ss.length ∧ ∀ (i : Nat) (t : Tok) (s : STok), ts[i]? = some t → ss[i]? = some s →
      t.kind = s.kind ∧ t.value = s.value ∧ ∀ p, s.pos = some p → t.pos = p := by
  induction ts generalizing ss with
  | nil => cases ss <;> simp_all [Renders]
  | cons t ts ih =>
    cases ss with
    | nil => simp [Renders] at h
    | cons s ss =>
      simp only [Renders, Bool.and_eq_true] at h
      obtain ⟨hl, hp⟩ := ih h.2
      refine ⟨by simp [hl], ?_⟩
      intro i t' s' ht hs
      cases i with
      | zero =>
        simp only [List.getElem?_cons_zero, Option.some.injEq] at ht hs
        subst ht hs
        have := h.1
        simp only [Tok.renders, Bool.and_eq_true, beq_iff_eq] at this
        refine ⟨this.1.1, this.1.2, ?_⟩
        intro p hp'
        rw [hp'] at this
        simpa using this.2
      | succ i =>
        simp only [List.getElem?_cons_succ] at ht hs
        exact hp i t' s' ht hs

/-- **error_located** — when `ParseDocument` recovers from a panic it returns no document and an error
    list that is non-empty: the scanner errors reported up to that point (a prefix of the scanner's
    list) followed by exactly one parser error, located at the position of a token of the input or at
    the position the scanner reports for the end of the input. (The harness checks on the real scanner
    that all these positions satisfy 1 ≤ line ≤ lines+1; that part is the scanner's, property C07.) -/
theorem error_located (maxRec : Nat) (inp : Input) (es : List Err)
    (h : ParseDocument maxRec inp = .recovered es) :
    ∃ pre e, es = pre ++ [e] ∧ pre <+: scannerErrs inp ∧ e.pos ∈ inp.toks.map (·.pos) ++ [inp.eofPos] := by
  unfold ParseDocument at h
  cases hr : parseDocument (defaultFuel inp) (inp.env maxRec false) inp.init with
  | ok a st' => rw [hr] at h; simp [Res.outcome] at h
  | fail es' =>
    rw [hr] at h
    simp only [Res.outcome, Outcome.recovered.injEq] at h
    subst h
    obtain ⟨pre, e, he, hp, hpos⟩ := wp_fail (parseDocument_sound _ _ _ rfl) hr
    exact ⟨pre, e, he, total_init inp maxRec false ▸ hp, hpos⟩
  | oof => rw [hr] at h; simp [Res.outcome] at h

/-- Corollary in the shape of the property statement: if every position the scanner produced lies on
    lines 1 … L+1 (tokens, EOF, its own errors), so does every error `ParseDocument` reports, and there
    is at least one. -/
theorem error_located_lines (maxRec : Nat) (inp : Input) (es : List Err) (L : Nat)
    (h : ParseDocument maxRec inp = .recovered es)
    (htok : ∀ t ∈ inp.toks, 1 ≤ t.pos.line ∧ t.pos.line ≤ L + 1)
    (heof : 1 ≤ inp.eofPos.line ∧ inp.eofPos.line ≤ L + 1)
    (hscan : ∀ e ∈ scannerErrs inp, 1 ≤ e.pos.line ∧ e.pos.line ≤ L + 1) :
    es ≠ [] ∧ ∀ e ∈ es, 1 ≤ e.pos.line ∧ e.pos.line ≤ L + 1 := by
  obtain ⟨pre, e, rfl, hp, hpos⟩ := error_located maxRec inp es h
  refine ⟨by simp, ?_⟩
  intro e' he'
  rcases List.mem_append.mp he' with h1 | h1
  · exact hscan e' (hp.subset h1)
  · simp only [List.mem_singleton] at h1
    subst h1
    rcases List.mem_append.mp hpos with h2 | h2
    · obtain ⟨t, ht, hte⟩ := List.mem_map.mp h2
      rw [← hte]; exact htok t ht
    · simp only [List.mem_singleton] at h2
      rw [h2]; exact heof

/-- Non-vacuity of `error_located`: `{ a` fails at the EOF position. -/
example : (ParseDocument 1000
    { toks := [{ kind := .punct, value := "{", pos := ⟨1, 1⟩ }, { kind := .name, value := "a", pos := ⟨1, 3⟩ }],
      eofPos := ⟨1, 4⟩ }).recoveredErrs = some [{ msg := "expected name", pos := ⟨1, 4⟩ }] := by
  decide +kernel

/-- **position_first_token** — for every node type of ast.go, `Position()` is the recorded position of
    the first token of the node's own token sequence (`stoks` is compositional: a sub-node's tokens are a
    contiguous segment of its parent's). Together with `parse_sound` (`Renders inp.toks d.stoks`,
    see `renders_pointwise`) this says: in every document `ParseDocument` returns, every node's
    `Position()` is the line and column at which the scanner found the node's first token.
    `*ast.Document` is the one exception by definition: its `Position()` is the constant 1:1. -/
theorem position_first_token :
    (∀ n : Name, firstPos n.stoks = some n.position) ∧
    (∀ v : Variable, firstPos v.stoks = some v.position) ∧
    (∀ v : Value, firstPos v.stoks = some v.position) ∧
    (∀ f : Name × Value, firstPos (f.1.stoks ++ free .punct ":" :: f.2.stoks) = some (objectFieldPosition f)) ∧
    (∀ t : TypeExpr, firstPos t.stoks = some t.position) ∧
    (∀ n : Name, firstPos n.stoks = some (namedTypePosition n)) ∧
    (∀ a : Argument, firstPos a.stoks = some a.position) ∧
    (∀ d : Directive, firstPos d.stoks = some d.position) ∧
    (∀ v : VarDef, firstPos v.stoks = some v.position) ∧
    (∀ s : Selection, firstPos s.stoks = some s.position) ∧
    (∀ s : SelSet, firstPos s.stoks = some s.position) ∧
    (∀ t : OpType, firstPos [anch .name t.value t.pos] = some t.position) ∧
    (∀ d : Definition, firstPos d.stoks = some d.position) :=
  ⟨Name.firstPos, Variable.firstPos, Value.firstPos, fun _ => rfl, TypeExpr.firstPos, Name.firstPos,
   fun _ => rfl, fun _ => rfl, fun _ => rfl, Selection.firstPos, SelSet.firstPos, fun _ => rfl, Definition.firstPos⟩

/-- **parse_value_sound** — `ParseValue` (which, as documented, does not look beyond the value) returns
    a well-formed value whose token sequence renders a *prefix* of the input. -/
theorem parse_value_sound (maxRec : Nat) (inp : Input) (v : Value) (errs : List Err)
    (h : ParseValue maxRec inp = .returned v errs) :
    wfValue false v = true ∧ ∃ ts rest, inp.toks = ts ++ rest ∧ Renders ts v.stoks = true := by
  unfold ParseValue at h
  cases hr : parseValue (defaultFuel inp) false (inp.env maxRec) inp.init with
  | ok a st' =>
    rw [hr] at h
    simp only [Res.outcome, Outcome.returned.injEq] at h
    obtain ⟨rfl, rfl⟩ := h
    obtain ⟨_, ⟨_, ts, hts, hren⟩, hwf⟩ := (parseValue_sound _ false).ok rfl hr
    exact ⟨hwf, ts, st'.toks, hts, hren⟩
  | fail es => rw [hr] at h; simp [Res.outcome] at h
  | oof => rw [hr] at h; simp [Res.outcome] at h


/-- **parse_fuel_sufficient** — the model's own fuel never runs out: `ParseDocument`/`ParseValue` of the
    model always produce one of the two outcomes of the Go functions (a returned node with the error
    list, or a recovered `panic(*Error)`), for every input, every `maxRecursion`, with and without the
    F-12a fix. In particular nesting beyond the limit ends in an ordinary error value. -/
theorem parse_fuel_sufficient (maxRec : Nat) (inp : Input) (leak : Bool) :
    ParseDocument maxRec inp leak ≠ .outOfFuel ∧ ParseValue maxRec inp ≠ .outOfFuel := by
  constructor
  · unfold ParseDocument
    have h := parseDocument_enough (inp.env maxRec leak) inp.init (defaultFuel inp)
      (by simp [defaultFuel, Input.init]; omega)
    unfold wp at h
    cases hr : parseDocument (defaultFuel inp) (inp.env maxRec leak) inp.init with
    | ok a st' => simp [Res.outcome]
    | fail es => simp [Res.outcome]
    | oof => rw [hr] at h; exact h.elim
  · unfold ParseValue
    have h : wp False (parseValue (defaultFuel inp) false) (inp.env maxRec) inp.init _ _ :=
      parseValue_enough false (inp.env maxRec) inp.init (defaultFuel inp)
        (by simp [defaultFuel, Input.init]; omega)
    unfold wp at h
    cases hr : parseValue (defaultFuel inp) false (inp.env maxRec) inp.init with
    | ok a st' => simp [Res.outcome]
    | fail es => simp [Res.outcome]
    | oof => rw [hr] at h; exact h.elim


/-- The outcome of `ParseDocument` on a rendering of a well-formed tree: the tree itself, or the depth
    error, decided by the production depth alone. -/
theorem parse_rendering (maxRec : Nat) (inp : Input) (d : Document)
    (hclean : scannerErrs inp = []) (hr : Renders inp.toks d.stoks = true) (hwf : wfDocument d = true) :
    (pdDocument d ≤ maxRec ∧ ParseDocument maxRec inp = .returned d []) ∨
    (maxRec < pdDocument d ∧ ∃ p, ParseDocument maxRec inp = .recovered [{ msg := depthMsg, pos := p }]) := by
  have hp : Pre (inp.env maxRec false) inp.init inp.toks [] :=
    ⟨by simp [Input.init], by simpa using clean_of_scannerErrs hclean maxRec false, rfl⟩
  have hc := parseDocument_cmpl d (defaultFuel inp) (inp.env maxRec false) inp.init inp.toks hp hr hwf
  have hnf := (parse_fuel_sufficient maxRec inp false).1
  have he := init_errors_clean hclean
  unfold Cmpl wp at hc
  unfold ParseDocument at hnf ⊢
  cases hres : parseDocument (defaultFuel inp) (inp.env maxRec false) inp.init with
  | ok a st' =>
    rw [hres] at hc
    obtain ⟨rfl, rfl, hd⟩ := hc
    left
    refine ⟨by simpa [Input.init, Input.env] using hd, ?_⟩
    simp [Res.outcome, he]
  | fail es =>
    rw [hres] at hc
    obtain ⟨hd, p, rfl⟩ := hc
    right
    refine ⟨by simpa [Input.init, Input.env] using hd, p, ?_⟩
    simp [Res.outcome, he]
  | oof => rw [hres] at hnf; exact absurd rfl hnf

/-- **parse_print** — every document of the grammar parses back to itself: if the token list is a
    rendering of a well-formed tree `d` (same kinds and values, every recorded position the position of
    its token), the scanner reported nothing, and the production depth of `d` is within the limit, then
    `ParseDocument` returns exactly `d` — every node, every recorded position — and no error. Whole
    documents, every production. -/
theorem parse_print (maxRec : Nat) (inp : Input) (d : Document)
    (hclean : scannerErrs inp = []) (hr : Renders inp.toks d.stoks = true) (hwf : wfDocument d = true)
    (hdepth : pdDocument d ≤ maxRec) : ParseDocument maxRec inp = .returned d [] := by
  rcases parse_rendering maxRec inp d hclean hr hwf with ⟨_, h⟩ | ⟨h, _⟩
  · exact h
  · omega

/-- **parse_unambiguous** — a token list renders at most one well-formed tree (the grammar is
    unambiguous, and the recorded positions are determined by the tokens). -/
theorem parse_unambiguous (ts : List Tok) (d1 d2 : Document) (hclean : ∀ t ∈ ts, t.errs = [])
    (h1 : Renders ts d1.stoks = true) (h2 : Renders ts d2.stoks = true)
    (w1 : wfDocument d1 = true) (w2 : wfDocument d2 = true) : d1 = d2 := by
  let inp : Input := { toks := ts, eofPos := ⟨0, 0⟩ }
  have hc : scannerErrs inp = [] := by
    simp only [scannerErrs, inp, List.append_nil]
    exact List.flatMap_eq_nil_iff.mpr hclean
  have e1 := parse_print (max (pdDocument d1) (pdDocument d2)) inp d1 hc h1 w1 (Nat.le_max_left _ _)
  have e2 := parse_print (max (pdDocument d1) (pdDocument d2)) inp d2 hc h2 w2 (Nat.le_max_right _ _)
  rw [e1] at e2
  simpa using e2

/-- **accepts_exactly** — `ParseDocument` accepts (returns a document and no error) exactly the token
    lists of the executable-document grammar whose production depth is within the limit: the returned
    document is the unique well-formed tree the tokens render. -/
theorem accepts_exactly (maxRec : Nat) (inp : Input) (d : Document) :
    ParseDocument maxRec inp = .returned d [] ↔
      (scannerErrs inp = [] ∧ wfDocument d = true ∧ Renders inp.toks d.stoks = true ∧ pdDocument d ≤ maxRec) := by
  constructor
  · intro h
    obtain ⟨hwf, hr, he⟩ := parse_sound maxRec inp d [] h
    refine ⟨he.symm, hwf, hr, ?_⟩
    rcases parse_rendering maxRec inp d he.symm hr hwf with ⟨hd, _⟩ | ⟨_, p, hp⟩
    · exact hd
    · rw [h] at hp; simp at hp
  · intro ⟨hc, hwf, hr, hd⟩
    exact parse_print maxRec inp d hc hr hwf hd

end ApiFu.C06
