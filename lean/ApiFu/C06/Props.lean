import ApiFu.C06.Model
import ApiFu.C06.Spec
namespace ApiFu.C06
end ApiFu.C06
