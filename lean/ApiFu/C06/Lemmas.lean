/-
  C06 — proof infrastructure and the soundness sweep over every production of the parser model.

  * `wp`: weakest precondition of a `P α` computation over its three outcomes (ok / panic / out of fuel);
    `wp_bind`, `wp_enter`, … reduce a production to verification conditions.
  * `Adv env st st' ss`: the run from `st` to `st'` consumed a token prefix that renders the spec tokens
    `ss` and lost no scanner error (`total` = reported ++ pending is invariant).
  * `FailOK env st es`: a panic reports everything reported so far plus exactly one parser error located at a
    token of the remaining input or at the EOF position.
  * `Sound x stoks wf`: on every return path of production `x` (fixed code, `leak = false`) the recursion
    counter is back at its entry value, the consumed tokens render `stoks result`, and `wf result` holds;
    on every panic path `FailOK`.
  One `…_sound` lemma per production (mutual groups by induction on the fuel).
  Core Lean only.
-/
import ApiFu.C06.Model
import ApiFu.C06.Spec
namespace ApiFu.C06

/-- Weakest precondition over the three outcomes; `O` is what running out of fuel means. -/
def wp {α : Type} (O : Prop) (x : P α) (env : Env) (st : St) (Q : α → St → Prop) (F : List Err → Prop) : Prop :=
  match x env st with
  | .ok a st' => Q a st'
  | .fail es => F es
  | .oof => O

section
variable {α β : Type} {O : Prop} {env : Env} {st : St} {Q : α → St → Prop} {F : List Err → Prop}

theorem wp_conseq {x : P α} {Q' : α → St → Prop} {F' : List Err → Prop}
    (h : wp O x env st Q' F') (hq : ∀ a st', Q' a st' → Q a st') (hf : ∀ es, F' es → F es) :
    wp O x env st Q F := by
  unfold wp at *
  cases hx : x env st <;> simp_all

@[simp] theorem wp_pure (a : α) : wp O (pure a : P α) env st Q F ↔ Q a st := Iff.rfl

@[simp] theorem wp_bind (x : P β) (f : β → P α) :
    wp O (x >>= f) env st Q F ↔ wp O x env st (fun b st' => wp O (f b) env st' Q F) F := by
  show wp O (P.bind x f) env st Q F ↔ _
  unfold wp P.bind
  cases x env st <;> simp

@[simp] theorem wp_ite (c : Prop) [Decidable c] (x y : P α) :
    wp O (if c then x else y) env st Q F ↔ (if c then wp O x env st Q F else wp O y env st Q F) := by
  split <;> rfl

@[simp] theorem wp_peek {Q : Tok → St → Prop} : wp O peek env st Q F ↔ Q (st.peekTok env) st := Iff.rfl
@[simp] theorem wp_isEof {Q : Bool → St → Prop} : wp O isEof env st Q F ↔ Q st.toks.isEmpty st := Iff.rfl
@[simp] theorem wp_consumeToken {Q : Unit → St → Prop} : wp O consumeToken env st Q F ↔ Q () (st.consume env) := Iff.rfl
@[simp] theorem wp_errorf (m : String) : wp O (errorf m : P α) env st Q F ↔ F (st.errors ++ [{ msg := m, pos := (st.peekTok env).pos }]) := Iff.rfl
@[simp] theorem wp_oofP : wp O (oofP : P α) env st Q F ↔ O := Iff.rfl
@[simp] theorem wp_exit {Q : Unit → St → Prop} : wp O exit env st Q F ↔ Q () { st with recursion := st.recursion - 1 } := Iff.rfl
@[simp] theorem wp_enter {Q : Unit → St → Prop} : wp O enter env st Q F ↔
    (if st.recursion + 1 > env.maxRec then F (st.errors ++ [{ msg := depthMsg, pos := (st.peekTok env).pos }])
     else Q () { st with recursion := st.recursion + 1 }) := by
  unfold wp enter; by_cases h : st.recursion + 1 > env.maxRec <;> simp [h]
theorem wp_exitUnlessLeak {Q : Unit → St → Prop} (hl : env.leak = false) :
    wp O exitUnlessLeak env st Q F ↔ Q () { st with recursion := st.recursion - 1 } := by
  unfold wp exitUnlessLeak; simp [hl]
end

/-! state algebra -/
def peekOf (env : Env) : List Tok → Tok
  | t :: _ => t
  | [] => eofTok env

def loadErrs (env : Env) : List Tok → List Err
  | [] => []
  | [_] => env.eofErrs
  | _ :: t :: _ => t.errs

@[simp] theorem peekTok_eq (env : Env) (st : St) : st.peekTok env = peekOf env st.toks := by
  unfold St.peekTok peekOf; cases st.toks <;> rfl
@[simp] theorem consume_toks (env : Env) (st : St) : (st.consume env).toks = st.toks.tail := by
  obtain ⟨toks, r, e⟩ := st; cases toks <;> rfl
@[simp] theorem consume_recursion (env : Env) (st : St) : (st.consume env).recursion = st.recursion := by
  obtain ⟨toks, r, e⟩ := st; cases toks <;> rfl
@[simp] theorem consume_errors (env : Env) (st : St) : (st.consume env).errors = st.errors ++ loadErrs env st.toks := by
  obtain ⟨toks, r, e⟩ := st
  cases toks with
  | nil => simp [St.consume, loadErrs]
  | cons t rest => cases rest <;> simp [St.consume, loadErrs]

/-- Scanner errors not yet copied into `p.errors`. -/
def pendingErrs (env : Env) : List Tok → List Err
  | [] => []
  | _ :: rest => rest.flatMap (·.errs) ++ env.eofErrs

theorem loadErrs_pending (env : Env) (ts : List Tok) :
    loadErrs env ts ++ pendingErrs env ts.tail = pendingErrs env ts := by
  cases ts with
  | nil => rfl
  | cons t rest => cases rest <;> simp [loadErrs, pendingErrs]

/-- Everything the scanner has reported or will report, as `p.errors` will list it. -/
def total (env : Env) (st : St) : List Err := st.errors ++ pendingErrs env st.toks

def positions (env : Env) (ts : List Tok) : List Pos := ts.map (·.pos) ++ [env.eofPos]

/-- `st'` is `st` after consuming the tokens `ts`, a rendering of `ss`; no scanner error is lost. -/
def Adv (env : Env) (st st' : St) (ss : List STok) : Prop :=
  total env st' = total env st ∧ ∃ ts, st.toks = ts ++ st'.toks ∧ Renders ts ss = true

/-- A located failure: everything reported so far, then one parser error at a token (or EOF) position. -/
def FailOK (env : Env) (st : St) (es : List Err) : Prop :=
  ∃ pre e, es = pre ++ [e] ∧ pre <+: total env st ∧ e.pos ∈ positions env st.toks

theorem Renders_append {a b : List Tok} {x y : List STok} (h1 : Renders a x = true) (h2 : Renders b y = true) :
    Renders (a ++ b) (x ++ y) = true := by
  induction a generalizing x with
  | nil => cases x <;> simp_all [Renders]
  | cons t a ih => cases x <;> simp_all [Renders]

theorem Adv.refl (env : Env) (st : St) : Adv env st st [] := ⟨rfl, [], rfl, rfl⟩

theorem Adv.trans {env : Env} {s1 s2 s3 : St} {x y : List STok} (h1 : Adv env s1 s2 x) (h2 : Adv env s2 s3 y) :
    Adv env s1 s3 (x ++ y) := by
  obtain ⟨t1, a, ha, ra⟩ := h1
  obtain ⟨t2, b, hb, rb⟩ := h2
  exact ⟨t2.trans t1, a ++ b, by rw [ha, hb, List.append_assoc], Renders_append ra rb⟩

theorem Adv.setRec {env : Env} {s1 s2 : St} {x : List STok} (r : Nat) (h : Adv env s1 s2 x) :
    Adv env s1 { s2 with recursion := r } x := h

theorem FailOK.of_adv {env : Env} {s1 s2 : St} {x : List STok} {es : List Err} (h : Adv env s1 s2 x) (hf : FailOK env s2 es) :
    FailOK env s1 es := by
  obtain ⟨t1, a, ha, _⟩ := h
  obtain ⟨pre, e, he, hp, hpos⟩ := hf
  refine ⟨pre, e, he, t1 ▸ hp, ?_⟩
  unfold positions at *
  rw [ha]
  simp only [List.map_append, List.mem_append] at *
  rcases hpos with h | h
  · exact Or.inl (Or.inr h)
  · exact Or.inr h

theorem FailOK.here (env : Env) (st : St) (m : String) :
    FailOK env st (st.errors ++ [{ msg := m, pos := (peekOf env st.toks).pos }]) := by
  refine ⟨st.errors, _, rfl, ⟨_, rfl⟩, ?_⟩
  unfold positions peekOf
  cases st.toks <;> simp [eofTok]

/-- Consuming the head token `t` (known to render `s`). -/
theorem Adv.consume {env : Env} {st st' : St} {t : Tok} {rest : List Tok} {s : STok} (h : st.toks = t :: rest)
    (hr : t.renders s = true) (ht : st'.toks = rest) (he : st'.errors = st.errors ++ loadErrs env (t :: rest)) :
    Adv env st st' [s] := by
  refine ⟨?_, [t], by simp [h, ht], by simp [Renders, hr]⟩
  unfold total
  rw [he, ht, List.append_assoc, h]
  have := loadErrs_pending env (t :: rest)
  simp only [List.tail_cons] at this
  rw [this]


theorem Adv.eat {env : Env} {cur : St} {t : Tok} {rest : List Tok} (s : STok) (hts : cur.toks = t :: rest)
    (hr : t.renders s = true) : Adv env cur (cur.consume env) [s] :=
  Adv.consume hts hr (by simp [hts]) (by simp [hts])

theorem isPunct_cons {env : Env} {ts : List Tok} {s : String} (h : (peekOf env ts).isPunct s = true) :
    ∃ t rest, ts = t :: rest ∧ peekOf env ts = t ∧ t.kind = .punct ∧ t.value = s := by
  cases ts with
  | nil => simp [peekOf, eofTok, Tok.isPunct] at h
  | cons t rest => exact ⟨t, rest, rfl, rfl, by simpa [peekOf, Tok.isPunct] using h⟩

theorem isName_cons {env : Env} {ts : List Tok} (h : (peekOf env ts).isName = true) :
    ∃ t rest, ts = t :: rest ∧ peekOf env ts = t ∧ t.kind = .name := by
  cases ts with
  | nil => simp [peekOf, eofTok, Tok.isName] at h
  | cons t rest => exact ⟨t, rest, rfl, rfl, by simpa [peekOf, Tok.isName] using h⟩

theorem renders_anch (t : Tok) : t.renders (anch t.kind t.value t.pos) = true := by simp [Tok.renders, anch]
theorem renders_free (t : Tok) : t.renders (free t.kind t.value) = true := by simp [Tok.renders, free]

/-- Post-condition of a production: counter restored, tokens `ss` consumed, side condition `wf`. -/
def Post (env : Env) (st : St) (ss : List STok) (wf : Bool) (st' : St) : Prop :=
  st'.recursion = st.recursion ∧ Adv env st st' ss ∧ wf = true

/-- Soundness of a production w.r.t. its printer and well-formedness predicate (fixed code). -/
def Sound {α : Type} (x : P α) (stk : α → List STok) (wf : α → Bool) : Prop :=
  ∀ env st, env.leak = false → wp True x env st (fun a st' => Post env st (stk a) (wf a) st') (FailOK env st)

/-- Calling a production from state `cur`, reached from `st0`. -/
theorem wp_call {α : Type} {env : Env} {st0 cur : St} {ss0 : List STok} {x : P α} {Q1 Q : α → St → Prop}
    (hadv : Adv env st0 cur ss0) (hs : wp True x env cur Q1 (FailOK env cur)) (hq : ∀ a st2, Q1 a st2 → Q a st2) :
    wp True x env cur Q (FailOK env st0) :=
  wp_conseq hs hq (fun _ hf => FailOK.of_adv hadv hf)

theorem FailOK.at {env : Env} {st0 cur : St} {ss0 : List STok} (hadv : Adv env st0 cur ss0) (m : String) :
    FailOK env st0 (cur.errors ++ [{ msg := m, pos := (peekOf env cur.toks).pos }]) :=
  FailOK.of_adv hadv (FailOK.here env cur m)

syntax "wp_simp" (Lean.Parser.Tactic.location)? : tactic
macro_rules
  | `(tactic| wp_simp $[$loc]?) =>
    `(tactic| try simp only [wp_bind, wp_enter, wp_peek, wp_ite, wp_consumeToken, wp_exit, wp_pure, wp_errorf, wp_oofP, wp_isEof, peekTok_eq] $[$loc]?)

/-- parseName returns the peeked token. -/
theorem parseName_spec (env : Env) (st : St) :
    wp True parseName env st (fun n st' => Post env st n.stoks true st' ∧ n.name = (peekOf env st.toks).value)
      (FailOK env st) := by
  unfold parseName; wp_simp
  split
  · exact FailOK.here env st _
  · split
    · rename_i h
      obtain ⟨t, rest, hts, hpk, hk⟩ := isName_cons h
      refine ⟨⟨by simp, ?_, rfl⟩, trivial⟩
      have := Adv.eat (env := env) (cur := { st with recursion := st.recursion + 1 }) (anch .name t.value t.pos) hts (by rw [← hk]; exact renders_anch t)
      rw [show peekOf env st.toks = t from hpk]
      exact this
    · exact FailOK.here env st _

theorem parseName_sound : Sound parseName Name.stoks (fun _ => true) := by
  intro env st _
  exact wp_conseq (parseName_spec env st) (fun _ _ h => h.1) (fun _ h => h)

theorem parseVariable_sound : Sound parseVariable Variable.stoks (fun _ => true) := by
  intro env st hl
  unfold parseVariable; wp_simp
  split
  · exact FailOK.here env st _
  · split
    · rename_i h
      obtain ⟨t, rest, hts, hpk, hk, hv⟩ := isPunct_cons h
      have hadv : Adv env st (St.consume env { st with recursion := st.recursion + 1 }) [anch .punct "$" t.pos] :=
        Adv.eat (cur := { st with recursion := st.recursion + 1 }) _ hts (by rw [← hk, ← hv]; exact renders_anch t)
      refine wp_call hadv (parseName_sound env _ hl) ?_
      intro n st2 ⟨hrec, hadv2, _⟩
      refine ⟨by simp at hrec ⊢; omega, ?_, rfl⟩
      rw [show peekOf env st.toks = t from hpk]
      exact hadv.trans hadv2
    · exact FailOK.here env st _

theorem parseNamedType_sound : Sound parseNamedType Name.stoks (fun _ => true) := by
  intro env st hl
  unfold parseNamedType; wp_simp
  split
  · exact FailOK.here env st _
  · refine wp_call (Adv.refl env st) (parseName_sound env _ hl) ?_
    intro n st2 ⟨hrec, hadv2, _⟩
    exact ⟨by simp at hrec ⊢; omega, hadv2, rfl⟩

theorem parseTypeCondition_sound : Sound parseTypeCondition stoksTypeCondition (fun _ => true) := by
  intro env st hl
  unfold parseTypeCondition; wp_simp
  split
  · exact FailOK.here env st _
  · split
    · rename_i h
      simp only [Bool.and_eq_true, beq_iff_eq] at h
      obtain ⟨t, rest, hts, hpk, hk⟩ := isName_cons h.1
      have hv : t.value = "on" := hpk ▸ h.2
      have hadv : Adv env st (St.consume env { st with recursion := st.recursion + 1 }) [free .name "on"] :=
        Adv.eat (cur := { st with recursion := st.recursion + 1 }) _ hts (by rw [← hk, ← hv]; exact renders_free t)
      refine wp_call hadv (parseNamedType_sound env _ hl) ?_
      intro n st2 ⟨hrec, hadv2, _⟩
      exact ⟨by simp at hrec ⊢; omega, hadv.trans hadv2, rfl⟩
    · exact FailOK.here env st _

theorem parseOperationType_sound :
    Sound parseOperationType (fun t => [anch .name t.value t.pos]) (fun t => isOperationType t.value) := by
  intro env st _
  unfold parseOperationType; wp_simp
  split
  · exact FailOK.here env st _
  · split
    · rename_i h
      simp only [Bool.and_eq_true] at h
      obtain ⟨t, rest, hts, hpk, hk⟩ := isName_cons h.1
      rw [show peekOf env st.toks = t from hpk] at h ⊢
      refine ⟨by simp, ?_, h.2⟩
      exact Adv.eat (cur := { st with recursion := st.recursion + 1 }) _ hts (by rw [← hk]; exact renders_anch t)
    · exact FailOK.here env st _

theorem parseType_sound (f : Nat) : Sound (parseType f) TypeExpr.stoks wfType := by
  induction f with
  | zero => intro env st _; simp [parseType, wp, oofP]
  | succ f ih =>
    intro env st hl
    unfold parseType; wp_simp
    split
    · exact FailOK.here env st _
    · -- the common tail: optional `!` after `inner`
      have tail : ∀ (inner : TypeExpr) (cur : St), cur.recursion = st.recursion + 1 → Adv env st cur inner.stoks →
          wfType inner = true → inner.isNonNull = false →
          (if (peekOf env cur.toks).isPunct "!" = true then
            Post env st (TypeExpr.nonNull inner).stoks (wfType (TypeExpr.nonNull inner))
              { (cur.consume env) with recursion := (cur.consume env).recursion - 1 }
          else Post env st inner.stoks (wfType inner) { cur with recursion := cur.recursion - 1 }) := by
        intro inner cur hrec hadv hwf hnn
        split
        · rename_i h
          obtain ⟨t, rest, hts, hpk, hk, hv⟩ := isPunct_cons h
          refine ⟨by simp [hrec], ?_, by simp [wfType, hwf, hnn]⟩
          exact hadv.trans (Adv.eat _ hts (by rw [← hk, ← hv]; exact renders_free t))
        · exact ⟨by simp [hrec], hadv, hwf⟩
      split
      · rename_i h
        obtain ⟨t, rest, hts, hpk, hk, hv⟩ := isPunct_cons h
        rw [show peekOf env st.toks = t from hpk]
        have hadv : Adv env st (St.consume env { st with recursion := st.recursion + 1 }) [anch .punct "[" t.pos] :=
          Adv.eat (cur := { st with recursion := st.recursion + 1 }) _ hts (by rw [← hk, ← hv]; exact renders_anch t)
        refine wp_call hadv (ih env _ hl) ?_
        intro typ st2 ⟨hrec, hadv2, hwf⟩
        split
        · rename_i h2
          obtain ⟨t2, rest2, hts2, hpk2, hk2, hv2⟩ := isPunct_cons h2
          rw [show peekOf env st2.toks = t2 from hpk2]
          have hadv3 : Adv env st (st2.consume env) (TypeExpr.list typ t.pos t2.pos).stoks := by
            have := (hadv.trans hadv2).trans (Adv.eat (env := env) (anch .punct "]" t2.pos) hts2 (by rw [← hk2, ← hv2]; exact renders_anch t2))
            simpa [TypeExpr.stoks] using this
          exact tail (TypeExpr.list typ t.pos t2.pos) (st2.consume env) (by simp at hrec ⊢; omega) hadv3 (by simpa [wfType] using hwf) rfl
        · exact FailOK.at (hadv.trans hadv2) _
      · refine wp_call (Adv.refl env st) (parseNamedType_sound env _ hl) ?_
        intro n st2 ⟨hrec, hadv2, _⟩
        exact tail (TypeExpr.named n) st2 (by simp at hrec ⊢; omega) hadv2 rfl rfl

theorem kind_cons {env : Env} {ts : List Tok} {k : TokKind} (h : (peekOf env ts).kind = k) (hk : k ≠ .invalid) :
    ∃ t rest, ts = t :: rest ∧ peekOf env ts = t := by
  cases ts with
  | nil => simp [peekOf, eofTok] at h; exact absurd h.symm hk
  | cons t rest => exact ⟨t, rest, rfl, rfl⟩

theorem wfValue_nameValue (c : Bool) (t : Tok) : wfValue c (nameValue t) = true := by
  unfold nameValue
  split
  · rfl
  · split
    · rfl
    · rename_i h1 h2
      simp only [wfValue, isReservedEnum, Bool.not_eq_true'] 
      simp_all

theorem stoks_nameValue (t : Tok) : (nameValue t).stoks = [anch .name t.value t.pos] := by
  unfold nameValue
  split
  · rename_i h
    simp only [Bool.or_eq_true, beq_iff_eq] at h
    rcases h with h | h <;> simp [Value.stoks, h]
  · split
    · rename_i h; simp only [beq_iff_eq] at h; simp [Value.stoks, h]
    · rfl

def ListPost (env : Env) (st : St) (c : Bool) (o : Pos) (acc : List Value) (v : Value) (st' : St) : Prop :=
  st'.recursion = st.recursion ∧ ∃ vs cl, v = .list (acc.reverse ++ vs) o cl ∧
    Adv env st st' (stoksValues vs ++ [anch .punct "]" cl]) ∧ wfValues c vs = true

def ObjPost (env : Env) (st : St) (c : Bool) (o : Pos) (acc : List (Name × Value)) (v : Value) (st' : St) : Prop :=
  st'.recursion = st.recursion ∧ ∃ fs cl, v = .obj (acc.reverse ++ fs) o cl ∧
    Adv env st st' (stoksFields fs ++ [anch .punct "}" cl]) ∧ wfFields c fs = true

theorem value_sound (f : Nat) :
    (∀ c, Sound (parseValue f c) Value.stoks (wfValue c)) ∧
    (∀ c o acc env st, env.leak = false → wp True (listLoop f c o acc) env st (ListPost env st c o acc) (FailOK env st)) ∧
    (∀ c o acc env st, env.leak = false → wp True (objLoop f c o acc) env st (ObjPost env st c o acc) (FailOK env st)) := by
  induction f with
  | zero =>
    refine ⟨?_, ?_, ?_⟩
    · intro c env st _; simp [parseValue, wp, oofP]
    · intro c o acc env st _; simp [listLoop, wp, oofP]
    · intro c o acc env st _; simp [objLoop, wp, oofP]
  | succ f ih =>
    obtain ⟨ihV, ihL, ihO⟩ := ih
    refine ⟨?_, ?_, ?_⟩
    · -- parseValue
      intro c env st hl
      unfold parseValue; wp_simp
      split
      · exact FailOK.here env st _
      · -- simple one-token values
        have one : ∀ (v : Value) (t : Tok) (rest : List Tok), st.toks = t :: rest → v.stoks = [anch t.kind t.value t.pos] →
            wfValue c v = true →
            Post env st v.stoks (wfValue c v)
              { (St.consume env { st with recursion := st.recursion + 1 }) with
                recursion := (St.consume env { st with recursion := st.recursion + 1 }).recursion - 1 } := by
          intro v t rest hts hs hwf
          refine ⟨by simp, ?_, hwf⟩
          rw [hs]
          exact Adv.eat (cur := { st with recursion := st.recursion + 1 }) _ hts (renders_anch t)
        split
        · rename_i hk
          obtain ⟨t, rest, hts, hpk⟩ := kind_cons hk (by decide)
          wp_simp
          rw [hpk] at hk ⊢
          exact one _ t rest hts (by simp [Value.stoks, hk]) rfl
        · rename_i hk
          obtain ⟨t, rest, hts, hpk⟩ := kind_cons hk (by decide)
          wp_simp
          rw [hpk] at hk ⊢
          exact one _ t rest hts (by simp [Value.stoks, hk]) rfl
        · rename_i hk
          obtain ⟨t, rest, hts, hpk⟩ := kind_cons hk (by decide)
          wp_simp
          rw [hpk] at hk ⊢
          exact one _ t rest hts (by simp [Value.stoks, hk]) rfl
        · rename_i hk
          obtain ⟨t, rest, hts, hpk⟩ := kind_cons hk (by decide)
          wp_simp
          rw [hpk] at hk ⊢
          exact one _ t rest hts (by rw [stoks_nameValue, hk]) (wfValue_nameValue c t)
        · rename_i hk
          obtain ⟨t, rest, hts, hpk⟩ := kind_cons hk (by decide)
          rw [hpk] at hk ⊢
          wp_simp
          split
          · rename_i hv
            simp only [beq_iff_eq] at hv
            split
            · exact FailOK.here env st _
            · rename_i hc
              refine wp_call (Adv.refl env st) (parseVariable_sound env _ hl) ?_
              intro v st2 ⟨hrec, hadv2, _⟩
              exact ⟨by simp at hrec ⊢; omega, hadv2, by simp [wfValue]; simpa using hc⟩
          · split
            · rename_i hv
              simp only [beq_iff_eq] at hv
              have hadv : Adv env st (St.consume env { st with recursion := st.recursion + 1 }) [anch .punct "[" t.pos] :=
                Adv.eat (cur := { st with recursion := st.recursion + 1 }) _ hts (by rw [← hk, ← hv]; exact renders_anch t)
              refine wp_call hadv (ihL c t.pos [] env _ hl) ?_
              intro v st2 ⟨hrec, vs, cl, hv2, hadv2, hwf⟩
              subst hv2
              refine ⟨by simp at hrec ⊢; omega, ?_, by simpa [wfValue] using hwf⟩
              have := Adv.setRec (st2.recursion - 1) (hadv.trans hadv2)
              simpa [Value.stoks] using this
            · split
              · rename_i hv
                simp only [beq_iff_eq] at hv
                have hadv : Adv env st (St.consume env { st with recursion := st.recursion + 1 }) [anch .punct "{" t.pos] :=
                  Adv.eat (cur := { st with recursion := st.recursion + 1 }) _ hts (by rw [← hk, ← hv]; exact renders_anch t)
                refine wp_call hadv (ihO c t.pos [] env _ hl) ?_
                intro v st2 ⟨hrec, fs, cl, hv2, hadv2, hwf⟩
                subst hv2
                refine ⟨by simp at hrec ⊢; omega, ?_, by simpa [wfValue] using hwf⟩
                have := Adv.setRec (st2.recursion - 1) (hadv.trans hadv2)
                simpa [Value.stoks] using this
              · exact FailOK.here env st _
        · wp_simp
          exact FailOK.here env st _
    · -- listLoop
      intro c o acc env st hl
      unfold listLoop; wp_simp
      split
      · rename_i h
        obtain ⟨t, rest, hts, hpk, hk, hv⟩ := isPunct_cons h
        rw [hpk]
        refine ⟨by simp, [], t.pos, by simp, ?_, rfl⟩
        exact Adv.eat _ hts (by rw [← hk, ← hv]; exact renders_anch t)
      · refine wp_call (Adv.refl env st) (ihV c env st hl) ?_
        intro v st2 ⟨hrec, hadv2, hwf⟩
        refine wp_conseq (ihL c o (v :: acc) env st2 hl) ?_ (fun _ hf => FailOK.of_adv hadv2 hf)
        intro r st3 ⟨hrec3, vs, cl, hr, hadv3, hwf3⟩
        refine ⟨by omega, v :: vs, cl, by simp [hr], ?_, by simp [wfValues, hwf, hwf3]⟩
        have := hadv2.trans hadv3
        simpa [stoksValues] using this
    · -- objLoop
      intro c o acc env st hl
      unfold objLoop; wp_simp
      split
      · rename_i h
        obtain ⟨t, rest, hts, hpk, hk, hv⟩ := isPunct_cons h
        rw [hpk]
        refine ⟨by simp, [], t.pos, by simp, ?_, rfl⟩
        exact Adv.eat _ hts (by rw [← hk, ← hv]; exact renders_anch t)
      · refine wp_call (Adv.refl env st) (parseName_sound env st hl) ?_
        intro n st2 ⟨hrec, hadv2, _⟩
        split
        · rename_i h2
          obtain ⟨t2, rest2, hts2, hpk2, hk2, hv2⟩ := isPunct_cons h2
          have hadv3 : Adv env st (st2.consume env) (n.stoks ++ [free .punct ":"]) :=
            hadv2.trans (Adv.eat _ hts2 (by rw [← hk2, ← hv2]; exact renders_free t2))
          refine wp_call hadv3 (ihV c env _ hl) ?_
          intro v st4 ⟨hrec4, hadv4, hwf4⟩
          refine wp_conseq (ihO c o ((n, v) :: acc) env st4 hl) ?_ (fun _ hf => FailOK.of_adv (hadv3.trans hadv4) hf)
          intro r st5 ⟨hrec5, fs, cl, hr, hadv5, hwf5⟩
          refine ⟨by simp at hrec4; omega, (n, v) :: fs, cl, by simp [hr], ?_, by simp [wfFields, hwf4, hwf5]⟩
          have := (hadv3.trans hadv4).trans hadv5
          simpa [stoksFields] using this
        · exact FailOK.at hadv2 _

theorem parseValue_sound (f : Nat) (c : Bool) : Sound (parseValue f c) Value.stoks (wfValue c) := (value_sound f).1 c

theorem parseArgument_sound (f : Nat) : Sound (parseArgument f) Argument.stoks (fun a => wfValue false a.value) := by
  intro env st hl
  unfold parseArgument; wp_simp
  split
  · exact FailOK.here env st _
  · refine wp_call (Adv.refl env st) (parseName_sound env _ hl) ?_
    intro n st2 ⟨hrec, hadv2, _⟩
    split
    · rename_i h2
      obtain ⟨t2, rest2, hts2, hpk2, hk2, hv2⟩ := isPunct_cons h2
      have hadv3 : Adv env st (st2.consume env) (n.stoks ++ [free .punct ":"]) :=
        hadv2.trans (Adv.eat _ hts2 (by rw [← hk2, ← hv2]; exact renders_free t2))
      refine wp_call hadv3 (parseValue_sound f false env _ hl) ?_
      intro v st4 ⟨hrec4, hadv4, hwf4⟩
      refine ⟨by simp at hrec hrec4 ⊢; omega, ?_, hwf4⟩
      have := Adv.setRec (st4.recursion - 1) (hadv3.trans hadv4)
      simpa [Argument.stoks] using this
    · exact FailOK.at hadv2 _

def ArgsPost (env : Env) (st : St) (acc : List Argument) (r : List Argument) (st' : St) : Prop :=
  st'.recursion = st.recursion ∧ ∃ as, r = acc.reverse ++ as ∧ r ≠ [] ∧
    Adv env st st' (stoksArgList as ++ [free .punct ")"]) ∧ wfArgList as = true

theorem argsLoop_sound (f : Nat) : ∀ acc env st, env.leak = false →
    wp True (argsLoop f acc) env st (ArgsPost env st acc) (FailOK env st) := by
  induction f with
  | zero => intro acc env st _; simp [argsLoop, wp, oofP]
  | succ f ih =>
    intro acc env st hl
    unfold argsLoop; wp_simp
    split
    · rename_i h
      obtain ⟨t, rest, hts, hpk, hk, hv⟩ := isPunct_cons h
      split
      · exact FailOK.here env st _
      · rename_i hne
        wp_simp
        refine ⟨by simp, [], by simp, by simpa using hne, ?_, rfl⟩
        exact Adv.eat _ hts (by rw [← hk, ← hv]; exact renders_free t)
    · refine wp_call (Adv.refl env st) (parseArgument_sound f env st hl) ?_
      intro a st2 ⟨hrec, hadv2, hwf⟩
      refine wp_conseq (ih (a :: acc) env st2 hl) ?_ (fun _ hf => FailOK.of_adv hadv2 hf)
      intro r st3 ⟨hrec3, as, hr, hne, hadv3, hwf3⟩
      refine ⟨by omega, a :: as, by simp [hr], hne, ?_, by simp [wfArgList, hwf, hwf3]⟩
      have := hadv2.trans hadv3
      simpa [stoksArgList] using this

theorem parseOptionalArguments_sound (f : Nat) : Sound (parseOptionalArguments f) stoksArgs wfArgList := by
  intro env st hl
  unfold parseOptionalArguments; wp_simp
  split
  · exact FailOK.here env st _
  · split
    · rename_i h
      obtain ⟨t, rest, hts, hpk, hk, hv⟩ := isPunct_cons h
      wp_simp
      have hadv : Adv env st (St.consume env { st with recursion := st.recursion + 1 }) [free .punct "("] :=
        Adv.eat (cur := { st with recursion := st.recursion + 1 }) _ hts (by rw [← hk, ← hv]; exact renders_free t)
      refine wp_call hadv (argsLoop_sound f [] env _ hl) ?_
      intro r st2 ⟨hrec, as, hr, hne, hadv2, hwf⟩
      simp only [List.reverse_nil, List.nil_append] at hr
      subst hr
      refine ⟨by simp at hrec ⊢; omega, ?_, hwf⟩
      have := Adv.setRec (st2.recursion - 1) (hadv.trans hadv2)
      have he : r.isEmpty = false := by cases r <;> simp_all
      simpa [stoksArgs, he] using this
    · wp_simp
      exact ⟨by simp, Adv.refl env st, rfl⟩

def DirsPost (env : Env) (st : St) (acc : List Directive) (r : List Directive) (st' : St) : Prop :=
  st'.recursion = st.recursion ∧ ∃ ds, r = acc.reverse ++ ds ∧ Adv env st st' (stoksDirs ds) ∧ wfDirs ds = true

theorem dirsLoop_sound (f : Nat) : ∀ acc env st, env.leak = false →
    wp True (dirsLoop f acc) env st (DirsPost env st acc) (FailOK env st) := by
  induction f with
  | zero => intro acc env st _; simp [dirsLoop, wp, oofP]
  | succ f ih =>
    intro acc env st hl
    unfold dirsLoop; wp_simp
    split
    · rename_i h
      obtain ⟨t, rest, hts, hpk, hk, hv⟩ := isPunct_cons h
      rw [hpk]
      have hadv : Adv env st (st.consume env) [anch .punct "@" t.pos] :=
        Adv.eat _ hts (by rw [← hk, ← hv]; exact renders_anch t)
      refine wp_call hadv (parseName_sound env _ hl) ?_
      intro n st2 ⟨hrec2, hadv2, _⟩
      refine wp_call (hadv.trans hadv2) (parseOptionalArguments_sound f env _ hl) ?_
      intro as st3 ⟨hrec3, hadv3, hwf3⟩
      refine wp_conseq (ih _ env st3 hl) ?_ (fun _ hf => FailOK.of_adv ((hadv.trans hadv2).trans hadv3) hf)
      intro r st4 ⟨hrec4, ds, hr, hadv4, hwf4⟩
      refine ⟨by simp at hrec2; omega, { atPos := t.pos, name := n, args := as } :: ds, by simp [hr], ?_, by simp [wfDirs, hwf3, hwf4]⟩
      have := ((hadv.trans hadv2).trans hadv3).trans hadv4
      simpa [stoksDirs, Directive.stoks] using this
    · exact ⟨rfl, [], by simp, Adv.refl env st, rfl⟩

theorem parseOptionalDirectives_sound (f : Nat) : Sound (parseOptionalDirectives f) stoksDirs wfDirs := by
  intro env st hl
  unfold parseOptionalDirectives; wp_simp
  split
  · exact FailOK.here env st _
  · refine wp_call (Adv.refl env st) (dirsLoop_sound f [] env _ hl) ?_
    intro r st2 ⟨hrec, ds, hr, hadv2, hwf⟩
    simp only [List.reverse_nil, List.nil_append] at hr
    subst hr
    exact ⟨by simp at hrec ⊢; omega, hadv2, hwf⟩

theorem parseVariableDefinition_sound (f : Nat) : Sound (parseVariableDefinition f) VarDef.stoks wfVarDef := by
  intro env st hl
  unfold parseVariableDefinition; wp_simp
  split
  · exact FailOK.here env st _
  · refine wp_call (Adv.refl env st) (parseVariable_sound env _ hl) ?_
    intro vr st2 ⟨hrec, hadv2, _⟩
    split
    · rename_i h2
      obtain ⟨t2, rest2, hts2, hpk2, hk2, hv2⟩ := isPunct_cons h2
      have hadv3 : Adv env st (st2.consume env) (vr.stoks ++ [free .punct ":"]) :=
        hadv2.trans (Adv.eat _ hts2 (by rw [← hk2, ← hv2]; exact renders_free t2))
      refine wp_call hadv3 (parseType_sound f env _ hl) ?_
      intro ty st4 ⟨hrec4, hadv4, hwf4⟩
      split
      · rename_i h5
        obtain ⟨t5, rest5, hts5, hpk5, hk5, hv5⟩ := isPunct_cons h5
        wp_simp
        have hadv5 : Adv env st (st4.consume env) ((vr.stoks ++ [free .punct ":"]) ++ ty.stoks ++ [free .punct "="]) :=
          (hadv3.trans hadv4).trans (Adv.eat _ hts5 (by rw [← hk5, ← hv5]; exact renders_free t5))
        refine wp_call hadv5 (parseValue_sound f true env _ hl) ?_
        intro dv st6 ⟨hrec6, hadv6, hwf6⟩
        refine ⟨by simp at hrec hrec4 hrec6 ⊢; omega, ?_, by simp [wfVarDef, hwf4, hwf6]⟩
        have := Adv.setRec (st6.recursion - 1) (hadv5.trans hadv6)
        simpa [VarDef.stoks] using this
      · wp_simp
        refine ⟨by simp at hrec hrec4 ⊢; omega, ?_, by simp [wfVarDef, hwf4]⟩
        have := Adv.setRec (st4.recursion - 1) (hadv3.trans hadv4)
        simpa [VarDef.stoks] using this
    · exact FailOK.at hadv2 _

def VarDefsPost (env : Env) (st : St) (acc : List VarDef) (r : List VarDef) (st' : St) : Prop :=
  st'.recursion = st.recursion ∧ ∃ as, r = acc.reverse ++ as ∧ r ≠ [] ∧
    Adv env st st' (stoksVarDefList as ++ [free .punct ")"]) ∧ wfVarDefList as = true

theorem varDefsLoop_sound (f : Nat) : ∀ acc env st, env.leak = false →
    wp True (varDefsLoop f acc) env st (VarDefsPost env st acc) (FailOK env st) := by
  induction f with
  | zero => intro acc env st _; simp [varDefsLoop, wp, oofP]
  | succ f ih =>
    intro acc env st hl
    unfold varDefsLoop; wp_simp
    split
    · rename_i h
      obtain ⟨t, rest, hts, hpk, hk, hv⟩ := isPunct_cons h
      split
      · exact FailOK.here env st _
      · rename_i hne
        wp_simp
        refine ⟨by simp, [], by simp, by simpa using hne, ?_, rfl⟩
        exact Adv.eat _ hts (by rw [← hk, ← hv]; exact renders_free t)
    · refine wp_call (Adv.refl env st) (parseVariableDefinition_sound f env st hl) ?_
      intro a st2 ⟨hrec, hadv2, hwf⟩
      refine wp_conseq (ih (a :: acc) env st2 hl) ?_ (fun _ hf => FailOK.of_adv hadv2 hf)
      intro r st3 ⟨hrec3, as, hr, hne, hadv3, hwf3⟩
      refine ⟨by omega, a :: as, by simp [hr], hne, ?_, by simp [wfVarDefList, hwf, hwf3]⟩
      have := hadv2.trans hadv3
      simpa [stoksVarDefList] using this

theorem parseOptionalVariableDefinitions_sound (f : Nat) :
    Sound (parseOptionalVariableDefinitions f) stoksVarDefs wfVarDefList := by
  intro env st hl
  unfold parseOptionalVariableDefinitions; wp_simp
  split
  · exact FailOK.here env st _
  · split
    · rename_i h
      obtain ⟨t, rest, hts, hpk, hk, hv⟩ := isPunct_cons h
      wp_simp
      have hadv : Adv env st (St.consume env { st with recursion := st.recursion + 1 }) [free .punct "("] :=
        Adv.eat (cur := { st with recursion := st.recursion + 1 }) _ hts (by rw [← hk, ← hv]; exact renders_free t)
      refine wp_call hadv (varDefsLoop_sound f [] env _ hl) ?_
      intro r st2 ⟨hrec, as, hr, hne, hadv2, hwf⟩
      simp only [List.reverse_nil, List.nil_append] at hr
      subst hr
      refine ⟨by simp at hrec ⊢; omega, ?_, hwf⟩
      have := Adv.setRec (st2.recursion - 1) (hadv.trans hadv2)
      have he : r.isEmpty = false := by cases r <;> simp_all
      simpa [stoksVarDefs, he] using this
    · wp_simp
      exact ⟨by simp, Adv.refl env st, rfl⟩

macro "wp_simp_noite" : tactic => `(tactic| try simp only [wp_bind, wp_enter, wp_peek, wp_consumeToken, wp_exit, wp_errorf, wp_oofP, wp_isEof, peekTok_eq])

def optSelStoks : Option SelSet → List STok
  | some s => s.stoks
  | none => []
def optSelWf : Option SelSet → Bool
  | some s => wfSelSet s
  | none => true

def SelPost (env : Env) (st : St) (o : Pos) (acc : List Selection) (r : SelSet) (st' : St) : Prop :=
  st'.recursion = st.recursion ∧ ∃ ss cl, r = .mk (acc.reverse ++ ss) o cl ∧ acc.reverse ++ ss ≠ [] ∧
    Adv env st st' (stoksSels ss ++ [anch .punct "}" cl]) ∧ wfSels ss = true

theorem sel_sound (f : Nat) :
    Sound (parseSelectionSet f) SelSet.stoks wfSelSet ∧
    (∀ o acc env st, env.leak = false → wp True (selLoop f o acc) env st (SelPost env st o acc) (FailOK env st)) ∧
    Sound (parseSelection f) Selection.stoks wfSelection ∧
    Sound (parseField f) Selection.stoks wfSelection ∧
    Sound (parseOptionalSelectionSet f) optSelStoks optSelWf := by
  induction f with
  | zero =>
    refine ⟨?_, ?_, ?_, ?_, ?_⟩
    · intro env st _; simp [parseSelectionSet, wp, oofP]
    · intro o acc env st _; simp [selLoop, wp, oofP]
    · intro env st _; simp [parseSelection, wp, oofP]
    · intro env st _; simp [parseField, wp, oofP]
    · intro env st _; simp [parseOptionalSelectionSet, wp, oofP]
  | succ f ih =>
    obtain ⟨ihSS, ihL, ihS, ihF, ihO⟩ := ih
    refine ⟨?_, ?_, ?_, ?_, ?_⟩
    · -- parseSelectionSet
      intro env st hl
      unfold parseSelectionSet; wp_simp
      split
      · exact FailOK.here env st _
      · split
        · rename_i h
          obtain ⟨t, rest, hts, hpk, hk, hv⟩ := isPunct_cons h
          rw [hpk]
          have hadv : Adv env st (St.consume env { st with recursion := st.recursion + 1 }) [anch .punct "{" t.pos] :=
            Adv.eat (cur := { st with recursion := st.recursion + 1 }) _ hts (by rw [← hk, ← hv]; exact renders_anch t)
          refine wp_call hadv (ihL t.pos [] env _ hl) ?_
          intro r st2 ⟨hrec, ss, cl, hr, hne, hadv2, hwf⟩
          simp only [List.reverse_nil, List.nil_append] at hr hne
          subst hr
          have he : ss.isEmpty = false := by cases ss <;> simp_all
          refine ⟨by simp at hrec ⊢; omega, ?_, by simp [wfSelSet, he, hwf]⟩
          have := Adv.setRec (st2.recursion - 1) (hadv.trans hadv2)
          simpa [SelSet.stoks] using this
        · exact FailOK.here env st _
    · -- selLoop
      intro o acc env st hl
      unfold selLoop; wp_simp
      split
      · rename_i h
        obtain ⟨t, rest, hts, hpk, hk, hv⟩ := isPunct_cons h
        split
        · exact FailOK.here env st _
        · rename_i hne
          wp_simp
          rw [hpk]
          refine ⟨by simp, [], t.pos, by simp, by simpa using hne, ?_, rfl⟩
          exact Adv.eat _ hts (by rw [← hk, ← hv]; exact renders_anch t)
      · refine wp_call (Adv.refl env st) (ihS env st hl) ?_
        intro a st2 ⟨hrec, hadv2, hwf⟩
        refine wp_conseq (ihL o (a :: acc) env st2 hl) ?_ (fun _ hf => FailOK.of_adv hadv2 hf)
        intro r st3 ⟨hrec3, ss, cl, hr, hne, hadv3, hwf3⟩
        refine ⟨by omega, a :: ss, cl, by simp [hr], by simp at hne ⊢, ?_, by simp [wfSels, hwf, hwf3]⟩
        have := hadv2.trans hadv3
        simpa [stoksSels] using this
    · -- parseSelection
      intro env st hl
      unfold parseSelection; wp_simp
      split
      · exact FailOK.here env st _
      · split
        · rename_i h
          obtain ⟨t, rest, hts, hpk, hk, hv⟩ := isPunct_cons h
          rw [hpk]
          have hadv : Adv env st (St.consume env { st with recursion := st.recursion + 1 }) [anch .punct "..." t.pos] :=
            Adv.eat (cur := { st with recursion := st.recursion + 1 }) _ hts (by rw [← hk, ← hv]; exact renders_anch t)
          generalize hcur : St.consume env { st with recursion := st.recursion + 1 } = cur at hadv ⊢
          have hcr : cur.recursion = st.recursion + 1 := by rw [← hcur]; simp
          -- the tail shared by both inline-fragment branches
          have tail : ∀ (tc : Option Name) (cur2 : St), cur2.recursion = st.recursion + 1 →
              Adv env st cur2 (anch .punct "..." t.pos :: (match tc with
                                                            | some n => stoksTypeCondition n
                                                            | none => [])) →
              wp True (do
                let dirs ← parseOptionalDirectives f
                let ss ← parseSelectionSet f
                exit
                pure (Selection.inline t.pos tc dirs ss)) env cur2
                (fun a st' => Post env st a.stoks (wfSelection a) st') (FailOK env st) := by
            intro tc cur2 hcr2 hadv2
            wp_simp
            refine wp_call hadv2 (parseOptionalDirectives_sound f env _ hl) ?_
            intro ds st3 ⟨hrec3, hadv3, hwf3⟩
            refine wp_call (hadv2.trans hadv3) (ihSS env _ hl) ?_
            intro ss st4 ⟨hrec4, hadv4, hwf4⟩
            refine ⟨by simp; omega, ?_, by simp [wfSelection, hwf3, hwf4]⟩
            have := Adv.setRec (st4.recursion - 1) ((hadv2.trans hadv3).trans hadv4)
            cases tc <;> simpa [Selection.stoks] using this
          split
          · -- fragment spread
            rename_i h2
            simp only [Bool.and_eq_true, bne_iff_ne, ne_eq] at h2
            refine wp_call hadv (parseName_spec env _) ?_
            intro n st2 ⟨⟨hrec2, hadv2, _⟩, hn⟩
            refine wp_call (hadv.trans hadv2) (parseOptionalDirectives_sound f env _ hl) ?_
            intro ds st3 ⟨hrec3, hadv3, hwf3⟩
            rw [wp_exitUnlessLeak hl]
            refine ⟨by simp; omega, ?_, by simp [wfSelection, hwf3, hn, h2.2]⟩
            have := Adv.setRec (st3.recursion - 1) ((hadv.trans hadv2).trans hadv3)
            simpa [Selection.stoks] using this
          · split
            · refine wp_call hadv (parseTypeCondition_sound env _ hl) ?_
              intro n st2 ⟨hrec2, hadv2, _⟩
              have := tail (some n) st2 (by omega) (hadv.trans hadv2)
              wp_simp at this
              exact this
            · have := tail none cur hcr hadv
              wp_simp at this
              exact this
        · refine wp_call (Adv.refl env st) (ihF env _ hl) ?_
          intro fld st2 ⟨hrec2, hadv2, hwf2⟩
          rw [wp_exitUnlessLeak hl]
          exact ⟨by simp at hrec2 ⊢; omega, hadv2, hwf2⟩
    · -- parseField
      intro env st hl
      unfold parseField
      extract_lets jp
      have tail : ∀ (an : Option Name × Name) (cur : St), cur.recursion = st.recursion + 1 →
          Adv env st cur ((match an.1 with
                           | some a => a.stoks ++ [free .punct ":"]
                           | none => []) ++ an.2.stoks) →
          wp True (jp an) env cur (fun a st' => Post env st a.stoks (wfSelection a) st') (FailOK env st) := by
        intro an cur hcr hadv
        simp only [jp]; wp_simp
        refine wp_call hadv (parseOptionalArguments_sound f env _ hl) ?_
        intro as st3 ⟨hrec3, hadv3, hwf3⟩
        refine wp_call (hadv.trans hadv3) (parseOptionalDirectives_sound f env _ hl) ?_
        intro ds st4 ⟨hrec4, hadv4, hwf4⟩
        refine wp_call ((hadv.trans hadv3).trans hadv4) (ihO env _ hl) ?_
        intro ss st5 ⟨hrec5, hadv5, hwf5⟩
        refine ⟨by simp; omega, ?_, ?_⟩
        · have := Adv.setRec (st5.recursion - 1) (((hadv.trans hadv3).trans hadv4).trans hadv5)
          obtain ⟨al, nm⟩ := an
          cases ss <;> cases al <;> simpa [Selection.stoks, optSelStoks] using this
        · cases ss <;> simp_all [wfSelection, optSelWf]
      wp_simp
      split
      · exact FailOK.here env st _
      · refine wp_call (Adv.refl env st) (parseName_sound env _ hl) ?_
        intro n st2 ⟨hrec2, hadv2, _⟩
        simp only [] at hrec2
        split
        · rename_i h
          obtain ⟨t, rest, hts, hpk, hk, hv⟩ := isPunct_cons h
          have hadv3 : Adv env st (st2.consume env) (n.stoks ++ [free .punct ":"]) :=
            hadv2.trans (Adv.eat _ hts (by rw [← hk, ← hv]; exact renders_free t))
          refine wp_call hadv3 (parseName_sound env _ hl) ?_
          intro n2 st4 ⟨hrec4, hadv4, _⟩
          exact tail (some n, n2) st4 (by simp at hrec4; omega) (hadv3.trans hadv4)
        · exact tail (none, n) st2 hrec2 (by simp only [List.nil_append]; exact hadv2)
    · -- parseOptionalSelectionSet
      intro env st hl
      unfold parseOptionalSelectionSet; wp_simp
      split
      · exact FailOK.here env st _
      · split
        · wp_simp
          refine wp_call (Adv.refl env st) (ihSS env _ hl) ?_
          intro ss st2 ⟨hrec2, hadv2, hwf2⟩
          exact ⟨by simp at hrec2 ⊢; omega, hadv2, hwf2⟩
        · wp_simp
          exact ⟨by simp, Adv.refl env st, rfl⟩

theorem parseSelectionSet_sound (f : Nat) : Sound (parseSelectionSet f) SelSet.stoks wfSelSet := (sel_sound f).1
theorem parseOptionalSelectionSet_sound (f : Nat) : Sound (parseOptionalSelectionSet f) optSelStoks optSelWf :=
  (sel_sound f).2.2.2.2

def optDefStoks : Option Definition → List STok
  | some d => d.stoks
  | none => []
def optDefWf : Option Definition → Bool
  | some d => wfDefinition d
  | none => true

theorem parseOptionalFragmentDefinition_sound (f : Nat) :
    Sound (parseOptionalFragmentDefinition f) optDefStoks optDefWf := by
  intro env st hl
  unfold parseOptionalFragmentDefinition; wp_simp
  split
  · exact FailOK.here env st _
  · split
    · rename_i h
      simp only [Bool.and_eq_true, beq_iff_eq] at h
      obtain ⟨t, rest, hts, hpk, hk⟩ := isName_cons h.1
      have hv : t.value = "fragment" := hpk ▸ h.2
      rw [hpk]
      have hadv : Adv env st (St.consume env { st with recursion := st.recursion + 1 }) [anch .name "fragment" t.pos] :=
        Adv.eat (cur := { st with recursion := st.recursion + 1 }) _ hts (by rw [← hk, ← hv]; exact renders_anch t)
      generalize hcur : St.consume env { st with recursion := st.recursion + 1 } = cur at hadv ⊢
      have hcr : cur.recursion = st.recursion + 1 := by rw [← hcur]; simp
      split
      · rename_i h2
        simp only [Bool.and_eq_true, bne_iff_ne, ne_eq] at h2
        refine wp_call hadv (parseName_spec env _) ?_
        intro n st2 ⟨⟨hrec2, hadv2, _⟩, hn⟩
        refine wp_call (hadv.trans hadv2) (parseTypeCondition_sound env _ hl) ?_
        intro tc st3 ⟨hrec3, hadv3, _⟩
        refine wp_call ((hadv.trans hadv2).trans hadv3) (parseOptionalDirectives_sound f env _ hl) ?_
        intro ds st4 ⟨hrec4, hadv4, hwf4⟩
        refine wp_call (((hadv.trans hadv2).trans hadv3).trans hadv4) (parseSelectionSet_sound f env _ hl) ?_
        intro ss st5 ⟨hrec5, hadv5, hwf5⟩
        refine ⟨by simp; omega, ?_, by simp [optDefWf, wfDefinition, hwf4, hwf5, hn, h2.2]⟩
        have := Adv.setRec (st5.recursion - 1) ((((hadv.trans hadv2).trans hadv3).trans hadv4).trans hadv5)
        simpa [optDefStoks, Definition.stoks] using this
      · exact FailOK.at hadv _
    · exact ⟨by simp, Adv.refl env st, rfl⟩

theorem parseOperationDefinition_sound (f : Nat) :
    Sound (parseOperationDefinition f) Definition.stoks wfDefinition := by
  intro env st hl
  unfold parseOperationDefinition; wp_simp
  split
  · exact FailOK.here env st _
  · refine wp_call (Adv.refl env st) (parseOptionalSelectionSet_sound f env _ hl) ?_
    intro short st2 ⟨hrec2, hadv2, hwf2⟩
    simp only [] at hrec2
    cases short with
    | some ss =>
      wp_simp
      exact ⟨by simp; omega, hadv2, by simpa [wfDefinition, optSelWf] using hwf2⟩
    | none =>
      wp_simp
      have hadv2' : Adv env st st2 [] := hadv2
      refine wp_call hadv2' (parseOperationType_sound env _ hl) ?_
      intro ot st3 ⟨hrec3, hadv3, hwf3⟩
      have hadv3' : Adv env st st3 [anch .name ot.value ot.pos] := hadv2'.trans hadv3
      have tail : ∀ (name : Option Name) (cur : St), cur.recursion = st.recursion + 1 →
          Adv env st cur (anch .name ot.value ot.pos :: (match name with
                                                         | some n => n.stoks
                                                         | none => [])) →
          wp True (do
            let vars ← parseOptionalVariableDefinitions f
            let dirs ← parseOptionalDirectives f
            let ss ← parseSelectionSet f
            let ret ← pure (Definition.op (some ot) name vars dirs ss)
            exit
            pure ret) env cur
            (fun a st' => Post env st a.stoks (wfDefinition a) st') (FailOK env st) := by
        intro name cur hcr hadv
        wp_simp
        refine wp_call hadv (parseOptionalVariableDefinitions_sound f env _ hl) ?_
        intro vs st4 ⟨hrec4, hadv4, hwf4⟩
        refine wp_call (hadv.trans hadv4) (parseOptionalDirectives_sound f env _ hl) ?_
        intro ds st5 ⟨hrec5, hadv5, hwf5⟩
        refine wp_call ((hadv.trans hadv4).trans hadv5) (parseSelectionSet_sound f env _ hl) ?_
        intro ss st6 ⟨hrec6, hadv6, hwf6⟩
        refine ⟨by simp; omega, ?_, by simp [wfDefinition, hwf3, hwf4, hwf5, hwf6]⟩
        have := Adv.setRec (st6.recursion - 1) (((hadv.trans hadv4).trans hadv5).trans hadv6)
        cases name <;> simpa [Definition.stoks] using this
      split
      · refine wp_call hadv3' (parseName_sound env _ hl) ?_
        intro n st4 ⟨hrec4, hadv4, _⟩
        have := tail (some n) st4 (by omega) (hadv3'.trans hadv4)
        wp_simp at this
        exact this
      · have := tail none st3 (by omega) hadv3'
        wp_simp at this
        exact this

theorem parseDefinition_sound (f : Nat) : Sound (parseDefinition f) Definition.stoks wfDefinition := by
  intro env st hl
  unfold parseDefinition; wp_simp
  split
  · exact FailOK.here env st _
  · refine wp_call (Adv.refl env st) (parseOptionalFragmentDefinition_sound f env _ hl) ?_
    intro fd st2 ⟨hrec2, hadv2, hwf2⟩
    simp only [] at hrec2
    cases fd with
    | some d =>
      wp_simp
      exact ⟨by simp; omega, hadv2, hwf2⟩
    | none =>
      wp_simp
      have hadv2' : Adv env st st2 [] := hadv2
      refine wp_call hadv2' (parseOperationDefinition_sound f env _ hl) ?_
      intro d st3 ⟨hrec3, hadv3, hwf3⟩
      exact ⟨by simp; omega, hadv2'.trans hadv3, hwf3⟩

def DefsPost (env : Env) (st : St) (acc : List Definition) (r : List Definition) (st' : St) : Prop :=
  st'.recursion = st.recursion ∧ st'.toks = [] ∧ ∃ ds, r = acc.reverse ++ ds ∧
    Adv env st st' (stoksDefs ds) ∧ wfDefs ds = true

theorem defsLoop_sound (f : Nat) : ∀ acc env st, env.leak = false →
    wp True (defsLoop f acc) env st (DefsPost env st acc) (FailOK env st) := by
  induction f with
  | zero => intro acc env st _; simp [defsLoop, wp, oofP]
  | succ f ih =>
    intro acc env st hl
    unfold defsLoop; wp_simp
    split
    · rename_i h
      exact ⟨rfl, by simpa using h, [], by simp, Adv.refl env st, rfl⟩
    · refine wp_call (Adv.refl env st) (parseDefinition_sound f env st hl) ?_
      intro d st2 ⟨hrec, hadv2, hwf⟩
      refine wp_conseq (ih (d :: acc) env st2 hl) ?_ (fun _ hf => FailOK.of_adv hadv2 hf)
      intro r st3 ⟨hrec3, hnil, ds, hr, hadv3, hwf3⟩
      refine ⟨by omega, hnil, d :: ds, by simp [hr], ?_, by simp [wfDefs, hwf, hwf3]⟩
      have := hadv2.trans hadv3
      simpa [stoksDefs] using this

theorem parseDocument_sound (f : Nat) (env : Env) (st : St) (hl : env.leak = false) :
    wp True (parseDocument f) env st
      (fun d st' => Post env st d.stoks (wfDocument d) st' ∧ st'.toks = []) (FailOK env st) := by
  unfold parseDocument; wp_simp
  split
  · exact FailOK.here env st _
  · refine wp_call (Adv.refl env st) (defsLoop_sound f [] env _ hl) ?_
    intro r st2 ⟨hrec, hnil, ds, hr, hadv2, hwf⟩
    simp only [List.reverse_nil, List.nil_append] at hr
    subst hr
    split
    · exact FailOK.at hadv2 _
    · rename_i hne
      wp_simp
      refine ⟨⟨by simp at hrec ⊢; omega, hadv2, ?_⟩, hnil⟩
      simp [wfDocument, hwf]
      simpa using hne


/-! ### From `wp` facts back to equations -/

theorem wp_ok {α : Type} {O : Prop} {x : P α} {env : Env} {st st' : St} {a : α} {Q : α → St → Prop} {F : List Err → Prop}
    (h : wp O x env st Q F) (hx : x env st = .ok a st') : Q a st' := by
  unfold wp at h; rw [hx] at h; exact h

theorem wp_fail {α : Type} {O : Prop} {x : P α} {env : Env} {st : St} {es : List Err} {Q : α → St → Prop} {F : List Err → Prop}
    (h : wp O x env st Q F) (hx : x env st = .fail es) : F es := by
  unfold wp at h; rw [hx] at h; exact h

theorem Sound.ok {α : Type} {x : P α} {stk : α → List STok} {wf : α → Bool} (h : Sound x stk wf)
    {env : Env} {st st' : St} {a : α} (hl : env.leak = false) (hx : x env st = .ok a st') :
    Post env st (stk a) (wf a) st' :=
  wp_ok (Q := fun a st' => Post env st (stk a) (wf a) st') (h env st hl) hx

theorem Sound.fail {α : Type} {x : P α} {stk : α → List STok} {wf : α → Bool} (h : Sound x stk wf)
    {env : Env} {st : St} {es : List Err} (hl : env.leak = false) (hx : x env st = .fail es) :
    FailOK env st es := wp_fail (h env st hl) hx

/-- All scanner errors of an input, in the order `consumeToken` copies them into `p.errors`. -/
def scannerErrs (inp : Input) : List Err := inp.toks.flatMap (·.errs) ++ inp.eofErrs

theorem total_init (inp : Input) (maxRec : Nat) (leak : Bool) :
    total (inp.env maxRec leak) inp.init = scannerErrs inp := by
  unfold total Input.init scannerErrs pendingErrs Input.env
  cases inp.toks <;> simp

/-- A production is balanced: on every normal return the recursion counter is back at its entry value. -/
def Balanced {α : Type} (x : P α) : Prop :=
  ∀ (env : Env) (st st' : St) (a : α), env.leak = false → x env st = .ok a st' → st'.recursion = st.recursion

theorem Sound.balanced {α : Type} {x : P α} {stk : α → List STok} {wf : α → Bool} (h : Sound x stk wf) :
    Balanced x := fun _ _ _ _ hl hx => (h.ok hl hx).1


/-- The recorded position of the first token of a spec token list. -/
def firstPos (ss : List STok) : Option Pos := ss.head?.bind (·.pos)

theorem firstPos_append_of_some {a b : List STok} {p : Pos} (h : firstPos a = some p) : firstPos (a ++ b) = some p := by
  cases a with
  | nil => simp [firstPos] at h
  | cons x a => simpa [firstPos] using h

theorem Name.firstPos (n : Name) : firstPos n.stoks = some n.position := rfl
theorem Variable.firstPos (v : Variable) : firstPos v.stoks = some v.position := rfl

theorem Value.firstPos (v : Value) : firstPos v.stoks = some v.position := by
  cases v <;> rfl

theorem TypeExpr.firstPos (t : TypeExpr) : firstPos t.stoks = some t.position := by
  induction t with
  | named n => rfl
  | list t o c _ => rfl
  | nonNull t ih => exact firstPos_append_of_some ih

theorem Selection.firstPos (s : Selection) : firstPos s.stoks = some s.position := by
  cases s with
  | field al n args dirs sel => cases al <;> rfl
  | spread e n dirs => rfl
  | inline e tc dirs sel => rfl

theorem SelSet.firstPos (s : SelSet) : firstPos s.stoks = some s.position := by
  cases s; rfl

theorem Definition.firstPos (d : Definition) : firstPos d.stoks = some d.position := by
  cases d with
  | op t name vars dirs sel =>
    cases t with
    | none => exact SelSet.firstPos sel
    | some t => rfl
  | frag p n tc dirs sel => rfl


end ApiFu.C06
