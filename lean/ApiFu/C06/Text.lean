/-
  C06 — the executable composition scanner model (C07) ∘ parser model: what `parser.go` reads from the
  scanner for a source TEXT (code points; an invalid UTF-8 byte is an element ≥ `badBase`).

  `deliver src` runs the C07 scanner model in mode 0 exactly as `consumeToken` drives the Go scanner:
  one `Scan()` per token, `Token()`, `StringValue()`, `Position()` of the token, and the scanner errors
  that this very `Scan()` call appended (`p.scanner.Errors()[p.scannerErrors:]`); at the end the
  pseudo-token's position (`Position()` after the failing `Scan()`) and the errors of that last call.
  The C07 model records error positions only, so delivered scanner errors carry the empty message.

  `parseText maxRec src` = `ParseDocument maxRec (deliver src)` is the composed model of
  `parser.ParseDocument(text)`; the driver answers op `T` with it (text-level stream of the harness).

  CORE LEAN ONLY (linked into c06model). New file; the theorems are in PropsText.lean.
-/
import ApiFu.C06.Model
import ApiFu.C07.Model

namespace ApiFu.C06

/-- The parser's token kind for a scanner token kind (parser.go switches on `token.Token`). -/
def kindOfScan : ApiFu.C07.Kind → TokKind
  | .punctuator => .punct
  | .name => .name
  | .intValue => .int
  | .floatValue => .float
  | .stringValue => .string
  | _ => .invalid

def strOfRunes (cs : List Nat) : String := String.ofList (cs.map Char.ofNat)

/-- The parser token for a scanner-model token of the text `src`: `StringValue()` is the decoded value
    for a string and the literal `src[off, off+len)` otherwise; `Position()` is the token's line:column. -/
def tokOfScan (src : List Nat) (t : ApiFu.C07.Tok) : Tok :=
  { kind := kindOfScan t.kind,
    value := strOfRunes (if t.kind = .stringValue then t.value else (src.drop t.off).take t.len),
    pos := ⟨t.line, t.col⟩ }

/-- The scanner errors appended between two scanner states, as parser errors (position only). -/
def newErrs (s s' : ApiFu.C07.St) : List Err :=
  (s'.errs.drop s.errs.length).map fun e => { msg := "", pos := ⟨e.line, e.col⟩ }

/-- `for { consumeToken() }` over the scanner model: delivered tokens, EOF position, EOF errors. -/
def deliverLoop (src : List Nat) : Nat → ApiFu.C07.St → List Tok × Pos × List Err
  | 0, s => ([], ⟨s.line, s.col⟩, [])
  | fuel + 1, s =>
    match ApiFu.C07.scan false (s.rest.length + 1) s with
    | (none, s') => ([], ⟨s'.line, s'.col⟩, newErrs s s')
    | (some t, s') =>
      match deliverLoop src fuel s' with
      | (ts, e) => ({ tokOfScan src t with errs := newErrs s s' } :: ts, e)

/-- What the parser reads from the text `src`. -/
def deliver (src : List Nat) : Input :=
  match deliverLoop src (src.length + 1) (ApiFu.C07.St.init src) with
  | (ts, p, es) => { toks := ts, eofPos := p, eofErrs := es }

/-- The composed model of `parser.ParseDocument(text)`. -/
def parseText (maxRec : Nat) (src : List Nat) : Outcome Document := ParseDocument maxRec (deliver src)

/-- The composed model of `parser.ParseValue(text)`. -/
def parseValueText (maxRec : Nat) (src : List Nat) : Outcome Value := ParseValue maxRec (deliver src)

end ApiFu.C06
