/-
  C06 — executable model of `graphql/parser/parser.go` (one function per production) over the list of
  non-ignored tokens delivered by `scanner.Scan()`, with `ast.go`'s `Position()` of every node type.

  What is modelled (Go lines of graphql/parser/parser.go at the pinned commit, after the F-12a fix):
    * `newParser`/`consumeToken`/`peek`/`errorf`/`enter`/`exit`                     (52-130)
    * every production `parseDocument` … `parseValue`                               (132-609)
    * `ParseDocument`/`ParseValue` with `recover()` of `panic(*Error)`              (25-50)
  What is a parameter (not modelled): the scanner. A token is what `consumeToken` reads from it —
  `Token()`, `StringValue()`, `Position()` — plus the scanner errors that this `Scan()` call appended
  (`consumeToken` copies them into `p.errors`). The end of input is the pseudo-token
  `{INVALID, "EOF", Position()}` of the failing `Scan()`; its position and errors are `Env.eofPos/eofErrs`.
  `maxRecursion` is a parameter too (`Env.maxRec`; the harness reads the constant from parser.go).

  Control flow: `panic(p.errorf(..))` is `Res.fail errors` (the error list at the time of the panic,
  which is what the deferred `recover` returns); running out of the model's own fuel is `Res.oof`,
  distinct from every Go outcome (Props: `parseDocument_fuel_sufficient`).

  `Env.leak = true` reproduces the code *before* the F-12a fix (parseSelection returns without `exit()`
  on the field and fragment-spread paths); every theorem is about `leak = false`, the witness of the
  defect about `leak = true`.

  CORE LEAN ONLY.
-/
namespace ApiFu.C06

structure Pos where
  line : Nat
  col : Nat
  deriving Repr, DecidableEq, Inhabited

structure Err where
  msg : String
  pos : Pos
  deriving Repr, DecidableEq, Inhabited

/-- `token.Token` restricted to what `Scan()` can return in mode 0, plus INVALID (the EOF pseudo-token). -/
inductive TokKind where
  | punct | name | int | float | string | invalid
  deriving Repr, DecidableEq, Inhabited

structure Tok where
  kind : TokKind
  value : String            -- `StringValue()`: decoded value for strings, the literal otherwise
  pos : Pos
  errs : List Err := []     -- scanner errors appended by the `Scan()` call that delivered this token
  deriving Repr, DecidableEq, Inhabited

/-! ### AST (graphql/ast/ast.go) — every stored position field is kept -/

structure Name where
  name : String
  pos : Pos
  deriving Repr, DecidableEq, Inhabited

structure Variable where
  dollar : Pos
  name : Name
  deriving Repr, DecidableEq, Inhabited

inductive Value where
  | var (v : Variable)
  | int (v : String) (pos : Pos)
  | float (v : String) (pos : Pos)
  | str (v : String) (pos : Pos)
  | bool (b : Bool) (pos : Pos)
  | null (pos : Pos)
  | enum (v : String) (pos : Pos)
  | list (vs : List Value) (opening closing : Pos)
  | obj (fs : List (Name × Value)) (opening closing : Pos)
  deriving Repr, Inhabited

inductive TypeExpr where
  | named (n : Name)
  | list (t : TypeExpr) (opening closing : Pos)
  | nonNull (t : TypeExpr)
  deriving Repr, DecidableEq, Inhabited

structure Argument where
  name : Name
  value : Value
  deriving Repr, Inhabited

structure Directive where
  atPos : Pos
  name : Name
  args : List Argument
  deriving Repr, Inhabited

structure VarDef where
  var : Variable
  type : TypeExpr
  default : Option Value
  deriving Repr, Inhabited

mutual
inductive Selection where
  | field (alias : Option Name) (name : Name) (args : List Argument) (dirs : List Directive) (sel : Option SelSet)
  | spread (ellipsis : Pos) (name : Name) (dirs : List Directive)
  | inline (ellipsis : Pos) (tc : Option Name) (dirs : List Directive) (sel : SelSet)
inductive SelSet where
  | mk (sels : List Selection) (opening closing : Pos)
end

instance : Inhabited SelSet := ⟨.mk [] default default⟩
instance : Inhabited Selection := ⟨.spread default default []⟩

structure OpType where
  value : String
  pos : Pos
  deriving Repr, DecidableEq, Inhabited

inductive Definition where
  | op (type : Option OpType) (name : Option Name) (vars : List VarDef) (dirs : List Directive) (sel : SelSet)
  | frag (fragment : Pos) (name : Name) (tc : Name) (dirs : List Directive) (sel : SelSet)
  deriving Inhabited

structure Document where
  defs : List Definition
  deriving Inhabited

/-! ### `Position()` of every node type (ast.go) -/

def Name.position (n : Name) : Pos := n.pos
def Variable.position (v : Variable) : Pos := v.dollar
def OpType.position (t : OpType) : Pos := t.pos
/-- `NamedType.Position()` = `n.Name.Position()`. -/
def namedTypePosition (n : Name) : Pos := n.position

def Value.position : Value → Pos
  | .var v => v.position
  | .int _ p => p
  | .float _ p => p
  | .str _ p => p
  | .bool _ p => p
  | .null p => p
  | .enum _ p => p
  | .list _ o _ => o
  | .obj _ o _ => o

/-- `ObjectField.Position()` = `n.Name.Position()`. -/
def objectFieldPosition (f : Name × Value) : Pos := f.1.position

def TypeExpr.position : TypeExpr → Pos
  | .named n => namedTypePosition n
  | .list _ o _ => o
  | .nonNull t => t.position

def Argument.position (a : Argument) : Pos := a.name.position
def Directive.position (d : Directive) : Pos := d.atPos
def VarDef.position (v : VarDef) : Pos := v.var.position
def SelSet.position : SelSet → Pos
  | .mk _ o _ => o
def Selection.position : Selection → Pos
  | .field (some a) _ _ _ _ => a.position
  | .field none n _ _ _ => n.position
  | .spread e _ _ => e
  | .inline e _ _ _ => e
def Definition.position : Definition → Pos
  | .op (some t) _ _ _ _ => t.position
  | .op none _ _ _ s => s.position
  | .frag p _ _ _ _ => p
def Document.position (_ : Document) : Pos := ⟨1, 1⟩

/-! ### Parser state and the `panic`/`recover` monad -/

/-- What does not change during a parse. -/
structure Env where
  maxRec : Nat              -- `maxRecursion`
  eofPos : Pos              -- `scanner.Position()` after the failing `Scan()`
  eofErrs : List Err := []  -- scanner errors appended by that failing `Scan()`
  leak : Bool := false      -- true = the code before the F-12a fix
  deriving Repr, Inhabited

structure St where
  toks : List Tok           -- head = `p.nextToken`; [] ⇔ `p.eof`
  recursion : Nat
  errors : List Err
  deriving Repr, Inhabited

inductive Res (α : Type) where
  | ok (a : α) (st : St)
  | fail (errs : List Err)  -- `panic(*Error)`: `p.errors` at that moment
  | oof                     -- model fuel exhausted (not a Go outcome)
  deriving Inhabited

def P (α : Type) := Env → St → Res α

@[inline] def P.pure {α : Type} (a : α) : P α := fun _ st => .ok a st

@[inline] def P.bind {α β : Type} (x : P α) (f : α → P β) : P β := fun env st =>
  match x env st with
  | .ok a st' => f a env st'
  | .fail es => .fail es
  | .oof => .oof

instance : Monad P where
  pure := P.pure
  bind := P.bind

/-- The EOF pseudo-token of `consumeToken`. -/
def eofTok (env : Env) : Tok := { kind := .invalid, value := "EOF", pos := env.eofPos }

def St.peekTok (env : Env) (st : St) : Tok :=
  match st.toks with
  | t :: _ => t
  | [] => eofTok env

/-- `p.peek()`. -/
def peek : P Tok := fun env st => .ok (st.peekTok env) st

/-- `p.eof`. -/
def isEof : P Bool := fun _ st => .ok st.toks.isEmpty st

/-- `p.consumeToken()`: advance; the scanner errors of the `Scan()` that delivers the new `nextToken`
    are appended. At EOF another `Scan()` returns false again and reports nothing new. -/
def St.consume (env : Env) (st : St) : St :=
  match st.toks with
  | [] => st
  | _ :: rest =>
    { st with toks := rest,
              errors := st.errors ++ (match rest with
                                      | t :: _ => t.errs
                                      | [] => env.eofErrs) }

def consumeToken : P Unit := fun env st => .ok () (st.consume env)

/-- `panic(p.errorf(msg))`. -/
def errorf {α : Type} (msg : String) : P α := fun env st =>
  .fail (st.errors ++ [{ msg := msg, pos := (st.peekTok env).pos }])

def depthMsg : String := "maximum recursion depth exceeded"

/-- `p.enter()`. -/
def enter : P Unit := fun env st =>
  if st.recursion + 1 > env.maxRec then
    .fail (st.errors ++ [{ msg := depthMsg, pos := (st.peekTok env).pos }])
  else .ok () { st with recursion := st.recursion + 1 }

/-- `p.exit()`. (Every call follows an `enter` of the same production, so the counter is ≥ 1.) -/
def exit : P Unit := fun _ st => .ok () { st with recursion := st.recursion - 1 }

/-- The two return paths of parseSelection that lacked `exit()` before the F-12a fix. -/
def exitUnlessLeak : P Unit := fun env st =>
  if env.leak then .ok () st else .ok () { st with recursion := st.recursion - 1 }

def oofP {α : Type} : P α := fun _ _ => .oof

def Tok.isPunct (t : Tok) (s : String) : Bool := t.kind == .punct && t.value == s
def Tok.isName (t : Tok) : Bool := t.kind == .name

/-! ### Productions without recursion -/

def parseName : P Name := do
  enter
  let t ← peek
  if t.isName then
    consumeToken
    exit
    pure { name := t.value, pos := t.pos }
  else errorf "expected name"

def parseVariable : P Variable := do
  enter
  let t ← peek
  if t.isPunct "$" then
    consumeToken
    let n ← parseName
    exit
    pure { dollar := t.pos, name := n }
  else errorf "expected variable"

def parseNamedType : P Name := do
  enter
  let n ← parseName
  exit
  pure n

def parseTypeCondition : P Name := do
  enter
  let t ← peek
  if t.isName && t.value == "on" then
    consumeToken
    let ret ← parseNamedType
    exit
    pure ret
  else errorf "expected \"on\""

def isOperationType (s : String) : Bool := s == "query" || s == "mutation" || s == "subscription"

def parseOperationType : P OpType := do
  enter
  let t ← peek
  if t.isName && isOperationType t.value then
    consumeToken
    exit
    pure { value := t.value, pos := t.pos }
  else errorf "expected operation type"

/-! ### Types -/

def parseType : Nat → P TypeExpr
  | 0 => oofP
  | f + 1 => do
    enter
    let t ← peek
    let inner ←
      if t.isPunct "[" then do
        consumeToken
        let typ ← parseType f
        let t2 ← peek
        if t2.isPunct "]" then
          consumeToken
          pure (TypeExpr.list typ t.pos t2.pos)
        else errorf "expected ]"
      else do
        let n ← parseNamedType
        pure (TypeExpr.named n)
    let t3 ← peek
    let ret ←
      if t3.isPunct "!" then do
        consumeToken
        pure (TypeExpr.nonNull inner)
      else pure inner
    exit
    pure ret

/-! ### Values -/

/-- The NAME case of parseValue. -/
def nameValue (t : Tok) : Value :=
  if t.value == "true" || t.value == "false" then .bool (t.value == "true") t.pos
  else if t.value == "null" then .null t.pos
  else .enum t.value t.pos

mutual
def parseValue : Nat → Bool → P Value
  | 0, _ => oofP
  | f + 1, constant => do
    enter
    let t ← peek
    let ret ←
      match t.kind with
      | .int => do consumeToken; pure (Value.int t.value t.pos)
      | .float => do consumeToken; pure (Value.float t.value t.pos)
      | .string => do consumeToken; pure (Value.str t.value t.pos)
      | .name => do consumeToken; pure (nameValue t)
      | .punct =>
        if t.value == "$" then
          if constant then errorf "expected constant value"
          else do
            let v ← parseVariable
            pure (Value.var v)
        else if t.value == "[" then do
          consumeToken
          listLoop f constant t.pos []
        else if t.value == "{" then do
          consumeToken
          objLoop f constant t.pos []
        else errorf "expected value"
      | .invalid => errorf "expected value"
    exit
    pure ret
/-- The `for` loop of the `[` case; `acc` is `values` reversed. -/
def listLoop : Nat → Bool → Pos → List Value → P Value
  | 0, _, _, _ => oofP
  | f + 1, constant, opening, acc => do
    let t ← peek
    if t.isPunct "]" then
      consumeToken
      pure (Value.list acc.reverse opening t.pos)
    else do
      let v ← parseValue f constant
      listLoop f constant opening (v :: acc)
/-- The `for` loop of the `{` case; `acc` is `fields` reversed. -/
def objLoop : Nat → Bool → Pos → List (Name × Value) → P Value
  | 0, _, _, _ => oofP
  | f + 1, constant, opening, acc => do
    let t ← peek
    if t.isPunct "}" then
      consumeToken
      pure (Value.obj acc.reverse opening t.pos)
    else do
      let name ← parseName
      let t2 ← peek
      if t2.isPunct ":" then
        consumeToken
        let value ← parseValue f constant
        objLoop f constant opening ((name, value) :: acc)
      else errorf "expected colon"
end

/-! ### Arguments, directives, variable definitions -/

def parseArgument (f : Nat) : P Argument := do
  enter
  let name ← parseName
  let t ← peek
  if t.isPunct ":" then
    consumeToken
    let value ← parseValue f false
    exit
    pure { name := name, value := value }
  else errorf "expected colon"

def argsLoop : Nat → List Argument → P (List Argument)
  | 0, _ => oofP
  | f + 1, acc => do
    let t ← peek
    if t.isPunct ")" then
      if acc.isEmpty then errorf "expected argument"
      else do
        consumeToken
        pure acc.reverse
    else do
      let a ← parseArgument f
      argsLoop f (a :: acc)

def parseOptionalArguments (f : Nat) : P (List Argument) := do
  enter
  let t ← peek
  let ret ←
    if t.isPunct "(" then do
      consumeToken
      argsLoop f []
    else pure []
  exit
  pure ret

def dirsLoop : Nat → List Directive → P (List Directive)
  | 0, _ => oofP
  | f + 1, acc => do
    let t ← peek
    if t.isPunct "@" then
      consumeToken
      let name ← parseName
      let args ← parseOptionalArguments f
      dirsLoop f ({ atPos := t.pos, name := name, args := args } :: acc)
    else pure acc.reverse

def parseOptionalDirectives (f : Nat) : P (List Directive) := do
  enter
  let ret ← dirsLoop f []
  exit
  pure ret

def parseVariableDefinition (f : Nat) : P VarDef := do
  enter
  let vr ← parseVariable
  let t ← peek
  if t.isPunct ":" then
    consumeToken
    let typ ← parseType f
    let t2 ← peek
    let dv ←
      if t2.isPunct "=" then do
        consumeToken
        let v ← parseValue f true
        pure (some v)
      else pure none
    exit
    pure { var := vr, type := typ, default := dv }
  else errorf "expected colon"

def varDefsLoop : Nat → List VarDef → P (List VarDef)
  | 0, _ => oofP
  | f + 1, acc => do
    let t ← peek
    if t.isPunct ")" then
      if acc.isEmpty then errorf "expected variable definition"
      else do
        consumeToken
        pure acc.reverse
    else do
      let d ← parseVariableDefinition f
      varDefsLoop f (d :: acc)

def parseOptionalVariableDefinitions (f : Nat) : P (List VarDef) := do
  enter
  let t ← peek
  let ret ←
    if t.isPunct "(" then do
      consumeToken
      varDefsLoop f []
    else pure []
  exit
  pure ret

/-! ### Selection sets -/

mutual
def parseSelectionSet : Nat → P SelSet
  | 0 => oofP
  | f + 1 => do
    enter
    let t ← peek
    if t.isPunct "{" then
      consumeToken
      let ret ← selLoop f t.pos []
      exit
      pure ret
    else errorf "expected selection set"
/-- The `for` loop of parseSelectionSet; `acc` is `ret.Selections` reversed. -/
def selLoop : Nat → Pos → List Selection → P SelSet
  | 0, _, _ => oofP
  | f + 1, opening, acc => do
    let t ← peek
    if t.isPunct "}" then
      if acc.isEmpty then errorf "expected selection"
      else do
        consumeToken
        pure (SelSet.mk acc.reverse opening t.pos)
    else do
      let s ← parseSelection f
      selLoop f opening (s :: acc)
def parseSelection : Nat → P Selection
  | 0 => oofP
  | f + 1 => do
    enter
    let t ← peek
    if t.isPunct "..." then
      consumeToken
      let t2 ← peek
      if t2.isName && t2.value != "on" then
        let name ← parseName
        let dirs ← parseOptionalDirectives f
        exitUnlessLeak          -- F-12a: this `exit()` was missing
        pure (Selection.spread t.pos name dirs)
      else do
        let tc ←
          if t2.isName then do
            let n ← parseTypeCondition
            pure (some n)
          else pure none
        let dirs ← parseOptionalDirectives f
        let ss ← parseSelectionSet f
        exit
        pure (Selection.inline t.pos tc dirs ss)
    else do
      let fld ← parseField f
      exitUnlessLeak            -- F-12a: this `exit()` was missing
      pure fld
def parseField : Nat → P Selection
  | 0 => oofP
  | f + 1 => do
    enter
    let n ← parseName
    let t ← peek
    let (an : Option Name × Name) ←
      if t.isPunct ":" then do
        consumeToken
        let n2 ← parseName
        pure (some n, n2)
      else pure (none, n)
    let args ← parseOptionalArguments f
    let dirs ← parseOptionalDirectives f
    let ss ← parseOptionalSelectionSet f
    exit
    pure (Selection.field an.1 an.2 args dirs ss)
def parseOptionalSelectionSet : Nat → P (Option SelSet)
  | 0 => oofP
  | f + 1 => do
    enter
    let t ← peek
    let ret ←
      if t.isPunct "{" then do
        let ss ← parseSelectionSet f
        pure (some ss)
      else pure none
    exit
    pure ret
end

/-! ### Definitions and the document -/

def parseOptionalFragmentDefinition (f : Nat) : P (Option Definition) := do
  enter
  let t ← peek
  let ret ←
    if t.isName && t.value == "fragment" then do
      consumeToken
      let t2 ← peek
      if t2.isName && t2.value != "on" then
        let name ← parseName
        let tc ← parseTypeCondition
        let dirs ← parseOptionalDirectives f
        let ss ← parseSelectionSet f
        pure (some (Definition.frag t.pos name tc dirs ss))
      else errorf "expected fragment name"
    else pure none
  exit
  pure ret

def parseOperationDefinition (f : Nat) : P Definition := do
  enter
  let short ← parseOptionalSelectionSet f
  let ret ←
    match short with
    | some ss => pure (Definition.op none none [] [] ss)
    | none => do
      let ot ← parseOperationType
      let t ← peek
      let name ←
        if t.isName then do
          let n ← parseName
          pure (some n)
        else pure none
      let vars ← parseOptionalVariableDefinitions f
      let dirs ← parseOptionalDirectives f
      let ss ← parseSelectionSet f
      pure (Definition.op (some ot) name vars dirs ss)
  exit
  pure ret

def parseDefinition (f : Nat) : P Definition := do
  enter
  let fd ← parseOptionalFragmentDefinition f
  let ret ←
    match fd with
    | some d => pure d
    | none => parseOperationDefinition f
  exit
  pure ret

def defsLoop : Nat → List Definition → P (List Definition)
  | 0, _ => oofP
  | f + 1, acc => do
    let eof ← isEof
    if eof then pure acc.reverse
    else do
      let d ← parseDefinition f
      defsLoop f (d :: acc)

def parseDocument (f : Nat) : P Document := do
  enter
  let defs ← defsLoop f []
  if defs.isEmpty then errorf "expected definition"
  else do
    exit
    pure { defs := defs }

/-! ### `ParseDocument` / `ParseValue` -/

structure Input where
  toks : List Tok
  eofPos : Pos
  eofErrs : List Err := []
  deriving Repr, Inhabited

def Input.env (inp : Input) (maxRec : Nat) (leak : Bool := false) : Env :=
  { maxRec := maxRec, eofPos := inp.eofPos, eofErrs := inp.eofErrs, leak := leak }

/-- `newParser`: the first `consumeToken()`. -/
def Input.init (inp : Input) : St :=
  { toks := inp.toks, recursion := 0,
    errors := match inp.toks with
              | t :: _ => t.errs
              | [] => inp.eofErrs }

/-- What `ParseDocument`/`ParseValue` return: the node (nil after a recovered panic) and `p.errors`. -/
inductive Outcome (α : Type) where
  | returned (a : α) (errs : List Err)
  | recovered (errs : List Err)
  | outOfFuel
  deriving Inhabited

def Res.outcome {α : Type} : Res α → Outcome α
  | .ok a st => .returned a st.errors
  | .fail es => .recovered es
  | .oof => .outOfFuel

/-- Fuel that is always enough (Props: `parseDocument_fuel_sufficient`). -/
def defaultFuel (inp : Input) : Nat := 8 * (inp.toks.length + 2)

def ParseDocument (maxRec : Nat) (inp : Input) (leak : Bool := false) : Outcome Document :=
  (parseDocument (defaultFuel inp) (inp.env maxRec leak) inp.init).outcome

def ParseValue (maxRec : Nat) (inp : Input) : Outcome Value :=
  (parseValue (defaultFuel inp) false (inp.env maxRec) inp.init).outcome

end ApiFu.C06
