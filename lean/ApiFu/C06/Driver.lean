/-
  C06 model driver (protocol functions; `Main.lean` is the executable). One request per line, one reply per line (S-expressions).

    (doc <maxRec> <leak:0|1> (eof L C err…) tok…)   → (ret <doc> (err…) <wf> <renders>) | (rec (err…)) | oof
    (val <maxRec> (eof L C err…) tok…)              → (ret <value> (err…)) | (rec (err…)) | oof
    tok := (<k> "<value>" L C err…)   k ∈ p n i f s        err := (e "<msg>" L C)
           (the punctuators "(" and ")" are written LP and RP)

  <doc>/<value> is the canonical S-expression of the AST: every node is `(tag <Position()> …)` with
  `Position()` computed as in ast.go, closing positions where ast.go stores them. <wf>/<renders> are the
  executable specification (Spec.lean) evaluated on the model's own output: `wfDocument d` and
  `Renders tokens d.stoks`.
-/
import ApiFu.Common.Sexp
import ApiFu.Common.Loop
import ApiFu.C06.Model
import ApiFu.C06.Spec

open ApiFu ApiFu.C06

namespace ApiFu.C06.Driver

def posS (p : Pos) : Sexp := Sexp.atom (toString p.line ++ ":" ++ toString p.col)

def nameS (n : Name) : Sexp := Sexp.node "n" [posS n.position, Sexp.str n.name]
def varS (v : Variable) : Sexp := Sexp.node "var" [posS v.position, nameS v.name]

mutual
def valueS : Value → Sexp
  | .var v => varS v
  | .int s p => Sexp.node "int" [posS (Value.int s p).position, Sexp.str s]
  | .float s p => Sexp.node "float" [posS (Value.float s p).position, Sexp.str s]
  | .str s p => Sexp.node "str" [posS (Value.str s p).position, Sexp.str s]
  | .bool b p => Sexp.node "bool" [posS (Value.bool b p).position, Sexp.ofBool b]
  | .null p => Sexp.node "null" [posS (Value.null p).position]
  | .enum s p => Sexp.node "enum" [posS (Value.enum s p).position, Sexp.str s]
  | .list vs o c => Sexp.list (Sexp.atom "list" :: posS (Value.list vs o c).position :: posS c :: valuesS vs)
  | .obj fs o c => Sexp.list (Sexp.atom "obj" :: posS (Value.obj fs o c).position :: posS c :: fieldsS fs)
def valuesS : List Value → List Sexp
  | [] => []
  | v :: vs => valueS v :: valuesS vs
def fieldsS : List (Name × Value) → List Sexp
  | [] => []
  | (n, v) :: fs => Sexp.node "of" [posS (objectFieldPosition (n, v)), nameS n, valueS v] :: fieldsS fs
end

def namedS (n : Name) : Sexp := Sexp.node "named" [posS (namedTypePosition n), nameS n]

def typeS : TypeExpr → Sexp
  | .named n => namedS n
  | .list t o c => Sexp.node "listT" [posS (TypeExpr.list t o c).position, posS c, typeS t]
  | .nonNull t => Sexp.node "nonnull" [posS (TypeExpr.nonNull t).position, typeS t]

def argS (a : Argument) : Sexp := Sexp.node "arg" [posS a.position, nameS a.name, valueS a.value]
def dirS (d : Directive) : Sexp := Sexp.node "dir" [posS d.position, nameS d.name, Sexp.list (d.args.map argS)]
def optS {α : Type} (f : α → Sexp) : Option α → Sexp
  | some a => f a
  | none => Sexp.atom "none"
def varDefS (v : VarDef) : Sexp :=
  Sexp.node "vardef" [posS v.position, varS v.var, typeS v.type, optS valueS v.default]

mutual
def selectionS : Selection → Sexp
  | .field al n args dirs sel =>
    Sexp.node "field" [posS (Selection.field al n args dirs sel).position, optS nameS al, nameS n,
      Sexp.list (args.map argS), Sexp.list (dirs.map dirS),
      (match sel with
       | some s => selSetS s
       | none => Sexp.atom "none")]
  | .spread e n dirs =>
    Sexp.node "spread" [posS (Selection.spread e n dirs).position, nameS n, Sexp.list (dirs.map dirS)]
  | .inline e tc dirs sel =>
    Sexp.node "inline" [posS (Selection.inline e tc dirs sel).position, optS namedS tc,
      Sexp.list (dirs.map dirS), selSetS sel]
def selSetS : SelSet → Sexp
  | .mk sels o c => Sexp.list (Sexp.atom "ss" :: posS (SelSet.mk sels o c).position :: posS c :: selsS sels)
def selsS : List Selection → List Sexp
  | [] => []
  | s :: ss => selectionS s :: selsS ss
end

def opTypeS (t : OpType) : Sexp := Sexp.node "optype" [posS t.position, Sexp.str t.value]

def definitionS : Definition → Sexp
  | .op t name vars dirs sel =>
    Sexp.node "op" [posS (Definition.op t name vars dirs sel).position, optS opTypeS t, optS nameS name,
      Sexp.list (vars.map varDefS), Sexp.list (dirs.map dirS), selSetS sel]
  | .frag p n tc dirs sel =>
    Sexp.node "frag" [posS (Definition.frag p n tc dirs sel).position, nameS n, namedS tc,
      Sexp.list (dirs.map dirS), selSetS sel]

def documentS (d : Document) : Sexp :=
  Sexp.list (Sexp.atom "doc" :: posS d.position :: d.defs.map definitionS)

def errS (e : Err) : Sexp := Sexp.node "e" [Sexp.str e.msg, Sexp.ofNat e.pos.line, Sexp.ofNat e.pos.col]
def errsS (es : List Err) : Sexp := Sexp.list (es.map errS)

/-! decoding of requests -/

def err? : Sexp → Option Err
  | Sexp.list [Sexp.atom "e", Sexp.atom m, l, c] => do
    let l ← l.nat?
    let c ← c.nat?
    pure { msg := m, pos := ⟨l, c⟩ }
  | _ => none

def kind? : String → Option TokKind
  | "p" => some .punct
  | "n" => some .name
  | "i" => some .int
  | "f" => some .float
  | "s" => some .string
  | _ => none

def tok? : Sexp → Option Tok
  | Sexp.list (Sexp.atom k :: Sexp.atom v :: l :: c :: errs) => do
    let k ← kind? k
    let l ← l.nat?
    let c ← c.nat?
    let es ← errs.mapM err?
    -- the two parentheses travel as LP / RP (a bare atom cannot contain them)
    let v := if k == .punct && v == "LP" then "(" else if k == .punct && v == "RP" then ")" else v
    pure { kind := k, value := v, pos := ⟨l, c⟩, errs := es }
  | _ => none

def input? (eof : Sexp) (toks : List Sexp) : Option Input :=
  match eof with
  | Sexp.list (Sexp.atom "eof" :: l :: c :: errs) => do
    let l ← l.nat?
    let c ← c.nat?
    let es ← errs.mapM err?
    let ts ← toks.mapM tok?
    pure { toks := ts, eofPos := ⟨l, c⟩, eofErrs := es }
  | _ => none

def handle (line : String) : String :=
  match Sexp.parse line with
  | some (Sexp.list (Sexp.atom "doc" :: m :: Sexp.atom leak :: eof :: toks)) =>
    match m.nat?, input? eof toks with
    | some maxRec, some inp =>
      match ParseDocument maxRec inp (leak == "1") with
      | .returned d es =>
        toString (Sexp.node "ret" [documentS d, errsS es, Sexp.ofBool (wfDocument d),
          Sexp.ofBool (Renders inp.toks d.stoks)])
      | .recovered es => toString (Sexp.node "rec" [errsS es])
      | .outOfFuel => "oof"
    | _, _ => "bad-op"
  | some (Sexp.list (Sexp.atom "val" :: m :: eof :: toks)) =>
    match m.nat?, input? eof toks with
    | some maxRec, some inp =>
      match ParseValue maxRec inp with
      | .returned v es => toString (Sexp.node "ret" [valueS v, errsS es])
      | .recovered es => toString (Sexp.node "rec" [errsS es])
      | .outOfFuel => "oof"
    | _, _ => "bad-op"
  | _ => "bad-op"

end ApiFu.C06.Driver
