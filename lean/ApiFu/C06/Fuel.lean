/-
  C06 — fuel sufficiency sweep: with `8·(remaining tokens) + r` fuel no production of the model runs out
  of fuel (`Res.oof`), and every normal return has consumed at least `c` tokens (`Enough x r c`).
  The ranks `r` follow the call graph: a call that happens before any token is consumed needs a strictly
  smaller rank than its caller (the grammar is not left-recursive), a call after a consumed token is paid
  for by the factor 8. `parseDocument` needs `8·n + 3`, `defaultFuel` provides `8·n + 16`.
  Holds for the fixed code and for the code before the F-12a fix alike (`leak` is irrelevant here).
  Core Lean only.
-/
import ApiFu.C06.Lemmas
namespace ApiFu.C06

/-- Fuel sufficiency of a production: with `K·(remaining tokens) + r` fuel it never runs out of fuel, and
    a normal return leaves at most `remaining − c` tokens. (`K = 8`.) -/
def Enough {α : Type} (x : Nat → P α) (r c : Nat) : Prop :=
  ∀ (env : Env) (st : St) (f : Nat), 8 * st.toks.length + r ≤ f →
    wp False (x f) env st (fun _ st' => st'.toks.length + c ≤ st.toks.length) (fun _ => True)

/-- Same for the productions that take no fuel. -/
def Consumes {α : Type} (x : P α) (c : Nat) : Prop :=
  ∀ (env : Env) (st : St), wp False x env st (fun _ st' => st'.toks.length + c ≤ st.toks.length) (fun _ => True)

/-- Arithmetic on remaining-token counts. -/
macro "lo" : tactic =>
  `(tactic| ((try dsimp only at *); (try simp only [consume_toks, List.length_tail] at *); omega))

theorem wp_exitUnlessLeak_toks {O : Prop} {env : Env} {st : St} {Q : Unit → St → Prop} {F : List Err → Prop}
    (h : ∀ st' : St, st'.toks = st.toks → Q () st') : wp O exitUnlessLeak env st Q F := by
  unfold wp exitUnlessLeak
  by_cases hl : env.leak = true
  · simp only [hl, if_true]; exact h _ rfl
  · simp only [hl]; exact h _ rfl

theorem consume_len {env : Env} {st : St} (h : st.toks ≠ []) : (st.consume env).toks.length + 1 = st.toks.length := by
  rw [consume_toks]
  cases hts : st.toks with
  | nil => exact absurd hts h
  | cons t rest => simp

theorem ne_nil_of_isPunct {env : Env} {ts : List Tok} {s : String} (h : (peekOf env ts).isPunct s = true) : ts ≠ [] := by
  obtain ⟨t, rest, rfl, _⟩ := isPunct_cons h; simp
theorem ne_nil_of_isName {env : Env} {ts : List Tok} (h : (peekOf env ts).isName = true) : ts ≠ [] := by
  obtain ⟨t, rest, rfl, _⟩ := isName_cons h; simp

theorem parseName_consumes : Consumes parseName 1 := by
  intro env st
  unfold parseName; wp_simp
  split
  · trivial
  · split
    · rename_i h
      have := consume_len (env := env) (st := { st with recursion := st.recursion + 1 }) (ne_nil_of_isName h)
      simp only [consume_toks] at this ⊢
      omega
    · trivial

/-- Calling a callee whose post-condition is about token counts. -/
theorem wp_len {α : Type} {env : Env} {cur : St} {x : P α} {c : Nat} {Q : α → St → Prop}
    (hs : wp False x env cur (fun _ st' => st'.toks.length + c ≤ cur.toks.length) (fun _ => True))
    (hq : ∀ a st2, st2.toks.length + c ≤ cur.toks.length → Q a st2) :
    wp False x env cur Q (fun _ => True) :=
  wp_conseq hs hq (fun _ h => h)

theorem parseVariable_consumes : Consumes parseVariable 2 := by
  intro env st
  unfold parseVariable; wp_simp
  split
  · trivial
  · split
    · rename_i h
      have h1 := consume_len (env := env) (st := { st with recursion := st.recursion + 1 }) (ne_nil_of_isPunct h)
      refine wp_len (parseName_consumes env _) ?_
      intro n st2 h2
      simp only [consume_toks] at h1 h2 ⊢
      omega
    · trivial

theorem parseNamedType_consumes : Consumes parseNamedType 1 := by
  intro env st
  unfold parseNamedType; wp_simp
  split
  · trivial
  · refine wp_len (parseName_consumes env _) ?_
    intro n st2 h2
    exact h2

theorem parseTypeCondition_consumes : Consumes parseTypeCondition 2 := by
  intro env st
  unfold parseTypeCondition; wp_simp
  split
  · trivial
  · split
    · rename_i h
      simp only [Bool.and_eq_true] at h
      have h1 := consume_len (env := env) (st := { st with recursion := st.recursion + 1 }) (ne_nil_of_isName h.1)
      refine wp_len (parseNamedType_consumes env _) ?_
      intro n st2 h2
      simp only [consume_toks] at h1 h2 ⊢
      omega
    · trivial

theorem parseOperationType_consumes : Consumes parseOperationType 1 := by
  intro env st
  unfold parseOperationType; wp_simp
  split
  · trivial
  · split
    · rename_i h
      simp only [Bool.and_eq_true] at h
      have h1 := consume_len (env := env) (st := { st with recursion := st.recursion + 1 }) (ne_nil_of_isName h.1)
      simp only [consume_toks] at h1 ⊢
      omega
    · trivial

/-- Unfolded form of `Enough` for one fuel value (used inside inductions on the fuel). -/
def EnoughAt {α : Type} (x : P α) (need c : Nat) (f : Nat) : Prop :=
  ∀ (env : Env) (st : St), 8 * st.toks.length + need ≤ f →
    wp False x env st (fun _ st' => st'.toks.length + c ≤ st.toks.length) (fun _ => True)

theorem parseType_enough : Enough parseType 1 1 := by
  intro env st f
  induction f generalizing st with
  | zero => intro h; omega
  | succ f ih =>
    intro hf
    unfold parseType; wp_simp
    split
    · trivial
    · have tail : ∀ (inner : TypeExpr) (cur : St), cur.toks.length + 1 ≤ st.toks.length →
          (if (peekOf env cur.toks).isPunct "!" = true then
            (cur.consume env).toks.length + 1 ≤ st.toks.length
          else cur.toks.length + 1 ≤ st.toks.length) := by
        intro inner cur hc
        split
        · simp only [consume_toks, List.length_tail]; omega
        · exact hc
      split
      · rename_i h
        have h1 := consume_len (env := env) (st := { st with recursion := st.recursion + 1 }) (ne_nil_of_isPunct h)
        refine wp_len (ih _ (by lo)) ?_
        intro typ st2 h2
        split
        · have := tail typ (st2.consume env) (by lo)
          exact this
        · trivial
      · refine wp_len (parseNamedType_consumes env _) ?_
        intro n st2 h2
        exact tail (TypeExpr.named n) st2 h2

theorem value_enough (f : Nat) :
    (∀ c, EnoughAt (parseValue f c) 1 1 f) ∧
    (∀ c o acc, EnoughAt (listLoop f c o acc) 2 1 f) ∧
    (∀ c o acc, EnoughAt (objLoop f c o acc) 1 1 f) := by
  induction f with
  | zero =>
    refine ⟨?_, ?_, ?_⟩ <;> (intros; intro env st h; omega)
  | succ f ih =>
    obtain ⟨ihV, ihL, ihO⟩ := ih
    refine ⟨?_, ?_, ?_⟩
    · intro c env st hf
      unfold parseValue; wp_simp
      split
      · trivial
      · have one : ∀ k, (peekOf env st.toks).kind = k → k ≠ .invalid →
            (St.consume env { st with recursion := st.recursion + 1 }).toks.length + 1 ≤ st.toks.length := by
          intro k hk hne
          obtain ⟨t, rest, hts, _⟩ := kind_cons hk hne
          have := consume_len (env := env) (st := { st with recursion := st.recursion + 1 }) (by simp [hts])
          simp only [consume_toks] at this ⊢; omega
        split
        · rename_i hk; wp_simp; exact one _ hk (by decide)
        · rename_i hk; wp_simp; exact one _ hk (by decide)
        · rename_i hk; wp_simp; exact one _ hk (by decide)
        · rename_i hk; wp_simp; exact one _ hk (by decide)
        · rename_i hk
          have h1 := one _ hk (by decide)
          wp_simp
          split
          · split
            · trivial
            · refine wp_len (parseVariable_consumes env _) ?_
              intro v st2 h2
              lo
          · split
            · refine wp_len (ihL c _ [] env _ (by lo)) ?_
              intro v st2 h2
              lo
            · split
              · refine wp_len (ihO c _ [] env _ (by lo)) ?_
                intro v st2 h2
                lo
              · trivial
        · wp_simp
    · intro c o acc env st hf
      unfold listLoop; wp_simp
      split
      · rename_i h
        have := consume_len (env := env) (st := st) (ne_nil_of_isPunct h)
        omega
      · refine wp_len (ihV c env st (by omega)) ?_
        intro v st2 h2
        refine wp_len (ihL c o (v :: acc) env st2 (by omega)) ?_
        intro r st3 h3
        omega
    · intro c o acc env st hf
      unfold objLoop; wp_simp
      split
      · rename_i h
        have := consume_len (env := env) (st := st) (ne_nil_of_isPunct h)
        omega
      · refine wp_len (parseName_consumes env st) ?_
        intro n st2 h2
        split
        · rename_i h
          have h3 := consume_len (env := env) (st := st2) (ne_nil_of_isPunct h)
          refine wp_len (ihV c env _ (by omega)) ?_
          intro v st4 h4
          refine wp_len (ihO c o ((n, v) :: acc) env st4 (by omega)) ?_
          intro r st5 h5
          omega
        · trivial

theorem parseValue_enough (c : Bool) : Enough (fun f => parseValue f c) 1 1 :=
  fun env st f h => (value_enough f).1 c env st h


theorem parseArgument_enough : Enough parseArgument 1 1 := by
  intro env st f hf
  unfold parseArgument; wp_simp
  split
  · trivial
  · refine wp_len (parseName_consumes env _) ?_
    intro n st2 h2
    split
    · rename_i h
      have h3 := consume_len (env := env) (st := st2) (ne_nil_of_isPunct h)
      refine wp_len (parseValue_enough false env _ f (by simp only at h2; omega)) ?_
      intro v st4 h4
      lo
    · trivial

theorem argsLoop_enough (f : Nat) : ∀ acc, EnoughAt (argsLoop f acc) 2 1 f := by
  induction f with
  | zero => intro acc env st h; omega
  | succ f ih =>
    intro acc env st hf
    unfold argsLoop; wp_simp
    split
    · rename_i h
      split
      · trivial
      · wp_simp
        have := consume_len (env := env) (st := st) (ne_nil_of_isPunct h)
        omega
    · refine wp_len (parseArgument_enough env st f (by omega)) ?_
      intro a st2 h2
      refine wp_len (ih (a :: acc) env st2 (by omega)) ?_
      intro r st3 h3
      omega

theorem parseOptionalArguments_enough : Enough parseOptionalArguments 2 0 := by
  intro env st f hf
  unfold parseOptionalArguments; wp_simp
  split
  · trivial
  · split
    · rename_i h
      have h1 := consume_len (env := env) (st := { st with recursion := st.recursion + 1 }) (ne_nil_of_isPunct h)
      wp_simp
      refine wp_len (argsLoop_enough f [] env _ (by lo)) ?_
      intro r st2 h2
      lo
    · wp_simp
      simp

theorem dirsLoop_enough (f : Nat) : ∀ acc, EnoughAt (dirsLoop f acc) 1 0 f := by
  induction f with
  | zero => intro acc env st h; omega
  | succ f ih =>
    intro acc env st hf
    unfold dirsLoop; wp_simp
    split
    · rename_i h
      have h1 := consume_len (env := env) (st := st) (ne_nil_of_isPunct h)
      refine wp_len (parseName_consumes env _) ?_
      intro n st2 h2
      refine wp_len (parseOptionalArguments_enough env st2 f (by omega)) ?_
      intro as st3 h3
      refine wp_len (ih _ env st3 (by omega)) ?_
      intro r st4 h4
      omega
    · simp

theorem parseOptionalDirectives_enough : Enough parseOptionalDirectives 1 0 := by
  intro env st f hf
  unfold parseOptionalDirectives; wp_simp
  split
  · trivial
  · refine wp_len (dirsLoop_enough f [] env _ (by simpa using hf)) ?_
    intro r st2 h2
    simpa using h2

theorem parseVariableDefinition_enough : Enough parseVariableDefinition 1 1 := by
  intro env st f hf
  unfold parseVariableDefinition; wp_simp
  split
  · trivial
  · refine wp_len (parseVariable_consumes env _) ?_
    intro vr st2 h2
    split
    · rename_i h
      have h3 := consume_len (env := env) (st := st2) (ne_nil_of_isPunct h)
      refine wp_len (parseType_enough env _ f (by simp only at h2; omega)) ?_
      intro ty st4 h4
      split
      · wp_simp
        refine wp_len (parseValue_enough true env _ f (by lo)) ?_
        intro dv st6 h6
        lo
      · wp_simp
        lo
    · trivial

theorem varDefsLoop_enough (f : Nat) : ∀ acc, EnoughAt (varDefsLoop f acc) 2 1 f := by
  induction f with
  | zero => intro acc env st h; omega
  | succ f ih =>
    intro acc env st hf
    unfold varDefsLoop; wp_simp
    split
    · rename_i h
      split
      · trivial
      · wp_simp
        have := consume_len (env := env) (st := st) (ne_nil_of_isPunct h)
        omega
    · refine wp_len (parseVariableDefinition_enough env st f (by omega)) ?_
      intro a st2 h2
      refine wp_len (ih (a :: acc) env st2 (by omega)) ?_
      intro r st3 h3
      omega

theorem parseOptionalVariableDefinitions_enough : Enough parseOptionalVariableDefinitions 2 0 := by
  intro env st f hf
  unfold parseOptionalVariableDefinitions; wp_simp
  split
  · trivial
  · split
    · rename_i h
      have h1 := consume_len (env := env) (st := { st with recursion := st.recursion + 1 }) (ne_nil_of_isPunct h)
      wp_simp
      refine wp_len (varDefsLoop_enough f [] env _ (by lo)) ?_
      intro r st2 h2
      lo
    · wp_simp
      simp

theorem sel_enough (f : Nat) :
    EnoughAt (parseSelectionSet f) 1 1 f ∧
    (∀ o acc, EnoughAt (selLoop f o acc) 3 1 f) ∧
    EnoughAt (parseSelection f) 2 1 f ∧
    EnoughAt (parseField f) 1 1 f ∧
    EnoughAt (parseOptionalSelectionSet f) 2 0 f := by
  induction f with
  | zero =>
    refine ⟨?_, ?_, ?_, ?_, ?_⟩ <;> (intros; intro env st h; omega)
  | succ f ih =>
    obtain ⟨ihSS, ihL, ihS, ihF, ihO⟩ := ih
    refine ⟨?_, ?_, ?_, ?_, ?_⟩
    · intro env st hf
      unfold parseSelectionSet; wp_simp
      split
      · trivial
      · split
        · rename_i h
          have h1 := consume_len (env := env) (st := { st with recursion := st.recursion + 1 }) (ne_nil_of_isPunct h)
          refine wp_len (ihL _ [] env _ (by lo)) ?_
          intro r st2 h2
          lo
        · trivial
    · intro o acc env st hf
      unfold selLoop; wp_simp
      split
      · rename_i h
        split
        · trivial
        · wp_simp
          have := consume_len (env := env) (st := st) (ne_nil_of_isPunct h)
          omega
      · refine wp_len (ihS env st (by omega)) ?_
        intro a st2 h2
        refine wp_len (ihL o (a :: acc) env st2 (by omega)) ?_
        intro r st3 h3
        omega
    · intro env st hf
      unfold parseSelection; wp_simp
      split
      · trivial
      · split
        · rename_i h
          have h1 := consume_len (env := env) (st := { st with recursion := st.recursion + 1 }) (ne_nil_of_isPunct h)
          generalize hcur : St.consume env { st with recursion := st.recursion + 1 } = cur at h1 ⊢
          simp only at h1
          have tail : ∀ (tc : Option Name) (cur2 : St), cur2.toks.length ≤ cur.toks.length →
              wp False (do
                let dirs ← parseOptionalDirectives f
                let ss ← parseSelectionSet f
                exit
                pure (Selection.inline (peekOf env st.toks).pos tc dirs ss)) env cur2
                (fun _ st' => st'.toks.length + 1 ≤ st.toks.length) (fun _ => True) := by
            intro tc cur2 hc
            wp_simp
            refine wp_len (parseOptionalDirectives_enough env _ f (by omega)) ?_
            intro ds st3 h3
            refine wp_len (ihSS env _ (by omega)) ?_
            intro ss st4 h4
            lo
          split
          · refine wp_len (parseName_consumes env _) ?_
            intro n st2 h2
            refine wp_len (parseOptionalDirectives_enough env _ f (by omega)) ?_
            intro ds st3 h3
            refine wp_exitUnlessLeak_toks ?_
            intro st' hst'
            rw [hst']; lo
          · split
            · refine wp_len (parseTypeCondition_consumes env _) ?_
              intro n st2 h2
              have := tail (some n) st2 (by omega)
              wp_simp at this
              exact this
            · have := tail none cur (Nat.le_refl _)
              wp_simp at this
              exact this
        · refine wp_len (ihF env _ (by simpa using (by omega : 8 * st.toks.length + 1 ≤ f))) ?_
          intro fld st2 h2
          refine wp_exitUnlessLeak_toks ?_
          intro st' hst'
          rw [hst']; lo
    · intro env st hf
      unfold parseField
      extract_lets jp
      have tail : ∀ (an : Option Name × Name) (cur : St), cur.toks.length + 1 ≤ st.toks.length →
          wp False (jp an) env cur (fun _ st' => st'.toks.length + 1 ≤ st.toks.length) (fun _ => True) := by
        intro an cur hc
        simp only [jp]; wp_simp
        refine wp_len (parseOptionalArguments_enough env _ f (by omega)) ?_
        intro as st3 h3
        refine wp_len (parseOptionalDirectives_enough env _ f (by omega)) ?_
        intro ds st4 h4
        refine wp_len (ihO env _ (by omega)) ?_
        intro ss st5 h5
        lo
      wp_simp
      split
      · trivial
      · refine wp_len (parseName_consumes env _) ?_
        intro n st2 h2
        simp only at h2
        split
        · rename_i h
          have h3 := consume_len (env := env) (st := st2) (ne_nil_of_isPunct h)
          refine wp_len (parseName_consumes env _) ?_
          intro n2 st4 h4
          exact tail (some n, n2) st4 (by omega)
        · exact tail (none, n) st2 h2
    · intro env st hf
      unfold parseOptionalSelectionSet; wp_simp
      split
      · trivial
      · split
        · wp_simp
          refine wp_len (ihSS env _ (by simpa using (by omega : 8 * st.toks.length + 1 ≤ f))) ?_
          intro ss st2 h2
          lo
        · wp_simp
          simp

theorem parseSelectionSet_enough : Enough parseSelectionSet 1 1 := fun env st f h => (sel_enough f).1 env st h
theorem parseOptionalSelectionSet_enough : Enough parseOptionalSelectionSet 2 0 :=
  fun env st f h => (sel_enough f).2.2.2.2 env st h

/-- A returned `some` selection set consumed at least one token. -/
theorem parseOptionalSelectionSet_enough' (env : Env) (st : St) (f : Nat) (hf : 8 * st.toks.length + 2 ≤ f) :
    wp False (parseOptionalSelectionSet f) env st
      (fun r st' => st'.toks.length + (if r.isSome then 1 else 0) ≤ st.toks.length) (fun _ => True) := by
  cases f with
  | zero => omega
  | succ f =>
    unfold parseOptionalSelectionSet; wp_simp
    split
    · trivial
    · split
      · wp_simp
        refine wp_len (parseSelectionSet_enough env _ f (by simpa using (by omega : 8 * st.toks.length + 1 ≤ f))) ?_
        intro ss st2 h2
        simp only [Option.isSome_some, if_true]
        lo
      · wp_simp
        simp

theorem parseOptionalFragmentDefinition_enough : Enough parseOptionalFragmentDefinition 1 0 := by
  intro env st f hf
  unfold parseOptionalFragmentDefinition; wp_simp
  split
  · trivial
  · split
    · rename_i h
      simp only [Bool.and_eq_true] at h
      have h1 := consume_len (env := env) (st := { st with recursion := st.recursion + 1 }) (ne_nil_of_isName h.1)
      generalize hcur : St.consume env { st with recursion := st.recursion + 1 } = cur at h1 ⊢
      simp only at h1
      split
      · refine wp_len (parseName_consumes env _) ?_
        intro n st2 h2
        refine wp_len (parseTypeCondition_consumes env _) ?_
        intro tc st3 h3
        refine wp_len (parseOptionalDirectives_enough env _ f (by omega)) ?_
        intro ds st4 h4
        refine wp_len (parseSelectionSet_enough env _ f (by omega)) ?_
        intro ss st5 h5
        lo
      · trivial
    · simp

theorem parseOperationDefinition_enough : Enough parseOperationDefinition 2 1 := by
  intro env st f hf
  unfold parseOperationDefinition; wp_simp
  split
  · trivial
  · refine wp_conseq (parseOptionalSelectionSet_enough' env _ f (by simpa using hf)) ?_ (fun _ h => h)
    intro short st2 h2
    cases short with
    | some ss =>
      wp_simp
      simp only [Option.isSome_some, if_true] at h2
      lo
    | none =>
      wp_simp
      simp only [Option.isSome_none, Bool.false_eq_true, if_false, Nat.add_zero] at h2
      refine wp_len (parseOperationType_consumes env _) ?_
      intro ot st3 h3
      have tail : ∀ (name : Option Name) (cur : St), cur.toks.length + 1 ≤ st.toks.length →
          wp False (do
            let vars ← parseOptionalVariableDefinitions f
            let dirs ← parseOptionalDirectives f
            let ss ← parseSelectionSet f
            let ret ← pure (Definition.op (some ot) name vars dirs ss)
            exit
            pure ret) env cur
            (fun _ st' => st'.toks.length + 1 ≤ st.toks.length) (fun _ => True) := by
        intro name cur hc
        wp_simp
        refine wp_len (parseOptionalVariableDefinitions_enough env _ f (by omega)) ?_
        intro vs st4 h4
        refine wp_len (parseOptionalDirectives_enough env _ f (by omega)) ?_
        intro ds st5 h5
        refine wp_len (parseSelectionSet_enough env _ f (by omega)) ?_
        intro ss st6 h6
        lo
      split
      · refine wp_len (parseName_consumes env _) ?_
        intro n st4 h4
        have := tail (some n) st4 (by omega)
        wp_simp at this
        exact this
      · have := tail none st3 (by omega)
        wp_simp at this
        exact this


theorem parseDefinition_enough : Enough parseDefinition 2 1 := by
  intro env st f hf
  unfold parseDefinition; wp_simp
  split
  · trivial
  · refine wp_conseq (Q' := fun r st' => st'.toks.length + (if r.isSome then 1 else 0) ≤ st.toks.length) ?_ ?_ (fun _ h => h)
    · -- a returned fragment definition consumed at least one token
      unfold parseOptionalFragmentDefinition; wp_simp
      split
      · trivial
      · split
        · rename_i h
          simp only [Bool.and_eq_true] at h
          have h1 := consume_len (env := env) (st := { st with recursion := st.recursion + 1 + 1 }) (ne_nil_of_isName h.1)
          generalize hcur : St.consume env { st with recursion := st.recursion + 1 + 1 } = cur at h1 ⊢
          simp only at h1
          split
          · refine wp_len (parseName_consumes env _) ?_
            intro n st2 h2
            refine wp_len (parseTypeCondition_consumes env _) ?_
            intro tc st3 h3
            refine wp_len (parseOptionalDirectives_enough env _ f (by omega)) ?_
            intro ds st4 h4
            refine wp_len (parseSelectionSet_enough env _ f (by omega)) ?_
            intro ss st5 h5
            simp only [Option.isSome_some, if_true]
            lo
          · trivial
        · simp
    · intro fd st2 h2
      cases fd with
      | some d =>
        wp_simp
        simp only [Option.isSome_some, if_true] at h2
        lo
      | none =>
        wp_simp
        simp only [Option.isSome_none, Bool.false_eq_true, if_false, Nat.add_zero] at h2
        refine wp_len (parseOperationDefinition_enough env _ f (by lo)) ?_
        intro d st3 h3
        lo

theorem defsLoop_enough (f : Nat) : ∀ acc, EnoughAt (defsLoop f acc) 3 0 f := by
  induction f with
  | zero => intro acc env st h; omega
  | succ f ih =>
    intro acc env st hf
    unfold defsLoop; wp_simp
    split
    · simp
    · refine wp_len (parseDefinition_enough env st f (by omega)) ?_
      intro d st2 h2
      refine wp_len (ih (d :: acc) env st2 (by omega)) ?_
      intro r st3 h3
      omega

theorem parseDocument_enough : Enough parseDocument 3 0 := by
  intro env st f hf
  unfold parseDocument; wp_simp
  split
  · trivial
  · refine wp_len (defsLoop_enough f [] env _ (by simpa using hf)) ?_
    intro r st2 h2
    split
    · trivial
    · wp_simp
      lo

end ApiFu.C06
