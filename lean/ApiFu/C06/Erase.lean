/-
  C06 — position erasure. `eTok`, `eDoc`, … replace every position by 0:0 (tokens, scanner errors, tree
  nodes, parse errors). `Rel x' x er`: running `x'` on the erased state gives the erasure of what `x` gives.
  One lemma per production of Model.lean (`…_rel`): the parser commutes with position erasure — it never
  looks at a position, it only copies positions into nodes and errors. Used by PropsLayout.lean.

  New file; nothing in Props.lean depends on it. CORE LEAN ONLY.
-/
import ApiFu.C06.Model
namespace ApiFu.C06

/-! ### Position erasure -/

def z : Pos := ⟨0, 0⟩
def eErr (e : Err) : Err := { e with pos := z }
def eTok (t : Tok) : Tok := { t with pos := z, errs := t.errs.map eErr }
def eEnv (env : Env) : Env := { env with eofPos := z, eofErrs := env.eofErrs.map eErr }
def eSt (st : St) : St := { st with toks := st.toks.map eTok, errors := st.errors.map eErr }

def eName (n : Name) : Name := { n with pos := z }
def eVar (v : Variable) : Variable := { dollar := z, name := eName v.name }

mutual
def eValue : Value → Value
  | .var v => .var (eVar v)
  | .int s _ => .int s z
  | .float s _ => .float s z
  | .str s _ => .str s z
  | .bool b _ => .bool b z
  | .null _ => .null z
  | .enum s _ => .enum s z
  | .list vs _ _ => .list (eValues vs) z z
  | .obj fs _ _ => .obj (eFields fs) z z
def eValues : List Value → List Value
  | [] => []
  | v :: vs => eValue v :: eValues vs
def eFields : List (Name × Value) → List (Name × Value)
  | [] => []
  | (n, v) :: fs => (eName n, eValue v) :: eFields fs
end

def eType : TypeExpr → TypeExpr
  | .named n => .named (eName n)
  | .list t _ _ => .list (eType t) z z
  | .nonNull t => .nonNull (eType t)

def eArg (a : Argument) : Argument := { name := eName a.name, value := eValue a.value }
def eDir (d : Directive) : Directive := { atPos := z, name := eName d.name, args := d.args.map eArg }
def eVarDef (v : VarDef) : VarDef := { var := eVar v.var, type := eType v.type, default := v.default.map eValue }

mutual
def eSel : Selection → Selection
  | .field al n args dirs (some s) => .field (al.map eName) (eName n) (args.map eArg) (dirs.map eDir) (some (eSet s))
  | .field al n args dirs none => .field (al.map eName) (eName n) (args.map eArg) (dirs.map eDir) none
  | .spread _ n dirs => .spread z (eName n) (dirs.map eDir)
  | .inline _ tc dirs s => .inline z (tc.map eName) (dirs.map eDir) (eSet s)
def eSet : SelSet → SelSet
  | .mk sels _ _ => .mk (eSels sels) z z
def eSels : List Selection → List Selection
  | [] => []
  | s :: ss => eSel s :: eSels ss
end

def eOpType (t : OpType) : OpType := { t with pos := z }

def eDef : Definition → Definition
  | .op t name vars dirs s => .op (t.map eOpType) (name.map eName) (vars.map eVarDef) (dirs.map eDir) (eSet s)
  | .frag _ n tc dirs s => .frag z (eName n) (eName tc) (dirs.map eDir) (eSet s)

def eDoc (d : Document) : Document := { defs := d.defs.map eDef }

/-- Erasure of a result. -/
def Res.erase {α : Type} (er : α → α) : Res α → Res α
  | .ok a st => .ok (er a) (eSt st)
  | .fail es => .fail (es.map eErr)
  | .oof => .oof

/-- `x'` on the erased state gives the erasure of what `x` gives. -/
def Rel {α : Type} (x' x : P α) (er : α → α) : Prop :=
  ∀ env st, x' (eEnv env) (eSt st) = (x env st).erase er

theorem Rel_pure {α : Type} (a' a : α) (er : α → α) (h : a' = er a) : Rel (pure a' : P α) (pure a) er := by
  intro env st
  show Res.ok a' (eSt st) = Res.ok (er a) (eSt st)
  rw [h]

theorem Rel_bind {α β : Type} {x' x : P α} {f' f : α → P β} {er1 : α → α} {er2 : β → β}
    (hx : Rel x' x er1) (hf : ∀ a, Rel (f' (er1 a)) (f a) er2) :
    Rel (x' >>= f') (x >>= f) er2 := by
  intro env st
  show P.bind x' f' (eEnv env) (eSt st) = (P.bind x f env st).erase er2
  unfold P.bind
  rw [hx env st]
  cases x env st with
  | ok a st' => exact hf a env st'
  | fail es => rfl
  | oof => rfl

theorem Rel_ite {α : Type} {c' c : Bool} {a' a b' b : P α} {er : α → α} (hc : c' = c)
    (ha : Rel a' a er) (hb : Rel b' b er) :
    Rel (if c' then a' else b') (if c then a else b) er := by
  subst hc
  cases c' <;> simp [ha, hb]

theorem peekTok_erase (env : Env) (st : St) : (eSt st).peekTok (eEnv env) = eTok (st.peekTok env) := by
  unfold St.peekTok eSt
  cases st.toks with
  | nil => simp [eofTok, eEnv, eTok]
  | cons t ts => simp

theorem consume_erase (env : Env) (st : St) : (eSt st).consume (eEnv env) = eSt (st.consume env) := by
  obtain ⟨toks, r, e⟩ := st
  cases toks with
  | nil => simp [St.consume, eSt]
  | cons t rest =>
    cases rest with
    | nil => simp [St.consume, eSt, eEnv]
    | cons t2 r2 => simp [St.consume, eSt, eTok]


theorem Rel_peek : Rel peek peek eTok := by
  intro env st
  show Res.ok _ _ = Res.ok _ _
  rw [peekTok_erase]

theorem Rel_isEof : Rel isEof isEof id := by
  intro env st
  show Res.ok _ _ = Res.ok _ _
  simp [eSt]

theorem Rel_consume : Rel consumeToken consumeToken id := by
  intro env st
  show Res.ok _ _ = Res.ok _ _
  rw [consume_erase]

theorem Rel_errorf {α : Type} (msg : String) (er : α → α) : Rel (errorf msg : P α) (errorf msg) er := by
  intro env st
  show Res.fail _ = Res.fail _
  rw [peekTok_erase]
  simp [eSt, eErr, eTok]

theorem Rel_enter : Rel enter enter id := by
  intro env st
  unfold enter
  have h1 : (eSt st).recursion = st.recursion := rfl
  have h2 : (eEnv env).maxRec = env.maxRec := rfl
  rw [h1, h2, peekTok_erase]
  by_cases h : st.recursion + 1 > env.maxRec
  · simp [h, Res.erase, eSt, eErr, eTok]
  · simp [h, Res.erase, eSt]

theorem Rel_exit : Rel exit exit id := by
  intro env st
  rfl

theorem Rel_exitUnlessLeak : Rel exitUnlessLeak exitUnlessLeak id := by
  intro env st
  unfold exitUnlessLeak
  have h2 : (eEnv env).leak = env.leak := rfl
  rw [h2]
  cases env.leak <;> rfl

theorem Rel_oof {α : Type} (er : α → α) : Rel (oofP : P α) oofP er := by
  intro env st
  rfl

@[simp] theorem eTok_kind (t : Tok) : (eTok t).kind = t.kind := rfl
@[simp] theorem eTok_value (t : Tok) : (eTok t).value = t.value := rfl
@[simp] theorem eTok_pos (t : Tok) : (eTok t).pos = z := rfl
@[simp] theorem eTok_isName (t : Tok) : (eTok t).isName = t.isName := rfl
@[simp] theorem eTok_isPunct (t : Tok) (s : String) : (eTok t).isPunct s = t.isPunct s := rfl

macro "rb" : tactic => `(tactic| first
  | refine Rel_bind Rel_peek (fun _ => ?_) | refine Rel_bind Rel_enter (fun _ => ?_)
  | refine Rel_bind Rel_exit (fun _ => ?_) | refine Rel_bind Rel_consume (fun _ => ?_)
  | refine Rel_bind Rel_isEof (fun _ => ?_) | refine Rel_bind Rel_exitUnlessLeak (fun _ => ?_))
macro "rbw" h:term : tactic => `(tactic| (refine Rel_bind $h (fun _ => ?_)))
macro "prim" : tactic => `(tactic| first
  | exact Rel_peek | exact Rel_enter | exact Rel_exit | exact Rel_consume | exact Rel_isEof
  | exact Rel_exitUnlessLeak | exact Rel_errorf _ _ | exact Rel_oof _
  | exact Rel_pure _ _ _ (by first | rfl | simp [eName, eVar, eOpType, eType, eArg, eDir, eVarDef]))
macro "rite" : tactic => `(tactic| (refine Rel_ite (by simp) ?_ ?_))

theorem parseName_rel : Rel parseName parseName eName := by
  unfold parseName
  rb; rb
  rite
  · rb; rb; prim
  · prim

macro "rbe" e:term : tactic => `(tactic| (refine Rel_bind (er1 := $e) ?_ (fun _ => ?_)))

theorem parseVariable_rel : Rel parseVariable parseVariable eVar := by
  unfold parseVariable
  rb; rb
  rite
  · rb; rbw parseName_rel; rb; prim
  · prim

theorem parseNamedType_rel : Rel parseNamedType parseNamedType eName := by
  unfold parseNamedType
  rb; rbw parseName_rel; rb; prim

theorem parseTypeCondition_rel : Rel parseTypeCondition parseTypeCondition eName := by
  unfold parseTypeCondition
  rb; rb
  rite
  · rb; rbw parseNamedType_rel; rb; prim
  · prim

theorem parseOperationType_rel : Rel parseOperationType parseOperationType eOpType := by
  unfold parseOperationType
  rb; rb
  rite
  · rb; rb; prim
  · prim

theorem P_pure_bind {α β : Type} (a : α) (f : α → P β) : (pure a >>= f : P β) = f a := rfl

theorem Rel_fail_bind {α β : Type} (msg : String) (f' f : α → P β) (er : β → β) :
    Rel (errorf msg >>= f') (errorf msg >>= f) er := by
  intro env st
  have := Rel_errorf (α := β) msg er env st
  exact this

theorem Rel_pure_bind {α β : Type} {a' a : α} {f' f : α → P β} {er1 : α → α} {er2 : β → β}
    (h : a' = er1 a) (hf : ∀ a, Rel (f' (er1 a)) (f a) er2) :
    Rel (pure a' >>= f') (pure a >>= f) er2 := Rel_bind (Rel_pure _ _ _ h) hf

theorem parseType_rel : ∀ f, Rel (parseType f) (parseType f) eType
  | 0 => Rel_oof _
  | f + 1 => by
    unfold parseType
    rb; rb
    extract_lets jpr jp
    have tailr : ∀ ret, Rel (jpr (eType ret)) (jpr ret) eType := by
      intro ret
      simp only [jpr]
      rb; prim
    have tail : ∀ inner, Rel (jp (eType inner)) (jp inner) eType := by
      intro inner
      simp only [jp]
      rb
      rite
      · rb; exact Rel_pure_bind (by simp [eType]) tailr
      · exact Rel_pure_bind rfl tailr
    rite
    · rb; rbw (parseType_rel f); rb
      rite
      · rb; exact Rel_pure_bind (by simp [eType]) tail
      · exact Rel_fail_bind _ _ _ _
    · rbw parseNamedType_rel
      exact Rel_pure_bind (by simp [eType]) tail

theorem eValues_eq : ∀ vs, eValues vs = vs.map eValue
  | [] => by simp [eValues]
  | v :: vs => by simp [eValues, eValues_eq vs]

theorem eFields_eq : ∀ fs, eFields fs = fs.map (fun p => (eName p.1, eValue p.2))
  | [] => by simp [eFields]
  | (n, v) :: fs => by simp [eFields, eFields_eq fs]

theorem nameValue_erase (t : Tok) : nameValue (eTok t) = eValue (nameValue t) := by
  cases t with
  | mk k v p e =>
    simp only [nameValue, eTok]
    by_cases h1 : (v == "true" || v == "false") = true
    · simp [h1, eValue]
    · by_cases h2 : (v == "null") = true
      · simp [h1, h2, eValue]
      · simp [h1, h2, eValue]

def eField (p : Name × Value) : Name × Value := (eName p.1, eValue p.2)

theorem value_rel : ∀ f,
    (∀ c, Rel (parseValue f c) (parseValue f c) eValue) ∧
    (∀ c op acc, Rel (listLoop f c z (acc.map eValue)) (listLoop f c op acc) eValue) ∧
    (∀ c op acc, Rel (objLoop f c z (acc.map eField)) (objLoop f c op acc) eValue)
  | 0 => ⟨fun _ => Rel_oof _, fun _ _ _ => Rel_oof _, fun _ _ _ => Rel_oof _⟩
  | f + 1 => by
    obtain ⟨ihV, ihL, ihO⟩ := value_rel f
    refine ⟨fun c => ?_, fun c op acc => ?_, fun c op acc => ?_⟩
    · unfold parseValue
      rb; rb
      rename_i t
      extract_lets jp
      have tail : ∀ ret, Rel (jp (eValue ret)) (jp ret) eValue := by
        intro ret
        simp only [jp]
        rb; prim
      simp only [eTok_kind]
      generalize t.kind = k
      cases k with
      | invalid => exact Rel_fail_bind _ _ _ _
      | punct =>
        simp only []
        refine Rel_ite rfl (Rel_ite rfl ?_ ?_) (Rel_ite rfl ?_ (Rel_ite rfl ?_ ?_))
        · exact Rel_fail_bind _ _ _ _
        · rbw parseVariable_rel
          exact Rel_pure_bind (by simp [eValue]) tail
        · rb; exact Rel_bind (ihL c t.pos []) tail
        · rb; exact Rel_bind (ihO c t.pos []) tail
        · exact Rel_fail_bind _ _ _ _
      | name => simp only []; rb; exact Rel_pure_bind (nameValue_erase t) tail
      | int => simp only []; rb; exact Rel_pure_bind (by simp [eValue]) tail
      | float => simp only []; rb; exact Rel_pure_bind (by simp [eValue]) tail
      | string => simp only []; rb; exact Rel_pure_bind (by simp [eValue]) tail
    · unfold listLoop
      rb
      rite
      · rb
        exact Rel_pure _ _ _ (by simp [eValue, eValues_eq])
      · rbw (ihV c)
        exact ihL c op (_ :: acc)
    · unfold objLoop
      rb
      rite
      · rb
        exact Rel_pure _ _ _ (by simp [eValue, eFields_eq, eField])
      · rbw parseName_rel
        rb
        rite
        · rb
          rbw (ihV c)
          exact ihO c op ((_, _) :: acc)
        · prim

theorem parseArgument_rel (f : Nat) : Rel (parseArgument f) (parseArgument f) eArg := by
  unfold parseArgument
  rb; rbw parseName_rel; rb
  rite
  · rb; rbw ((value_rel f).1 false); rb; prim
  · prim

theorem argsLoop_rel : ∀ f acc, Rel (argsLoop f (acc.map eArg)) (argsLoop f acc) (List.map eArg)
  | 0, _ => Rel_oof _
  | f + 1, acc => by
    unfold argsLoop
    rb
    rite
    · refine Rel_ite (by simp) ?_ ?_
      · prim
      · rb; exact Rel_pure _ _ _ (by simp)
    · rbw (parseArgument_rel f)
      exact argsLoop_rel f (_ :: acc)

theorem parseOptionalArguments_rel (f : Nat) :
    Rel (parseOptionalArguments f) (parseOptionalArguments f) (List.map eArg) := by
  unfold parseOptionalArguments
  rb; rb
  extract_lets jp
  have tail : ∀ ret, Rel (jp (List.map eArg ret)) (jp ret) (List.map eArg) := by
    intro ret
    simp only [jp]
    rb; prim
  rite
  · rb; exact Rel_bind (argsLoop_rel f []) tail
  · exact Rel_pure_bind (er1 := List.map eArg) rfl tail

theorem dirsLoop_rel : ∀ f acc, Rel (dirsLoop f (acc.map eDir)) (dirsLoop f acc) (List.map eDir)
  | 0, _ => Rel_oof _
  | f + 1, acc => by
    unfold dirsLoop
    rb
    rite
    · rb; rbw parseName_rel; rbw (parseOptionalArguments_rel f)
      exact dirsLoop_rel f ({ atPos := _, name := _, args := _ } :: acc)
    · exact Rel_pure _ _ _ (by simp)

theorem parseOptionalDirectives_rel (f : Nat) :
    Rel (parseOptionalDirectives f) (parseOptionalDirectives f) (List.map eDir) := by
  unfold parseOptionalDirectives
  rb; rbw (dirsLoop_rel f []); rb; prim

theorem parseVariableDefinition_rel (f : Nat) :
    Rel (parseVariableDefinition f) (parseVariableDefinition f) eVarDef := by
  unfold parseVariableDefinition
  rb; rbw parseVariable_rel; rb
  rite
  · rb; rbw (parseType_rel f); rb
    extract_lets jp' jp
    have tail : ∀ dv, Rel (jp' (Option.map eValue dv)) (jp dv) eVarDef := by
      intro dv
      simp only [jp, jp']
      rb; prim
    rite
    · rb; rbw ((value_rel f).1 true)
      exact Rel_pure_bind (er1 := Option.map eValue) rfl tail
    · exact Rel_pure_bind (er1 := Option.map eValue) rfl tail
  · prim

theorem varDefsLoop_rel : ∀ f acc, Rel (varDefsLoop f (acc.map eVarDef)) (varDefsLoop f acc) (List.map eVarDef)
  | 0, _ => Rel_oof _
  | f + 1, acc => by
    unfold varDefsLoop
    rb
    rite
    · refine Rel_ite (by simp) ?_ ?_
      · prim
      · rb; exact Rel_pure _ _ _ (by simp)
    · rbw (parseVariableDefinition_rel f)
      exact varDefsLoop_rel f (_ :: acc)

theorem parseOptionalVariableDefinitions_rel (f : Nat) :
    Rel (parseOptionalVariableDefinitions f) (parseOptionalVariableDefinitions f) (List.map eVarDef) := by
  unfold parseOptionalVariableDefinitions
  rb; rb
  extract_lets jp
  have tail : ∀ ret, Rel (jp (List.map eVarDef ret)) (jp ret) (List.map eVarDef) := by
    intro ret
    simp only [jp]
    rb; prim
  rite
  · rb; exact Rel_bind (varDefsLoop_rel f []) tail
  · exact Rel_pure_bind (er1 := List.map eVarDef) rfl tail

theorem eSels_eq : ∀ ss, eSels ss = ss.map eSel
  | [] => by simp [eSels]
  | s :: ss => by simp [eSels, eSels_eq ss]

theorem eSel_field (al : Option Name) (n : Name) (args : List Argument) (dirs : List Directive) (ss : Option SelSet) :
    eSel (.field al n args dirs ss) =
      .field (al.map eName) (eName n) (args.map eArg) (dirs.map eDir) (ss.map eSet) := by
  cases ss <;> simp [eSel]

def eAn (p : Option Name × Name) : Option Name × Name := (p.1.map eName, eName p.2)

theorem selection_rel : ∀ f,
    Rel (parseSelectionSet f) (parseSelectionSet f) eSet ∧
    (∀ op acc, Rel (selLoop f z (acc.map eSel)) (selLoop f op acc) eSet) ∧
    Rel (parseSelection f) (parseSelection f) eSel ∧
    Rel (parseField f) (parseField f) eSel ∧
    Rel (parseOptionalSelectionSet f) (parseOptionalSelectionSet f) (Option.map eSet)
  | 0 => ⟨Rel_oof _, fun _ _ => Rel_oof _, Rel_oof _, Rel_oof _, Rel_oof _⟩
  | f + 1 => by
    obtain ⟨ihSS, ihL, ihS, ihF, ihO⟩ := selection_rel f
    refine ⟨?_, fun op acc => ?_, ?_, ?_, ?_⟩
    · unfold parseSelectionSet
      rb; rb
      rite
      · rb; rbw (ihL _ []); rb; prim
      · prim
    · unfold selLoop
      rb
      rite
      · refine Rel_ite (by simp) ?_ ?_
        · prim
        · rb; exact Rel_pure _ _ _ (by simp [eSet, eSels_eq])
      · rbw ihS
        exact ihL op (_ :: acc)
    · unfold parseSelection
      rb; rb
      rite
      · rb; rb
        rite
        · rbw parseName_rel; rbw (parseOptionalDirectives_rel f); rb
          exact Rel_pure _ _ _ (by simp [eSel])
        · extract_lets jp' jp
          have tail : ∀ tc, Rel (jp' (Option.map eName tc)) (jp tc) eSel := by
            intro tc
            simp only [jp, jp']
            rbw (parseOptionalDirectives_rel f); rbw ihSS; rb
            exact Rel_pure _ _ _ (by simp [eSel])
          rite
          · rbw parseTypeCondition_rel
            exact Rel_pure_bind (er1 := Option.map eName) rfl tail
          · exact Rel_pure_bind (er1 := Option.map eName) rfl tail
      · rbw ihF; rb; prim
    · unfold parseField
      rb; rbw parseName_rel; rb
      extract_lets jp
      have tail : ∀ an, Rel (jp (eAn an)) (jp an) eSel := by
        intro an
        simp only [jp]
        rbw (parseOptionalArguments_rel f); rbw (parseOptionalDirectives_rel f); rbw ihO; rb
        exact Rel_pure _ _ _ (by simp [eSel_field, eAn])
      rite
      · rb; rbw parseName_rel
        exact Rel_pure_bind (er1 := eAn) rfl tail
      · exact Rel_pure_bind (er1 := eAn) rfl tail
    · unfold parseOptionalSelectionSet
      rb; rb
      extract_lets jp
      have tail : ∀ ret, Rel (jp (Option.map eSet ret)) (jp ret) (Option.map eSet) := by
        intro ret
        simp only [jp]
        rb; prim
      rite
      · rbw ihSS
        exact Rel_pure_bind (er1 := Option.map eSet) rfl tail
      · exact Rel_pure_bind (er1 := Option.map eSet) rfl tail

theorem parseOptionalFragmentDefinition_rel (f : Nat) :
    Rel (parseOptionalFragmentDefinition f) (parseOptionalFragmentDefinition f) (Option.map eDef) := by
  unfold parseOptionalFragmentDefinition
  rb; rb
  extract_lets jp
  have tail : ∀ ret, Rel (jp (Option.map eDef ret)) (jp ret) (Option.map eDef) := by
    intro ret
    simp only [jp]
    rb; prim
  rite
  · rb; rb
    rite
    · rbw parseName_rel; rbw parseTypeCondition_rel; rbw (parseOptionalDirectives_rel f)
      rbw (selection_rel f).1
      exact Rel_pure_bind (er1 := Option.map eDef) (by simp [eDef]) tail
    · exact Rel_fail_bind _ _ _ _
  · exact Rel_pure_bind (er1 := Option.map eDef) rfl tail

theorem parseOperationDefinition_rel (f : Nat) :
    Rel (parseOperationDefinition f) (parseOperationDefinition f) eDef := by
  unfold parseOperationDefinition
  rb; rbw (selection_rel f).2.2.2.2
  rename_i short
  extract_lets jp
  have tail : ∀ ret, Rel (jp (eDef ret)) (jp ret) eDef := by
    intro ret
    simp only [jp]
    rb; prim
  cases short with
  | some ss => exact Rel_pure_bind (by simp [eDef]) tail
  | none =>
    simp -zeta only [Option.map_none]
    rbw parseOperationType_rel; rb
    extract_lets jq' jq
    have tailq : ∀ name, Rel (jq' (Option.map eName name)) (jq name) eDef := by
      intro name
      simp only [jq, jq']
      rbw (parseOptionalVariableDefinitions_rel f); rbw (parseOptionalDirectives_rel f)
      rbw (selection_rel f).1
      exact Rel_pure_bind (by simp [eDef]) tail
    rite
    · rbw parseName_rel
      exact Rel_pure_bind (er1 := Option.map eName) rfl tailq
    · exact Rel_pure_bind (er1 := Option.map eName) rfl tailq

theorem parseDefinition_rel (f : Nat) : Rel (parseDefinition f) (parseDefinition f) eDef := by
  unfold parseDefinition
  rb; rbw (parseOptionalFragmentDefinition_rel f)
  rename_i fd
  extract_lets jp
  have tail : ∀ ret, Rel (jp (eDef ret)) (jp ret) eDef := by
    intro ret
    simp only [jp]
    rb; prim
  cases fd with
  | some d => exact Rel_pure_bind rfl tail
  | none => exact Rel_bind (parseOperationDefinition_rel f) tail

theorem defsLoop_rel : ∀ f acc, Rel (defsLoop f (acc.map eDef)) (defsLoop f acc) (List.map eDef)
  | 0, _ => Rel_oof _
  | f + 1, acc => by
    unfold defsLoop
    rb
    refine Rel_ite rfl ?_ ?_
    · exact Rel_pure _ _ _ (by simp)
    · rbw (parseDefinition_rel f)
      exact defsLoop_rel f (_ :: acc)

theorem parseDocument_rel (f : Nat) : Rel (parseDocument f) (parseDocument f) eDoc := by
  unfold parseDocument
  rb; rbw (defsLoop_rel f [])
  refine Rel_ite (by simp) ?_ ?_
  · prim
  · rb; exact Rel_pure _ _ _ (by simp [eDoc])

/-! ### The entry points -/

def Outcome.erase {α : Type} (er : α → α) : Outcome α → Outcome α
  | .returned a errs => .returned (er a) (errs.map eErr)
  | .recovered errs => .recovered (errs.map eErr)
  | .outOfFuel => .outOfFuel

/-- The parser input with every position erased. -/
def eInput (inp : Input) : Input :=
  { toks := inp.toks.map eTok, eofPos := z, eofErrs := inp.eofErrs.map eErr }

theorem eInput_env (inp : Input) (maxRec : Nat) (leak : Bool) :
    (eInput inp).env maxRec leak = eEnv (inp.env maxRec leak) := rfl

theorem eInput_init (inp : Input) : (eInput inp).init = eSt inp.init := by
  unfold Input.init eInput eSt
  cases inp.toks with
  | nil => simp
  | cons t ts => simp [eTok]

theorem eInput_fuel (inp : Input) : defaultFuel (eInput inp) = defaultFuel inp := by
  simp [defaultFuel, eInput]

theorem outcome_erase {α : Type} (er : α → α) (r : Res α) : (r.erase er).outcome = r.outcome.erase er := by
  cases r <;> simp [Res.erase, Res.outcome, Outcome.erase, eSt]

theorem ParseDocument_erase (maxRec : Nat) (inp : Input) (leak : Bool) :
    ParseDocument maxRec (eInput inp) leak = (ParseDocument maxRec inp leak).erase eDoc := by
  unfold ParseDocument
  rw [eInput_env, eInput_init, eInput_fuel, parseDocument_rel _ _ _, outcome_erase]

theorem ParseValue_erase (maxRec : Nat) (inp : Input) :
    ParseValue maxRec (eInput inp) = (ParseValue maxRec inp).erase eValue := by
  unfold ParseValue
  rw [eInput_env, eInput_init, eInput_fuel, (value_rel _).1 false _ _, outcome_erase]

end ApiFu.C06
