/-
  C06 — the property over SOURCE TEXT: scanner (C07) ∘ parser, one end-to-end statement.

  The parser theorems of Props.lean take the token stream as a parameter. C07 proves `scan_eq_spec`: on
  every valid UTF-8 text the scanner model returns exactly the tokens of the reference lexer
  `Spec.lexAll` (longest match over the June-2018 lexical grammar; kind, extent, line, column, decoded
  string value) and no error, or — where the reference meets a lexical error — at least one error.
  Here the two are composed (C07 is imported read-only): for every text,

    `parseText maxRec text = returned d []`
        ⇔ the reference lexer lexes the whole text to `ts`, `d` is a well-formed document, the parser
          tokens of `ts` (kind, `StringValue()`, reference line:column) render `d.stoks` with every
          recorded position at its token, and `d`'s production depth is within `maxRec`.

  `Delivers text inp` is the interface: `inp` is what `consumeToken` reads from a scanner run on `text`,
  for *any* attribution of the scanner's errors to `Scan()` calls. The theorems hold for every such
  `inp`; `deliver text` (Text.lean, executable, used by the driver) is one (`deliver_delivers`).
-/
import ApiFu.C06.Props
import ApiFu.C06.Text
import ApiFu.C07.Props

namespace ApiFu.C06

open ApiFu.C07 (scanAll scanLoop scan badBase)

/-- A delivered token without its attached scanner errors. -/
def Tok.bare (t : Tok) : Tok := { t with errs := [] }

/-- `Position()` of the end of the text as the C07 reference computes it. -/
def eofOfText (src : List Nat) : Pos :=
  ⟨(ApiFu.C07.Spec.position src src.length).1, (ApiFu.C07.Spec.position src src.length).2⟩

def errPosOfScan (e : ApiFu.C07.Err) : Pos := ⟨e.line, e.col⟩

/-- The parser tokens of a reference token stream of `src`. -/
def refToks (src : List Nat) (ts : List ApiFu.C07.Tok) : List Tok := ts.map (tokOfScan src)

/-- `inp` is what `parser.go` reads from the scanner on the text `src`: the mode-0 tokens in order, the
    scanner's errors in order (attached to whichever `Scan()` call), the end-of-text position. -/
structure Delivers (src : List Nat) (inp : Input) : Prop where
  toks : inp.toks.map Tok.bare = refToks src (scanAll false src).1
  errs : (scannerErrs inp).map (·.pos) = (scanAll false src).2.map errPosOfScan
  eof : inp.eofPos = eofOfText src

/-! ### `Renders` does not look at attached errors -/

theorem renders_bare (t : Tok) (s : STok) : t.bare.renders s = t.renders s := rfl

theorem Renders_bare : ∀ (ts : List Tok) (ss : List STok), Renders (ts.map Tok.bare) ss = Renders ts ss
  | [], [] => rfl
  | [], _ :: _ => rfl
  | _ :: _, [] => rfl
  | t :: ts, s :: ss => by
    simp only [List.map_cons, Renders, renders_bare, Renders_bare ts ss]

theorem Delivers.renders {src : List Nat} {inp : Input} (h : Delivers src inp) (ss : List STok) :
    Renders inp.toks ss = Renders (refToks src (scanAll false src).1) ss := by
  rw [← Renders_bare, h.toks]

theorem Delivers.clean_iff {src : List Nat} {inp : Input} (h : Delivers src inp) :
    scannerErrs inp = [] ↔ (scanAll false src).2 = [] := by
  have := h.errs
  constructor
  · intro he; rw [he] at this; simpa using this.symm
  · intro he; rw [he] at this; simpa using this

/-! ### The scanner half, from `scan_eq_spec` -/

/-- No scanner error on a valid UTF-8 text ⇔ the reference lexes the whole text, and then the tokens
    are the reference's. -/
theorem scan_clean_iff (src : List Nat) (hv : ∀ r ∈ src, r < badBase) :
    (scanAll false src).2 = [] ↔ ∃ ts, ApiFu.C07.Spec.lexAll false src = .ok ts := by
  have h := ApiFu.C07.scan_eq_spec false src hv
  cases hl : ApiFu.C07.Spec.lexAll false src with
  | ok ts => rw [hl] at h; simp [h]
  | error ts => rw [hl] at h; simp [h.2]

theorem scan_of_lex_ok (src : List Nat) (hv : ∀ r ∈ src, r < badBase) {ts : List ApiFu.C07.Tok}
    (hl : ApiFu.C07.Spec.lexAll false src = .ok ts) : scanAll false src = (ts, []) := by
  have h := ApiFu.C07.scan_eq_spec false src hv
  rw [hl] at h
  exact h

/-! ### The composed theorems -/

/-- **parse_text_sound** — for every valid UTF-8 text: if the parser returns a document and no error,
    then the reference lexer lexes the *whole* text (no lexical error anywhere), the document is
    well-formed, the reference token stream — every token with its kind, `StringValue()` and reference
    line:column — renders exactly the document's token sequence (nothing dropped, nothing invented,
    every recorded position is the reference position of its token), and the depth is within the limit. -/
theorem parse_text_sound (maxRec : Nat) (src : List Nat) (hv : ∀ r ∈ src, r < badBase) (inp : Input)
    (hd : Delivers src inp) (d : Document) (h : ParseDocument maxRec inp = .returned d []) :
    ∃ ts, ApiFu.C07.Spec.lexAll false src = .ok ts ∧ wfDocument d = true ∧
      Renders (refToks src ts) d.stoks = true ∧ pdDocument d ≤ maxRec := by
  obtain ⟨hc, hwf, hr, hp⟩ := (accepts_exactly maxRec inp d).1 h
  obtain ⟨ts, hl⟩ := (scan_clean_iff src hv).1 (hd.clean_iff.1 hc)
  refine ⟨ts, hl, hwf, ?_, hp⟩
  rw [hd.renders, scan_of_lex_ok src hv hl] at hr
  exact hr

/-- **parse_text_complete** — for every valid UTF-8 text that the reference lexer lexes to `ts`: if the
    parser tokens of `ts` render a well-formed document `d` whose production depth is within the limit,
    the parser returns exactly `d` (positions included) and no error. -/
theorem parse_text_complete (maxRec : Nat) (src : List Nat) (hv : ∀ r ∈ src, r < badBase) (inp : Input)
    (hd : Delivers src inp) (d : Document) (ts : List ApiFu.C07.Tok)
    (hl : ApiFu.C07.Spec.lexAll false src = .ok ts) (hwf : wfDocument d = true)
    (hr : Renders (refToks src ts) d.stoks = true) (hp : pdDocument d ≤ maxRec) :
    ParseDocument maxRec inp = .returned d [] := by
  have hs := scan_of_lex_ok src hv hl
  refine (accepts_exactly maxRec inp d).2 ⟨hd.clean_iff.2 (by rw [hs]), hwf, ?_, hp⟩
  rw [hd.renders, hs]
  exact hr

/-- **accepts_exactly_text** — the two halves as one equivalence: the property's statement over source
    text. -/
theorem accepts_exactly_text (maxRec : Nat) (src : List Nat) (hv : ∀ r ∈ src, r < badBase) (inp : Input)
    (hd : Delivers src inp) (d : Document) :
    ParseDocument maxRec inp = .returned d [] ↔
      ∃ ts, ApiFu.C07.Spec.lexAll false src = .ok ts ∧ wfDocument d = true ∧
        Renders (refToks src ts) d.stoks = true ∧ pdDocument d ≤ maxRec :=
  ⟨parse_text_sound maxRec src hv inp hd d,
   fun ⟨ts, hl, hwf, hr, hp⟩ => parse_text_complete maxRec src hv inp hd d ts hl hwf hr hp⟩

/-- **lexical_error_never_accepted** — a valid UTF-8 text on which the reference lexer meets a lexical
    error (C0 control in a string, DEL / C1 anywhere, a non-ASCII digit next to a number, U+FFFD or any
    other non-token character outside strings, …) is never returned without error, whatever its
    tokens look like. -/
theorem lexical_error_never_accepted (maxRec : Nat) (src : List Nat) (hv : ∀ r ∈ src, r < badBase)
    (inp : Input) (hd : Delivers src inp) (ts : List ApiFu.C07.Tok)
    (hl : ApiFu.C07.Spec.lexAll false src = .error ts) (d : Document) :
    ParseDocument maxRec inp ≠ .returned d [] := by
  intro h
  obtain ⟨ts', hl', _⟩ := parse_text_sound maxRec src hv inp hd d h
  rw [hl] at hl'; cases hl'

/-- **returned_text** — whenever a document is returned (with or without scanner errors): it is
    well-formed, the scanner's whole token stream renders it, and the returned errors stand exactly at
    the scanner's error positions (no error lost or invented). For every text, valid UTF-8 or not. -/
theorem returned_text (maxRec : Nat) (src : List Nat) (inp : Input) (hd : Delivers src inp)
    (d : Document) (errs : List Err) (h : ParseDocument maxRec inp = .returned d errs) :
    wfDocument d = true ∧ Renders (refToks src (scanAll false src).1) d.stoks = true ∧
      errs.map (·.pos) = (scanAll false src).2.map errPosOfScan := by
  obtain ⟨hwf, hr, he⟩ := parse_sound maxRec inp d errs h
  refine ⟨hwf, ?_, ?_⟩
  · rw [← hd.renders]; exact hr
  · rw [he, hd.errs]

/-- A position is *inside the text* when it is the reference position of an offset `≤ length`. -/
def InsideText (src : List Nat) (p : Pos) : Prop :=
  ∃ off, off ≤ src.length ∧ (p.line, p.col) = ApiFu.C07.Spec.position src off

/-- **error_inside_text** — for every text (valid UTF-8 or not): a recovered panic returns no document
    and `pre ++ [e]` where the positions of `pre` are a prefix of the scanner's error positions and `e`
    is the parser's single error; every reported error — scanner's or parser's — stands at the
    reference position (line, column as C07's `Spec.position` computes them from the text alone) of an
    offset of the text: the start of a token, the place of a lexical error, or the end of the text. -/
theorem error_inside_text (maxRec : Nat) (src : List Nat) (inp : Input) (hd : Delivers src inp)
    (es : List Err) (h : ParseDocument maxRec inp = .recovered es) :
    ∃ pre e, es = pre ++ [e] ∧ pre.map (·.pos) <+: (scanAll false src).2.map errPosOfScan ∧
      (∀ x ∈ es, InsideText src x.pos) := by
  obtain ⟨pre, e, hes, hpre, hpos⟩ := error_located maxRec inp es h
  refine ⟨pre, e, hes, ?_, ?_⟩
  · rw [← hd.errs]
    obtain ⟨t, ht⟩ := hpre
    exact ⟨t.map (·.pos), by rw [← ht, List.map_append]⟩
  · have hscan : ∀ x ∈ scannerErrs inp, InsideText src x.pos := by
      intro x hx
      have : x.pos ∈ (scanAll false src).2.map errPosOfScan := by
        rw [← hd.errs]; exact List.mem_map_of_mem hx
      obtain ⟨se, hse, hxe⟩ := List.mem_map.1 this
      obtain ⟨off, hle, ho⟩ := ApiFu.C07.error_positions false src se hse
      exact ⟨off, hle, by rw [← hxe]; exact ho⟩
    intro x hx
    rw [hes, List.mem_append] at hx
    rcases hx with hx | hx
    · exact hscan x (hpre.subset hx)
    · simp only [List.mem_singleton] at hx
      subst hx
      rw [List.mem_append] at hpos
      rcases hpos with hp | hp
      · obtain ⟨t, ht, hte⟩ := List.mem_map.1 hp
        have hb : t.bare ∈ refToks src (scanAll false src).1 := by
          rw [← hd.toks]; exact List.mem_map_of_mem ht
        obtain ⟨st, hst, hste⟩ := List.mem_map.1 hb
        have hpc := ApiFu.C07.position_correct false src st hst
        have hle := ((ApiFu.C07.token_extents false src).1 st hst).2.1
        refine ⟨st.off, by omega, ?_⟩
        rw [← hte]
        have : t.pos = ⟨st.line, st.col⟩ := by
          have := congrArg Tok.pos hste
          simpa [tokOfScan, Tok.bare] using this.symm
        rw [this]; exact hpc
      · simp only [List.mem_singleton] at hp
        refine ⟨src.length, Nat.le_refl _, ?_⟩
        rw [hp, hd.eof]; rfl

/-! ### `deliver` is a delivery -/

theorem scanLoop_none {b : Bool} {fuel : Nat} {s s' : ApiFu.C07.St}
    (h : scan b (s.rest.length + 1) s = (none, s')) : scanLoop b (fuel + 1) s = ([], s') := by
  simp only [scanLoop, h]

theorem scanLoop_some {b : Bool} {fuel : Nat} {s s' : ApiFu.C07.St} {t : ApiFu.C07.Tok}
    (h : scan b (s.rest.length + 1) s = (some t, s')) :
    scanLoop b (fuel + 1) s = (t :: (scanLoop b fuel s').1, (scanLoop b fuel s').2) := by
  simp only [scanLoop, h]

theorem deliverLoop_none {src : List Nat} {fuel : Nat} {s s' : ApiFu.C07.St}
    (h : scan false (s.rest.length + 1) s = (none, s')) :
    deliverLoop src (fuel + 1) s = ([], ⟨s'.line, s'.col⟩, newErrs s s') := by
  simp only [deliverLoop, h]

theorem deliverLoop_some {src : List Nat} {fuel : Nat} {s s' : ApiFu.C07.St} {t : ApiFu.C07.Tok}
    (h : scan false (s.rest.length + 1) s = (some t, s')) :
    deliverLoop src (fuel + 1) s =
      ({ tokOfScan src t with errs := newErrs s s' } :: (deliverLoop src fuel s').1, (deliverLoop src fuel s').2) := by
  simp only [deliverLoop, h]

theorem scan_errs_prefix (b : Bool) (s : ApiFu.C07.St) :
    ∃ es, (scan b (s.rest.length + 1) s).2.errs = s.errs ++ es := by
  have hs := ApiFu.C07.scan_spec b (s.rest.length + 1) s (by omega)
  cases hres : scan b (s.rest.length + 1) s with
  | mk o s' =>
    rw [hres] at hs
    cases o with
    | none => exact hs.1.errs_prefix
    | some t =>
      obtain ⟨s0, h0, _, hadv, _⟩ := hs
      exact (h0.trans hadv.adv).errs_prefix

theorem scanLoop_errs_prefix (b : Bool) : ∀ (fuel : Nat) (s : ApiFu.C07.St),
    ∃ es, (scanLoop b fuel s).2.errs = s.errs ++ es
  | 0, s => ⟨[], by simp [scanLoop]⟩
  | fuel + 1, s => by
    obtain ⟨e1, he1⟩ := scan_errs_prefix b s
    cases hres : scan b (s.rest.length + 1) s with
    | mk o s' =>
      rw [hres] at he1
      simp only at he1
      cases o with
      | none => rw [scanLoop_none hres]; exact ⟨e1, he1⟩
      | some t =>
        obtain ⟨e2, he2⟩ := scanLoop_errs_prefix b fuel s'
        rw [scanLoop_some hres]
        exact ⟨e1 ++ e2, by simp only [he2, he1, List.append_assoc]⟩

theorem newErrs_pos (s s' : ApiFu.C07.St) :
    (newErrs s s').map (·.pos) = (s'.errs.drop s.errs.length).map errPosOfScan := by
  simp only [newErrs, List.map_map, Function.comp_def]
  rfl

theorem deliverLoop_spec (src : List Nat) : ∀ (fuel : Nat) (s : ApiFu.C07.St),
    (deliverLoop src fuel s).1.map Tok.bare = refToks src (scanLoop false fuel s).1 ∧
    (deliverLoop src fuel s).2.1 = ⟨(scanLoop false fuel s).2.line, (scanLoop false fuel s).2.col⟩ ∧
    ((deliverLoop src fuel s).1.flatMap (·.errs) ++ (deliverLoop src fuel s).2.2).map (·.pos) =
      ((scanLoop false fuel s).2.errs.drop s.errs.length).map errPosOfScan
  | 0, s => by simp [deliverLoop, scanLoop, refToks]
  | fuel + 1, s => by
    obtain ⟨e1, he1⟩ := scan_errs_prefix false s
    cases hres : scan false (s.rest.length + 1) s with
    | mk o s' =>
      rw [hres] at he1
      simp only at he1
      cases o with
      | none =>
        rw [deliverLoop_none hres, scanLoop_none hres]
        simp only [refToks, List.map_nil, List.flatMap_nil, List.nil_append, true_and]
        exact newErrs_pos s s'
      | some t =>
        obtain ⟨e2, he2⟩ := scanLoop_errs_prefix false fuel s'
        obtain ⟨ih1, ih2, ih3⟩ := deliverLoop_spec src fuel s'
        rw [deliverLoop_some hres, scanLoop_some hres]
        refine ⟨?_, ih2, ?_⟩
        · simp only [List.map_cons, refToks] at ih1 ⊢
          rw [ih1]
          rfl
        · simp only [List.flatMap_cons, List.append_assoc, List.map_append] at ih3 ⊢
          rw [ih3, newErrs_pos, he2, he1]
          simp [List.drop_append, List.map_append]

/-- **deliver_delivers** — the executable composition of Text.lean (what the driver runs for the
    text-level stream) is a delivery: the theorems above speak about `parseText`. -/
theorem deliver_delivers (src : List Nat) : Delivers src (deliver src) := by
  have h := deliverLoop_spec src (src.length + 1) (ApiFu.C07.St.init src)
  have hsp := ApiFu.C07.scanLoop_spec false src (src.length + 1) (ApiFu.C07.St.init src)
    (by simp [ApiFu.C07.St.init]) (ApiFu.C07.Inv.init src)
  have hinv := hsp.1.inv (ApiFu.C07.Inv.init src)
  have hrest := hsp.2.1
  unfold deliver
  cases hd : deliverLoop src (src.length + 1) (ApiFu.C07.St.init src) with
  | mk dts de =>
    obtain ⟨p, es⟩ := de
    rw [hd] at h
    obtain ⟨h1, h2, h3⟩ := h
    refine ⟨?_, ?_, ?_⟩
    · simpa [scanAll] using h1
    · simp only [scannerErrs]
      have h0 : (ApiFu.C07.St.init src).errs.length = 0 := rfl
      rw [h0, List.drop_zero] at h3
      simpa [scanAll] using h3
    · simp only at h2 ⊢
      rw [h2]
      have hoff : (scanLoop false (src.length + 1) (ApiFu.C07.St.init src)).2.off = src.length := by
        have hr := hinv.rest
        rw [hrest] at hr
        have hle := hinv.le
        have := congrArg List.length hr
        simp at this
        omega
      have hp := hinv.pos
      rw [hoff] at hp
      simp only [eofOfText, ← hp]

/-- The end-to-end statement for the composed executable model `parseText`. -/
theorem parseText_accepts_exactly (maxRec : Nat) (src : List Nat) (hv : ∀ r ∈ src, r < badBase)
    (d : Document) :
    parseText maxRec src = .returned d [] ↔
      ∃ ts, ApiFu.C07.Spec.lexAll false src = .ok ts ∧ wfDocument d = true ∧
        Renders (refToks src ts) d.stoks = true ∧ pdDocument d ≤ maxRec :=
  accepts_exactly_text maxRec src hv (deliver src) (deliver_delivers src) d

/-! ### Non-vacuity -/

/-- `{a}` is accepted by the composed model (kernel evaluation of scanner and parser model), so the
    right-hand side of `parseText_accepts_exactly` holds of it. -/
example : (parseText 1000 [123, 97, 125]).accepted = true := by decide +kernel

/-- `{a(s:"<U+0001>")}`: the tokens look like a document but the string holds a C0 control — the only
    defect is lexical; the composed model does not accept it. -/
example : (parseText 1000 [123, 97, 40, 115, 58, 34, 1, 34, 41, 125]).accepted = false := by decide +kernel

/-- `{a}` followed by U+FFFD outside a string: rejected. -/
example : (parseText 1000 [123, 97, 125, 0xFFFD]).accepted = false := by decide +kernel

end ApiFu.C06
