/- C06 model driver executable: see Driver.lean for the protocol. -/
import ApiFu.C06.Driver

def main : IO Unit := ApiFu.lineLoopPure ApiFu.C06.Driver.handle
