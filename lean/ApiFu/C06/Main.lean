/- C06 model driver executable: see Driver.lean (token-level ops) and DriverText.lean (text-level ops). -/
import ApiFu.C06.DriverText

def main : IO Unit := ApiFu.lineLoopPure ApiFu.C06.Driver.handleText
