/-
  C06 — layout insensitivity, proved end to end: scanner model (C07) composed with the parser model.

  C07 proves (`Layout.layout_scan`, `Layout.layout_insensitive`) that the scanner model gives the same
  non-ignored tokens — kind, literal, decoded value — for every well-formed layout of a lexeme sequence
  (any leading byte-order mark, any spaces, tabs, commas, comments, line terminators between tokens, as
  long as neighbours that would fuse are separated). Here: the parser model never looks at a position
  (`positions_irrelevant`, by a sweep over all productions in Erase.lean), so the tree it builds for the
  two layouts is the same up to positions, it accepts both or rejects both, and it reports the same
  messages (`layout_insensitive_parse`).

  The interface between the two models is `inputOfSource` (what parser.go's `consumeToken` does with the
  scanner in mode 0: `Token()`, `StringValue()`, `Position()` of every token). The harness tie builds the
  model's tokens from the real scanner in exactly this way.

  New file; nothing in Props.lean depends on it. CORE LEAN ONLY.
-/
import ApiFu.C06.Erase
import ApiFu.C06.Props
import ApiFu.C07.PropsLayout

namespace ApiFu.C06

open ApiFu.C07.Layout (Doc Lexeme render lexemes proj)

/-- **positions_irrelevant** — the parser commutes with position erasure: on the input with every
    position replaced by 0:0 (`eInput`) it returns the same outcome with every position replaced by 0:0
    (`Outcome.erase eDoc`: tree nodes and error positions; error messages untouched). The parser's control
    flow never depends on a position. Also for the code before the F-12a fix (`leak`). -/
theorem positions_irrelevant (maxRec : Nat) (inp : Input) (leak : Bool) :
    ParseDocument maxRec (eInput inp) leak = (ParseDocument maxRec inp leak).erase eDoc :=
  ParseDocument_erase maxRec inp leak

/-- The same for `ParseValue`. -/
theorem positions_irrelevant_value (maxRec : Nat) (inp : Input) :
    ParseValue maxRec (eInput inp) = (ParseValue maxRec inp).erase eValue :=
  ParseValue_erase maxRec inp

/-- Two inputs that differ only in positions (same kinds, values, error messages) give outcomes that
    differ only in positions. -/
theorem parse_depends_on_content (maxRec : Nat) (i1 i2 : Input) (h : eInput i1 = eInput i2) :
    (ParseDocument maxRec i1).erase eDoc = (ParseDocument maxRec i2).erase eDoc := by
  rw [← positions_irrelevant, ← positions_irrelevant, h]

/-! ### The interface to the scanner model -/

/-- The parser's token kind for a scanner token kind (parser.go switches on `token.Token`). -/
def kindOf : ApiFu.C07.Kind → TokKind
  | .punctuator => .punct
  | .name => .name
  | .intValue => .int
  | .floatValue => .float
  | .stringValue => .string
  | _ => .invalid

def strOf (cs : List Nat) : String := String.ofList (cs.map Char.ofNat)

/-- The parser token for an observed scanner token (kind, literal, decoded value) at a position:
    `StringValue()` is the decoded value for a string and the literal otherwise. -/
def tokOfObs (o : ApiFu.C07.Kind × List Nat × List Nat) (p : Pos) : Tok :=
  { kind := kindOf o.1, value := strOf (if o.1 = .stringValue then o.2.2 else o.2.1), pos := p }

/-- What the parser reads from a source text (code points) whose scan reports no error: the non-ignored
    tokens of the scanner model in mode 0, each with its line and column; `eof` is the position reported
    at the end of input. -/
def inputOfSource (src : List Nat) (eof : Pos) : Input :=
  { toks := ((ApiFu.C07.scanAll false src).1.filter fun t => !t.kind.isIgnored).map fun t =>
      tokOfObs (t.kind, (src.drop t.off).take t.len, t.value) ⟨t.line, t.col⟩,
    eofPos := eof }

/-- The position-free input made of a lexeme sequence alone. -/
def inputOfLexemes (xs : List Lexeme) : Input :=
  { toks := xs.map fun x => tokOfObs x.obs z, eofPos := z }

/-- Erasing the positions of `inputOfSource` leaves the scanner observable `proj` (C07). -/
theorem eInput_inputOfSource (src : List Nat) (eof : Pos) :
    eInput (inputOfSource src eof) =
      { toks := (proj src (ApiFu.C07.scanAll false src).1).map fun o => tokOfObs o z, eofPos := z } := by
  simp [eInput, inputOfSource, proj, eTok, tokOfObs, List.map_map, Function.comp_def]

/-- **layout_parse_lexemes** — for a well-formed layout `d`, parsing its rendering gives, up to
    positions, the outcome of parsing its bare lexeme sequence: the tree, the verdict and the messages are
    a function of the lexemes alone. -/
theorem layout_parse_lexemes (maxRec : Nat) (d : Doc) (h : d.WF) (eof : Pos) :
    (ParseDocument maxRec (inputOfSource (render d) eof)).erase eDoc =
      ParseDocument maxRec (inputOfLexemes (lexemes d)) := by
  rw [← positions_irrelevant, eInput_inputOfSource, (ApiFu.C07.Layout.layout_scan d h false).2]
  simp [inputOfLexemes, List.map_map, Function.comp_def]

/-- **layout_insensitive_parse** — two well-formed layouts of the same lexeme sequence (any leading BOM,
    any ignored tokens anywhere, as long as neighbours that would fuse are separated): the scanner model
    composed with the parser model gives outcomes that are equal up to positions — the same tree with all
    positions erased, or the same recovered error messages. -/
theorem layout_insensitive_parse (maxRec : Nat) (d1 d2 : Doc) (h1 : d1.WF) (h2 : d2.WF)
    (hl : lexemes d1 = lexemes d2) (eof1 eof2 : Pos) :
    (ParseDocument maxRec (inputOfSource (render d1) eof1)).erase eDoc =
      (ParseDocument maxRec (inputOfSource (render d2) eof2)).erase eDoc := by
  rw [layout_parse_lexemes maxRec d1 h1, layout_parse_lexemes maxRec d2 h2, hl]

/-- Erasure does not change the verdict. -/
theorem accepted_erase {α : Type} (er : α → α) (o : Outcome α) : (o.erase er).accepted = o.accepted := by
  cases o with
  | returned a errs => cases errs <;> simp [Outcome.erase, Outcome.accepted]
  | recovered errs => simp [Outcome.erase, Outcome.accepted]
  | outOfFuel => simp [Outcome.erase, Outcome.accepted]

/-- **layout_insensitive_accepts** — in particular one layout is accepted exactly if the other is. -/
theorem layout_insensitive_accepts (maxRec : Nat) (d1 d2 : Doc) (h1 : d1.WF) (h2 : d2.WF)
    (hl : lexemes d1 = lexemes d2) (eof1 eof2 : Pos) :
    (ParseDocument maxRec (inputOfSource (render d1) eof1)).accepted =
      (ParseDocument maxRec (inputOfSource (render d2) eof2)).accepted := by
  rw [← accepted_erase eDoc, layout_insensitive_parse maxRec d1 d2 h1 h2 hl eof1 eof2, accepted_erase]

/-! ### Non-vacuity -/

/-- `{a...F}`: five lexemes. -/
def exLexemes : List Lexeme :=
  [⟨.punctuator, [123], []⟩, ⟨.name, [97], []⟩, ⟨.punctuator, [46, 46, 46], []⟩, ⟨.name, [70], []⟩,
   ⟨.punctuator, [125], []⟩]

/-- Laid out as `{a...F}`. -/
def exTight : Doc := { bom := false, lead := [], body := exLexemes.map fun x => (x, []) }

/-- Laid out as BOM ` { ,⏎ #c⏎ a ,⏎ #c⏎ ... ` and so on. -/
def exLoose : Doc :=
  { bom := true, lead := [.space],
    body := exLexemes.map fun x => (x, [.comma, .crlf, .space, .comment [32, 99], .cr]) }

/-- Both are well-formed layouts of the same lexemes, and they are different texts. -/
example : exTight.WF ∧ exLoose.WF ∧ lexemes exTight = lexemes exLoose ∧
    render exTight = [123, 97, 46, 46, 46, 70, 125] ∧ render exLoose ≠ render exTight := by decide

/-- The scanner model composed with the parser model accepts the tight layout (kernel evaluation of
    both models), hence (`layout_insensitive_accepts`) the loose one; the two trees differ (positions),
    their erasures do not. -/
example : (ParseDocument 1000 (inputOfSource (render exTight) ⟨1, 8⟩)).accepted = true := by decide +kernel

example : (ParseDocument 1000 (inputOfSource (render exLoose) ⟨6, 2⟩)).accepted = true := by
  rw [← layout_insensitive_accepts 1000 exTight exLoose (by decide) (by decide) (by decide) ⟨1, 8⟩ ⟨6, 2⟩]
  decide +kernel

/-- A rejected document, `{a...}`: both layouts are rejected, with the same message. -/
example : (ParseDocument 1000 (inputOfLexemes
    [⟨.punctuator, [123], []⟩, ⟨.name, [97], []⟩, ⟨.punctuator, [46, 46, 46], []⟩, ⟨.punctuator, [125], []⟩])).recoveredErrs
    = some [{ msg := "expected selection set", pos := z }] := by decide +kernel

end ApiFu.C06
