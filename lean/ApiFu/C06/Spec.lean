/-
  C06 — the specification side, written from the June-2018 executable-document grammar
  (spec §2.2-2.12, appendix B.3 "Document"), not from parser.go:

    * `wf…`   : which abstract syntax trees are in the grammar (the side conditions of the productions:
                non-empty `{…}`/`(…)` groups, `EnumValue : Name but not true false null`,
                `FragmentName : Name but not on`, `DefaultValue : = Value[Const]`, `NonNullType` never wraps a
                `NonNullType`, the query shorthand has no name / variables / directives,
                `OperationType : one of query mutation subscription`);
    * `stoks…`: the printer — the token sequence of a tree. A token is *anchored* (`pos = some p`) when
                the tree records where it stood (ast.go keeps a position for the first token of every node
                and for closing brackets), free (`none`) for the tokens ast.go forgets
                (`:` `!` `=` `(` `)` `on`);
    * `Renders ts ss`: the concrete tokens `ts` are a rendering of the spec tokens `ss` — same kinds and
                values, and every anchored token stands exactly at its anchor.

  The language of the grammar is `{ ts | ∃ d, wfDocument d ∧ Renders ts (d.stoks) }`.
  Lexical well-formedness of the *values* of name / number / string tokens is the scanner's business
  (property C07); here token values are opaque strings.

  CORE LEAN ONLY.
-/
import ApiFu.C06.Model

namespace ApiFu.C06

structure STok where
  kind : TokKind
  value : String
  pos : Option Pos
  deriving Repr, DecidableEq

def anch (k : TokKind) (v : String) (p : Pos) : STok := { kind := k, value := v, pos := some p }
def free (k : TokKind) (v : String) : STok := { kind := k, value := v, pos := none }

/-! ### Printer -/

def Name.stoks (n : Name) : List STok := [anch .name n.name n.pos]
def Variable.stoks (v : Variable) : List STok := anch .punct "$" v.dollar :: v.name.stoks

mutual
def Value.stoks : Value → List STok
  | .var v => v.stoks
  | .int s p => [anch .int s p]
  | .float s p => [anch .float s p]
  | .str s p => [anch .string s p]
  | .bool b p => [anch .name (if b then "true" else "false") p]
  | .null p => [anch .name "null" p]
  | .enum s p => [anch .name s p]
  | .list vs o c => anch .punct "[" o :: (stoksValues vs ++ [anch .punct "]" c])
  | .obj fs o c => anch .punct "{" o :: (stoksFields fs ++ [anch .punct "}" c])
def stoksValues : List Value → List STok
  | [] => []
  | v :: vs => v.stoks ++ stoksValues vs
def stoksFields : List (Name × Value) → List STok
  | [] => []
  | (n, v) :: fs => n.stoks ++ free .punct ":" :: (v.stoks ++ stoksFields fs)
end

def TypeExpr.stoks : TypeExpr → List STok
  | .named n => n.stoks
  | .list t o c => anch .punct "[" o :: (t.stoks ++ [anch .punct "]" c])
  | .nonNull t => t.stoks ++ [free .punct "!"]

def Argument.stoks (a : Argument) : List STok := a.name.stoks ++ free .punct ":" :: a.value.stoks

def stoksArgList : List Argument → List STok
  | [] => []
  | a :: as => a.stoks ++ stoksArgList as

/-- `Arguments?` -/
def stoksArgs (as : List Argument) : List STok :=
  if as.isEmpty then [] else free .punct "(" :: (stoksArgList as ++ [free .punct ")"])

def Directive.stoks (d : Directive) : List STok := anch .punct "@" d.atPos :: (d.name.stoks ++ stoksArgs d.args)

def stoksDirs : List Directive → List STok
  | [] => []
  | d :: ds => d.stoks ++ stoksDirs ds

def VarDef.stoks (v : VarDef) : List STok :=
  v.var.stoks ++ free .punct ":" :: (v.type.stoks ++
    (match v.default with
     | some d => free .punct "=" :: d.stoks
     | none => []))

def stoksVarDefList : List VarDef → List STok
  | [] => []
  | v :: vs => v.stoks ++ stoksVarDefList vs

/-- `VariableDefinitions?` -/
def stoksVarDefs (vs : List VarDef) : List STok :=
  if vs.isEmpty then [] else free .punct "(" :: (stoksVarDefList vs ++ [free .punct ")"])

def stoksTypeCondition (n : Name) : List STok := free .name "on" :: n.stoks

mutual
def Selection.stoks : Selection → List STok
  | .field al n args dirs sel =>
    (match al with
     | some a => a.stoks ++ [free .punct ":"]
     | none => []) ++ (n.stoks ++ (stoksArgs args ++ (stoksDirs dirs ++
    (match sel with
     | some s => s.stoks
     | none => []))))
  | .spread e n dirs => anch .punct "..." e :: (n.stoks ++ stoksDirs dirs)
  | .inline e tc dirs sel =>
    anch .punct "..." e ::
      ((match tc with
        | some n => stoksTypeCondition n
        | none => []) ++ (stoksDirs dirs ++ sel.stoks))
def SelSet.stoks : SelSet → List STok
  | .mk sels o c => anch .punct "{" o :: (stoksSels sels ++ [anch .punct "}" c])
def stoksSels : List Selection → List STok
  | [] => []
  | s :: ss => s.stoks ++ stoksSels ss
end

def Definition.stoks : Definition → List STok
  | .op none _ _ _ sel => sel.stoks
  | .op (some t) name vars dirs sel =>
    anch .name t.value t.pos ::
      ((match name with
        | some n => n.stoks
        | none => []) ++ (stoksVarDefs vars ++ (stoksDirs dirs ++ sel.stoks)))
  | .frag p n tc dirs sel =>
    anch .name "fragment" p :: (n.stoks ++ (stoksTypeCondition tc ++ (stoksDirs dirs ++ sel.stoks)))

def stoksDefs : List Definition → List STok
  | [] => []
  | d :: ds => d.stoks ++ stoksDefs ds

def Document.stoks (d : Document) : List STok := stoksDefs d.defs

/-! ### Well-formedness (the grammar's side conditions) -/

def isReservedEnum (s : String) : Bool := s == "true" || s == "false" || s == "null"

mutual
/-- `Value[Const]` when `const`, `Value` otherwise. -/
def wfValue (const : Bool) : Value → Bool
  | .var _ => !const
  | .enum s _ => !isReservedEnum s
  | .list vs _ _ => wfValues const vs
  | .obj fs _ _ => wfFields const fs
  | _ => true
def wfValues (const : Bool) : List Value → Bool
  | [] => true
  | v :: vs => wfValue const v && wfValues const vs
def wfFields (const : Bool) : List (Name × Value) → Bool
  | [] => true
  | (_, v) :: fs => wfValue const v && wfFields const fs
end

def TypeExpr.isNonNull : TypeExpr → Bool
  | .nonNull _ => true
  | _ => false

def wfType : TypeExpr → Bool
  | .named _ => true
  | .list t _ _ => wfType t
  | .nonNull t => !t.isNonNull && wfType t

def wfArgList : List Argument → Bool
  | [] => true
  | a :: as => wfValue false a.value && wfArgList as

def wfDirs : List Directive → Bool
  | [] => true
  | d :: ds => wfArgList d.args && wfDirs ds

def wfVarDef (v : VarDef) : Bool :=
  wfType v.type &&
    (match v.default with
     | some d => wfValue true d
     | none => true)

def wfVarDefList : List VarDef → Bool
  | [] => true
  | v :: vs => wfVarDef v && wfVarDefList vs

mutual
def wfSelection : Selection → Bool
  | .field _ _ args dirs sel =>
    wfArgList args && wfDirs dirs &&
      (match sel with
       | some s => wfSelSet s
       | none => true)
  | .spread _ n dirs => n.name != "on" && wfDirs dirs
  | .inline _ _ dirs sel => wfDirs dirs && wfSelSet sel
def wfSelSet : SelSet → Bool
  | .mk sels _ _ => !sels.isEmpty && wfSels sels
def wfSels : List Selection → Bool
  | [] => true
  | s :: ss => wfSelection s && wfSels ss
end

def wfDefinition : Definition → Bool
  | .op none name vars dirs sel => name.isNone && vars.isEmpty && dirs.isEmpty && wfSelSet sel
  | .op (some t) _ vars dirs sel => isOperationType t.value && wfVarDefList vars && wfDirs dirs && wfSelSet sel
  | .frag _ n _ dirs sel => n.name != "on" && wfDirs dirs && wfSelSet sel

def wfDefs : List Definition → Bool
  | [] => true
  | d :: ds => wfDefinition d && wfDefs ds

def wfDocument (d : Document) : Bool := !d.defs.isEmpty && wfDefs d.defs

/-! ### Production depth

  `pd… x` is the height of the production call stack a recursive-descent recogniser needs for `x`
  (the number of nested `enter()`s, counting the production that parses `x` itself). It depends on the
  *nesting* of `x` only: every list of siblings contributes the maximum over its members, never a sum. -/

def pdName : Nat := 1
def pdVariable : Nat := 1 + pdName
def pdNamedType : Nat := 1 + pdName
def pdTypeCondition : Nat := 1 + pdNamedType
def pdOperationType : Nat := 1

def pdType : TypeExpr → Nat
  | .named _ => 1 + pdNamedType
  | .list t _ _ => 1 + pdType t
  | .nonNull t => pdType t

mutual
def pdValue : Value → Nat
  | .var _ => 1 + pdVariable
  | .list vs _ _ => 1 + pdValues vs
  | .obj fs _ _ => 1 + pdFields fs
  | _ => 1
def pdValues : List Value → Nat
  | [] => 0
  | v :: vs => max (pdValue v) (pdValues vs)
def pdFields : List (Name × Value) → Nat
  | [] => 0
  | (_, v) :: fs => max (max pdName (pdValue v)) (pdFields fs)
end

def pdArgument (a : Argument) : Nat := 1 + max pdName (pdValue a.value)

def pdArgList : List Argument → Nat
  | [] => 0
  | a :: as => max (pdArgument a) (pdArgList as)

/-- parseOptionalArguments -/
def pdArgs (as : List Argument) : Nat := 1 + pdArgList as

def pdDirList : List Directive → Nat
  | [] => 0
  | d :: ds => max (max pdName (pdArgs d.args)) (pdDirList ds)

/-- parseOptionalDirectives -/
def pdDirs (ds : List Directive) : Nat := 1 + pdDirList ds

def pdVarDef (v : VarDef) : Nat :=
  1 + max pdVariable (max (pdType v.type)
    (match v.default with
     | some d => pdValue d
     | none => 0))

def pdVarDefList : List VarDef → Nat
  | [] => 0
  | v :: vs => max (pdVarDef v) (pdVarDefList vs)

/-- parseOptionalVariableDefinitions -/
def pdVarDefs (vs : List VarDef) : Nat := 1 + pdVarDefList vs

mutual
/-- parseSelection -/
def pdSelection : Selection → Nat
  | .field _ _ args dirs sel =>
    -- parseSelection → parseField → {parseName, parseOptionalArguments, parseOptionalDirectives, parseOptionalSelectionSet}
    1 + (1 + max pdName (max (pdArgs args) (max (pdDirs dirs)
      (1 + (match sel with
            | some s => pdSelSet s
            | none => 0)))))
  | .spread _ _ dirs => 1 + max pdName (pdDirs dirs)
  | .inline _ tc dirs sel =>
    1 + max (match tc with
             | some _ => pdTypeCondition
             | none => 0) (max (pdDirs dirs) (pdSelSet sel))
/-- parseSelectionSet -/
def pdSelSet : SelSet → Nat
  | .mk sels _ _ => 1 + pdSels sels
def pdSels : List Selection → Nat
  | [] => 0
  | s :: ss => max (pdSelection s) (pdSels ss)
end

/-- parseDefinition -/
def pdDefinition : Definition → Nat
  | .op none _ _ _ sel =>
    -- parseDefinition → {parseOptionalFragmentDefinition, parseOperationDefinition → parseOptionalSelectionSet → parseSelectionSet}
    1 + max 1 (1 + (1 + pdSelSet sel))
  | .op (some _) name vars dirs sel =>
    1 + max 1 (1 + max 1 (max pdOperationType (max (match name with
                                                     | some _ => pdName
                                                     | none => 0)
      (max (pdVarDefs vars) (max (pdDirs dirs) (pdSelSet sel))))))
  | .frag _ _ _ dirs sel =>
    1 + (1 + max pdName (max pdTypeCondition (max (pdDirs dirs) (pdSelSet sel))))

def pdDefs : List Definition → Nat
  | [] => 0
  | d :: ds => max (pdDefinition d) (pdDefs ds)

/-- parseDocument -/
def pdDocument (d : Document) : Nat := 1 + pdDefs d.defs

/-! ### Rendering -/

/-- A concrete token is a rendering of a spec token. -/
def Tok.renders (t : Tok) (s : STok) : Bool :=
  t.kind == s.kind && t.value == s.value &&
    (match s.pos with
     | some p => t.pos == p
     | none => true)

/-- `ts` is a rendering of `ss`: pointwise, same length. -/
def Renders : List Tok → List STok → Bool
  | [], [] => true
  | t :: ts, s :: ss => t.renders s && Renders ts ss
  | _, _ => false

end ApiFu.C06
