/-
  C06 — positions_injective: in every document `ParseDocument` returns, distinct selections (and distinct
  selection sets) have distinct positions, provided the scanner gave distinct tokens distinct positions
  (it does: positions increase strictly along the text; property C07). Used by C01 (the executor's
  field-collection memo is keyed by positions) and by C12's overlapping-fields model.
-/
import ApiFu.C06.Props

namespace ApiFu.C06

/-- The recorded positions of a spec token list, in order. -/
def anchors (ss : List STok) : List Pos := ss.filterMap (·.pos)

theorem anchors_append (a b : List STok) : anchors (a ++ b) = anchors a ++ anchors b := by
  simp [anchors, List.filterMap_append]

theorem anchors_cons_anch (k : TokKind) (v : String) (p : Pos) (ss : List STok) :
    anchors (anch k v p :: ss) = p :: anchors ss := by
  simp [anchors, anch, List.filterMap_cons]

theorem anchors_cons_free (k : TokKind) (v : String) (ss : List STok) : anchors (free k v :: ss) = anchors ss := by
  simp [anchors, free, List.filterMap_cons]

/-- The anchors of a rendered spec token list are a sublist of the concrete tokens' positions. -/
theorem anchors_sublist : ∀ {ts : List Tok} {ss : List STok}, Renders ts ss = true → (anchors ss).Sublist (ts.map (·.pos))
  | [], [], _ => by simp [anchors]
  | [], _ :: _, h => by simp [Renders] at h
  | _ :: _, [], h => by simp [Renders] at h
  | t :: ts, s :: ss, h => by
    simp only [Renders, Bool.and_eq_true] at h
    have ih := anchors_sublist h.2
    cases hp : s.pos with
    | none =>
      have : anchors (s :: ss) = anchors ss := by simp [anchors, List.filterMap_cons, hp]
      rw [this, List.map_cons]
      exact List.Sublist.cons _ ih
    | some p =>
      have hpos : t.pos = p := renders_pos h.1 hp
      have : anchors (s :: ss) = p :: anchors ss := by simp [anchors, List.filterMap_cons, hp]
      rw [this, List.map_cons, hpos]
      exact List.Sublist.cons₂ _ ih

mutual
/-- `Position()` of every selection below (and including) a selection, in document order. -/
def selPosSel : Selection → List Pos
  | .field al n args dirs (some s) => (Selection.field al n args dirs (some s)).position :: selPosSet s
  | .field al n args dirs none => [(Selection.field al n args dirs none).position]
  | .spread e n dirs => [(Selection.spread e n dirs).position]
  | .inline e tc dirs s => (Selection.inline e tc dirs s).position :: selPosSet s
def selPosSet : SelSet → List Pos
  | .mk sels _ _ => selPosSels sels
def selPosSels : List Selection → List Pos
  | [] => []
  | s :: ss => selPosSel s ++ selPosSels ss
end

mutual
/-- The opening positions of every selection set below (and including) a set, in document order. -/
def setPosSel : Selection → List Pos
  | .field _ _ _ _ (some s) => setPosSet s
  | .field _ _ _ _ none => []
  | .spread _ _ _ => []
  | .inline _ _ _ s => setPosSet s
def setPosSet : SelSet → List Pos
  | .mk sels o _ => o :: setPosSels sels
def setPosSels : List Selection → List Pos
  | [] => []
  | s :: ss => setPosSel s ++ setPosSels ss
end

theorem sub_right {a b c : List Pos} (h : a.Sublist c) : a.Sublist (b ++ c) := List.Sublist.trans h (List.sublist_append_right b c)
theorem sub_left {a b c : List Pos} (h : a.Sublist b) : a.Sublist (b ++ c) := List.Sublist.trans h (List.sublist_append_left b c)

mutual
theorem selPosSel_sub : ∀ s : Selection, (selPosSel s).Sublist (anchors s.stoks)
  | .field none n args dirs none => by
    rw [stoks_field_none]
    simp only [selPosSel, Selection.position, Name.position, Name.stoks, List.cons_append, List.nil_append, anchors_cons_anch]
    exact List.Sublist.cons₂ _ (List.nil_sublist _)
  | .field none n args dirs (some ss) => by
    rw [stoks_field_none]
    simp only [selPosSel, Selection.position, Name.position, Name.stoks, List.cons_append, List.nil_append, anchors_cons_anch,
      anchors_append, optSelStoks]
    exact List.Sublist.cons₂ _ (sub_right (sub_right (selPosSet_sub ss)))
  | .field (some a) n args dirs none => by
    rw [stoks_field_some]
    simp only [selPosSel, Selection.position, Name.position, Name.stoks, List.cons_append, List.nil_append, anchors_cons_anch]
    exact List.Sublist.cons₂ _ (List.nil_sublist _)
  | .field (some a) n args dirs (some ss) => by
    rw [stoks_field_some]
    simp only [selPosSel, Selection.position, Name.position, Name.stoks, List.cons_append, List.nil_append, anchors_cons_anch,
      anchors_cons_free, anchors_append, optSelStoks]
    exact List.Sublist.cons₂ _ (List.Sublist.cons _ (sub_right (sub_right (selPosSet_sub ss))))
  | .spread e n dirs => by
    rw [stoks_spread]
    simp only [selPosSel, Selection.position, anchors_cons_anch]
    exact List.Sublist.cons₂ _ (List.nil_sublist _)
  | .inline e none dirs ss => by
    rw [stoks_inline_none]
    simp only [selPosSel, Selection.position, anchors_cons_anch, anchors_append]
    exact List.Sublist.cons₂ _ (sub_right (selPosSet_sub ss))
  | .inline e (some n) dirs ss => by
    rw [stoks_inline_some]
    simp only [selPosSel, Selection.position, anchors_cons_anch, anchors_append]
    exact List.Sublist.cons₂ _ (sub_right (sub_right (selPosSet_sub ss)))
theorem selPosSet_sub : ∀ s : SelSet, (selPosSet s).Sublist (anchors s.stoks)
  | .mk sels o c => by
    rw [stoks_selSet]
    simp only [selPosSet, anchors_cons_anch, anchors_append]
    exact List.Sublist.cons _ (sub_left (selPosSels_sub sels))
theorem selPosSels_sub : ∀ ss : List Selection, (selPosSels ss).Sublist (anchors (stoksSels ss))
  | [] => by simp [selPosSels, stoksSels, anchors]
  | s :: ss => by
    rw [stoksSels_cons, anchors_append]
    simp only [selPosSels]
    exact List.Sublist.append (selPosSel_sub s) (selPosSels_sub ss)
end

mutual
theorem setPosSel_sub : ∀ s : Selection, (setPosSel s).Sublist (anchors s.stoks)
  | .field none n args dirs none => by simp [setPosSel]
  | .field none n args dirs (some ss) => by
    rw [stoks_field_none]
    simp only [setPosSel, anchors_append, optSelStoks]
    exact sub_right (sub_right (sub_right (setPosSet_sub ss)))
  | .field (some a) n args dirs none => by simp [setPosSel]
  | .field (some a) n args dirs (some ss) => by
    rw [stoks_field_some]
    simp only [setPosSel, anchors_append, anchors_cons_free, optSelStoks]
    exact sub_right (sub_right (sub_right (sub_right (setPosSet_sub ss))))
  | .spread e n dirs => by simp [setPosSel]
  | .inline e none dirs ss => by
    rw [stoks_inline_none]
    simp only [setPosSel, anchors_cons_anch, anchors_append]
    exact List.Sublist.cons _ (sub_right (setPosSet_sub ss))
  | .inline e (some n) dirs ss => by
    rw [stoks_inline_some]
    simp only [setPosSel, anchors_cons_anch, anchors_append]
    exact List.Sublist.cons _ (sub_right (sub_right (setPosSet_sub ss)))
theorem setPosSet_sub : ∀ s : SelSet, (setPosSet s).Sublist (anchors s.stoks)
  | .mk sels o c => by
    rw [stoks_selSet]
    simp only [setPosSet, anchors_cons_anch, anchors_append]
    exact List.Sublist.cons₂ _ (sub_left (setPosSels_sub sels))
theorem setPosSels_sub : ∀ ss : List Selection, (setPosSels ss).Sublist (anchors (stoksSels ss))
  | [] => by simp [setPosSels, stoksSels, anchors]
  | s :: ss => by
    rw [stoksSels_cons, anchors_append]
    simp only [setPosSels]
    exact List.Sublist.append (setPosSel_sub s) (setPosSels_sub ss)
end

/-- The selection set of a definition. -/
def defSel : Definition → SelSet
  | .op _ _ _ _ s => s
  | .frag _ _ _ _ s => s

theorem defSel_anchors_sub (d : Definition) : (anchors (defSel d).stoks).Sublist (anchors d.stoks) := by
  cases d with
  | frag p n tc dirs s =>
    rw [stoks_frag]
    simp only [defSel, anchors_cons_anch, anchors_append]
    exact List.Sublist.cons _ (sub_right (sub_right (sub_right (List.Sublist.refl _))))
  | op t name vars dirs s =>
    cases t with
    | none => rw [stoks_op_none]; exact List.Sublist.refl _
    | some t =>
      rw [stoks_op_some]
      simp only [defSel, anchors_cons_anch, anchors_append]
      exact List.Sublist.cons _ (sub_right (sub_right (sub_right (List.Sublist.refl _))))

/-- Positions of all selections / openings of all selection sets of a document, in document order. -/
def docSelPositions : List Definition → List Pos
  | [] => []
  | d :: ds => selPosSet (defSel d) ++ docSelPositions ds
def docSetOpenings : List Definition → List Pos
  | [] => []
  | d :: ds => setPosSet (defSel d) ++ docSetOpenings ds

theorem docSelPositions_sub : ∀ ds : List Definition, (docSelPositions ds).Sublist (anchors (stoksDefs ds))
  | [] => by simp [docSelPositions, stoksDefs, anchors]
  | d :: ds => by
    have e : stoksDefs (d :: ds) = d.stoks ++ stoksDefs ds := rfl
    rw [e, anchors_append]
    exact List.Sublist.append (List.Sublist.trans (selPosSet_sub (defSel d)) (defSel_anchors_sub d)) (docSelPositions_sub ds)

theorem docSetOpenings_sub : ∀ ds : List Definition, (docSetOpenings ds).Sublist (anchors (stoksDefs ds))
  | [] => by simp [docSetOpenings, stoksDefs, anchors]
  | d :: ds => by
    have e : stoksDefs (d :: ds) = d.stoks ++ stoksDefs ds := rfl
    rw [e, anchors_append]
    exact List.Sublist.append (List.Sublist.trans (setPosSet_sub (defSel d)) (defSel_anchors_sub d)) (docSetOpenings_sub ds)

/-- **positions_injective** — in every document `ParseDocument` returns, the positions of all selections
    (fields, fragment spreads, inline fragments — `Position()` as in ast.go) are pairwise distinct, and so are
    the opening positions of all selection sets, whenever distinct tokens of the input have distinct
    positions. -/
theorem positions_injective (maxRec : Nat) (inp : Input) (d : Document) (errs : List Err)
    (h : ParseDocument maxRec inp = .returned d errs) (hdist : (inp.toks.map (·.pos)).Nodup) :
    (docSelPositions d.defs).Nodup ∧ (docSetOpenings d.defs).Nodup := by
  obtain ⟨_, hr, _⟩ := parse_sound maxRec inp d errs h
  have ha : (anchors d.stoks).Nodup := List.Nodup.sublist (anchors_sublist hr) hdist
  exact ⟨List.Nodup.sublist (docSelPositions_sub d.defs) ha, List.Nodup.sublist (docSetOpenings_sub d.defs) ha⟩

/-- Non-vacuity: `{ a b { c } }` has three selections at three positions and two selection sets. -/
example :
    let d : List Definition := [.op none none [] [] (.mk [.field none ⟨"a", ⟨1, 3⟩⟩ [] [] none,
      .field none ⟨"b", ⟨1, 5⟩⟩ [] [] (some (.mk [.field none ⟨"c", ⟨1, 9⟩⟩ [] [] none] ⟨1, 7⟩ ⟨1, 11⟩))] ⟨1, 1⟩ ⟨1, 13⟩)]
    docSelPositions d = [⟨1, 3⟩, ⟨1, 5⟩, ⟨1, 9⟩] ∧ docSetOpenings d = [⟨1, 1⟩, ⟨1, 7⟩] := by
  decide

end ApiFu.C06
