/-
  C06 — completeness sweep: a token list that renders a well-formed tree, without scanner errors, parses
  back to exactly that tree (`Cmpl`): every production returns the tree it was given the tokens of, leaves
  exactly the following tokens, restores the counter and the error list — provided the *production depth*
  of the tree (Spec `pd…`) fits below `maxRecursion`; otherwise it panics with
  "maximum recursion depth exceeded" and with nothing else. One `…_cmpl` lemma per production; the
  LL(1) side conditions (what may follow an optional part) are explicit hypotheses (`FollowSel`, …)
  discharged where the productions are composed. Partial-correctness form (`wp True`): that the model's
  fuel suffices is Fuel.lean's business.
  Core Lean only.
-/
import ApiFu.C06.Lemmas

set_option linter.unusedSimpArgs false

namespace ApiFu.C06

/-! ### Completeness sweep: a rendering of a well-formed tree parses back to that tree, or fails with the depth error -/

/-- Tokens and EOF carry no scanner error. -/
def Clean (env : Env) (ts : List Tok) : Prop := (∀ t ∈ ts, t.errs = []) ∧ env.eofErrs = []

theorem Clean.tail {env : Env} {t : Tok} {ts : List Tok} (h : Clean env (t :: ts)) : Clean env ts :=
  ⟨fun x hx => h.1 x (List.mem_cons_of_mem _ hx), h.2⟩

theorem Clean.right {env : Env} {a b : List Tok} (h : Clean env (a ++ b)) : Clean env b :=
  ⟨fun x hx => h.1 x (List.mem_append_right _ hx), h.2⟩

theorem loadErrs_clean {env : Env} {ts : List Tok} (h : Clean env ts) : loadErrs env ts = [] := by
  match ts with
  | [] => rfl
  | [_] => exact h.2
  | _ :: t :: _ => exact h.1 t (by simp)

/-- The state inside a production entered from `st`, with `T` still to read. -/
abbrev S (st : St) (T : List Tok) : St := { toks := T, recursion := st.recursion + 1, errors := st.errors }

theorem consume_S {env : Env} {st : St} {t : Tok} {T : List Tok} (h : Clean env (t :: T)) :
    (S st (t :: T)).consume env = S st T := by
  have := loadErrs_clean h
  cases T <;> simp_all [S, St.consume, loadErrs]

theorem Renders_nil_inv {ts : List Tok} (h : Renders ts [] = true) : ts = [] := by
  cases ts <;> simp_all [Renders]

theorem Renders_cons_inv {ts : List Tok} {s : STok} {ss : List STok} (h : Renders ts (s :: ss) = true) :
    ∃ t ts', ts = t :: ts' ∧ t.renders s = true ∧ Renders ts' ss = true := by
  cases ts with
  | nil => simp [Renders] at h
  | cons t ts' => exact ⟨t, ts', rfl, by simpa [Renders] using h⟩

theorem Renders_append_inv {a b : List STok} : ∀ {ts : List Tok}, Renders ts (a ++ b) = true →
    ∃ t1 t2, ts = t1 ++ t2 ∧ Renders t1 a = true ∧ Renders t2 b = true := by
  induction a with
  | nil => intro ts h; exact ⟨[], ts, rfl, rfl, h⟩
  | cons s a ih =>
    intro ts h
    obtain ⟨t, ts', rfl, ht, h'⟩ := Renders_cons_inv (by simpa using h)
    obtain ⟨t1, t2, rfl, h1, h2⟩ := ih h'
    exact ⟨t :: t1, t2, rfl, by simp [Renders, ht, h1], h2⟩

theorem renders_kind {t : Tok} {s : STok} (h : t.renders s = true) : t.kind = s.kind := by
  simp only [Tok.renders, Bool.and_eq_true, beq_iff_eq] at h; exact h.1.1
theorem renders_value {t : Tok} {s : STok} (h : t.renders s = true) : t.value = s.value := by
  simp only [Tok.renders, Bool.and_eq_true, beq_iff_eq] at h; exact h.1.2
theorem renders_pos {t : Tok} {s : STok} {p : Pos} (h : t.renders s = true) (hp : s.pos = some p) : t.pos = p := by
  simp only [Tok.renders, Bool.and_eq_true, hp, beq_iff_eq] at h; exact h.2

theorem isPunct_of_renders {t : Tok} {s : STok} (h : t.renders s = true) (v : String) :
    t.isPunct v = (s.kind == .punct && s.value == v) := by
  unfold Tok.isPunct; rw [renders_kind h, renders_value h]
theorem isName_of_renders {t : Tok} {s : STok} (h : t.renders s = true) : t.isName = (s.kind == .name) := by
  unfold Tok.isName; rw [renders_kind h]

/-- Completeness of one production call: from `st`, reading a rendering of `a` followed by `rest`, the call
    returns exactly `a`, leaves `rest`, keeps counter and error list, provided the production depth `pd`
    of `a` fits below the limit; otherwise it panics with the depth error and nothing else. -/
def Cmpl {α : Type} (x : P α) (env : Env) (st : St) (a : α) (rest : List Tok) (pd : Nat) : Prop :=
  wp True x env st
    (fun r st' => r = a ∧ st' = { st with toks := rest } ∧ st.recursion + pd ≤ env.maxRec)
    (fun es => env.maxRec < st.recursion + pd ∧ ∃ p, es = st.errors ++ [{ msg := depthMsg, pos := p }])

/-- Using a callee's completeness inside a production entered from `st0`. -/
theorem wp_cmpl {α : Type} {x : P α} {env : Env} {st0 : St} {T rest' : List Tok} {a : α} {pd' pd : Nat}
    {Q : α → St → Prop}
    (hc : Cmpl x env (S st0 T) a rest' pd') (hpd : 1 + pd' ≤ pd)
    (hq : st0.recursion + 1 + pd' ≤ env.maxRec → Q a (S st0 rest')) :
    wp True x env (S st0 T) Q
      (fun es => env.maxRec < st0.recursion + pd ∧ ∃ p, es = st0.errors ++ [{ msg := depthMsg, pos := p }]) := by
  refine wp_conseq hc ?_ ?_
  · intro r st' ⟨hr, hst, hd⟩
    subst hr hst
    exact hq hd
  · intro es ⟨hd, p, hes⟩
    exact ⟨by simp only [S] at hd; omega, p, hes⟩

/-- The `enter()` of a production whose result has production depth `pd ≥ 1`. -/
theorem enter_fail_ok {env : Env} {st : St} {pd : Nat} (hpd : 1 ≤ pd) (h : st.recursion + 1 > env.maxRec) (p : Pos) :
    env.maxRec < st.recursion + pd ∧ ∃ p', st.errors ++ [{ msg := depthMsg, pos := p }] = st.errors ++ [{ msg := depthMsg, pos := p' }] :=
  ⟨by omega, p, rfl⟩

theorem exit_S (st : St) (T : List Tok) :
    ({ S st T with recursion := (S st T).recursion - 1 } : St) = { st with toks := T } := by
  simp [S]

theorem enter_S (st : St) : ({ st with recursion := st.recursion + 1 } : St) = S st st.toks := rfl

@[simp] theorem S_toks (st : St) (T : List Tok) : (S st T).toks = T := rfl
@[simp] theorem S_recursion (st : St) (T : List Tok) : (S st T).recursion = st.recursion + 1 := rfl
@[simp] theorem S_errors (st : St) (T : List Tok) : (S st T).errors = st.errors := rfl
@[simp] theorem peekOf_cons (env : Env) (t : Tok) (T : List Tok) : peekOf env (t :: T) = t := rfl

/-- Evaluating the parser's token tests on tokens that render known spec tokens (pass
    `isPunct_of_renders h`, `isName_of_renders h`, `renders_kind h`, … for the tokens involved). -/
syntax "tok_simp" ("[" Lean.Parser.Tactic.simpLemma,* "]")? : tactic
macro_rules
  | `(tactic| tok_simp) => `(tactic| tok_simp [])
  | `(tactic| tok_simp [$ts,*]) =>
    `(tactic| try simp only [S_toks, S_errors, S_recursion, peekOf_cons, anch, free,
        beq_self_eq_true, Bool.and_true, Bool.true_and, Bool.and_false, Bool.false_and, if_true, if_false,
        Bool.false_eq_true, reduceCtorEq, String.reduceBEq, String.reduceBNe, beq_iff_eq, decide_true, decide_false,
        Bool.not_true, Bool.not_false, ne_eq, not_true_eq_false, not_false_eq_true, bne_iff_ne,
        Bool.true_eq_false, ↓reduceIte, List.cons_append, List.nil_append, $ts,*])

/-- Pre-state facts of a completeness lemma. -/
structure Pre (env : Env) (st : St) (ts rest : List Tok) : Prop where
  toks : st.toks = ts ++ rest
  clean : Clean env (ts ++ rest)
  leak : env.leak = false

theorem Pre.enter {env : Env} {st : St} {ts rest : List Tok} (h : Pre env st ts rest) :
    ({ st with recursion := st.recursion + 1 } : St) = S st (ts ++ rest) := by
  rw [enter_S, h.toks]

theorem parseName_cmpl (env : Env) (st : St) (n : Name) (ts rest : List Tok)
    (hp : Pre env st ts rest) (hr : Renders ts n.stoks = true) :
    Cmpl parseName env st n rest pdName := by
  obtain ⟨t, ts', rfl, ht, hnil⟩ := Renders_cons_inv hr
  obtain rfl := Renders_nil_inv hnil
  unfold Cmpl parseName; wp_simp
  split
  · exact enter_fail_ok (by decide) (by assumption) _
  · have hc := hp.clean
    rw [hp.toks]
    simp only [List.cons_append, List.nil_append] at hc ⊢
    tok_simp [isName_of_renders ht]
    rw [consume_S hc, exit_S]
    refine ⟨?_, rfl, by simp only [pdName]; omega⟩
    have hv := renders_value ht
    have hp := renders_pos ht rfl
    simp only [anch] at hv hp
    cases n; simp_all

/-- A sub-call's pre-state inside a production entered from `st`. -/
theorem Pre.sub {env : Env} {st : St} {ts rest : List Tok} (h : Pre env st ts rest) {pre a b cur : List Tok}
    (hsplit : ts ++ rest = pre ++ cur) (hcur : cur = a ++ b := by rfl) : Pre env (S st cur) a b := by
  subst hcur
  exact ⟨rfl, (hsplit ▸ h.clean).right, h.leak⟩

theorem parseVariable_cmpl (env : Env) (st : St) (v : Variable) (ts rest : List Tok)
    (hp : Pre env st ts rest) (hr : Renders ts v.stoks = true) :
    Cmpl parseVariable env st v rest pdVariable := by
  obtain ⟨t, ts', rfl, ht, hn⟩ := Renders_cons_inv hr
  unfold Cmpl parseVariable; wp_simp
  split
  · exact enter_fail_ok (by decide) (by assumption) _
  · have hc := hp.clean
    rw [hp.toks]
    simp only [List.cons_append] at hc ⊢
    tok_simp [isPunct_of_renders ht]
    rw [consume_S hc]
    refine wp_cmpl (parseName_cmpl env _ v.name ts' rest (hp.sub (pre := [t]) rfl) hn) (Nat.le_refl _) ?_
    intro hd
    rw [exit_S]
    refine ⟨?_, rfl, by simp only [pdVariable, pdName] at hd ⊢; omega⟩
    have hp' := renders_pos ht rfl
    cases v; simp_all


theorem Pre.cleanAt {env : Env} {st : St} {ts rest : List Tok} (h : Pre env st ts rest) {pre cur : List Tok}
    (hsplit : ts ++ rest = pre ++ cur) : Clean env cur := (hsplit ▸ h.clean).right

theorem depth_fail {env : Env} {st : St} {pd : Nat} (hpd : 1 ≤ pd) (h : st.recursion + 1 > env.maxRec) (p : Pos) :
    env.maxRec < st.recursion + pd ∧
      ∃ p', st.errors ++ [{ msg := depthMsg, pos := p }] = st.errors ++ [{ msg := depthMsg, pos := p' }] :=
  ⟨by omega, p, rfl⟩

theorem parseNamedType_cmpl (env : Env) (st : St) (n : Name) (ts rest : List Tok)
    (hp : Pre env st ts rest) (hr : Renders ts n.stoks = true) :
    Cmpl parseNamedType env st n rest pdNamedType := by
  unfold Cmpl parseNamedType; wp_simp
  split
  · exact depth_fail (by decide) (by assumption) _
  · rw [hp.toks]
    refine wp_cmpl (parseName_cmpl env _ n ts rest (hp.sub (pre := []) rfl) hr) (Nat.le_refl _) ?_
    intro hd
    rw [exit_S]
    exact ⟨rfl, rfl, by simp only [pdNamedType, pdName] at hd ⊢; omega⟩

theorem parseTypeCondition_cmpl (env : Env) (st : St) (n : Name) (ts rest : List Tok)
    (hp : Pre env st ts rest) (hr : Renders ts (stoksTypeCondition n) = true) :
    Cmpl parseTypeCondition env st n rest pdTypeCondition := by
  obtain ⟨t, ts', rfl, ht, hn⟩ := Renders_cons_inv hr
  unfold Cmpl parseTypeCondition; wp_simp
  split
  · exact depth_fail (by decide) (by assumption) _
  · have hc := hp.clean
    rw [hp.toks]
    simp only [List.cons_append] at hc ⊢
    tok_simp [isName_of_renders ht, renders_value ht]
    rw [consume_S hc]
    refine wp_cmpl (parseNamedType_cmpl env _ n ts' rest (hp.sub (pre := [t]) rfl) hn) (Nat.le_refl _) ?_
    intro hd
    rw [exit_S]
    exact ⟨rfl, rfl, by simp only [pdTypeCondition] at hd ⊢; omega⟩

theorem parseOperationType_cmpl (env : Env) (st : St) (o : OpType) (ts rest : List Tok)
    (hp : Pre env st ts rest) (hr : Renders ts [anch .name o.value o.pos] = true) (hwf : isOperationType o.value = true) :
    Cmpl parseOperationType env st o rest pdOperationType := by
  obtain ⟨t, ts', rfl, ht, hnil⟩ := Renders_cons_inv hr
  obtain rfl := Renders_nil_inv hnil
  unfold Cmpl parseOperationType; wp_simp
  split
  · exact depth_fail (by decide) (by assumption) _
  · have hc := hp.clean
    rw [hp.toks]
    simp only [List.cons_append, List.nil_append] at hc ⊢
    have hv := renders_value ht
    simp only [anch] at hv
    tok_simp [isName_of_renders ht, hv, hwf]
    rw [consume_S hc, exit_S]
    refine ⟨?_, rfl, by simp only [pdOperationType]; omega⟩
    have hp' := renders_pos ht rfl
    cases o; simp_all

/-- The two shapes of a type that `parseType` builds before looking for `!`. -/
def TypeCmpl (t : TypeExpr) : Prop :=
  ∀ (f : Nat) (env : Env) (st : St) (ts rest : List Tok), Pre env st ts rest → Renders ts t.stoks = true →
    wfType t = true → (t.isNonNull = false → (peekOf env rest).isPunct "!" = false) →
    Cmpl (parseType f) env st t rest (pdType t)

def TypeCmplBang (t : TypeExpr) : Prop :=
  ∀ (f : Nat) (env : Env) (st : St) (ts rest : List Tok), Pre env st ts rest →
    Renders ts (t.stoks ++ [free .punct "!"]) = true → wfType t = true →
    Cmpl (parseType f) env st (.nonNull t) rest (pdType t)

theorem type_cmpl (t : TypeExpr) : TypeCmpl t ∧ (t.isNonNull = false → TypeCmplBang t) := by
  induction t with
  | named n =>
    constructor
    · intro f env st ts rest hp hr _ hfol
      cases f with
      | zero => simp [Cmpl, parseType, wp, oofP]
      | succ f =>
        obtain ⟨t, ts', rfl, ht, hnil⟩ := Renders_cons_inv (show Renders ts (anch .name n.name n.pos :: []) = true from hr)
        obtain rfl := Renders_nil_inv hnil
        unfold Cmpl parseType; wp_simp
        split
        · exact depth_fail (by simp only [pdType]; omega) (by assumption) _
        · rw [hp.toks]
          tok_simp [isPunct_of_renders ht]
          refine wp_cmpl (parseNamedType_cmpl env _ n [t] rest (hp.sub (pre := []) rfl) (by simpa [Name.stoks, Renders] using ht))
            (by simp only [pdType]; omega) ?_
          intro hd
          tok_simp [hfol rfl]
          exact ⟨trivial, by simp, by simp only [pdType] at hd ⊢; omega⟩
    · intro _ f env st ts rest hp hr _
      cases f with
      | zero => simp [Cmpl, parseType, wp, oofP]
      | succ f =>
        obtain ⟨t, ts', rfl, ht, hr'⟩ := Renders_cons_inv (show Renders ts (anch .name n.name n.pos :: [free .punct "!"]) = true from hr)
        obtain ⟨b, ts'', rfl, hb, hnil⟩ := Renders_cons_inv hr'
        obtain rfl := Renders_nil_inv hnil
        unfold Cmpl parseType; wp_simp
        split
        · exact depth_fail (by simp only [pdType]; omega) (by assumption) _
        · rw [hp.toks]
          tok_simp [isPunct_of_renders ht]
          refine wp_cmpl (parseNamedType_cmpl env _ n [t] (b :: rest) (hp.sub (pre := []) rfl) (by simpa [Name.stoks, Renders] using ht))
            (by simp only [pdType]; omega) ?_
          intro hd
          tok_simp [isPunct_of_renders hb]
          have hcb : Clean env (b :: rest) := hp.cleanAt (pre := [t]) rfl
          exact ⟨trivial, by simp [consume_S hcb], by simp only [pdType] at hd ⊢; omega⟩
  | list t' o c ih =>
    -- the common part: `[`, the element type, `]`
    have core : ∀ (f : Nat) (env : Env) (st : St) (ts tail rest : List Tok) (res : TypeExpr) (Q : Prop),
        Pre env st (ts ++ tail) rest → Renders ts (TypeExpr.list t' o c).stoks = true → wfType t' = true →
        -- what happens after the closing bracket, in the state that has `tail ++ rest` left
        (st.recursion + 1 + pdType t' ≤ env.maxRec →
          (if (peekOf env (tail ++ rest)).isPunct "!" = true then
            (TypeExpr.nonNull (TypeExpr.list t' o c) = res ∧
              ({ (St.consume env (S st (tail ++ rest))) with recursion := (St.consume env (S st (tail ++ rest))).recursion - 1 } : St) =
                { st with toks := rest }) ∧ Q
          else (TypeExpr.list t' o c = res ∧ ({ st with toks := tail ++ rest } : St) = { st with toks := rest }) ∧ Q)) →
        wp True (parseType (f + 1)) env st
          (fun r st' => r = res ∧ st' = { st with toks := rest } ∧ Q)
          (fun es => env.maxRec < st.recursion + pdType (TypeExpr.list t' o c) ∧
            ∃ p, es = st.errors ++ [{ msg := depthMsg, pos := p }]) := by
      intro f env st ts tail rest res Q hp hr hwf hk
      obtain ⟨tb, ts1, rfl, htb, hr1⟩ := Renders_cons_inv (show Renders ts (anch .punct "[" o :: (t'.stoks ++ [anch .punct "]" c])) = true from hr)
      obtain ⟨te, tc, rfl, hte, hr2⟩ := Renders_append_inv hr1
      obtain ⟨tcl, tn, rfl, htcl, hnil⟩ := Renders_cons_inv hr2
      obtain rfl := Renders_nil_inv hnil
      unfold parseType; wp_simp
      split
      · exact depth_fail (by simp only [pdType]; omega) (by assumption) _
      · rw [hp.toks]
        tok_simp [isPunct_of_renders htb, List.append_assoc]
        have hc1 : Clean env (tb :: (te ++ (tcl :: (tail ++ rest)))) := by
          have := hp.clean; simpa [List.append_assoc] using this
        rw [consume_S hc1]
        have hp1 : Pre env (S st (te ++ (tcl :: (tail ++ rest)))) te (tcl :: (tail ++ rest)) :=
          ⟨rfl, hc1.tail, hp.leak⟩
        refine wp_cmpl (ih.1 f env _ te (tcl :: (tail ++ rest)) hp1 hte hwf
          (by intro _; tok_simp [isPunct_of_renders htcl])) (by simp only [pdType]; omega) ?_
        intro hd
        tok_simp [isPunct_of_renders htcl]
        have hc2 : Clean env (tcl :: (tail ++ rest)) := hc1.tail.right
        rw [consume_S hc2]
        have hpos1 : tb.pos = o := renders_pos htb rfl
        have hpos2 : tcl.pos = c := renders_pos htcl rfl
        rw [hpos1, hpos2]
        have := hk hd
        tok_simp
        split
        · rename_i hb
          rw [if_pos hb] at this
          exact ⟨this.1.1, this.1.2, this.2⟩
        · rename_i hb
          rw [if_neg hb] at this
          refine ⟨this.1.1, ?_, this.2⟩
          have := this.1.2
          simp only [St.mk.injEq] at this ⊢
          simpa using this
    constructor
    · intro f env st ts rest hp hr hwf hfol
      cases f with
      | zero => simp [Cmpl, parseType, wp, oofP]
      | succ f =>
        unfold Cmpl
        refine core f env st ts [] rest _ _ (by simpa using hp) hr (by simpa [wfType] using hwf) ?_
        intro hd
        simp only [List.nil_append, hfol rfl, Bool.false_eq_true, if_false]
        exact ⟨⟨trivial, trivial⟩, by simp only [pdType] at hd ⊢; omega⟩
    · intro _ f env st ts rest hp hr hwf
      cases f with
      | zero => simp [Cmpl, parseType, wp, oofP]
      | succ f =>
        obtain ⟨t1, t2, rfl, h1, h2⟩ := Renders_append_inv hr
        obtain ⟨b, tn, rfl, hb, hnil⟩ := Renders_cons_inv h2
        obtain rfl := Renders_nil_inv hnil
        unfold Cmpl
        refine core f env st t1 [b] rest _ _ hp h1 (by simpa [wfType] using hwf) ?_
        intro hd
        have hcb : Clean env (b :: rest) := hp.cleanAt (pre := t1) (by simp)
        tok_simp [isPunct_of_renders hb]
        exact ⟨⟨trivial, by simp [consume_S hcb]⟩, by simp only [pdType] at hd ⊢; omega⟩
  | nonNull t' ih =>
    constructor
    · intro f env st ts rest hp hr hwf _
      simp only [wfType, Bool.and_eq_true, Bool.not_eq_true'] at hwf
      exact ih.2 hwf.1 f env st ts rest hp hr hwf.2
    · intro h; simp [TypeExpr.isNonNull] at h


/-! values -/

/-- Failure post-condition of everything that runs inside a production entered from `st0` whose result has
    production depth `1 + pd`. -/
abbrev DepthFail (env : Env) (st0 : St) (pd : Nat) : List Err → Prop :=
  fun es => env.maxRec < st0.recursion + 1 + pd ∧ ∃ p, es = st0.errors ++ [{ msg := depthMsg, pos := p }]

theorem wp_cmpl' {α : Type} {x : P α} {env : Env} {st0 : St} {T rest' : List Tok} {a : α} {pd' pd : Nat}
    {Q : α → St → Prop}
    (hc : Cmpl x env (S st0 T) a rest' pd') (hpd : pd' ≤ pd)
    (hq : st0.recursion + 1 + pd' ≤ env.maxRec → Q a (S st0 rest')) :
    wp True x env (S st0 T) Q (DepthFail env st0 pd) := by
  refine wp_conseq hc ?_ ?_
  · intro r st' ⟨hr, hst, hd⟩
    subst hr hst
    exact hq hd
  · intro es ⟨hd, p, hes⟩
    exact ⟨by simp only [S_recursion] at hd; omega, p, hes⟩

theorem nameValue_of {t : Tok} {v : Value} (c : Bool) (hwf : wfValue c v = true)
    (h : (∃ b p, v = .bool b p ∧ t.value = (if b then "true" else "false") ∧ t.pos = p) ∨
         (∃ p, v = .null p ∧ t.value = "null" ∧ t.pos = p) ∨
         (∃ s p, v = .enum s p ∧ t.value = s ∧ t.pos = p)) : nameValue t = v := by
  unfold nameValue
  rcases h with ⟨b, p, rfl, hv, hp⟩ | ⟨p, rfl, hv, hp⟩ | ⟨s, p, rfl, hv, hp⟩
  · cases b <;> simp_all
  · simp_all
  · simp only [wfValue, isReservedEnum, Bool.not_eq_true', Bool.or_eq_false_iff, beq_eq_false_iff_ne] at hwf
    simp_all

mutual
theorem value_cmpl : ∀ (v : Value) (c : Bool) (f : Nat) (env : Env) (st : St) (ts rest : List Tok),
    Pre env st ts rest → Renders ts v.stoks = true → wfValue c v = true →
    Cmpl (parseValue f c) env st v rest (pdValue v)
  | v, c, 0, env, st, ts, rest, _, _, _ => by simp [Cmpl, parseValue, wp, oofP]
  | v, c, f + 1, env, st, ts, rest, hp, hr, hwf => by
    -- one-token values
    have one : ∀ (t : Tok) (s : STok), ts = [t] → t.renders s = true → s.kind ≠ .punct → s.kind ≠ .invalid →
        pdValue v = 1 →
        (match s.kind with
         | .int => Value.int t.value t.pos
         | .float => Value.float t.value t.pos
         | .string => Value.str t.value t.pos
         | .name => nameValue t
         | _ => v) = v →
        Cmpl (parseValue (f + 1) c) env st v rest (pdValue v) := by
      intro t s hts ht hk1 hk2 hpd hres
      subst hts
      unfold Cmpl parseValue; wp_simp
      split
      · exact depth_fail (by omega) (by assumption) _
      · have hc : Clean env (t :: rest) := hp.clean
        rw [hp.toks]
        tok_simp [renders_kind ht]
        cases hk : s.kind <;> simp only [hk] at hres hk1 hk2 ⊢ <;>
          first
          | exact absurd rfl hk1
          | exact absurd rfl hk2
          | (wp_simp; rw [consume_S hc]; exact ⟨hres, by simp, by omega⟩)
    match v, hr, hwf, one with
    | .int sv p, hr, hwf, one =>
      obtain ⟨t, ts', rfl, ht, hnil⟩ := Renders_cons_inv (show Renders ts (anch .int sv p :: []) = true from hr)
      obtain rfl := Renders_nil_inv hnil
      have hv : t.value = sv := renders_value ht
      have hpos : t.pos = p := renders_pos ht rfl
      exact one t _ rfl ht (by simp [anch]) (by simp [anch]) rfl (by simp [anch, hv, hpos])
    | .float sv p, hr, hwf, one =>
      obtain ⟨t, ts', rfl, ht, hnil⟩ := Renders_cons_inv (show Renders ts (anch .float sv p :: []) = true from hr)
      obtain rfl := Renders_nil_inv hnil
      have hv : t.value = sv := renders_value ht
      have hpos : t.pos = p := renders_pos ht rfl
      exact one t _ rfl ht (by simp [anch]) (by simp [anch]) rfl (by simp [anch, hv, hpos])
    | .str sv p, hr, hwf, one =>
      obtain ⟨t, ts', rfl, ht, hnil⟩ := Renders_cons_inv (show Renders ts (anch .string sv p :: []) = true from hr)
      obtain rfl := Renders_nil_inv hnil
      have hv : t.value = sv := renders_value ht
      have hpos : t.pos = p := renders_pos ht rfl
      exact one t _ rfl ht (by simp [anch]) (by simp [anch]) rfl (by simp [anch, hv, hpos])
    | .bool b p, hr, hwf, one =>
      obtain ⟨t, ts', rfl, ht, hnil⟩ := Renders_cons_inv (show Renders ts (anch .name (if b then "true" else "false") p :: []) = true from hr)
      obtain rfl := Renders_nil_inv hnil
      have hv : t.value = (if b then "true" else "false") := renders_value ht
      have hpos : t.pos = p := renders_pos ht rfl
      exact one t _ rfl ht (by simp [anch]) (by simp [anch]) rfl
        (by simp only [anch]; exact nameValue_of c hwf (Or.inl ⟨b, p, rfl, hv, hpos⟩))
    | .null p, hr, hwf, one =>
      obtain ⟨t, ts', rfl, ht, hnil⟩ := Renders_cons_inv (show Renders ts (anch .name "null" p :: []) = true from hr)
      obtain rfl := Renders_nil_inv hnil
      have hv : t.value = "null" := renders_value ht
      have hpos : t.pos = p := renders_pos ht rfl
      exact one t _ rfl ht (by simp [anch]) (by simp [anch]) rfl
        (by simp only [anch]; exact nameValue_of c hwf (Or.inr (Or.inl ⟨p, rfl, hv, hpos⟩)))
    | .enum sv p, hr, hwf, one =>
      obtain ⟨t, ts', rfl, ht, hnil⟩ := Renders_cons_inv (show Renders ts (anch .name sv p :: []) = true from hr)
      obtain rfl := Renders_nil_inv hnil
      have hv : t.value = sv := renders_value ht
      have hpos : t.pos = p := renders_pos ht rfl
      exact one t _ rfl ht (by simp [anch]) (by simp [anch]) rfl
        (by simp only [anch]; exact nameValue_of c hwf (Or.inr (Or.inr ⟨sv, p, rfl, hv, hpos⟩)))
    | .var vr, hr, hwf, _ =>
      have hr' : Renders ts vr.stoks = true := hr
      obtain ⟨t, ts', rfl, ht, _⟩ := Renders_cons_inv (show Renders ts (anch .punct "$" vr.dollar :: vr.name.stoks) = true from hr)
      have hcn : c = false := by simpa [wfValue] using hwf
      subst hcn
      unfold Cmpl parseValue; wp_simp
      split
      · exact depth_fail (by simp only [pdValue]; omega) (by assumption) _
      · rw [hp.toks]
        tok_simp [renders_kind ht, renders_value ht]
        wp_simp
        refine wp_cmpl (parseVariable_cmpl env _ vr (t :: ts') rest (hp.sub (pre := []) rfl) hr') (by simp only [pdValue]; omega) ?_
        intro hd
        exact ⟨by first | rfl | trivial, by simp, by simp only [pdValue] at hd ⊢; omega⟩
    | .list vs o cl, hr, hwf, _ =>
      obtain ⟨t, ts', rfl, ht, hr1⟩ := Renders_cons_inv (show Renders ts (anch .punct "[" o :: (stoksValues vs ++ [anch .punct "]" cl])) = true from hr)
      unfold Cmpl parseValue; wp_simp
      split
      · exact depth_fail (by simp only [pdValue]; omega) (by assumption) _
      · have hc : Clean env (t :: (ts' ++ rest)) := hp.clean
        rw [hp.toks]
        tok_simp [renders_kind ht, renders_value ht]
        wp_simp
        rw [consume_S hc, show t.pos = o from renders_pos ht rfl]
        refine wp_conseq (values_cmpl vs c f env st ts' rest o cl [] hc.tail hp.leak (by omega) hr1 (by simpa [wfValue] using hwf)) ?_ ?_
        · intro r st' ⟨hr, hst, hd⟩
          subst hr hst
          exact ⟨by simp, by simp, by simp only [pdValue]; omega⟩
        · intro es ⟨hd, p, hes⟩
          exact ⟨by simp only [pdValue]; omega, p, hes⟩
    | .obj fs o cl, hr, hwf, _ =>
      obtain ⟨t, ts', rfl, ht, hr1⟩ := Renders_cons_inv (show Renders ts (anch .punct "{" o :: (stoksFields fs ++ [anch .punct "}" cl])) = true from hr)
      unfold Cmpl parseValue; wp_simp
      split
      · exact depth_fail (by simp only [pdValue]; omega) (by assumption) _
      · have hc : Clean env (t :: (ts' ++ rest)) := hp.clean
        rw [hp.toks]
        tok_simp [renders_kind ht, renders_value ht]
        wp_simp
        rw [consume_S hc, show t.pos = o from renders_pos ht rfl]
        refine wp_conseq (fields_cmpl fs c f env st ts' rest o cl [] hc.tail hp.leak (by omega) hr1 (by simpa [wfValue] using hwf)) ?_ ?_
        · intro r st' ⟨hr, hst, hd⟩
          subst hr hst
          exact ⟨by simp, by simp, by simp only [pdValue]; omega⟩
        · intro es ⟨hd, p, hes⟩
          exact ⟨by simp only [pdValue]; omega, p, hes⟩
/-- The `[ … ]` loop, running inside the `parseValue` frame entered from `st0`. -/
theorem values_cmpl : ∀ (vs : List Value) (c : Bool) (f : Nat) (env : Env) (st0 : St) (ts rest : List Tok) (o cl : Pos)
    (acc : List Value), Clean env (ts ++ rest) → env.leak = false → st0.recursion + 1 ≤ env.maxRec →
    Renders ts (stoksValues vs ++ [anch .punct "]" cl]) = true → wfValues c vs = true →
    wp True (listLoop f c o acc) env (S st0 (ts ++ rest))
      (fun r st' => r = .list (acc.reverse ++ vs) o cl ∧ st' = S st0 rest ∧ st0.recursion + 1 + pdValues vs ≤ env.maxRec)
      (DepthFail env st0 (pdValues vs))
  | vs, c, 0, env, st0, ts, rest, o, cl, acc, _, _, _, _, _ => by simp [listLoop, wp, oofP]
  | [], c, f + 1, env, st0, ts, rest, o, cl, acc, hc, hl, hin, hr, hwf => by
    obtain ⟨t, ts', rfl, ht, hnil⟩ := Renders_cons_inv (show Renders ts (anch .punct "]" cl :: []) = true from hr)
    obtain rfl := Renders_nil_inv hnil
    have hc : Clean env (t :: rest) := hc
    unfold listLoop; wp_simp
    tok_simp [isPunct_of_renders ht]
    rw [consume_S hc, show t.pos = cl from renders_pos ht rfl]
    exact ⟨by simp, rfl, by simpa [pdValues] using hin⟩
  | v :: vs, c, f + 1, env, st0, ts, rest, o, cl, acc, hc, hl, hin, hr, hwf => by
    obtain ⟨tv, tr, rfl, hv, hr'⟩ := Renders_append_inv (show Renders ts (v.stoks ++ (stoksValues vs ++ [anch .punct "]" cl])) = true by
      simpa [stoksValues, List.append_assoc] using hr)
    simp only [wfValues, Bool.and_eq_true] at hwf
    -- the first token of a value is never `]`
    have hfirst : (peekOf env (tv ++ tr ++ rest)).isPunct "]" = false := by
      cases v <;> simp only [Value.stoks, Variable.stoks] at hv <;>
        (obtain ⟨t, ts', rfl, ht, _⟩ := Renders_cons_inv hv; tok_simp [isPunct_of_renders ht]; try (first | rfl | simp | decide))
    unfold listLoop; wp_simp
    tok_simp [hfirst]
    have hpv : Pre env (S st0 (tv ++ tr ++ rest)) tv (tr ++ rest) := ⟨by simp, by simpa using hc, hl⟩
    refine wp_cmpl' (value_cmpl v c f env _ tv (tr ++ rest) hpv hv hwf.1) (by simp only [pdValues]; omega) ?_
    intro hd
    have hc' : Clean env (tr ++ rest) := by
      have := hc; rw [List.append_assoc] at this; exact this.right
    refine wp_conseq (values_cmpl vs c f env st0 tr rest o cl (v :: acc) hc' hl hin hr' hwf.2) ?_ ?_
    · intro r st' ⟨hr, hst, hd2⟩
      subst hr hst
      exact ⟨by simp, rfl, by simp only [pdValues]; omega⟩
    · intro es ⟨hd2, p, hes⟩
      exact ⟨by simp only [pdValues]; omega, p, hes⟩
/-- The `{ … }` loop of an object value. -/
theorem fields_cmpl : ∀ (fs : List (Name × Value)) (c : Bool) (f : Nat) (env : Env) (st0 : St) (ts rest : List Tok) (o cl : Pos)
    (acc : List (Name × Value)), Clean env (ts ++ rest) → env.leak = false → st0.recursion + 1 ≤ env.maxRec →
    Renders ts (stoksFields fs ++ [anch .punct "}" cl]) = true → wfFields c fs = true →
    wp True (objLoop f c o acc) env (S st0 (ts ++ rest))
      (fun r st' => r = .obj (acc.reverse ++ fs) o cl ∧ st' = S st0 rest ∧ st0.recursion + 1 + pdFields fs ≤ env.maxRec)
      (DepthFail env st0 (pdFields fs))
  | fs, c, 0, env, st0, ts, rest, o, cl, acc, _, _, _, _, _ => by simp [objLoop, wp, oofP]
  | [], c, f + 1, env, st0, ts, rest, o, cl, acc, hc, hl, hin, hr, hwf => by
    obtain ⟨t, ts', rfl, ht, hnil⟩ := Renders_cons_inv (show Renders ts (anch .punct "}" cl :: []) = true from hr)
    obtain rfl := Renders_nil_inv hnil
    have hc : Clean env (t :: rest) := hc
    unfold objLoop; wp_simp
    tok_simp [isPunct_of_renders ht]
    rw [consume_S hc, show t.pos = cl from renders_pos ht rfl]
    exact ⟨by simp, rfl, by simpa [pdFields] using hin⟩
  | (n, v) :: fs, c, f + 1, env, st0, ts, rest, o, cl, acc, hc, hl, hin, hr, hwf => by
    obtain ⟨tn, tr0, rfl, hn, hr0⟩ := Renders_append_inv (show Renders ts (n.stoks ++ (free .punct ":" :: (v.stoks ++ (stoksFields fs ++ [anch .punct "}" cl])))) = true by
      simpa [stoksFields, List.append_assoc] using hr)
    obtain ⟨tcol, tr1, rfl, hcol, hr1⟩ := Renders_cons_inv hr0
    obtain ⟨tv, tr, rfl, hv, hr'⟩ := Renders_append_inv hr1
    simp only [wfFields, Bool.and_eq_true] at hwf
    obtain ⟨t, ts', rfl, ht, hnil⟩ := Renders_cons_inv (show Renders tn (anch .name n.name n.pos :: []) = true from hn)
    obtain rfl := Renders_nil_inv hnil
    unfold objLoop; wp_simp
    tok_simp [isPunct_of_renders ht, List.append_assoc]
    have hc0 : Clean env (t :: tcol :: (tv ++ (tr ++ rest))) := by simpa [List.append_assoc] using hc
    have hpn : Pre env (S st0 (t :: tcol :: (tv ++ (tr ++ rest)))) [t] (tcol :: (tv ++ (tr ++ rest))) := ⟨rfl, hc0, hl⟩
    refine wp_cmpl' (parseName_cmpl env _ n [t] _ hpn hn) (by simp only [pdFields]; omega) ?_
    intro hd
    tok_simp [isPunct_of_renders hcol]
    rw [consume_S hc0.tail]
    have hpv : Pre env (S st0 (tv ++ (tr ++ rest))) tv (tr ++ rest) := ⟨rfl, hc0.tail.tail, hl⟩
    refine wp_cmpl' (value_cmpl v c f env _ tv (tr ++ rest) hpv hv hwf.1) (by simp only [pdFields]; omega) ?_
    intro hd1
    refine wp_conseq (fields_cmpl fs c f env st0 tr rest o cl ((n, v) :: acc) hc0.tail.tail.right hl hin hr' hwf.2) ?_ ?_
    · intro r st' ⟨hr, hst, hd2⟩
      subst hr hst
      exact ⟨by simp, rfl, by simp only [pdFields, pdName] at hd ⊢; omega⟩
    · intro es ⟨hd2, p, hes⟩
      exact ⟨by simp only [pdFields]; omega, p, hes⟩
end


/-! arguments, directives, variable definitions -/

theorem parseArgument_cmpl (a : Argument) (f : Nat) (env : Env) (st : St) (ts rest : List Tok)
    (hp : Pre env st ts rest) (hr : Renders ts a.stoks = true) (hwf : wfValue false a.value = true) :
    Cmpl (parseArgument f) env st a rest (pdArgument a) := by
  obtain ⟨tn, tr0, rfl, hn, hr0⟩ := Renders_append_inv (show Renders ts (a.name.stoks ++ (free .punct ":" :: a.value.stoks)) = true from hr)
  obtain ⟨tcol, tv, rfl, hcol, hv⟩ := Renders_cons_inv hr0
  obtain ⟨t, ts', rfl, ht, hnil⟩ := Renders_cons_inv (show Renders tn (anch .name a.name.name a.name.pos :: []) = true from hn)
  obtain rfl := Renders_nil_inv hnil
  unfold Cmpl parseArgument; wp_simp
  split
  · exact depth_fail (by simp only [pdArgument]; omega) (by assumption) _
  · have hc : Clean env (t :: tcol :: (tv ++ rest)) := by simpa using hp.clean
    rw [hp.toks]
    tok_simp
    have hpn : Pre env (S st (t :: tcol :: tv ++ rest)) [t] (tcol :: (tv ++ rest)) := ⟨by simp, by simpa using hc, hp.leak⟩
    refine wp_cmpl (parseName_cmpl env _ a.name [t] _ hpn hn) (by simp only [pdArgument]; omega) ?_
    intro hd
    tok_simp [isPunct_of_renders hcol]
    rw [consume_S hc.tail]
    have hpv : Pre env (S st (tv ++ rest)) tv rest := ⟨rfl, hc.tail.tail, hp.leak⟩
    refine wp_cmpl (value_cmpl a.value false f env _ tv rest hpv hv hwf) (by simp only [pdArgument]; omega) ?_
    intro hd1
    exact ⟨by first | rfl | trivial, by simp, by simp only [pdArgument, pdName] at hd hd1 ⊢; omega⟩

/-- The first token of an argument list, a directive list, … is what the parser tests for. -/
theorem first_argList {env : Env} {as : List Argument} {ts rest : List Tok}
    (hr : Renders ts (stoksArgList as ++ [free .punct ")"]) = true) :
    (peekOf env (ts ++ rest)).isPunct ")" = as.isEmpty := by
  cases as with
  | nil =>
    obtain ⟨t, ts', rfl, ht, _⟩ := Renders_cons_inv (show Renders ts (free .punct ")" :: []) = true from hr)
    tok_simp [isPunct_of_renders ht]
    rfl
  | cons a as =>
    obtain ⟨t, ts', rfl, ht, _⟩ := Renders_cons_inv (show Renders ts (anch .name a.name.name a.name.pos :: _) = true by
      simpa [stoksArgList, Argument.stoks, Name.stoks] using hr)
    tok_simp [isPunct_of_renders ht]
    rfl

theorem args_cmpl : ∀ (as : List Argument) (f : Nat) (env : Env) (st0 : St) (ts rest : List Tok) (acc : List Argument),
    Clean env (ts ++ rest) → env.leak = false → st0.recursion + 1 ≤ env.maxRec →
    Renders ts (stoksArgList as ++ [free .punct ")"]) = true → wfArgList as = true → (acc.isEmpty = true → as.isEmpty = false) →
    wp True (argsLoop f acc) env (S st0 (ts ++ rest))
      (fun r st' => r = acc.reverse ++ as ∧ st' = S st0 rest ∧ st0.recursion + 1 + pdArgList as ≤ env.maxRec)
      (DepthFail env st0 (pdArgList as))
  | as, 0, env, st0, ts, rest, acc, _, _, _, _, _, _ => by simp [argsLoop, wp, oofP]
  | [], f + 1, env, st0, ts, rest, acc, hc, hl, hin, hr, hwf, hne => by
    have hfirst := first_argList (env := env) (rest := rest) hr
    obtain ⟨t, ts', rfl, ht, hnil⟩ := Renders_cons_inv (show Renders ts (free .punct ")" :: []) = true from hr)
    obtain rfl := Renders_nil_inv hnil
    have hc : Clean env (t :: rest) := hc
    have hacc : acc.isEmpty = false := by
      cases h : acc.isEmpty
      · rfl
      · simpa using hne h
    unfold argsLoop; wp_simp
    tok_simp [isPunct_of_renders ht, hacc]
    wp_simp
    rw [consume_S hc]
    exact ⟨by simp, rfl, by simpa [pdArgList] using hin⟩
  | a :: as, f + 1, env, st0, ts, rest, acc, hc, hl, hin, hr, hwf, hne => by
    have hfirst := first_argList (env := env) (rest := rest) hr
    obtain ⟨ta, tr, rfl, ha, hr'⟩ := Renders_append_inv (show Renders ts (a.stoks ++ (stoksArgList as ++ [free .punct ")"])) = true by
      simpa [stoksArgList, List.append_assoc] using hr)
    simp only [wfArgList, Bool.and_eq_true] at hwf
    unfold argsLoop; wp_simp
    simp only [S_toks, hfirst, List.isEmpty_cons, Bool.false_eq_true, if_false]
    have hpa : Pre env (S st0 (ta ++ tr ++ rest)) ta (tr ++ rest) := ⟨by simp, by simpa using hc, hl⟩
    refine wp_cmpl' (parseArgument_cmpl a f env _ ta (tr ++ rest) hpa ha hwf.1) (by simp only [pdArgList]; omega) ?_
    intro hd
    have hc' : Clean env (tr ++ rest) := by
      have := hc; rw [List.append_assoc] at this; exact this.right
    refine wp_conseq (args_cmpl as f env st0 tr rest (a :: acc) hc' hl hin hr' hwf.2 (by simp)) ?_ ?_
    · intro r st' ⟨hr, hst, hd2⟩
      subst hr hst
      exact ⟨by simp, rfl, by simp only [pdArgList]; omega⟩
    · intro es ⟨hd2, p, hes⟩
      exact ⟨by simp only [pdArgList]; omega, p, hes⟩

theorem parseOptionalArguments_cmpl (as : List Argument) (f : Nat) (env : Env) (st : St) (ts rest : List Tok)
    (hp : Pre env st ts rest) (hr : Renders ts (stoksArgs as) = true) (hwf : wfArgList as = true)
    (hfol : as.isEmpty = true → (peekOf env rest).isPunct "(" = false) :
    Cmpl (parseOptionalArguments f) env st as rest (pdArgs as) := by
  unfold Cmpl parseOptionalArguments; wp_simp
  split
  · exact depth_fail (by simp only [pdArgs]; omega) (by assumption) _
  · rw [hp.toks]
    cases hemp : as.isEmpty with
    | true =>
      have : as = [] := by simpa using hemp
      subst this
      obtain rfl := Renders_nil_inv (show Renders ts [] = true from hr)
      simp only [List.nil_append, hfol rfl, Bool.false_eq_true, if_false]
      wp_simp
      exact ⟨trivial, by simp, by simp only [pdArgs, pdArgList]; omega⟩
    | false =>
      simp only [stoksArgs, hemp, Bool.false_eq_true, if_false] at hr
      obtain ⟨t, ts', rfl, ht, hr1⟩ := Renders_cons_inv hr
      have hc : Clean env (t :: (ts' ++ rest)) := hp.clean
      tok_simp [isPunct_of_renders ht]
      wp_simp
      rw [consume_S hc]
      refine wp_conseq (args_cmpl as f env st ts' rest [] hc.tail hp.leak (by omega) hr1 hwf (fun _ => hemp)) ?_ ?_
      · intro r st' ⟨hr, hst, hd⟩
        subst hr hst
        exact ⟨by simp, by simp, by simp only [pdArgs]; omega⟩
      · intro es ⟨hd, p, hes⟩
        exact ⟨by simp only [pdArgs]; omega, p, hes⟩


theorem first_dirs {env : Env} {ds : List Directive} {ts rest : List Tok} (v : String)
    (hr : Renders ts (stoksDirs ds) = true) :
    (peekOf env (ts ++ rest)).isPunct v = if ds.isEmpty then (peekOf env rest).isPunct v else ("@" == v) := by
  cases ds with
  | nil =>
    obtain rfl := Renders_nil_inv (show Renders ts [] = true from hr)
    rfl
  | cons d ds =>
    obtain ⟨t, ts', rfl, ht, _⟩ := Renders_cons_inv (show Renders ts (anch .punct "@" d.atPos :: _) = true by
      simpa [stoksDirs, Directive.stoks] using hr)
    tok_simp [isPunct_of_renders ht]
    simp

theorem dirs_cmpl : ∀ (ds : List Directive) (f : Nat) (env : Env) (st0 : St) (ts rest : List Tok) (acc : List Directive),
    Clean env (ts ++ rest) → env.leak = false → st0.recursion + 1 ≤ env.maxRec →
    Renders ts (stoksDirs ds) = true → wfDirs ds = true →
    (peekOf env rest).isPunct "@" = false → (peekOf env rest).isPunct "(" = false →
    wp True (dirsLoop f acc) env (S st0 (ts ++ rest))
      (fun r st' => r = acc.reverse ++ ds ∧ st' = S st0 rest ∧ st0.recursion + 1 + pdDirList ds ≤ env.maxRec)
      (DepthFail env st0 (pdDirList ds))
  | ds, 0, env, st0, ts, rest, acc, _, _, _, _, _, _, _ => by simp [dirsLoop, wp, oofP]
  | [], f + 1, env, st0, ts, rest, acc, hc, hl, hin, hr, hwf, hat, hpar => by
    obtain rfl := Renders_nil_inv (show Renders ts [] = true from hr)
    unfold dirsLoop; wp_simp
    simp only [S_toks, List.nil_append, hat, Bool.false_eq_true, if_false]
    wp_simp
    exact ⟨by simp, by first | rfl | trivial, by simpa [pdDirList] using hin⟩
  | d :: ds, f + 1, env, st0, ts, rest, acc, hc, hl, hin, hr, hwf, hat, hpar => by
    obtain ⟨tat, tr0, rfl, hta, hr0⟩ := Renders_cons_inv (show Renders ts (anch .punct "@" d.atPos :: (d.name.stoks ++ (stoksArgs d.args ++ stoksDirs ds))) = true by
      simpa [stoksDirs, Directive.stoks, List.append_assoc] using hr)
    obtain ⟨tn, tr1, rfl, hn, hr1⟩ := Renders_append_inv hr0
    obtain ⟨targs, tds, rfl, hargs, hds⟩ := Renders_append_inv hr1
    simp only [wfDirs, Bool.and_eq_true] at hwf
    have hc0 : Clean env (tat :: (tn ++ (targs ++ (tds ++ rest)))) := by simpa [List.append_assoc] using hc
    unfold dirsLoop; wp_simp
    tok_simp [isPunct_of_renders hta, List.append_assoc]
    rw [consume_S hc0]
    have hpn : Pre env (S st0 (tn ++ (targs ++ (tds ++ rest)))) tn (targs ++ (tds ++ rest)) := ⟨rfl, hc0.tail, hl⟩
    refine wp_cmpl' (parseName_cmpl env _ d.name tn _ hpn hn) (by simp only [pdDirList]; omega) ?_
    intro hd
    have hpa : Pre env (S st0 (targs ++ (tds ++ rest))) targs (tds ++ rest) := ⟨rfl, hc0.tail.right, hl⟩
    have hfola : d.args.isEmpty = true → (peekOf env (tds ++ rest)).isPunct "(" = false := by
      intro _
      rw [first_dirs "(" hds]
      split
      · exact hpar
      · rfl
    refine wp_cmpl' (parseOptionalArguments_cmpl d.args f env _ targs (tds ++ rest) hpa hargs hwf.1 hfola)
      (by simp only [pdDirList]; omega) ?_
    intro hd1
    rw [show tat.pos = d.atPos from renders_pos hta rfl]
    refine wp_conseq (dirs_cmpl ds f env st0 tds rest (_ :: acc) hc0.tail.right.right hl hin hds hwf.2 hat hpar) ?_ ?_
    · intro r st' ⟨hr, hst, hd2⟩
      subst hr hst
      exact ⟨by simp, rfl, by simp only [pdDirList, pdName] at hd ⊢; omega⟩
    · intro es ⟨hd2, p, hes⟩
      exact ⟨by simp only [pdDirList]; omega, p, hes⟩

theorem parseOptionalDirectives_cmpl (ds : List Directive) (f : Nat) (env : Env) (st : St) (ts rest : List Tok)
    (hp : Pre env st ts rest) (hr : Renders ts (stoksDirs ds) = true) (hwf : wfDirs ds = true)
    (hat : (peekOf env rest).isPunct "@" = false) (hpar : (peekOf env rest).isPunct "(" = false) :
    Cmpl (parseOptionalDirectives f) env st ds rest (pdDirs ds) := by
  unfold Cmpl parseOptionalDirectives; wp_simp
  split
  · exact depth_fail (by simp only [pdDirs]; omega) (by assumption) _
  · rw [hp.toks]
    refine wp_conseq (dirs_cmpl ds f env st ts rest [] hp.clean hp.leak (by omega) hr hwf hat hpar) ?_ ?_
    · intro r st' ⟨hr, hst, hd⟩
      subst hr hst
      exact ⟨by simp, by simp, by simp only [pdDirs]; omega⟩
    · intro es ⟨hd, p, hes⟩
      exact ⟨by simp only [pdDirs]; omega, p, hes⟩


theorem parseType_cmpl (t : TypeExpr) : TypeCmpl t := (type_cmpl t).1

theorem parseVariableDefinition_cmpl (v : VarDef) (f : Nat) (env : Env) (st : St) (ts rest : List Tok)
    (hp : Pre env st ts rest) (hr : Renders ts v.stoks = true) (hwf : wfVarDef v = true)
    (hfolEq : v.default = none → (peekOf env rest).isPunct "=" = false)
    (hfolBang : v.default = none → v.type.isNonNull = false → (peekOf env rest).isPunct "!" = false) :
    Cmpl (parseVariableDefinition f) env st v rest (pdVarDef v) := by
  obtain ⟨var, ty, dv⟩ := v
  cases dv with
  | none =>
    simp only [wfVarDef, Bool.and_eq_true] at hwf
    simp only at hfolEq hfolBang
    obtain ⟨tvar, tr0, rfl, hvar, hr0⟩ := Renders_append_inv (show Renders ts (var.stoks ++ (free .punct ":" :: (ty.stoks ++ []))) = true from hr)
    obtain ⟨tcol, tr1, rfl, hcol, hr1⟩ := Renders_cons_inv hr0
    simp only [List.append_nil] at hr1
    unfold Cmpl parseVariableDefinition; wp_simp
    split
    · exact depth_fail (by simp only [pdVarDef]; omega) (by assumption) _
    · have hc : Clean env (tvar ++ (tcol :: (tr1 ++ rest))) := by simpa [List.append_assoc] using hp.clean
      rw [hp.toks]
      simp only [List.append_assoc, List.cons_append]
      have hpv : Pre env (S st (tvar ++ (tcol :: (tr1 ++ rest)))) tvar (tcol :: (tr1 ++ rest)) := ⟨rfl, hc, hp.leak⟩
      refine wp_cmpl (parseVariable_cmpl env _ var tvar _ hpv hvar) (by simp only [pdVarDef]; omega) ?_
      intro hd
      tok_simp [isPunct_of_renders hcol]
      rw [consume_S hc.right]
      have hpt : Pre env (S st (tr1 ++ rest)) tr1 rest := ⟨rfl, hc.right.tail, hp.leak⟩
      refine wp_cmpl (parseType_cmpl ty f env _ tr1 rest hpt hr1 hwf.1 (hfolBang trivial)) (by simp only [pdVarDef]; omega) ?_
      intro hd1
      simp only [S_toks, hfolEq trivial, Bool.false_eq_true, if_false]
      wp_simp
      exact ⟨by first | rfl | trivial, by simp, by simp only [pdVarDef, pdVariable, pdName] at hd hd1 ⊢; omega⟩
  | some d =>
    simp only [wfVarDef, Bool.and_eq_true] at hwf
    obtain ⟨tvar, tr0, rfl, hvar, hr0⟩ := Renders_append_inv (show Renders ts (var.stoks ++ (free .punct ":" :: (ty.stoks ++ (free .punct "=" :: d.stoks)))) = true from hr)
    obtain ⟨tcol, tr1, rfl, hcol, hr1⟩ := Renders_cons_inv hr0
    obtain ⟨tty, tdv, rfl, hty, hdv⟩ := Renders_append_inv hr1
    obtain ⟨teq, td, rfl, heq, hd'⟩ := Renders_cons_inv hdv
    unfold Cmpl parseVariableDefinition; wp_simp
    split
    · exact depth_fail (by simp only [pdVarDef]; omega) (by assumption) _
    · have hc : Clean env (tvar ++ (tcol :: (tty ++ (teq :: (td ++ rest))))) := by simpa [List.append_assoc] using hp.clean
      rw [hp.toks]
      simp only [List.append_assoc, List.cons_append]
      have hpv : Pre env (S st (tvar ++ (tcol :: (tty ++ (teq :: (td ++ rest)))))) tvar (tcol :: (tty ++ (teq :: (td ++ rest)))) := ⟨rfl, hc, hp.leak⟩
      refine wp_cmpl (parseVariable_cmpl env _ var tvar _ hpv hvar) (by simp only [pdVarDef]; omega) ?_
      intro hd
      tok_simp [isPunct_of_renders hcol]
      rw [consume_S hc.right]
      have hpt : Pre env (S st (tty ++ (teq :: (td ++ rest)))) tty (teq :: (td ++ rest)) := ⟨rfl, hc.right.tail, hp.leak⟩
      refine wp_cmpl (parseType_cmpl ty f env _ tty _ hpt hty hwf.1 (by intro _; tok_simp [isPunct_of_renders heq]; try rfl))
        (by simp only [pdVarDef]; omega) ?_
      intro hd1
      tok_simp [isPunct_of_renders heq]
      wp_simp
      rw [consume_S hc.right.tail.right]
      have hpd : Pre env (S st (td ++ rest)) td rest := ⟨rfl, hc.right.tail.right.tail, hp.leak⟩
      refine wp_cmpl (value_cmpl d true f env _ td rest hpd hd' hwf.2) (by simp only [pdVarDef]; omega) ?_
      intro hd2
      exact ⟨by first | rfl | trivial, by simp, by simp only [pdVarDef, pdVariable, pdName] at hd hd1 hd2 ⊢; omega⟩

theorem first_varDefList {env : Env} {vs : List VarDef} {ts rest : List Tok}
    (hr : Renders ts (stoksVarDefList vs ++ [free .punct ")"]) = true) (v : String) :
    (peekOf env (ts ++ rest)).isPunct v = if vs.isEmpty then (")" == v) else ("$" == v) := by
  cases vs with
  | nil =>
    obtain ⟨t, ts', rfl, ht, _⟩ := Renders_cons_inv (show Renders ts (free .punct ")" :: []) = true from hr)
    tok_simp [isPunct_of_renders ht]
    simp
  | cons a as =>
    obtain ⟨t, ts', rfl, ht, _⟩ := Renders_cons_inv (show Renders ts (anch .punct "$" a.var.dollar :: _) = true by
      simpa [stoksVarDefList, VarDef.stoks, Variable.stoks] using hr)
    tok_simp [isPunct_of_renders ht]
    simp

theorem varDefs_cmpl : ∀ (vs : List VarDef) (f : Nat) (env : Env) (st0 : St) (ts rest : List Tok) (acc : List VarDef),
    Clean env (ts ++ rest) → env.leak = false → st0.recursion + 1 ≤ env.maxRec →
    Renders ts (stoksVarDefList vs ++ [free .punct ")"]) = true → wfVarDefList vs = true → (acc.isEmpty = true → vs.isEmpty = false) →
    wp True (varDefsLoop f acc) env (S st0 (ts ++ rest))
      (fun r st' => r = acc.reverse ++ vs ∧ st' = S st0 rest ∧ st0.recursion + 1 + pdVarDefList vs ≤ env.maxRec)
      (DepthFail env st0 (pdVarDefList vs))
  | vs, 0, env, st0, ts, rest, acc, _, _, _, _, _, _ => by simp [varDefsLoop, wp, oofP]
  | [], f + 1, env, st0, ts, rest, acc, hc, hl, hin, hr, hwf, hne => by
    obtain ⟨t, ts', rfl, ht, hnil⟩ := Renders_cons_inv (show Renders ts (free .punct ")" :: []) = true from hr)
    obtain rfl := Renders_nil_inv hnil
    have hc : Clean env (t :: rest) := hc
    have hacc : acc.isEmpty = false := by
      cases h : acc.isEmpty
      · rfl
      · simpa using hne h
    unfold varDefsLoop; wp_simp
    tok_simp [isPunct_of_renders ht, hacc]
    wp_simp
    rw [consume_S hc]
    exact ⟨by simp, rfl, by simpa [pdVarDefList] using hin⟩
  | a :: as, f + 1, env, st0, ts, rest, acc, hc, hl, hin, hr, hwf, hne => by
    have hfirst := first_varDefList (env := env) (rest := rest) hr ")"
    obtain ⟨ta, tr, rfl, ha, hr'⟩ := Renders_append_inv (show Renders ts (a.stoks ++ (stoksVarDefList as ++ [free .punct ")"])) = true by
      simpa [stoksVarDefList, List.append_assoc] using hr)
    simp only [wfVarDefList, Bool.and_eq_true] at hwf
    unfold varDefsLoop; wp_simp
    simp only [S_toks, hfirst, List.isEmpty_cons, Bool.false_eq_true, if_false, String.reduceBEq]
    have hpa : Pre env (S st0 (ta ++ tr ++ rest)) ta (tr ++ rest) := ⟨by simp, by simpa using hc, hl⟩
    have hnext : ∀ v, v = "=" ∨ v = "!" → (peekOf env (tr ++ rest)).isPunct v = false := by
      intro v hv
      rw [first_varDefList hr' v]
      rcases hv with rfl | rfl <;> (split <;> rfl)
    refine wp_cmpl' (parseVariableDefinition_cmpl a f env _ ta (tr ++ rest) hpa ha hwf.1 (fun _ => hnext _ (Or.inl rfl))
      (fun _ _ => hnext _ (Or.inr rfl))) (by simp only [pdVarDefList]; omega) ?_
    intro hd
    have hc' : Clean env (tr ++ rest) := by
      have := hc; rw [List.append_assoc] at this; exact this.right
    refine wp_conseq (varDefs_cmpl as f env st0 tr rest (a :: acc) hc' hl hin hr' hwf.2 (by simp)) ?_ ?_
    · intro r st' ⟨hr, hst, hd2⟩
      subst hr hst
      exact ⟨by simp, rfl, by simp only [pdVarDefList]; omega⟩
    · intro es ⟨hd2, p, hes⟩
      exact ⟨by simp only [pdVarDefList]; omega, p, hes⟩

theorem parseOptionalVariableDefinitions_cmpl (vs : List VarDef) (f : Nat) (env : Env) (st : St) (ts rest : List Tok)
    (hp : Pre env st ts rest) (hr : Renders ts (stoksVarDefs vs) = true) (hwf : wfVarDefList vs = true)
    (hfol : vs.isEmpty = true → (peekOf env rest).isPunct "(" = false) :
    Cmpl (parseOptionalVariableDefinitions f) env st vs rest (pdVarDefs vs) := by
  unfold Cmpl parseOptionalVariableDefinitions; wp_simp
  split
  · exact depth_fail (by simp only [pdVarDefs]; omega) (by assumption) _
  · rw [hp.toks]
    cases hemp : vs.isEmpty with
    | true =>
      have : vs = [] := by simpa using hemp
      subst this
      obtain rfl := Renders_nil_inv (show Renders ts [] = true from hr)
      simp only [List.nil_append, hfol rfl, Bool.false_eq_true, if_false]
      wp_simp
      exact ⟨trivial, by simp, by simp only [pdVarDefs, pdVarDefList]; omega⟩
    | false =>
      simp only [stoksVarDefs, hemp, Bool.false_eq_true, if_false] at hr
      obtain ⟨t, ts', rfl, ht, hr1⟩ := Renders_cons_inv hr
      have hc : Clean env (t :: (ts' ++ rest)) := hp.clean
      tok_simp [isPunct_of_renders ht]
      wp_simp
      rw [consume_S hc]
      refine wp_conseq (varDefs_cmpl vs f env st ts' rest [] hc.tail hp.leak (by omega) hr1 hwf (fun _ => hemp)) ?_ ?_
      · intro r st' ⟨hr, hst, hd⟩
        subst hr hst
        exact ⟨by simp, by simp, by simp only [pdVarDefs]; omega⟩
      · intro es ⟨hd, p, hes⟩
        exact ⟨by simp only [pdVarDefs]; omega, p, hes⟩


/-! selections -/

theorem first_args {env : Env} {as : List Argument} {ts rest : List Tok} (v : String)
    (hr : Renders ts (stoksArgs as) = true) :
    (peekOf env (ts ++ rest)).isPunct v = if as.isEmpty then (peekOf env rest).isPunct v else ("(" == v) := by
  cases hemp : as.isEmpty with
  | true =>
    simp only [stoksArgs, hemp, if_true] at hr
    obtain rfl := Renders_nil_inv hr
    rfl
  | false =>
    simp only [stoksArgs, hemp, Bool.false_eq_true, if_false] at hr
    obtain ⟨t, ts', rfl, ht, _⟩ := Renders_cons_inv hr
    tok_simp [isPunct_of_renders ht]
    try simp

theorem stoks_field_none (n : Name) (args : List Argument) (dirs : List Directive) (sel : Option SelSet) :
    (Selection.field none n args dirs sel).stoks = n.stoks ++ (stoksArgs args ++ (stoksDirs dirs ++ optSelStoks sel)) := by
  cases sel <;> rfl
theorem stoks_field_some (a n : Name) (args : List Argument) (dirs : List Directive) (sel : Option SelSet) :
    (Selection.field (some a) n args dirs sel).stoks =
      a.stoks ++ (free .punct ":" :: (n.stoks ++ (stoksArgs args ++ (stoksDirs dirs ++ optSelStoks sel)))) := by
  cases sel <;> simp [Selection.stoks, optSelStoks, Name.stoks]
theorem stoks_spread (e : Pos) (n : Name) (dirs : List Directive) :
    (Selection.spread e n dirs).stoks = anch .punct "..." e :: (n.stoks ++ stoksDirs dirs) := rfl
theorem stoks_inline_none (e : Pos) (dirs : List Directive) (sel : SelSet) :
    (Selection.inline e none dirs sel).stoks = anch .punct "..." e :: (stoksDirs dirs ++ sel.stoks) := rfl
theorem stoks_inline_some (e : Pos) (n : Name) (dirs : List Directive) (sel : SelSet) :
    (Selection.inline e (some n) dirs sel).stoks = anch .punct "..." e :: (stoksTypeCondition n ++ (stoksDirs dirs ++ sel.stoks)) := rfl
theorem stoks_selSet (sels : List Selection) (o c : Pos) :
    (SelSet.mk sels o c).stoks = anch .punct "{" o :: (stoksSels sels ++ [anch .punct "}" c]) := rfl
theorem stoksSels_cons (s : Selection) (ss : List Selection) : stoksSels (s :: ss) = s.stoks ++ stoksSels ss := rfl

theorem first_selSet {env : Env} {ss : SelSet} {ts rest : List Tok} (v : String)
    (hr : Renders ts ss.stoks = true) : (peekOf env (ts ++ rest)).isPunct v = ("{" == v) := by
  obtain ⟨sels, o, c⟩ := ss
  rw [stoks_selSet] at hr
  obtain ⟨t, ts', rfl, ht, _⟩ := Renders_cons_inv hr
  tok_simp [isPunct_of_renders ht]
  try simp

theorem first_selSet_isName {env : Env} {ss : SelSet} {ts rest : List Tok}
    (hr : Renders ts ss.stoks = true) : (peekOf env (ts ++ rest)).isName = false := by
  obtain ⟨sels, o, c⟩ := ss
  rw [stoks_selSet] at hr
  obtain ⟨t, ts', rfl, ht, _⟩ := Renders_cons_inv hr
  tok_simp [isName_of_renders ht]
  rfl

theorem first_dirs_isName {env : Env} {ds : List Directive} {ts rest : List Tok}
    (hr : Renders ts (stoksDirs ds) = true) :
    (peekOf env (ts ++ rest)).isName = if ds.isEmpty then (peekOf env rest).isName else false := by
  cases ds with
  | nil =>
    obtain rfl := Renders_nil_inv (show Renders ts [] = true from hr)
    rfl
  | cons d ds =>
    obtain ⟨t, ts', rfl, ht, _⟩ := Renders_cons_inv (show Renders ts (anch .punct "@" d.atPos :: _) = true by
      simpa [stoksDirs, Directive.stoks] using hr)
    tok_simp [isName_of_renders ht]
    rfl

/-- What may follow a selection: nothing the field production would take for a part of the field. -/
structure FollowSel (env : Env) (rest : List Tok) : Prop where
  colon : (peekOf env rest).isPunct ":" = false
  paren : (peekOf env rest).isPunct "(" = false
  atSign : (peekOf env rest).isPunct "@" = false
  brace : (peekOf env rest).isPunct "{" = false

/-- The first token of a selection is a name or `...`: a fine follower of a selection, and not `}`. -/
theorem first_selection {env : Env} {s : Selection} {ts rest : List Tok} (hr : Renders ts s.stoks = true) :
    FollowSel env (ts ++ rest) ∧ (peekOf env (ts ++ rest)).isPunct "}" = false := by
  have key : ∃ t ts', ts = t :: ts' ∧ (t.kind = .name ∨ (t.kind = .punct ∧ t.value = "...")) := by
    cases s with
    | field al n args dirs sel =>
      cases al with
      | none =>
        rw [stoks_field_none] at hr
        obtain ⟨t, ts', rfl, ht, _⟩ := Renders_cons_inv (show Renders ts (anch .name n.name n.pos :: _) = true from hr)
        exact ⟨t, ts', rfl, Or.inl (renders_kind ht)⟩
      | some a =>
        rw [stoks_field_some] at hr
        obtain ⟨t, ts', rfl, ht, _⟩ := Renders_cons_inv (show Renders ts (anch .name a.name a.pos :: _) = true from hr)
        exact ⟨t, ts', rfl, Or.inl (renders_kind ht)⟩
    | spread e n dirs =>
      rw [stoks_spread] at hr
      obtain ⟨t, ts', rfl, ht, _⟩ := Renders_cons_inv hr
      exact ⟨t, ts', rfl, Or.inr ⟨renders_kind ht, renders_value ht⟩⟩
    | inline e tc dirs sel =>
      cases tc with
      | none =>
        rw [stoks_inline_none] at hr
        obtain ⟨t, ts', rfl, ht, _⟩ := Renders_cons_inv hr
        exact ⟨t, ts', rfl, Or.inr ⟨renders_kind ht, renders_value ht⟩⟩
      | some n =>
        rw [stoks_inline_some] at hr
        obtain ⟨t, ts', rfl, ht, _⟩ := Renders_cons_inv hr
        exact ⟨t, ts', rfl, Or.inr ⟨renders_kind ht, renders_value ht⟩⟩
  obtain ⟨t, ts', rfl, hk⟩ := key
  rcases hk with hk | ⟨hk, hv⟩
  · refine ⟨⟨?_, ?_, ?_, ?_⟩, ?_⟩ <;> simp [Tok.isPunct, hk]
  · refine ⟨⟨?_, ?_, ?_, ?_⟩, ?_⟩ <;> simp [Tok.isPunct, hk, hv]

theorem followSel_of_close {env : Env} {t : Tok} {rest : List Tok} {c : Pos} (ht : t.renders (anch .punct "}" c) = true) :
    FollowSel env (t :: rest) := by
  refine ⟨?_, ?_, ?_, ?_⟩ <;> (tok_simp [isPunct_of_renders ht]; try rfl)


def optPd : Option SelSet → Nat
  | some s => pdSelSet s
  | none => 0

/-- Production depth of `parseField` on a field. -/
def pdFieldBody (args : List Argument) (dirs : List Directive) (sel : Option SelSet) : Nat :=
  1 + max pdName (max (pdArgs args) (max (pdDirs dirs) (1 + optPd sel)))

theorem pdSelection_field (al : Option Name) (n : Name) (args : List Argument) (dirs : List Directive) (sel : Option SelSet) :
    pdSelection (.field al n args dirs sel) = 1 + pdFieldBody args dirs sel := by
  cases sel <;> rfl
theorem pdSelection_spread (e : Pos) (n : Name) (dirs : List Directive) :
    pdSelection (.spread e n dirs) = 1 + max pdName (pdDirs dirs) := rfl
theorem pdSelection_inline_none (e : Pos) (dirs : List Directive) (sel : SelSet) :
    pdSelection (.inline e none dirs sel) = 1 + max 0 (max (pdDirs dirs) (pdSelSet sel)) := rfl
theorem pdSelection_inline_some (e : Pos) (n : Name) (dirs : List Directive) (sel : SelSet) :
    pdSelection (.inline e (some n) dirs sel) = 1 + max pdTypeCondition (max (pdDirs dirs) (pdSelSet sel)) := rfl
theorem pdSelSet_mk (sels : List Selection) (o c : Pos) : pdSelSet (.mk sels o c) = 1 + pdSels sels := rfl
theorem pdSels_cons (s : Selection) (ss : List Selection) : pdSels (s :: ss) = max (pdSelection s) (pdSels ss) := rfl
theorem pdSels_nil : pdSels [] = 0 := rfl

theorem wfSelection_field (al : Option Name) (n : Name) (args : List Argument) (dirs : List Directive) (sel : Option SelSet) :
    wfSelection (.field al n args dirs sel) = (wfArgList args && wfDirs dirs && optSelWf sel) := by
  cases sel <;> rfl
theorem wfSelection_spread (e : Pos) (n : Name) (dirs : List Directive) :
    wfSelection (.spread e n dirs) = (n.name != "on" && wfDirs dirs) := rfl
theorem wfSelection_inline (e : Pos) (tc : Option Name) (dirs : List Directive) (sel : SelSet) :
    wfSelection (.inline e tc dirs sel) = (wfDirs dirs && wfSelSet sel) := rfl
theorem wfSelSet_mk (sels : List Selection) (o c : Pos) : wfSelSet (.mk sels o c) = (!sels.isEmpty && wfSels sels) := rfl
theorem wfSels_cons (s : Selection) (ss : List Selection) : wfSels (s :: ss) = (wfSelection s && wfSels ss) := rfl

def SelSetC (f : Nat) : Prop :=
  ∀ (ss : SelSet) (env : Env) (st : St) (ts rest : List Tok), Pre env st ts rest → Renders ts ss.stoks = true →
    wfSelSet ss = true → Cmpl (parseSelectionSet f) env st ss rest (pdSelSet ss)

def LoopC (f : Nat) : Prop :=
  ∀ (sels : List Selection) (env : Env) (st0 : St) (ts rest : List Tok) (o cl : Pos) (acc : List Selection),
    Clean env (ts ++ rest) → env.leak = false → st0.recursion + 1 ≤ env.maxRec →
    Renders ts (stoksSels sels ++ [anch .punct "}" cl]) = true → wfSels sels = true →
    (acc.isEmpty = true → sels.isEmpty = false) →
    wp True (selLoop f o acc) env (S st0 (ts ++ rest))
      (fun r st' => r = .mk (acc.reverse ++ sels) o cl ∧ st' = S st0 rest ∧ st0.recursion + 1 + pdSels sels ≤ env.maxRec)
      (DepthFail env st0 (pdSels sels))

def SelC (f : Nat) : Prop :=
  ∀ (s : Selection) (env : Env) (st : St) (ts rest : List Tok), Pre env st ts rest → Renders ts s.stoks = true →
    wfSelection s = true → FollowSel env rest → Cmpl (parseSelection f) env st s rest (pdSelection s)

def FieldC (f : Nat) : Prop :=
  ∀ (al : Option Name) (n : Name) (args : List Argument) (dirs : List Directive) (sel : Option SelSet)
    (env : Env) (st : St) (ts rest : List Tok), Pre env st ts rest →
    Renders ts (Selection.field al n args dirs sel).stoks = true →
    wfSelection (.field al n args dirs sel) = true → FollowSel env rest →
    Cmpl (parseField f) env st (.field al n args dirs sel) rest (pdFieldBody args dirs sel)

def OptC (f : Nat) : Prop :=
  ∀ (o : Option SelSet) (env : Env) (st : St) (ts rest : List Tok), Pre env st ts rest →
    Renders ts (optSelStoks o) = true → optSelWf o = true →
    (o = none → (peekOf env rest).isPunct "{" = false) →
    Cmpl (parseOptionalSelectionSet f) env st o rest (1 + optPd o)

theorem first_optSel {env : Env} {o : Option SelSet} {ts rest : List Tok} (v : String)
    (hr : Renders ts (optSelStoks o) = true) :
    (peekOf env (ts ++ rest)).isPunct v = match o with
      | some _ => ("{" == v)
      | none => (peekOf env rest).isPunct v := by
  cases o with
  | none =>
    obtain rfl := Renders_nil_inv (show Renders ts [] = true from hr)
    rfl
  | some s => exact first_selSet v hr

/-- After a field's name: none of `:` `(` `@` `{` unless the field has the corresponding part. -/
theorem field_tail_first {env : Env} {args : List Argument} {dirs : List Directive} {sel : Option SelSet}
    {ta td tsel rest : List Tok} (ha : Renders ta (stoksArgs args) = true) (hd : Renders td (stoksDirs dirs) = true)
    (hs : Renders tsel (optSelStoks sel) = true) (hfol : FollowSel env rest) :
    (peekOf env (ta ++ (td ++ (tsel ++ rest)))).isPunct ":" = false ∧
    (args.isEmpty = true → (peekOf env (td ++ (tsel ++ rest))).isPunct "(" = false) ∧
    (peekOf env (tsel ++ rest)).isPunct "@" = false ∧ (peekOf env (tsel ++ rest)).isPunct "(" = false ∧
    (sel = none → (peekOf env rest).isPunct "{" = false) := by
  refine ⟨?_, ?_, ?_, ?_, fun _ => hfol.brace⟩
  · rw [first_args ":" ha, first_dirs ":" hd, first_optSel ":" hs]
    cases sel <;> (simp only []; repeat' split) <;> first | rfl | exact hfol.colon
  · intro _
    rw [first_dirs "(" hd, first_optSel "(" hs]
    cases sel <;> (simp only []; repeat' split) <;> first | rfl | exact hfol.paren
  · rw [first_optSel "@" hs]
    cases sel <;> simp only [] <;> first | rfl | exact hfol.atSign
  · rw [first_optSel "(" hs]
    cases sel <;> simp only [] <;> first | rfl | exact hfol.paren


theorem wp_exitUnlessLeak' {O : Prop} {env : Env} {st : St} {Q : Unit → St → Prop} {F : List Err → Prop}
    (hl : env.leak = false) (h : Q () { st with recursion := st.recursion - 1 }) : wp O exitUnlessLeak env st Q F :=
  (wp_exitUnlessLeak hl).mpr h

theorem sel_cmpl (f : Nat) : SelSetC f ∧ LoopC f ∧ SelC f ∧ FieldC f ∧ OptC f := by
  induction f with
  | zero =>
    refine ⟨?_, ?_, ?_, ?_, ?_⟩
    · intro ss env st ts rest _ _ _; simp [Cmpl, parseSelectionSet, wp, oofP]
    · intro sels env st0 ts rest o cl acc _ _ _ _ _ _; simp [selLoop, wp, oofP]
    · intro s env st ts rest _ _ _ _; simp [Cmpl, parseSelection, wp, oofP]
    · intro al n args dirs sel env st ts rest _ _ _ _; simp [Cmpl, parseField, wp, oofP]
    · intro o env st ts rest _ _ _ _; simp [Cmpl, parseOptionalSelectionSet, wp, oofP]
  | succ f ih =>
    obtain ⟨ihSS, ihL, ihS, ihF, ihO⟩ := ih
    refine ⟨?_, ?_, ?_, ?_, ?_⟩
    · -- parseSelectionSet
      intro ss env st ts rest hp hr hwf
      obtain ⟨sels, o, cl⟩ := ss
      rw [stoks_selSet] at hr
      rw [wfSelSet_mk] at hwf
      simp only [Bool.and_eq_true, Bool.not_eq_true'] at hwf
      obtain ⟨t, ts', rfl, ht, hr1⟩ := Renders_cons_inv hr
      unfold Cmpl parseSelectionSet; wp_simp
      split
      · exact depth_fail (by rw [pdSelSet_mk]; omega) (by assumption) _
      · have hc : Clean env (t :: (ts' ++ rest)) := hp.clean
        rw [hp.toks]
        tok_simp [isPunct_of_renders ht]
        rw [consume_S hc, show t.pos = o from renders_pos ht rfl]
        refine wp_conseq (ihL sels env st ts' rest o cl [] hc.tail hp.leak (by omega) hr1 hwf.2 (fun _ => hwf.1)) ?_ ?_
        · intro r st' ⟨hr, hst, hd⟩
          subst hr hst
          exact ⟨by simp, by simp, by rw [pdSelSet_mk]; omega⟩
        · intro es ⟨hd, p, hes⟩
          exact ⟨by rw [pdSelSet_mk]; omega, p, hes⟩
    · -- selLoop
      intro sels env st0 ts rest o cl acc hc hl hin hr hwf hne
      cases sels with
      | nil =>
        obtain ⟨t, ts', rfl, ht, hnil⟩ := Renders_cons_inv (show Renders ts (anch .punct "}" cl :: []) = true from hr)
        obtain rfl := Renders_nil_inv hnil
        have hc : Clean env (t :: rest) := hc
        have hacc : acc.isEmpty = false := by
          cases h : acc.isEmpty
          · rfl
          · simpa using hne h
        unfold selLoop; wp_simp
        tok_simp [isPunct_of_renders ht, hacc]
        wp_simp
        rw [consume_S hc, show t.pos = cl from renders_pos ht rfl]
        exact ⟨by simp, rfl, by simpa [pdSels_nil] using hin⟩
      | cons s sels =>
        rw [stoksSels_cons, List.append_assoc] at hr
        obtain ⟨tsel, tr, rfl, hs, hr'⟩ := Renders_append_inv hr
        rw [wfSels_cons] at hwf
        simp only [Bool.and_eq_true] at hwf
        have hfirst := (first_selection (env := env) (rest := tr ++ rest) hs).2
        unfold selLoop; wp_simp
        simp only [S_toks, List.append_assoc, hfirst, Bool.false_eq_true, if_false]
        have hc0 : Clean env (tsel ++ (tr ++ rest)) := by simpa [List.append_assoc] using hc
        have hps : Pre env (S st0 (tsel ++ (tr ++ rest))) tsel (tr ++ rest) := ⟨rfl, hc0, hl⟩
        -- what follows this selection: the next selection, or the closing brace
        have hfol : FollowSel env (tr ++ rest) := by
          cases sels with
          | nil =>
            obtain ⟨t, ts', rfl, ht, _⟩ := Renders_cons_inv (show Renders tr (anch .punct "}" cl :: []) = true from hr')
            exact followSel_of_close ht
          | cons s2 sels2 =>
            rw [stoksSels_cons, List.append_assoc] at hr'
            obtain ⟨t2, tr2, rfl, hs2, _⟩ := Renders_append_inv hr'
            have := (first_selection (env := env) (rest := tr2 ++ rest) hs2).1
            simpa [List.append_assoc] using this
        refine wp_cmpl' (ihS s env _ tsel (tr ++ rest) hps hs hwf.1 hfol) (by rw [pdSels_cons]; omega) ?_
        intro hd
        refine wp_conseq (ihL sels env st0 tr rest o cl (s :: acc) hc0.right hl hin hr' hwf.2 (by simp)) ?_ ?_
        · intro r st' ⟨hr, hst, hd2⟩
          subst hr hst
          exact ⟨by simp, rfl, by rw [pdSels_cons]; omega⟩
        · intro es ⟨hd2, p, hes⟩
          exact ⟨by rw [pdSels_cons]; omega, p, hes⟩
    · -- parseSelection
      intro s env st ts rest hp hr hwf hfol
      cases s with
      | field al n args dirs sel =>
        -- the first token is a name, not `...`
        have hnotell : (peekOf env (ts ++ rest)).isPunct "..." = false := by
          cases al with
          | none =>
            rw [stoks_field_none] at hr
            obtain ⟨t, ts', rfl, ht, _⟩ := Renders_cons_inv (show Renders ts (anch .name n.name n.pos :: _) = true from hr)
            tok_simp [isPunct_of_renders ht]; try rfl
          | some a =>
            rw [stoks_field_some] at hr
            obtain ⟨t, ts', rfl, ht, _⟩ := Renders_cons_inv (show Renders ts (anch .name a.name a.pos :: _) = true from hr)
            tok_simp [isPunct_of_renders ht]; try rfl
        unfold Cmpl parseSelection; wp_simp
        split
        · exact depth_fail (by rw [pdSelection_field]; omega) (by assumption) _
        · rw [hp.toks]
          simp only [hnotell, Bool.false_eq_true, if_false]
          refine wp_cmpl (ihF al n args dirs sel env _ ts rest (hp.sub (pre := []) rfl) hr hwf hfol)
            (by rw [pdSelection_field]; omega) ?_
          intro hd
          refine wp_exitUnlessLeak' hp.leak ?_
          exact ⟨by first | rfl | trivial, by simp, by rw [pdSelection_field]; omega⟩
      | spread e n dirs =>
        rw [stoks_spread] at hr
        rw [wfSelection_spread] at hwf
        simp only [Bool.and_eq_true, bne_iff_ne, ne_eq] at hwf
        obtain ⟨t, ts', rfl, ht, hr1⟩ := Renders_cons_inv hr
        obtain ⟨tn, td, rfl, hn, hd0⟩ := Renders_append_inv hr1
        obtain ⟨t2, tn', rfl, ht2, hnil⟩ := Renders_cons_inv (show Renders tn (anch .name n.name n.pos :: []) = true from hn)
        obtain rfl := Renders_nil_inv hnil
        unfold Cmpl parseSelection; wp_simp
        split
        · exact depth_fail (by rw [pdSelection_spread]; omega) (by assumption) _
        · have hc : Clean env (t :: t2 :: (td ++ rest)) := by simpa using hp.clean
          rw [hp.toks]
          tok_simp [isPunct_of_renders ht]
          rw [consume_S hc]
          have hv2 : t2.value = n.name := renders_value ht2
          tok_simp [isName_of_renders ht2, hv2, hwf.1]
          have hpn : Pre env (S st (t2 :: (td ++ rest))) [t2] (td ++ rest) := ⟨rfl, hc.tail, hp.leak⟩
          refine wp_cmpl (parseName_cmpl env _ n [t2] _ hpn hn) (by rw [pdSelection_spread]; omega) ?_
          intro hd
          have hpd : Pre env (S st (td ++ rest)) td rest := ⟨rfl, hc.tail.tail, hp.leak⟩
          refine wp_cmpl (parseOptionalDirectives_cmpl dirs f env _ td rest hpd hd0 hwf.2 hfol.atSign hfol.paren)
            (by rw [pdSelection_spread]; omega) ?_
          intro hd1
          refine wp_exitUnlessLeak' hp.leak ?_
          rw [show t.pos = e from renders_pos ht rfl]
          exact ⟨by first | rfl | trivial, by simp, by rw [pdSelection_spread]; simp only [pdName] at hd ⊢; omega⟩
      | inline e tc dirs sel =>
        rw [wfSelection_inline] at hwf
        simp only [Bool.and_eq_true] at hwf
        cases tc with
        | none =>
          rw [stoks_inline_none] at hr
          obtain ⟨t, ts', rfl, ht, hr1⟩ := Renders_cons_inv hr
          obtain ⟨td, tss, rfl, hd0, hss⟩ := Renders_append_inv hr1
          unfold Cmpl parseSelection; wp_simp
          split
          · exact depth_fail (by rw [pdSelection_inline_none]; omega) (by assumption) _
          · have hc : Clean env (t :: (td ++ (tss ++ rest))) := by simpa [List.append_assoc] using hp.clean
            rw [hp.toks]
            tok_simp [isPunct_of_renders ht, List.append_assoc]
            rw [consume_S hc]
            -- the next token is `@` or `{`: not a name
            have hnn : (peekOf env (td ++ (tss ++ rest))).isName = false := by
              rw [first_dirs_isName hd0]
              split
              · exact first_selSet_isName hss
              · rfl
            simp only [S_toks, hnn, Bool.false_and, Bool.false_eq_true, if_false]
            wp_simp
            have hpd : Pre env (S st (td ++ (tss ++ rest))) td (tss ++ rest) := ⟨rfl, hc.tail, hp.leak⟩
            refine wp_cmpl (parseOptionalDirectives_cmpl dirs f env _ td _ hpd hd0 hwf.1
              (by rw [first_selSet "@" hss]; rfl) (by rw [first_selSet "(" hss]; rfl))
              (by rw [pdSelection_inline_none]; omega) ?_
            intro hd1
            have hps : Pre env (S st (tss ++ rest)) tss rest := ⟨rfl, hc.tail.right, hp.leak⟩
            refine wp_cmpl (ihSS sel env _ tss rest hps hss hwf.2) (by rw [pdSelection_inline_none]; omega) ?_
            intro hd2
            rw [show t.pos = e from renders_pos ht rfl]
            exact ⟨by first | rfl | trivial, by simp, by rw [pdSelection_inline_none]; omega⟩
        | some n =>
          rw [stoks_inline_some] at hr
          obtain ⟨t, ts', rfl, ht, hr1⟩ := Renders_cons_inv hr
          obtain ⟨ttc, tr2, rfl, htc, hr2⟩ := Renders_append_inv hr1
          obtain ⟨td, tss, rfl, hd0, hss⟩ := Renders_append_inv hr2
          obtain ⟨ton, ttc', rfl, hton, _⟩ := Renders_cons_inv (show Renders ttc (free .name "on" :: n.stoks) = true from htc)
          unfold Cmpl parseSelection; wp_simp
          split
          · exact depth_fail (by rw [pdSelection_inline_some]; omega) (by assumption) _
          · have hc : Clean env (t :: ton :: (ttc' ++ (td ++ (tss ++ rest)))) := by simpa [List.append_assoc] using hp.clean
            rw [hp.toks]
            tok_simp [isPunct_of_renders ht, List.append_assoc]
            rw [consume_S hc]
            have hvon : ton.value = "on" := renders_value hton
            tok_simp [isName_of_renders hton, hvon]
            wp_simp
            have hptc : Pre env (S st (ton :: (ttc' ++ (td ++ (tss ++ rest))))) (ton :: ttc') (td ++ (tss ++ rest)) :=
              ⟨by simp, by simpa using hc.tail, hp.leak⟩
            refine wp_cmpl (parseTypeCondition_cmpl env _ n (ton :: ttc') _ hptc htc) (by rw [pdSelection_inline_some]; omega) ?_
            intro hd
            have hpd : Pre env (S st (td ++ (tss ++ rest))) td (tss ++ rest) :=
              ⟨rfl, (show Clean env ((ton :: ttc') ++ (td ++ (tss ++ rest))) from hc.tail).right, hp.leak⟩
            refine wp_cmpl (parseOptionalDirectives_cmpl dirs f env _ td _ hpd hd0 hwf.1
              (by rw [first_selSet "@" hss]; rfl) (by rw [first_selSet "(" hss]; rfl))
              (by rw [pdSelection_inline_some]; omega) ?_
            intro hd1
            have hps : Pre env (S st (tss ++ rest)) tss rest := ⟨rfl, hpd.clean.right, hp.leak⟩
            refine wp_cmpl (ihSS sel env _ tss rest hps hss hwf.2) (by rw [pdSelection_inline_some]; omega) ?_
            intro hd2
            rw [show t.pos = e from renders_pos ht rfl]
            exact ⟨by first | rfl | trivial, by simp, by rw [pdSelection_inline_some]; omega⟩
    · -- parseField
      intro al n args dirs sel env st ts rest hp hr hwf hfol
      rw [wfSelection_field] at hwf
      simp only [Bool.and_eq_true] at hwf
      unfold Cmpl parseField
      extract_lets jp
      -- everything after the (alias and) name
      have tail : ∀ (ta td tsel : List Tok), Renders ta (stoksArgs args) = true → Renders td (stoksDirs dirs) = true →
          Renders tsel (optSelStoks sel) = true → Clean env (ta ++ (td ++ (tsel ++ rest))) →
          st.recursion + 1 ≤ env.maxRec →
          wp True (jp (al, n)) env (S st (ta ++ (td ++ (tsel ++ rest))))
            (fun r st' => r = .field al n args dirs sel ∧ st' = { st with toks := rest } ∧
              st.recursion + pdFieldBody args dirs sel ≤ env.maxRec)
            (fun es => env.maxRec < st.recursion + pdFieldBody args dirs sel ∧
              ∃ p, es = st.errors ++ [{ msg := depthMsg, pos := p }]) := by
        intro ta td tsel ha hd hs hc hin
        obtain ⟨_, hf2, hf3, hf4, hf5⟩ := field_tail_first (env := env) ha hd hs hfol
        simp only [jp]; wp_simp
        have hpa : Pre env (S st (ta ++ (td ++ (tsel ++ rest)))) ta (td ++ (tsel ++ rest)) := ⟨rfl, hc, hp.leak⟩
        refine wp_cmpl (parseOptionalArguments_cmpl args f env _ ta _ hpa ha hwf.1.1 hf2) (by simp only [pdFieldBody]; omega) ?_
        intro hd1
        have hpd : Pre env (S st (td ++ (tsel ++ rest))) td (tsel ++ rest) := ⟨rfl, hc.right, hp.leak⟩
        refine wp_cmpl (parseOptionalDirectives_cmpl dirs f env _ td _ hpd hd hwf.1.2 hf3 hf4) (by simp only [pdFieldBody]; omega) ?_
        intro hd2
        have hps : Pre env (S st (tsel ++ rest)) tsel rest := ⟨rfl, hc.right.right, hp.leak⟩
        refine wp_cmpl (ihO sel env _ tsel rest hps hs hwf.2 hf5) (by simp only [pdFieldBody]; omega) ?_
        intro hd3
        exact ⟨by first | rfl | trivial, by simp, by simp only [pdFieldBody, pdName] at hd1 hd2 hd3 ⊢; omega⟩
      cases al with
      | none =>
        rw [stoks_field_none] at hr
        obtain ⟨tn, tr1, rfl, hn, hr1⟩ := Renders_append_inv hr
        obtain ⟨ta, tr2, rfl, ha, hr2⟩ := Renders_append_inv hr1
        obtain ⟨td, tsel, rfl, hd, hs⟩ := Renders_append_inv hr2
        wp_simp
        split
        · exact depth_fail (by simp only [pdFieldBody]; omega) (by assumption) _
        · have hc : Clean env (tn ++ (ta ++ (td ++ (tsel ++ rest)))) := by simpa [List.append_assoc] using hp.clean
          rw [hp.toks]
          simp only [List.append_assoc]
          have hpn : Pre env (S st (tn ++ (ta ++ (td ++ (tsel ++ rest))))) tn (ta ++ (td ++ (tsel ++ rest))) := ⟨rfl, hc, hp.leak⟩
          refine wp_cmpl (parseName_cmpl env _ n tn _ hpn hn) (by simp only [pdFieldBody]; omega) ?_
          intro hdn
          have hcol := (field_tail_first (env := env) ha hd hs hfol).1
          simp only [S_toks, hcol, Bool.false_eq_true, if_false]
          wp_simp
          exact tail ta td tsel ha hd hs hc.right (by omega)
      | some a =>
        rw [stoks_field_some] at hr
        obtain ⟨tal, tr0, rfl, hal, hr0⟩ := Renders_append_inv hr
        obtain ⟨tcol, tr0', rfl, hcol, hr0'⟩ := Renders_cons_inv hr0
        obtain ⟨tn, tr1, rfl, hn, hr1⟩ := Renders_append_inv hr0'
        obtain ⟨ta, tr2, rfl, ha, hr2⟩ := Renders_append_inv hr1
        obtain ⟨td, tsel, rfl, hd, hs⟩ := Renders_append_inv hr2
        wp_simp
        split
        · exact depth_fail (by simp only [pdFieldBody]; omega) (by assumption) _
        · have hc : Clean env (tal ++ (tcol :: (tn ++ (ta ++ (td ++ (tsel ++ rest)))))) := by simpa [List.append_assoc] using hp.clean
          rw [hp.toks]
          simp only [List.append_assoc, List.cons_append]
          have hpal : Pre env (S st (tal ++ (tcol :: (tn ++ (ta ++ (td ++ (tsel ++ rest))))))) tal (tcol :: (tn ++ (ta ++ (td ++ (tsel ++ rest))))) :=
            ⟨rfl, hc, hp.leak⟩
          refine wp_cmpl (parseName_cmpl env _ a tal _ hpal hal) (by simp only [pdFieldBody]; omega) ?_
          intro hda
          tok_simp [isPunct_of_renders hcol]
          wp_simp
          rw [consume_S hc.right]
          have hpn : Pre env (S st (tn ++ (ta ++ (td ++ (tsel ++ rest))))) tn (ta ++ (td ++ (tsel ++ rest))) := ⟨rfl, hc.right.tail, hp.leak⟩
          refine wp_cmpl (parseName_cmpl env _ n tn _ hpn hn) (by simp only [pdFieldBody]; omega) ?_
          intro hdn
          exact tail ta td tsel ha hd hs hc.right.tail.right (by omega)
    · -- parseOptionalSelectionSet
      intro o env st ts rest hp hr hwf hfol
      unfold Cmpl parseOptionalSelectionSet; wp_simp
      split
      · exact depth_fail (by omega) (by assumption) _
      · rw [hp.toks]
        cases o with
        | none =>
          obtain rfl := Renders_nil_inv (show Renders ts [] = true from hr)
          simp only [List.nil_append, hfol rfl, Bool.false_eq_true, if_false]
          wp_simp
          exact ⟨trivial, by simp, by simp only [optPd]; omega⟩
        | some ss =>
          have hfirst := first_selSet (env := env) (rest := rest) "{" (show Renders ts ss.stoks = true from hr)
          simp only [hfirst, beq_self_eq_true, if_true]
          wp_simp
          refine wp_cmpl (ihSS ss env _ ts rest (hp.sub (pre := []) rfl) hr hwf) (by simp only [optPd]; omega) ?_
          intro hd
          exact ⟨by first | rfl | trivial, by simp, by simp only [optPd]; omega⟩


/-! definitions and the document -/

theorem parseSelectionSet_cmpl (f : Nat) : SelSetC f := (sel_cmpl f).1
theorem parseOptionalSelectionSet_cmpl (f : Nat) : OptC f := (sel_cmpl f).2.2.2.2

theorem stoks_frag (p : Pos) (n tc : Name) (dirs : List Directive) (sel : SelSet) :
    (Definition.frag p n tc dirs sel).stoks =
      anch .name "fragment" p :: (n.stoks ++ (stoksTypeCondition tc ++ (stoksDirs dirs ++ sel.stoks))) := rfl
theorem stoks_op_none (name : Option Name) (vars : List VarDef) (dirs : List Directive) (sel : SelSet) :
    (Definition.op none name vars dirs sel).stoks = sel.stoks := rfl
theorem stoks_op_some (t : OpType) (name : Option Name) (vars : List VarDef) (dirs : List Directive) (sel : SelSet) :
    (Definition.op (some t) name vars dirs sel).stoks =
      anch .name t.value t.pos :: ((match name with
                                    | some n => n.stoks
                                    | none => []) ++ (stoksVarDefs vars ++ (stoksDirs dirs ++ sel.stoks))) := rfl

/-- Production depth of `parseOptionalFragmentDefinition` on a fragment definition. -/
def pdFragBody (dirs : List Directive) (sel : SelSet) : Nat :=
  1 + max pdName (max pdTypeCondition (max (pdDirs dirs) (pdSelSet sel)))

theorem frag_cmpl (p : Pos) (n tc : Name) (dirs : List Directive) (sel : SelSet) (f : Nat) (env : Env) (st : St)
    (ts rest : List Tok) (hp : Pre env st ts rest) (hr : Renders ts (Definition.frag p n tc dirs sel).stoks = true)
    (hwf : wfDefinition (.frag p n tc dirs sel) = true) :
    Cmpl (parseOptionalFragmentDefinition f) env st (some (.frag p n tc dirs sel)) rest (pdFragBody dirs sel) := by
  rw [stoks_frag] at hr
  simp only [wfDefinition, Bool.and_eq_true, bne_iff_ne, ne_eq] at hwf
  obtain ⟨t, ts', rfl, ht, hr1⟩ := Renders_cons_inv hr
  obtain ⟨tn, tr1, rfl, hn, hr2⟩ := Renders_append_inv hr1
  obtain ⟨ttc, tr2, rfl, htc, hr3⟩ := Renders_append_inv hr2
  obtain ⟨td, tss, rfl, hd0, hss⟩ := Renders_append_inv hr3
  obtain ⟨t2, tn', rfl, ht2, hnil⟩ := Renders_cons_inv (show Renders tn (anch .name n.name n.pos :: []) = true from hn)
  obtain rfl := Renders_nil_inv hnil
  unfold Cmpl parseOptionalFragmentDefinition; wp_simp
  split
  · exact depth_fail (by simp only [pdFragBody]; omega) (by assumption) _
  · have hc : Clean env (t :: t2 :: (ttc ++ (td ++ (tss ++ rest)))) := by simpa [List.append_assoc] using hp.clean
    rw [hp.toks]
    have hv : t.value = "fragment" := renders_value ht
    tok_simp [isName_of_renders ht, hv, List.append_assoc]
    wp_simp
    rw [consume_S hc]
    have hv2 : t2.value = n.name := renders_value ht2
    tok_simp [isName_of_renders ht2, hv2, hwf.1.1]
    have hpn : Pre env (S st (t2 :: (ttc ++ (td ++ (tss ++ rest))))) [t2] (ttc ++ (td ++ (tss ++ rest))) := ⟨rfl, hc.tail, hp.leak⟩
    refine wp_cmpl (parseName_cmpl env _ n [t2] _ hpn hn) (by simp only [pdFragBody]; omega) ?_
    intro hdn
    have hptc : Pre env (S st (ttc ++ (td ++ (tss ++ rest)))) ttc (td ++ (tss ++ rest)) := ⟨rfl, hc.tail.tail, hp.leak⟩
    refine wp_cmpl (parseTypeCondition_cmpl env _ tc ttc _ hptc htc) (by simp only [pdFragBody]; omega) ?_
    intro hdtc
    have hpd : Pre env (S st (td ++ (tss ++ rest))) td (tss ++ rest) := ⟨rfl, hc.tail.tail.right, hp.leak⟩
    refine wp_cmpl (parseOptionalDirectives_cmpl dirs f env _ td _ hpd hd0 hwf.1.2
      (by rw [first_selSet "@" hss]; rfl) (by rw [first_selSet "(" hss]; rfl)) (by simp only [pdFragBody]; omega) ?_
    intro hdd
    have hps : Pre env (S st (tss ++ rest)) tss rest := ⟨rfl, hc.tail.tail.right.right, hp.leak⟩
    refine wp_cmpl (parseSelectionSet_cmpl f sel env _ tss rest hps hss hwf.2) (by simp only [pdFragBody]; omega) ?_
    intro hds
    rw [show t.pos = p from renders_pos ht rfl]
    exact ⟨by first | rfl | trivial, by simp, by simp only [pdFragBody, pdName] at hdn hdtc hdd hds ⊢; omega⟩

/-- On anything that does not start with the name `fragment`, parseOptionalFragmentDefinition returns
    nil and consumes nothing. -/
theorem notFrag_cmpl (f : Nat) (env : Env) (st : St)
    (h : ((peekOf env st.toks).isName && (peekOf env st.toks).value == "fragment") = false) :
    Cmpl (parseOptionalFragmentDefinition f) env st none st.toks 1 := by
  unfold Cmpl parseOptionalFragmentDefinition; wp_simp
  split
  · exact depth_fail (Nat.le_refl _) (by assumption) _
  · simp only [h, Bool.false_eq_true, if_false]
    wp_simp
    exact ⟨trivial, by simp, by omega⟩

def optNamePd : Option Name → Nat
  | some _ => pdName
  | none => 0

/-- Production depth of `parseOperationDefinition`. -/
def pdOpBody : Option OpType → Option Name → List VarDef → List Directive → SelSet → Nat
  | none, _, _, _, sel => 1 + (1 + pdSelSet sel)
  | some _, name, vars, dirs, sel =>
    1 + max 1 (max pdOperationType (max (optNamePd name) (max (pdVarDefs vars) (max (pdDirs dirs) (pdSelSet sel)))))

theorem first_varDefs {env : Env} {vs : List VarDef} {ts rest : List Tok} (v : String)
    (hr : Renders ts (stoksVarDefs vs) = true) :
    (peekOf env (ts ++ rest)).isPunct v = if vs.isEmpty then (peekOf env rest).isPunct v else ("(" == v) := by
  cases hemp : vs.isEmpty with
  | true =>
    simp only [stoksVarDefs, hemp, if_true] at hr
    obtain rfl := Renders_nil_inv hr
    rfl
  | false =>
    simp only [stoksVarDefs, hemp, Bool.false_eq_true, if_false] at hr
    obtain ⟨t, ts', rfl, ht, _⟩ := Renders_cons_inv hr
    tok_simp [isPunct_of_renders ht]
    try simp

theorem first_varDefs_isName {env : Env} {vs : List VarDef} {ts rest : List Tok}
    (hr : Renders ts (stoksVarDefs vs) = true) :
    (peekOf env (ts ++ rest)).isName = if vs.isEmpty then (peekOf env rest).isName else false := by
  cases hemp : vs.isEmpty with
  | true =>
    simp only [stoksVarDefs, hemp, if_true] at hr
    obtain rfl := Renders_nil_inv hr
    rfl
  | false =>
    simp only [stoksVarDefs, hemp, Bool.false_eq_true, if_false] at hr
    obtain ⟨t, ts', rfl, ht, _⟩ := Renders_cons_inv hr
    tok_simp [isName_of_renders ht]
    rfl

theorem op_cmpl (ot : Option OpType) (name : Option Name) (vars : List VarDef) (dirs : List Directive) (sel : SelSet)
    (f : Nat) (env : Env) (st : St) (ts rest : List Tok) (hp : Pre env st ts rest)
    (hr : Renders ts (Definition.op ot name vars dirs sel).stoks = true)
    (hwf : wfDefinition (.op ot name vars dirs sel) = true) :
    Cmpl (parseOperationDefinition f) env st (.op ot name vars dirs sel) rest (pdOpBody ot name vars dirs sel) := by
  cases ot with
  | none =>
    rw [stoks_op_none] at hr
    simp only [wfDefinition, Bool.and_eq_true, Option.isNone_iff_eq_none, List.isEmpty_iff] at hwf
    obtain ⟨⟨⟨rfl, rfl⟩, rfl⟩, hwfs⟩ := hwf
    unfold Cmpl parseOperationDefinition; wp_simp
    split
    · exact depth_fail (by simp only [pdOpBody]; omega) (by assumption) _
    · rw [hp.toks]
      refine wp_cmpl (parseOptionalSelectionSet_cmpl f (some sel) env _ ts rest (hp.sub (pre := []) rfl) hr hwfs (by intro h; cases h))
        (by simp only [pdOpBody, optPd]; omega) ?_
      intro hd
      wp_simp
      exact ⟨trivial, by simp, by simp only [pdOpBody, optPd] at hd ⊢; omega⟩
  | some t =>
    rw [stoks_op_some] at hr
    simp only [wfDefinition, Bool.and_eq_true] at hwf
    obtain ⟨tt, ts', rfl, htt, hr1⟩ := Renders_cons_inv hr
    obtain ⟨tn, tr1, rfl, hn, hr2⟩ := Renders_append_inv hr1
    obtain ⟨tv, tr2, rfl, hv, hr3⟩ := Renders_append_inv hr2
    obtain ⟨td, tss, rfl, hd0, hss⟩ := Renders_append_inv hr3
    unfold Cmpl parseOperationDefinition; wp_simp
    split
    · exact depth_fail (by simp only [pdOpBody]; omega) (by assumption) _
    · have hc : Clean env (tt :: (tn ++ (tv ++ (td ++ (tss ++ rest))))) := by simpa [List.append_assoc] using hp.clean
      rw [hp.toks]
      simp only [List.append_assoc, List.cons_append]
      -- parseOptionalSelectionSet returns nil: the first token is the operation type, not `{`
      have hnb : (peekOf env (tt :: (tn ++ (tv ++ (td ++ (tss ++ rest)))))).isPunct "{" = false := by
        tok_simp [isPunct_of_renders htt]; try rfl
      have hpo : Pre env (S st (tt :: (tn ++ (tv ++ (td ++ (tss ++ rest)))))) [] (tt :: (tn ++ (tv ++ (td ++ (tss ++ rest))))) :=
        ⟨rfl, hc, hp.leak⟩
      refine wp_cmpl (parseOptionalSelectionSet_cmpl f none env _ [] _ hpo rfl rfl (fun _ => hnb))
        (by simp only [pdOpBody, optPd]; omega) ?_
      intro hdo
      wp_simp
      have hpt : Pre env (S st (tt :: (tn ++ (tv ++ (td ++ (tss ++ rest)))))) [tt] (tn ++ (tv ++ (td ++ (tss ++ rest)))) :=
        ⟨rfl, hc, hp.leak⟩
      refine wp_cmpl (parseOperationType_cmpl env _ t [tt] _ hpt (by simpa [Renders] using htt) hwf.1.1.1)
        (by simp only [pdOpBody]; omega) ?_
      intro hdt
      -- the tail after the optional name
      have tail : ∀ (cur : List Tok), cur = tv ++ (td ++ (tss ++ rest)) →
          st.recursion + 1 + optNamePd name ≤ env.maxRec →
          wp True (do
            let vars' ← parseOptionalVariableDefinitions f
            let dirs' ← parseOptionalDirectives f
            let ss ← parseSelectionSet f
            let ret ← pure (Definition.op (some t) name vars' dirs' ss)
            exit
            pure ret) env (S st cur)
            (fun r st' => r = .op (some t) name vars dirs sel ∧ st' = { st with toks := rest } ∧
              st.recursion + pdOpBody (some t) name vars dirs sel ≤ env.maxRec)
            (fun es => env.maxRec < st.recursion + pdOpBody (some t) name vars dirs sel ∧
              ∃ p, es = st.errors ++ [{ msg := depthMsg, pos := p }]) := by
        intro cur hcur hname
        subst hcur
        wp_simp
        have hpv : Pre env (S st (tv ++ (td ++ (tss ++ rest)))) tv (td ++ (tss ++ rest)) := ⟨rfl, hc.tail.right, hp.leak⟩
        have hfv : vars.isEmpty = true → (peekOf env (td ++ (tss ++ rest))).isPunct "(" = false := by
          intro _
          rw [first_dirs "(" hd0]
          split
          · rw [first_selSet "(" hss]; rfl
          · rfl
        refine wp_cmpl (parseOptionalVariableDefinitions_cmpl vars f env _ tv _ hpv hv hwf.1.1.2 hfv)
          (by simp only [pdOpBody]; omega) ?_
        intro hdv
        have hpd : Pre env (S st (td ++ (tss ++ rest))) td (tss ++ rest) := ⟨rfl, hc.tail.right.right, hp.leak⟩
        refine wp_cmpl (parseOptionalDirectives_cmpl dirs f env _ td _ hpd hd0 hwf.1.2
          (by rw [first_selSet "@" hss]; rfl) (by rw [first_selSet "(" hss]; rfl)) (by simp only [pdOpBody]; omega) ?_
        intro hdd
        have hps : Pre env (S st (tss ++ rest)) tss rest := ⟨rfl, hc.tail.right.right.right, hp.leak⟩
        refine wp_cmpl (parseSelectionSet_cmpl f sel env _ tss rest hps hss hwf.2) (by simp only [pdOpBody]; omega) ?_
        intro hds
        exact ⟨by first | rfl | trivial, by simp, by simp only [pdOpBody, pdOperationType] at hdt ⊢; omega⟩
      cases name with
      | none =>
        obtain rfl := Renders_nil_inv (show Renders tn [] = true from hn)
        have hnn : (peekOf env (tv ++ (td ++ (tss ++ rest)))).isName = false := by
          rw [first_varDefs_isName hv]
          split
          · rw [first_dirs_isName hd0]
            split
            · exact first_selSet_isName hss
            · rfl
          · rfl
        simp only [S_toks, List.nil_append, hnn, Bool.false_eq_true, if_false]
        have := tail _ rfl (by simp only [optNamePd]; omega)
        wp_simp at this
        exact this
      | some nm =>
        obtain ⟨t2, tn', rfl, ht2, hnil⟩ := Renders_cons_inv (show Renders tn (anch .name nm.name nm.pos :: []) = true from hn)
        obtain rfl := Renders_nil_inv hnil
        tok_simp [isName_of_renders ht2]
        have hpn : Pre env (S st (t2 :: (tv ++ (td ++ (tss ++ rest))))) [t2] (tv ++ (td ++ (tss ++ rest))) := ⟨rfl, hc.tail, hp.leak⟩
        refine wp_cmpl (parseName_cmpl env _ nm [t2] _ hpn hn) (by simp only [pdOpBody, optNamePd]; omega) ?_
        intro hdn
        have := tail _ rfl (by simp only [optNamePd]; omega)
        wp_simp at this
        exact this


theorem pdDefinition_frag (p : Pos) (n tc : Name) (dirs : List Directive) (sel : SelSet) :
    pdDefinition (.frag p n tc dirs sel) = 1 + pdFragBody dirs sel := rfl
theorem pdDefinition_op (ot : Option OpType) (name : Option Name) (vars : List VarDef) (dirs : List Directive) (sel : SelSet) :
    pdDefinition (.op ot name vars dirs sel) = 1 + max 1 (pdOpBody ot name vars dirs sel) := by
  cases ot <;> cases name <;> rfl

/-- The first token of a definition: never the end of input; for an operation never the name `fragment`. -/
theorem first_definition {env : Env} {d : Definition} {ts rest : List Tok} (hr : Renders ts d.stoks = true)
    (hwf : wfDefinition d = true) :
    ts ≠ [] ∧ ((∃ ot name vars dirs sel, d = .op ot name vars dirs sel) →
      ((peekOf env (ts ++ rest)).isName && (peekOf env (ts ++ rest)).value == "fragment") = false) := by
  cases d with
  | frag p n tc dirs sel =>
    rw [stoks_frag] at hr
    obtain ⟨t, ts', rfl, _, _⟩ := Renders_cons_inv hr
    exact ⟨by simp, fun ⟨_, _, _, _, _, h⟩ => by cases h⟩
  | op ot name vars dirs sel =>
    cases ot with
    | none =>
      rw [stoks_op_none] at hr
      refine ⟨?_, fun _ => ?_⟩
      · obtain ⟨sels, o, c⟩ := sel
        rw [stoks_selSet] at hr
        obtain ⟨t, ts', rfl, _, _⟩ := Renders_cons_inv hr
        simp
      · rw [first_selSet_isName hr]; rfl
    | some t =>
      rw [stoks_op_some] at hr
      obtain ⟨tt, ts', rfl, htt, _⟩ := Renders_cons_inv hr
      refine ⟨by simp, fun _ => ?_⟩
      simp only [wfDefinition, Bool.and_eq_true] at hwf
      have hv : tt.value = t.value := renders_value htt
      have hop := hwf.1.1.1
      simp only [isOperationType, Bool.or_eq_true, beq_iff_eq] at hop
      tok_simp [hv]
      rcases hop with (h | h) | h <;> simp [h]

theorem parseDefinition_cmpl (d : Definition) (f : Nat) (env : Env) (st : St) (ts rest : List Tok)
    (hp : Pre env st ts rest) (hr : Renders ts d.stoks = true) (hwf : wfDefinition d = true) :
    Cmpl (parseDefinition f) env st d rest (pdDefinition d) := by
  have hfirst := (first_definition (env := env) (rest := rest) hr hwf).2
  cases d with
  | frag p n tc dirs sel =>
    unfold Cmpl parseDefinition; wp_simp
    split
    · exact depth_fail (by rw [pdDefinition_frag]; omega) (by assumption) _
    · rw [hp.toks]
      refine wp_cmpl (frag_cmpl p n tc dirs sel f env _ ts rest (hp.sub (pre := []) rfl) hr hwf)
        (by rw [pdDefinition_frag]; omega) ?_
      intro hd
      wp_simp
      exact ⟨trivial, by simp, by rw [pdDefinition_frag]; omega⟩
  | op ot name vars dirs sel =>
    have hnf := hfirst ⟨ot, name, vars, dirs, sel, rfl⟩
    unfold Cmpl parseDefinition; wp_simp
    split
    · exact depth_fail (by rw [pdDefinition_op]; omega) (by assumption) _
    · rw [hp.toks]
      have h1 := notFrag_cmpl f env (S st (ts ++ rest)) (by simpa using hnf)
      refine wp_cmpl h1 (by rw [pdDefinition_op]; omega) ?_
      intro hd1
      wp_simp
      refine wp_cmpl (op_cmpl ot name vars dirs sel f env _ ts rest (hp.sub (pre := []) rfl) hr hwf)
        (by rw [pdDefinition_op]; omega) ?_
      intro hd2
      exact ⟨by first | rfl | trivial, by simp, by rw [pdDefinition_op]; omega⟩

theorem defs_cmpl : ∀ (defs : List Definition) (f : Nat) (env : Env) (st0 : St) (ts : List Tok) (acc : List Definition),
    Clean env ts → env.leak = false → st0.recursion + 1 ≤ env.maxRec →
    Renders ts (stoksDefs defs) = true → wfDefs defs = true →
    wp True (defsLoop f acc) env (S st0 ts)
      (fun r st' => r = acc.reverse ++ defs ∧ st' = S st0 [] ∧ st0.recursion + 1 + pdDefs defs ≤ env.maxRec)
      (DepthFail env st0 (pdDefs defs))
  | defs, 0, env, st0, ts, acc, _, _, _, _, _ => by simp [defsLoop, wp, oofP]
  | [], f + 1, env, st0, ts, acc, hc, hl, hin, hr, hwf => by
    obtain rfl := Renders_nil_inv (show Renders ts [] = true from hr)
    unfold defsLoop; wp_simp
    simp only [S_toks, List.isEmpty_nil, if_true]
    wp_simp
    exact ⟨by simp, by first | rfl | trivial, by simpa [pdDefs] using hin⟩
  | d :: defs, f + 1, env, st0, ts, acc, hc, hl, hin, hr, hwf => by
    obtain ⟨td, tr, rfl, hd, hr'⟩ := Renders_append_inv (show Renders ts (d.stoks ++ stoksDefs defs) = true from hr)
    simp only [wfDefs, Bool.and_eq_true] at hwf
    have hne := (first_definition (env := env) (rest := tr) hd hwf.1).1
    have hemp : (td ++ tr).isEmpty = false := by
      cases td with
      | nil => exact absurd rfl hne
      | cons t td' => rfl
    unfold defsLoop; wp_simp
    simp only [S_toks, hemp, Bool.false_eq_true, if_false]
    have hpd : Pre env (S st0 (td ++ tr)) td tr := ⟨rfl, hc, hl⟩
    refine wp_cmpl' (parseDefinition_cmpl d f env _ td tr hpd hd hwf.1) (by simp only [pdDefs]; omega) ?_
    intro hdd
    refine wp_conseq (defs_cmpl defs f env st0 tr (d :: acc) hc.right hl hin hr' hwf.2) ?_ ?_
    · intro r st' ⟨hr, hst, hd2⟩
      subst hr hst
      exact ⟨by simp, rfl, by simp only [pdDefs]; omega⟩
    · intro es ⟨hd2, p, hes⟩
      exact ⟨by simp only [pdDefs]; omega, p, hes⟩

theorem parseDocument_cmpl (d : Document) (f : Nat) (env : Env) (st : St) (ts : List Tok)
    (hp : Pre env st ts []) (hr : Renders ts d.stoks = true) (hwf : wfDocument d = true) :
    Cmpl (parseDocument f) env st d [] (pdDocument d) := by
  obtain ⟨defs⟩ := d
  simp only [wfDocument, Bool.and_eq_true, Bool.not_eq_true'] at hwf
  unfold Cmpl parseDocument; wp_simp
  split
  · exact depth_fail (by simp only [pdDocument]; omega) (by assumption) _
  · rw [hp.toks]
    have hc : Clean env ts := by simpa using hp.clean
    simp only [List.append_nil]
    refine wp_conseq (defs_cmpl defs f env st ts [] hc hp.leak (by omega) hr hwf.2) ?_ ?_
    · intro r st' ⟨hr, hst, hd⟩
      subst hr hst
      simp only [List.reverse_nil, List.nil_append, hwf.1, Bool.false_eq_true, if_false]
      wp_simp
      exact ⟨trivial, by simp, by simp only [pdDocument]; omega⟩
    · intro es ⟨hd, p, hes⟩
      exact ⟨by simp only [pdDocument]; omega, p, hes⟩

/-! scanner-error-free inputs -/

theorem clean_of_scannerErrs {inp : Input} (h : scannerErrs inp = []) (maxRec : Nat) (leak : Bool) :
    Clean (inp.env maxRec leak) inp.toks := by
  unfold scannerErrs at h
  have h1 := (List.append_eq_nil_iff.mp h).1
  have h2 := (List.append_eq_nil_iff.mp h).2
  refine ⟨?_, h2⟩
  intro t ht
  have := List.flatMap_eq_nil_iff.mp h1 t ht
  exact this

theorem init_errors_clean {inp : Input} (h : scannerErrs inp = []) : inp.init.errors = [] := by
  have hc := clean_of_scannerErrs h 0 false
  unfold Input.init
  cases hts : inp.toks with
  | nil => exact hc.2
  | cons t ts => exact hc.1 t (by simp [hts])


end ApiFu.C06
