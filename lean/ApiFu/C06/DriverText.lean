/-
  C06 driver, text-level ops (new file; every other request is handed to Driver.handle unchanged):

    (text  <maxRec> <cp> <cp> …)   →  parseText maxRec [cp, …]        (scanner model ∘ parser model)
    (vtext <maxRec> <cp> <cp> …)   →  parseValueText maxRec [cp, …]

  The source travels as its elements: one natural per code point, an invalid UTF-8 byte `b` as
  `0x110000 + b` (C07's convention). Replies: `(ret <node> (errs))` / `(rec (errs))` / `oof`; scanner
  errors carry the empty message (the scanner model records positions only).
  CORE LEAN ONLY.
-/
import ApiFu.C06.Driver
import ApiFu.C06.Text

namespace ApiFu.C06.Driver

def handleText (line : String) : String :=
  if line.startsWith "(text " || line.startsWith "(vtext " then
    match Sexp.parse line with
    | some (Sexp.list (Sexp.atom op :: m :: cps)) =>
      match m.nat?, cps.mapM (fun c => c.nat?) with
      | some maxRec, some src =>
        if op == "text" then
          match parseText maxRec src with
          | .returned d es => toString (Sexp.node "ret" [documentS d, errsS es])
          | .recovered es => toString (Sexp.node "rec" [errsS es])
          | .outOfFuel => "oof"
        else
          match parseValueText maxRec src with
          | .returned v es => toString (Sexp.node "ret" [valueS v, errsS es])
          | .recovered es => toString (Sexp.node "rec" [errsS es])
          | .outOfFuel => "oof"
      | _, _ => "bad-op"
    | _ => "bad-op"
  else handle line

end ApiFu.C06.Driver
