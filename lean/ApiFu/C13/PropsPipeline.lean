/-
  C13 — validation and execution together: the request pipeline under a feature set.

  `seenBy dec S F` (what the validator consults) and `execSeen edec S F` (what the executor consults)
  describe ONE schema in the sense of C01's `SchemaRel` (C01/FromC04.lean: same named types with the same
  kinds, fields, interfaces, members; same roots) — `seen_schemaRel`. With it C01's theorems about
  documents the validator accepts apply to a request under `F`, and the three erasure statements line up
  into one: for a request without introspection, a document is valid under `F` exactly when it is valid
  against the erased schema, and then the executor model answers it exactly as it answers it against the
  erased schema — and never meets a type condition naming a hidden type (`valid_conds_visible`: the
  executor's own raw `namedType` is only ever asked names on which it agrees with the feature-aware one).
-/
import ApiFu.C13.PropsValidate
import ApiFu.C13.PropsExecute
import ApiFu.C01.PropsFromC04
import ApiFu.C13.PipelineLemmas
import ApiFu.C13.ExecClosed
import ApiFu.C13.ExecWf

set_option linter.unusedSimpArgs false

namespace ApiFu.C13

/-- **seen_schemaRel** — for a request without introspection (no introspection types, no meta fields in
    the decoration) on an accepted schema with an ungated query root, what the validator sees under `F`
    and what the executor sees under `F` describe one schema (C01's `SchemaRel`: same named types with the
    same kinds, fields, interfaces, members; the same roots, each an object type). -/
theorem seen_schemaRel (dec : Deco) (edec : ExecDeco) (S : Schema) (F : Feats) (hA : Accepted S = true)
    (hR : RootsUngated S = true) (hi : dec.intro = []) (hm : dec.metas = []) :
    C01.SchemaRel (seenBy dec S F) (execSeen edec S F) :=
  seenBy_schemaRel dec edec S F hA hR hi hm

/-- **valid_conds_visible** — a document that is valid under `F` never names a hidden type in a type
    condition: every type condition (fragment definitions, inline fragments at any depth) is a type visible
    under `F`. So for validated documents the executor's own `namedType`, which applies no feature test
    (`lookupRaw`), is only ever asked names on which it agrees with the feature-aware look-up that
    `execSeen` describes (`ViewAgree.lookupRaw`). -/
theorem valid_conds_visible (dec : Deco) (S : Schema) (F : Feats) (hA : Accepted S = true) (hi : dec.intro = [])
    (D : C04.Document) (h : C04.Spec.valid (seenBy dec S F) D = true) :
    ∀ tc ∈ condNames (seenBy dec S F) D, S.visible F tc = true := by
  have hex := (C01.validFacts_of_valid _ D h).fragmentTypesExist
  unfold C04.Spec.fragmentTypesExist at hex
  simp only [Bool.and_eq_true, List.all_eq_true] at hex
  intro tc htc
  unfold condNames at htc
  rcases List.mem_append.mp htc with h1 | h2
  · obtain ⟨f, hf, rfl⟩ := List.mem_map.mp h1
    exact visible_of_find_seenBy dec hA hi (hex.1 f hf)
  · obtain ⟨o, ho, hot⟩ := List.mem_filterMap.mp h2
    have hc := hex.2 o ho
    cases o with
    | field => simp at hot
    | spread => simp at hot
    | inline parent tcond dirs pos =>
      cases tcond with
      | none => simp at hot
      | some tp =>
        obtain ⟨t, p⟩ := tp
        simp only [Option.some.injEq] at hot
        subst hot
        exact visible_of_find_seenBy dec hA hi (by simpa [C04.Spec.condExistsAt] using hc)

/-- **pipeline_erase** — validation and execution of one request under `F`, against the erased schema:
    for every accepted schema with an ungated query root, every feature set, every document `D4` (as the
    validator reads it) and whatever input coercion contributes per node (`a`), every application behaviour
    (`root`), fuel and memo setting:
      1. the validation verdict (all 26 rules) is that of the erased schema;
      2. the executor model's whole response on the executor's rendering of the document (`C01.toDoc a D4`)
         is that on the erased schema;
      3. the validator's and the executor's description under `F` describe one schema (`SchemaRel`), so
         C01's theorems about validated documents (`exec_correct_validated`, `validated_no_undefined_field`, …)
         apply to requests under `F`;
      4. if the document is valid, none of its type conditions names a hidden type, and every one names a
         composite type of the executor's description (`condsCheck`). -/
theorem pipeline_erase (dec : Deco) (edec : ExecDeco) (S : Schema) (F : Feats) (hA : Accepted S = true)
    (hR : RootsUngated S = true) (hi : dec.intro = []) (hm : dec.metas = [])
    (a : C01.Ann) (D4 : C04.Document) (memo : Bool) (fuel : Nat) (opName : String) (root : C01.RVal) :
    C04.Spec.valid (seenBy dec S F) D4 = C04.Spec.valid (seenBy dec (erase S F) top) D4 ∧
    C01.execute memo (execSeen edec S F) (C01.toDoc a D4) fuel opName root
      = C01.execute memo (execSeen edec (erase S F) top) (C01.toDoc a D4) fuel opName root ∧
    C01.SchemaRel (seenBy dec S F) (execSeen edec S F) ∧
    (C04.Spec.valid (seenBy dec S F) D4 = true →
      (∀ tc ∈ condNames (seenBy dec S F) D4, S.visible F tc = true) ∧
      (C01.toDoc a D4).condsCheck (execSeen edec S F) = true) := by
  have hI : IntroNamed dec := by intro t ht; simp [hi] at ht
  have hrel := seen_schemaRel dec edec S F hA hR hi hm
  refine ⟨validate_erase dec S F hA hI D4, execute_erase edec S F hA memo _ fuel opName root, hrel, ?_⟩
  intro hv
  exact ⟨valid_conds_visible dec S F hA hi D4 hv, C01.validated_conds_composite _ _ hrel a D4 hv⟩

/-- **exec_seen_closed** — C01's `closedCheck` (every field type and every union member of the executor's
    description is a type of the description; C01 has no model of `schema.New` and keeps it as a hypothesis)
    holds for the schema as the executor sees it under any feature set — by the construction rule. -/
theorem exec_seen_closed (edec : ExecDeco) (S : Schema) (F : Feats) (hA : Accepted S = true) :
    (execSeen edec S F).closedCheck = true :=
  closedCheck_execSeen edec hA

/-- **exec_seen_wf** — C01's `wfCheck` (unique type names; an object type implementing an interface has the
    interface's fields, with covariant types: every runtime object type of the object's field type is a possible
    type of the interface's field type) holds for the schema as the executor sees it under any feature set:
    `satisfyInterface` gives a field at most as gated as the interface's, of a sub-type, and the construction rule
    makes both field types visible. -/
theorem exec_seen_wf (edec : ExecDeco) (S : Schema) (F : Feats) (hA : Accepted S = true) :
    (execSeen edec S F).wfCheck = true :=
  wfCheck_execSeen edec hA

/-- The erased schema's query root is ungated when the schema's is. -/
theorem rootsUngated_erase {S : Schema} {F : Feats} (hA : Accepted S = true) (hR : RootsUngated S = true) :
    RootsUngated (erase S F) = true := by
  have hq : (erase S F).query = S.query := rfl
  unfold RootsUngated at hR ⊢
  rw [hq, reqOf_erase (Accepted.nodup hA) (notHidden_of_visible (query_visible hA hR))]
  exact hR

/-- **validated_answer_is_erased_reference** — the property in its semantic form. A document the validator
    accepts under `F` is answered, by the executor model running on the schema as seen under `F`, with the
    answer the GraphQL execution algorithm (C01's fuel-free reference `Spec.Answers`, §6 of the June-2018
    specification) defines for the ERASED schema: the same data, required ⊆ reported ⊆ possible errors, each
    required error once (C01's `Agrees`); and that reference answer is unique. The remaining hypotheses are
    those of C01's `exec_correct_validated`, on the erased description: C04's input hypotheses for the
    document, distinct node positions and non-empty keys (facts about parsed documents). C01's hypotheses
    about the schema (`closedCheck`, `wfCheck`: "guarantees of `schema.New`") are discharged here from
    `Accepted` (`exec_seen_closed`, `exec_seen_wf`). -/
theorem validated_answer_is_erased_reference (dec : Deco) (edec : ExecDeco) (S : Schema) (F : Feats)
    (hA : Accepted S = true) (hR : RootsUngated S = true) (hi : dec.intro = []) (hm : dec.metas = [])
    (a : C01.Ann) (D4 : C04.Document) (hvalid : C04.Spec.valid (seenBy dec S F) D4 = true)
    (hin : C04.InputOk (seenBy dec (erase S F) top) D4)
    (hpos : ((C01.toDoc a D4).nodes.map C01.Selection.pos).Nodup) (hkeys : ∀ s ∈ (C01.toDoc a D4).nodes, s.keyOK)
    (opName : String) (root : C01.RVal) :
    ∃ resp r,
      C01.execute true (execSeen edec S F) (C01.toDoc a D4)
        (C01.fuelFor2 (execSeen edec (erase S F) top) (C01.toDoc a D4)) opName root = .ok resp ∧
      C01.Spec.Answers (execSeen edec (erase S F) top) (C01.toDoc a D4) opName root r ∧ C01.Agrees resp r ∧
      ∀ r', C01.Spec.Answers (execSeen edec (erase S F) top) (C01.toDoc a D4) opName root r' → r' = r := by
  have hI : IntroNamed dec := by intro t ht; simp [hi] at ht
  have hvalid' : C04.Spec.valid (seenBy dec (erase S F) top) D4 = true := by
    rw [← validate_erase dec S F hA hI D4]; exact hvalid
  have hrel' := seen_schemaRel dec edec (erase S F) top (erase_accepted S F hA hR) (rootsUngated_erase hA hR) hi hm
  obtain ⟨resp, r, hex, hans, hag, huniq⟩ :=
    C01.exec_correct_validated _ _ hrel' a D4 hin hvalid' hpos hkeys
      (closedCheck_execSeen edec (erase_accepted S F hA hR)) (wfCheck_execSeen edec (erase_accepted S F hA hR))
      opName root
  refine ⟨resp, r, ?_, hans, hag, huniq⟩
  rw [execute_erase edec S F hA]
  exact hex

/-- Non-vacuity: the hypotheses hold for the witness schema with a decoration without introspection, and
    `{ node { ... on Secret { id } } }` — valid with feature `a` — names exactly the visible `Secret` there;
    without the feature it is invalid (so the executor is never given it). -/
example :
    let dec0 : Deco := { demoDec with intro := [] }
    Accepted demoV = true ∧ RootsUngated demoV = true ∧
    C04.Spec.valid (seenBy dec0 demoV onlyA) docOnSecret = true ∧
    condNames (seenBy dec0 demoV onlyA) docOnSecret = ["Secret"] ∧
    C04.Spec.valid (seenBy dec0 demoV noF) docOnSecret = false := by decide

/-- A contribution of input coercion: every field looks its own name up (here: `flag`), no coercion error,
    no directive filter. -/
def ann0 : C01.Ann := { wkey := fun _ => "flag", argErr := fun _ => none, dir := fun _ => .other }

/-- `{ flag }` with the positions a parser assigns. -/
def docFlagQ : C04.Document :=
  [.op none none [] [] (.mk [.field none "flag" ⟨1, 3⟩ [] [] none] ⟨1, 1⟩)]

/-- Non-vacuity of `validated_answer_is_erased_reference`: every hypothesis holds for `{ flag }` with
    feature `a` on the witness schema. -/
example :
    let dec0 : Deco := { demoDec with intro := [] }
    C04.Spec.valid (seenBy dec0 demoV onlyA) docFlagQ = true ∧
    C04.InputOk (seenBy dec0 (erase demoV onlyA) top) docFlagQ ∧
    ((C01.toDoc ann0 docFlagQ).nodes.map C01.Selection.pos).Nodup ∧
    (∀ s ∈ (C01.toDoc ann0 docFlagQ).nodes, s.keyOK) :=
  ⟨by decide, C04.inputOk_of_hyp (by decide), by decide, by decide⟩

end ApiFu.C13
