/-
  C13 — a congruence for the validation specification of property C04 (`ApiFu.C04.Spec.valid`).

  `Spec.valid S D` reads the schema description `S` only through
    * `kindOf S n` (and of an object's kind never the list of implemented interfaces),
    * `possibleTypes S n`,
    * `S.query`, `S.mutation`, `S.subscription`, `S.directives`, `S.metaFields`.
  `Equiv S₁ S₂` says that two descriptions agree on exactly these observations; the theorem
  `valid_congr` shows that the verdict on EVERY document is then the same (all 26 rules, each rule
  separately: `rules_congr`). This is what lets `PropsValidate.lean` compare the schema a request with
  feature set `F` sees — where a visible object still lists the *hidden* interfaces it implements, as in
  the Go code — with the physically erased schema, where those memberships are gone.

  Core Lean only; imports C04's `Ast`/`Spec` read-only.
-/
import ApiFu.C04.Spec

set_option linter.unusedSectionVars false

namespace ApiFu.C13.SpecCongr
open ApiFu.C04 ApiFu.C04.Spec

/-- Two kind look-ups agree up to the interface list of an object type. -/
inductive KRel : Option TypeKind → Option TypeKind → Prop
  | none : KRel none none
  | object (fs : List FieldDef) (ifs ifs' : List String) : KRel (some (.object fs ifs)) (some (.object fs ifs'))
  | same (k : TypeKind) : KRel (some k) (some k)

/-- Observational equivalence of two schema descriptions for the validation specification. -/
structure Equiv (S₁ S₂ : Schema) : Prop where
  kind : ∀ n, KRel (kindOf S₁ n) (kindOf S₂ n)
  poss : ∀ n, possibleTypes S₁ n = possibleTypes S₂ n
  query : S₁.query = S₂.query
  mutation : S₁.mutation = S₂.mutation
  subscription : S₁.subscription = S₂.subscription
  directives : S₁.directives = S₂.directives
  metaFields : S₁.metaFields = S₂.metaFields

theorem Equiv.refl (S : Schema) : Equiv S S :=
  ⟨fun n => by cases h : kindOf S n <;> constructor, fun _ => rfl, rfl, rfl, rfl, rfl, rfl⟩

section
variable {S₁ S₂ : Schema} (h : Equiv S₁ S₂)
include h

/-! ### schema queries -/

theorem find_isSome_eq (n : String) : (S₁.find n).isSome = (S₂.find n).isSome := by
  have e : ∀ S : Schema, (S.find n).isSome = (kindOf S n).isSome := fun S => by simp [kindOf]
  rw [e, e]
  have := h.kind n
  revert this
  generalize kindOf S₁ n = a; generalize kindOf S₂ n = b
  intro r; cases r <;> rfl

theorem find_isNone_eq (n : String) : (S₁.find n).isNone = (S₂.find n).isNone := by
  have := find_isSome_eq h n
  cases h1 : S₁.find n <;> cases h2 : S₂.find n <;> simp_all

theorem isComposite_eq : isComposite S₁ = isComposite S₂ := by
  funext n; unfold isComposite
  have := h.kind n
  revert this
  generalize kindOf S₁ n = a; generalize kindOf S₂ n = b
  intro r; cases r <;> rfl

theorem isLeaf_eq : isLeaf S₁ = isLeaf S₂ := by
  funext n; unfold isLeaf
  have := h.kind n
  revert this
  generalize kindOf S₁ n = a; generalize kindOf S₂ n = b
  intro r; cases r <;> rfl

theorem isObject_eq : isObject S₁ = isObject S₂ := by
  funext n; unfold isObject
  have := h.kind n
  revert this
  generalize kindOf S₁ n = a; generalize kindOf S₂ n = b
  intro r; cases r <;> rfl

theorem isInputType_eq : isInputType S₁ = isInputType S₂ := by
  funext n; unfold isInputType
  have := h.kind n
  revert this
  generalize kindOf S₁ n = a; generalize kindOf S₂ n = b
  intro r; cases r <;> rfl

theorem fieldDef?_eq : fieldDef? S₁ = fieldDef? S₂ := by
  funext p n; unfold fieldDef?
  rw [h.query, h.metaFields]
  have := h.kind p
  revert this
  generalize kindOf S₁ p = a; generalize kindOf S₂ p = b
  intro r; cases r <;> rfl

theorem possibleTypes_eq : possibleTypes S₁ = possibleTypes S₂ := funext h.poss

theorem root_eq : S₁.root = S₂.root := by
  funext k; cases k <;> simp [Schema.root, h.query, h.mutation, h.subscription]

theorem findDirective_eq : S₁.findDirective = S₂.findDirective := by
  funext n; simp [Schema.findDirective, h.directives]

theorem fieldScope_eq : fieldScope S₁ = fieldScope S₂ := by
  funext p n; unfold fieldScope; rw [fieldDef?_eq h]

theorem condScope_eq : condScope S₁ = condScope S₂ := by
  funext t; unfold condScope; rw [find_isSome_eq h]

theorem inlineScope_eq : inlineScope S₁ = inlineScope S₂ := by
  funext p tc; unfold inlineScope; rw [condScope_eq h]

/-! ### occurrences -/

mutual
theorem occSel_eq : ∀ (parent : Option String) (s : Selection), occSel S₁ parent s = occSel S₂ parent s
  | parent, .field al n np args dirs none => by simp [occSel]
  | parent, .field al n np args dirs (some ss) => by
    simp only [occSel, fieldScope_eq h, occSet_eq (fieldScope S₂ parent n) ss]
  | parent, .spread n np dirs p => by simp [occSel]
  | parent, .inline tc dirs ss p => by
    simp only [occSel, inlineScope_eq h, occSet_eq (inlineScope S₂ parent tc) ss]
theorem occSet_eq : ∀ (parent : Option String) (ss : SelSet), occSet S₁ parent ss = occSet S₂ parent ss
  | parent, .mk sels p => by simp only [occSet, occSels_eq parent sels]
theorem occSels_eq : ∀ (parent : Option String) (sels : List Selection), occSels S₁ parent sels = occSels S₂ parent sels
  | parent, [] => by simp [occSels]
  | parent, s :: rest => by simp only [occSels, occSel_eq parent s, occSels_eq parent rest]
end

theorem occDef_eq : occDef S₁ = occDef S₂ := by
  funext d; cases d <;> simp only [occDef, root_eq h, condScope_eq h, occSet_eq h]

theorem selOccs_eq : selOccs S₁ = selOccs S₂ := by
  funext D; simp only [selOccs, occDef_eq h]

mutual
theorem setsSel_eq : ∀ (parent : Option String) (s : Selection), setsSel S₁ parent s = setsSel S₂ parent s
  | parent, .field al n np args dirs none => by simp [setsSel]
  | parent, .field al n np args dirs (some ss) => by
    simp only [setsSel, fieldScope_eq h, setsSet_eq (fieldScope S₂ parent n) ss]
  | parent, .spread n np dirs p => by simp [setsSel]
  | parent, .inline tc dirs ss p => by
    simp only [setsSel, inlineScope_eq h, setsSet_eq (inlineScope S₂ parent tc) ss]
theorem setsSet_eq : ∀ (parent : Option String) (ss : SelSet), setsSet S₁ parent ss = setsSet S₂ parent ss
  | parent, .mk sels p => by simp only [setsSet, setsSels_eq parent sels]
theorem setsSels_eq : ∀ (parent : Option String) (sels : List Selection), setsSels S₁ parent sels = setsSels S₂ parent sels
  | parent, [] => by simp [setsSels]
  | parent, s :: rest => by simp only [setsSels, setsSel_eq parent s, setsSels_eq parent rest]
end

theorem selSets_eq : selSets S₁ = selSets S₂ := by
  funext D; unfold selSets
  congr 1
  funext d; cases d <;> simp only [root_eq h, condScope_eq h, setsSet_eq h]

/-! ### §5.3.2 -/

theorem collect_eq (D : Document) : ∀ (fuel : Nat) (parent : Option String) (vis : List String) (sels : List Selection),
    collect S₁ D fuel parent vis sels = collect S₂ D fuel parent vis sels
  | 0, _, _, _ => by simp [collect]
  | _ + 1, _, _, [] => by simp [collect]
  | fuel + 1, parent, vis, .field al n np args dirs sel :: rest => by
    simp only [collect, collect_eq D fuel, fieldScope_eq h]
  | fuel + 1, parent, vis, .inline tc dirs ss p :: rest => by
    simp only [collect, collect_eq D fuel, inlineScope_eq h]
  | fuel + 1, parent, vis, .spread n np dirs p :: rest => by
    simp only [collect, collect_eq D fuel, condScope_eq h]

theorem cfType_eq : cfType S₁ = cfType S₂ := by
  funext f; unfold cfType; rw [fieldDef?_eq h]

theorem sameResponseShape_eq (D : Document) : ∀ (fuel : Nat) (a b : CF),
    sameResponseShape S₁ D fuel a b = sameResponseShape S₂ D fuel a b
  | 0, _, _ => by simp [sameResponseShape]
  | fuel + 1, a, b => by
    simp only [sameResponseShape, cfType_eq h, isLeaf_eq h, collect_eq h D, sameResponseShape_eq D fuel]

theorem fieldsCanMerge_eq (D : Document) : ∀ (fuel : Nat) (fs : List CF),
    fieldsCanMerge S₁ D fuel fs = fieldsCanMerge S₂ D fuel fs
  | 0, _ => by simp [fieldsCanMerge]
  | fuel + 1, fs => by
    simp only [fieldsCanMerge, sameResponseShape_eq h D, isObject_eq h, collect_eq h D, fieldsCanMerge_eq D fuel]

/-! ### §5.6 values -/

mutual
theorem valueOk_eq : ∀ (t : TRef) (ai : Bool) (v : Value), valueOk S₁ t ai v = valueOk S₂ t ai v
  | t, ai, .var _ _ => by simp [valueOk]
  | t, ai, .null _ => by simp [valueOk]
  | t, ai, .list items p => by
    simp only [valueOk]
    cases t.nullable with
    | list inner => simp only [itemsOk_eq inner items]
    | nonNull _ => rfl
    | named n =>
      simp only
      have := h.kind n
      revert this
      generalize kindOf S₁ n = a; generalize kindOf S₂ n = b
      intro r; cases r <;> rfl
  | t, ai, .obj fields p => by
    simp only [valueOk]
    cases literalTarget t ai with
    | none => rfl
    | some n =>
      simp only
      have := h.kind n
      have ih := fun defs => objFieldsOk_eq defs fields
      revert this
      generalize kindOf S₁ n = a; generalize kindOf S₂ n = b
      intro r; cases r with
      | none => rfl
      | object _ _ _ => rfl
      | same k => cases k <;> simp only [ih]
  | t, ai, .enum e p => by
    simp only [valueOk]
    cases literalTarget t ai with
    | none => rfl
    | some n =>
      simp only
      have := h.kind n
      revert this
      generalize kindOf S₁ n = a; generalize kindOf S₂ n = b
      intro r; cases r <;> rfl
  | t, ai, .int l p => by
    simp only [valueOk]
    cases literalTarget t ai with
    | none => rfl
    | some n =>
      simp only
      have := h.kind n
      revert this
      generalize kindOf S₁ n = a; generalize kindOf S₂ n = b
      intro r; cases r <;> rfl
  | t, ai, .float l p => by
    simp only [valueOk]
    cases literalTarget t ai with
    | none => rfl
    | some n =>
      simp only
      have := h.kind n
      revert this
      generalize kindOf S₁ n = a; generalize kindOf S₂ n = b
      intro r; cases r <;> rfl
  | t, ai, .str l p => by
    simp only [valueOk]
    cases literalTarget t ai with
    | none => rfl
    | some n =>
      simp only
      have := h.kind n
      revert this
      generalize kindOf S₁ n = a; generalize kindOf S₂ n = b
      intro r; cases r <;> rfl
  | t, ai, .bool l p => by
    simp only [valueOk]
    cases literalTarget t ai with
    | none => rfl
    | some n =>
      simp only
      have := h.kind n
      revert this
      generalize kindOf S₁ n = a; generalize kindOf S₂ n = b
      intro r; cases r <;> rfl
theorem itemsOk_eq : ∀ (t : TRef) (vs : List Value), itemsOk S₁ t vs = itemsOk S₂ t vs
  | t, [] => by simp [itemsOk]
  | t, v :: rest => by simp only [itemsOk, valueOk_eq t false v, itemsOk_eq t rest]
theorem objFieldsOk_eq : ∀ (defs : List InputDef) (fs : List ObjField), objFieldsOk S₁ defs fs = objFieldsOk S₂ defs fs
  | defs, [] => by simp [objFieldsOk]
  | defs, .mk n p v :: rest => by
    simp only [objFieldsOk, objFieldsOk_eq defs rest]
    cases findInput defs n with
    | none => rfl
    | some d => simp only [valueOk_eq d.type true v]
end

theorem resolveType_eq : ∀ (t : TypeExpr), resolveType S₁ t = resolveType S₂ t
  | .named n p => by simp only [resolveType, find_isSome_eq h]
  | .list t p => by simp only [resolveType, resolveType_eq t]
  | .nonNull t => by simp only [resolveType, resolveType_eq t]

theorem valueOk_feq : valueOk S₁ = valueOk S₂ := by
  funext t ai v; exact valueOk_eq h t ai v

theorem resolveType_feq : resolveType S₁ = resolveType S₂ := funext (resolveType_eq h)

/-! ### §5.4 arguments, §5.7 directives -/

theorem dirArgSites_eq : dirArgSites S₁ = dirArgSites S₂ := by
  funext dirs; simp only [dirArgSites, findDirective_eq h]

theorem occArgSites_eq : occArgSites S₁ = occArgSites S₂ := by
  funext o; simp only [occArgSites, fieldDef?_eq h, dirArgSites_eq h]

theorem argSites_eq : argSites S₁ = argSites S₂ := by
  funext D; simp only [argSites, selOccs_eq h, occArgSites_eq h, dirArgSites_eq h]

theorem dirSites_eq : dirSites S₁ = dirSites S₂ := by
  funext D; simp only [dirSites, selOccs_eq h]

/-! ### §5.8 variables -/

theorem objectTarget_eq : objectTarget S₁ = objectTarget S₂ := by
  funext t; unfold objectTarget
  cases t with
  | none => rfl
  | some t =>
    simp only
    have := h.kind t.base
    revert this
    generalize kindOf S₁ t.base = a; generalize kindOf S₂ t.base = b
    intro r; cases r <;> rfl

theorem nullableIsScalar_eq : nullableIsScalar S₁ = nullableIsScalar S₂ := by
  funext t; unfold nullableIsScalar
  cases t with
  | none => rfl
  | some t =>
    simp only
    cases t.nullable with
    | list _ => rfl
    | nonNull _ => rfl
    | named n =>
      simp only
      have := h.kind n
      revert this
      generalize kindOf S₁ n = a; generalize kindOf S₂ n = b
      intro r; cases r <;> rfl

theorem baseIsScalar_eq : baseIsScalar S₁ = baseIsScalar S₂ := by
  funext t; unfold baseIsScalar
  cases t with
  | none => rfl
  | some t =>
    simp only
    have := h.kind t.base
    revert this
    generalize kindOf S₁ t.base = a; generalize kindOf S₂ t.base = b
    intro r; cases r <;> rfl

theorem itemInScalar_eq : itemInScalar S₁ = itemInScalar S₂ := by
  funext t sc; simp only [itemInScalar, nullableIsScalar_eq h]

theorem fieldInScalar_eq : fieldInScalar S₁ = fieldInScalar S₂ := by
  funext t sc; simp only [fieldInScalar, objectTarget_eq h, baseIsScalar_eq h]

mutual
theorem usagesValue_eq : ∀ (t : Option TRef) (ld sc : Bool) (v : Value),
    usagesValue S₁ t ld sc v = usagesValue S₂ t ld sc v
  | t, ld, sc, .var _ _ => by simp [usagesValue]
  | t, ld, sc, .list items _ => by
    simp only [usagesValue, itemInScalar_eq h, usagesItems_eq (itemType t) (itemInScalar S₂ t sc) items]
  | t, ld, sc, .obj fields _ => by
    simp only [usagesValue, objectTarget_eq h, fieldInScalar_eq h,
      usagesFields_eq (objectTarget S₂ t) (fieldInScalar S₂ t sc) fields]
  | t, ld, sc, .int _ _ => by simp [usagesValue]
  | t, ld, sc, .float _ _ => by simp [usagesValue]
  | t, ld, sc, .str _ _ => by simp [usagesValue]
  | t, ld, sc, .bool _ _ => by simp [usagesValue]
  | t, ld, sc, .null _ => by simp [usagesValue]
  | t, ld, sc, .enum _ _ => by simp [usagesValue]
theorem usagesItems_eq : ∀ (t : Option TRef) (sc : Bool) (vs : List Value),
    usagesItems S₁ t sc vs = usagesItems S₂ t sc vs
  | t, sc, [] => by simp [usagesItems]
  | t, sc, v :: rest => by simp only [usagesItems, usagesValue_eq t false sc v, usagesItems_eq t sc rest]
theorem usagesFields_eq : ∀ (defs : Option (List InputDef)) (sc : Bool) (fs : List ObjField),
    usagesFields S₁ defs sc fs = usagesFields S₂ defs sc fs
  | defs, sc, [] => by simp [usagesFields]
  | defs, sc, .mk n p v :: rest => by
    simp only [usagesFields, usagesFields_eq defs sc rest]
    cases defs.bind (findInput · n) with
    | none => simp only [usagesValue_eq none false sc v]
    | some d => simp only [usagesValue_eq (some d.type) (d.dflt != .none) false v]
end

theorem usagesValue_feq : usagesValue S₁ = usagesValue S₂ := by
  funext t ld sc v; exact usagesValue_eq h t ld sc v

theorem usagesArgs_eq : usagesArgs S₁ = usagesArgs S₂ := by
  funext defs args; simp only [usagesArgs, usagesValue_feq h]

theorem usagesDirs_eq : usagesDirs S₁ = usagesDirs S₂ := by
  funext dirs; simp only [usagesDirs, usagesArgs_eq h, findDirective_eq h]

theorem usagesOcc_eq : usagesOcc S₁ = usagesOcc S₂ := by
  funext o; cases o <;> simp only [usagesOcc, usagesArgs_eq h, usagesDirs_eq h, fieldDef?_eq h]

theorem fragUsagesOf_eq : fragUsagesOf S₁ = fragUsagesOf S₂ := by
  funext n d; cases d <;> simp only [fragUsagesOf, usagesDirs_eq h, usagesOcc_eq h, condScope_eq h, occSet_eq h]

theorem fragUsages_eq : fragUsages S₁ = fragUsages S₂ := by
  funext D n; simp only [fragUsages, fragUsagesOf_eq h]

theorem opUsages_eq : opUsages S₁ = opUsages S₂ := by
  funext D kind dirs sel
  simp only [opUsages, usagesDirs_eq h, usagesOcc_eq h, root_eq h, occSet_eq h, fragUsages_eq h]

theorem defUsages_eq : defUsages S₁ = defUsages S₂ := by
  funext D d; cases d <;> simp only [defUsages, opUsages_eq h]

/-! ### the rules -/

theorem opTypeSupported_eq : opTypeSupported S₁ = opTypeSupported S₂ := by
  funext D; unfold opTypeSupported
  congr 1
  funext d; cases d <;> simp only [opSupportedAt, root_eq h]

theorem fieldsDefined_eq : fieldsDefined S₁ = fieldsDefined S₂ := by
  funext D; unfold fieldsDefined
  rw [selOccs_eq h]; congr 1
  funext o; cases o with
  | field parent al n np args dirs sel => cases parent <;> simp only [fieldDefinedAt, isComposite_eq h, fieldDef?_eq h]
  | spread => rfl
  | inline => rfl

theorem leafSelections_eq : leafSelections S₁ = leafSelections S₂ := by
  funext D; unfold leafSelections
  rw [selOccs_eq h]; congr 1
  funext o; cases o with
  | field parent al n np args dirs sel => cases parent <;> simp only [leafOkAt, isComposite_eq h, fieldDef?_eq h]
  | spread => rfl
  | inline => rfl

theorem fieldsMerge_eq : fieldsMerge S₁ = fieldsMerge S₂ := by
  funext D; simp only [fieldsMerge, selSets_eq h, fieldsCanMerge_eq h D, collect_eq h D]

theorem argumentsKnown_eq : argumentsKnown S₁ = argumentsKnown S₂ := by
  funext D; simp only [argumentsKnown, argSites_eq h]

theorem argumentsUnique_eq : argumentsUnique S₁ = argumentsUnique S₂ := by
  funext D; simp only [argumentsUnique, argSites_eq h]

theorem argumentsRequired_eq : argumentsRequired S₁ = argumentsRequired S₂ := by
  funext D; simp only [argumentsRequired, argSites_eq h]

theorem fragmentTypesExist_eq : fragmentTypesExist S₁ = fragmentTypesExist S₂ := by
  funext D; unfold fragmentTypesExist
  rw [selOccs_eq h]
  congr 1
  · congr 1; funext f; exact find_isSome_eq h _
  · congr 1; funext o; cases o with
    | inline parent tc dirs pos => cases tc <;> simp only [condExistsAt, find_isSome_eq h]
    | field => rfl
    | spread => rfl

theorem fragmentsOnComposite_eq : fragmentsOnComposite S₁ = fragmentsOnComposite S₂ := by
  funext D; unfold fragmentsOnComposite
  rw [selOccs_eq h]
  congr 1
  · congr 1; funext f; rw [find_isNone_eq h, isComposite_eq h]
  · congr 1; funext o; cases o with
    | inline parent tc dirs pos => cases tc <;> simp only [condCompositeAt, find_isNone_eq h, isComposite_eq h]
    | field => rfl
    | spread => rfl

theorem spreadNames_eq : spreadNames S₁ = spreadNames S₂ := by
  funext D; simp only [spreadNames, selOccs_eq h]

theorem fragmentsUsed_eq : fragmentsUsed S₁ = fragmentsUsed S₂ := by
  funext D; simp only [fragmentsUsed, spreadNames_eq h]

theorem spreadsDefined_eq : spreadsDefined S₁ = spreadsDefined S₂ := by
  funext D; simp only [spreadsDefined, spreadNames_eq h]

theorem spreadsPossible_eq : spreadsPossible S₁ = spreadsPossible S₂ := by
  funext D; simp only [spreadsPossible, selOccs_eq h, isComposite_eq h, possibleTypes_eq h]

theorem valuesCorrect_eq : valuesCorrect S₁ = valuesCorrect S₂ := by
  funext D
  have e0 : argValueOk S₁ = argValueOk S₂ := by
    funext s a; unfold argValueOk; rw [valueOk_feq h]
  have e1 : siteValuesOk S₁ = siteValuesOk S₂ := by
    funext s; simp only [siteValuesOk, e0]
  have e2 : defaultOk S₁ = defaultOk S₂ := by
    funext vd; simp only [defaultOk, valueOk_feq h, resolveType_feq h]
  simp only [valuesCorrect, argSites_eq h, e1, e2]

theorem directivesDefined_eq : directivesDefined S₁ = directivesDefined S₂ := by
  funext D; simp only [directivesDefined, dirSites_eq h, findDirective_eq h]

theorem directivesInLocation_eq : directivesInLocation S₁ = directivesInLocation S₂ := by
  funext D; simp only [directivesInLocation, dirSites_eq h, findDirective_eq h]

theorem directivesUnique_eq : directivesUnique S₁ = directivesUnique S₂ := by
  funext D; simp only [directivesUnique, dirSites_eq h]

theorem variablesAreInputTypes_eq : variablesAreInputTypes S₁ = variablesAreInputTypes S₂ := by
  funext D
  have e : variableTypeOk S₁ = variableTypeOk S₂ := by
    funext vd; simp only [variableTypeOk, resolveType_feq h, isInputType_eq h]
  simp only [variablesAreInputTypes, e]

theorem variableUsesDefined_eq : variableUsesDefined S₁ = variableUsesDefined S₂ := by
  funext D; simp only [variableUsesDefined, defUsages_eq h]

theorem variablesUsed_eq : variablesUsed S₁ = variablesUsed S₂ := by
  funext D; simp only [variablesUsed, defUsages_eq h]

theorem variableUsagesAllowed_eq : variableUsagesAllowed S₁ = variableUsagesAllowed S₂ := by
  funext D
  have e : usageAllowedIn S₁ = usageAllowedIn S₂ := by
    funext vars u; simp only [usageAllowedIn, resolveType_feq h]
  simp only [variableUsagesAllowed, defUsages_eq h, e]

/-- **rules_congr** — every one of the 26 validation rules of the specification gives the same answer on
    two observationally equivalent schema descriptions, for every document. -/
theorem rules_congr (D : Document) : rules S₁ D = rules S₂ D := by
  simp only [rules, opTypeSupported_eq h, fieldsDefined_eq h, leafSelections_eq h, fieldsMerge_eq h,
    argumentsKnown_eq h, argumentsUnique_eq h, argumentsRequired_eq h, fragmentTypesExist_eq h,
    fragmentsOnComposite_eq h, fragmentsUsed_eq h, spreadsDefined_eq h, spreadsPossible_eq h,
    valuesCorrect_eq h, directivesDefined_eq h, directivesInLocation_eq h, directivesUnique_eq h,
    variablesAreInputTypes_eq h, variableUsesDefined_eq h, variablesUsed_eq h, variableUsagesAllowed_eq h]

/-- **valid_congr** — the verdict of the validation specification on every document is the same. -/
theorem valid_congr (D : Document) : valid S₁ D = valid S₂ D := by
  simp only [valid, rules_congr h D]

theorem violated_congr (D : Document) : violated S₁ D = violated S₂ D := by
  simp only [violated, rules_congr h D]

end

end ApiFu.C13.SpecCongr
