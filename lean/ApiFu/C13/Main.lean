/-
  C13 model driver. Line protocol (S-expressions, one per line):

    (schema (schema Q M Sub (kind name (req…) ((f ty (req…) ((a ty)…) dep|-)…) (ifaces…) (members…) (values…) ((k ty)…) (deprecated values…))…))
        → (accepted true) | (accepted false)          -- sets the current schema
    (directives (name ((a ty)…))…) → ok          -- directive definitions of the NEXT schema
    (erase (features…))   → (schema …) of `erase S F`
    (erasedirs (features…)) → (directives …) of `erase S F`
    (view (features…))    → (view (types …) (query Q) (mutation M|-) (type N …)… (lk N …)… (gf T f …)… (sp P T b)…)
                            the accessors of `view S F` over the universe of S's type names + Nope + __Type
    (resolve (features…) A (claimed…)) → the object type an A-typed value claimed by these types resolves to, or -
    (introspect (features…) erased|full <sels>)  → JSON text of the model's introspection answer
    (walk (features…) erased|full <doc>)         → events of the model's selection walk
  Type references travel as strings: Name, [T], T!.
-/
import ApiFu.Common.Sexp
import ApiFu.Common.Loop
import ApiFu.C13.Model
import ApiFu.C13.Client

open ApiFu ApiFu.C13

/-- Parse "Name", "[T]", "T!" (fuel = length). -/
def parseTRefAux : Nat → List Char → Option TRef
  | 0, _ => none
  | fuel + 1, cs =>
    match cs.reverse with
    | '!' :: rest => (parseTRefAux fuel rest.reverse).map TRef.nonNull
    | ']' :: rest =>
      match rest.reverse with
      | '[' :: inner => (parseTRefAux fuel inner).map TRef.list
      | _ => none
    | [] => none
    | _ => if cs.any (fun c => c == '[' || c == ']' || c == '!') then none else some (.named (String.ofList cs))

def parseTRef (s : String) : Option TRef := parseTRefAux (s.length + 1) s.toList

def ApiFu.C13.TRef.str : TRef → String
  | .named n => n
  | .list t => "[" ++ t.str ++ "]"
  | .nonNull t => t.str ++ "!"

def atoms (x : Sexp) : Option (List String) :=
  match x with
  | .list xs => xs.mapM Sexp.atom?
  | _ => none

def parseArgs (x : Sexp) : Option (List Arg) :=
  match x with
  | .list xs => xs.mapM fun
      | .list [.atom n, .atom t] => (parseTRef t).map fun ty => { name := n, ty := ty }
      | _ => none
  | _ => none

def parseField : Sexp → Option Field
  | .list [.atom n, .atom t, req, args, .atom dep] => do
    let ty ← parseTRef t
    let r ← atoms req
    let a ← parseArgs args
    pure { name := n, ty := ty, req := r, args := a, deprecated := dep == "dep" }
  | _ => none

def parseKind : String → Option Kind
  | "scalar" => some .scalar | "object" => some .object | "interface" => some .interface
  | "union" => some .union | "enum" => some .enum | "input" => some .input | _ => none

def parseType : Sexp → Option TypeDef
  | .list [.atom k, .atom n, req, .list fs, ifaces, members, values, inputs, depValues] => do
    let kind ← parseKind k
    let r ← atoms req
    let fields ← fs.mapM parseField
    let i ← atoms ifaces
    let m ← atoms members
    let v ← atoms values
    let ins ← parseArgs inputs
    let dv ← atoms depValues
    pure { kind := kind, name := n, req := r, fields := fields, interfaces := i, members := m, values := v, inputs := ins,
           deprecatedValues := dv }
  | _ => none

def parseSchema : Sexp → Option Schema
  | .list (.atom "schema" :: .atom q :: .atom m :: .atom sub :: ts) => do
    let types ← ts.mapM parseType
    pure { types := types, query := q, mutation := if m == "" then none else some m,
           subscription := if sub == "" then none else some sub }
  | _ => none

def kindStr : Kind → String
  | .scalar => "scalar" | .object => "object" | .interface => "interface"
  | .union => "union" | .enum => "enum" | .input => "input"

def kindIntro : Kind → String
  | .scalar => "SCALAR" | .object => "OBJECT" | .interface => "INTERFACE"
  | .union => "UNION" | .enum => "ENUM" | .input => "INPUT_OBJECT"

def strsSexp (xs : List String) : Sexp := .list (xs.map Sexp.str)
def argsSexp (as : List Arg) : Sexp := .list (as.map fun a => .list [Sexp.str a.name, Sexp.str a.ty.str])

def schemaSexp (S : Schema) : Sexp :=
  .list (Sexp.atom "schema" :: Sexp.str S.query :: Sexp.str (S.mutation.getD "") :: Sexp.str (S.subscription.getD "") ::
    S.types.map fun t =>
      .list [Sexp.str (kindStr t.kind), Sexp.str t.name, strsSexp t.req,
        .list (t.fields.map fun f => .list [Sexp.str f.name, Sexp.str f.ty.str, strsSexp f.req, argsSexp f.args,
          Sexp.atom (if f.deprecated then "dep" else "-")]),
        strsSexp t.interfaces, strsSexp t.members, strsSexp t.values, argsSexp t.inputs, strsSexp t.deprecatedValues])

def optList {α} (f : α → Sexp) : Option (List α) → Sexp
  | none => Sexp.atom "none"
  | some xs => .list (xs.map f)

def sigSexp (s : FieldSig) : Sexp :=
  .list [Sexp.str (if s.deprecated then s.name ++ "~" else s.name), Sexp.str s.ty.str, argsSexp s.args]

def viewSexp (S : Schema) (v : View) : Sexp :=
  let names := S.types.map (·.name) ++ ["Nope", "__Type"]
  let typeEntries := names.map fun n =>
    match v.typeByName n with
    | none => Sexp.list [Sexp.atom "type", Sexp.str n, Sexp.atom "none"]
    | some p =>
      Sexp.list [Sexp.atom "type", Sexp.str n,
        Sexp.str (match v.kindOf p with | some k => kindIntro k | none => "?"),
        optList sigSexp (v.fieldsListing true p),
        optList Sexp.str (v.interfacesOf p),
        optList Sexp.str (v.possibleTypes p),
        optList (fun (a : Arg) => Sexp.list [Sexp.str a.name, Sexp.str a.ty.str]) (v.inputFields p),
        optList Sexp.str (v.enumValues true p),
        -- the same listings without includeDeprecated
        optList sigSexp (v.fieldsListing false p),
        optList Sexp.str (v.enumValues false p)]
  let lkEntries := names.map fun n =>
    Sexp.list [Sexp.atom "lk", Sexp.str n,
      Sexp.atom (match v.lookupF n with
        | none => "none"
        | some k => if k == .object || k == .interface || k == .union then "composite" else "leaf")]
  let gfEntries := S.types.flatMap fun t =>
    if t.kind == .object || t.kind == .interface then
      ("nope" :: t.fields.map (·.name)).map fun fn =>
        Sexp.list [Sexp.atom "gf", Sexp.str t.name, Sexp.str fn,
          match v.getField t.name fn with
          | none => Sexp.atom "none"
          | some s => Sexp.list [Sexp.str s.ty.str, argsSexp s.args]]
    else []
  let comp := (S.types.map (·.name)).filter fun n =>
    match v.lookupF n with
    | some k => k == .object || k == .interface || k == .union
    | none => false
  let spEntries := comp.flatMap fun p => comp.map fun t =>
    Sexp.list [Sexp.atom "sp", Sexp.str p, Sexp.str t, Sexp.ofBool (v.spreadPossible t p)]
  let objs := (S.types.filter (fun t => t.kind == .object)).map (·.name)
  let abstr := comp.filter fun n => match v.kindOf n with
    | some k => k == .interface || k == .union
    | none => false
  let rcEntries := abstr.flatMap fun a => objs.map fun o =>
    Sexp.list [Sexp.atom "rc", Sexp.str a, Sexp.str o, Sexp.ofBool ((v.resolveCandidates a).contains o)]
  let dirEntries := v.directivesListing.map fun d =>
    Sexp.list [Sexp.atom "dir", Sexp.str d.name, argsSexp d.args]
  let daEntries :=
    (v.directivesListing.flatMap fun d => ("nope" :: d.args.map (·.name)).map fun a =>
      Sexp.list [Sexp.atom "da", Sexp.str d.name, Sexp.str a,
        Sexp.atom (match directiveCheck v d.name [a] with
          | [] => "defined"
          | _ => "undefined")])
    ++ [Sexp.list [Sexp.atom "da", Sexp.str "nope", Sexp.str "x",
          Sexp.atom (if directiveCheck v "nope" ["x"] == ["undefined directive"] then "nodirective" else "?")]]
  .list ([Sexp.atom "view",
          .list (Sexp.atom "types" :: v.typesListing.map Sexp.str),
          .list [Sexp.atom "query", Sexp.str v.queryType],
          .list [Sexp.atom "mutation", Sexp.str (v.mutationType.getD "-")],
          .list [Sexp.atom "subscription", Sexp.str (v.subscriptionType.getD "-")]]
         ++ typeEntries ++ lkEntries ++ gfEntries ++ spEntries ++ rcEntries ++ dirEntries ++ daEntries)

def featsOf (xs : List String) : Feats := fun s => xs.contains s

structure St where
  schema : Schema := { types := [], query := "", mutation := none, subscription := none }
  /-- directive definitions announced by `(directives …)`, attached to the next `(schema …)` -/
  directives : List DirectiveDef := []

def parseDirective : Sexp → Option DirectiveDef
  | .list [.atom n, args] => (parseArgs args).map fun a => { name := n, args := a }
  | _ => none

def dirsSexp (ds : List DirectiveDef) : Sexp :=
  .list (Sexp.atom "directives" :: ds.map fun d => .list [Sexp.str d.name, argsSexp d.args])

/-- The (schema, features) a request is evaluated against: `full` = (S, F), `erased` = (erase S F, ⊤). -/
def pick (S : Schema) (F : Feats) (which : String) : Schema × Feats :=
  if which == "erased" then (erase S F, top) else (S, F)

def handle (st : St) (line : String) : St × String :=
  match Sexp.parse line with
  | some (.list [.atom "schema", s]) =>
    match (parseSchema s).map (fun S => { S with directives := st.directives }) with
    | some S =>
      ({ st with schema := S },
       "(accepted " ++ (if Accepted S then "true" else "false") ++ " " ++
         (if RootsUngated S then "rootsUngated" else "rootsGated") ++ ")")
    | none => (st, "bad-schema")
  | some (.list (.atom "directives" :: ds)) =>
    match ds.mapM parseDirective with
    | some d => ({ st with directives := d }, "ok")
    | none => (st, "bad-op")
  | some (.list [.atom "erasedirs", fs]) =>
    match atoms fs with
    | some f => (st, toString (dirsSexp (erase st.schema (featsOf f)).directives))
    | none => (st, "bad-op")
  | some (.list [.atom "erase", fs]) =>
    match atoms fs with
    | some f => (st, toString (schemaSexp (erase st.schema (featsOf f))))
    | none => (st, "bad-op")
  | some (.list [.atom "view", fs]) =>
    match atoms fs with
    | some f => (st, toString (viewSexp st.schema (view st.schema (featsOf f))))
    | none => (st, "bad-op")
  | some (.list [.atom "resolve", fs, .atom abstract, claimed]) =>
    match atoms fs, atoms claimed with
    | some f, some c => (st, ((view st.schema (featsOf f)).resolveType abstract c).getD "-")
    | _, _ => (st, "bad-op")
  | some (.list [.atom "introspect", fs, .atom which, q]) =>
    match atoms fs, parseSels q with
    | some f, some sels =>
      let (S, F) := pick st.schema (featsOf f) which
      (st, (introspect (view S F) sels).render)
    | _, _ => (st, "bad-op")
  | some (.list [.atom "walk", fs, .atom which, .atom root, q]) =>
    match atoms fs, parseSels q with
    | some f, some sels =>
      let (S, F) := pick st.schema (featsOf f) which
      (st, toString (Sexp.list ((walk (view S F) (if root == "" then none else some root) sels).map eventSexp)))
    | _, _ => (st, "bad-op")
  | _ => (st, "bad-op")

def main : IO Unit := lineLoop handle {}
