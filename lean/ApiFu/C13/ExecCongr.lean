/-
  C13 — a congruence for the executor model of property C01 (`ApiFu.C01.execute`, the transliteration of
  graphql/executor/executor.go that C01's correspondence ties to the Go code on every run).

  The executor reads the schema description only through
    * `S.lookup n` — and of an object type never the interface list itself, only whether it contains
      the name of an *interface type of the schema* (`doesFragmentTypeApply`),
    * `S.implementations n` for an interface `n` (type resolution),
    * the three root type names.
  `Equiv S₁ S₂` says two descriptions agree on these observations; `execute_congr` shows that the whole
  response (data, every error with path and locations, in order; or the stuck outcome) is then the same
  for EVERY document, root value (= application behaviour), fuel and memo setting.

  Core Lean only; imports C01's `Model` read-only.
-/
import ApiFu.C01.Model

set_option linter.unusedSectionVars false

namespace ApiFu.C13.ExecCongr
open ApiFu.C01

/-- Two type look-ups agree up to the interface list of an object type. -/
inductive TRel : Option TypeDef → Option TypeDef → Prop
  | none : TRel none none
  | object (fs : List FieldDef) (ifs ifs' : List String) : TRel (some (.object fs ifs)) (some (.object fs ifs'))
  | same (t : TypeDef) : TRel (some t) (some t)

/-- Observational equivalence of two schema descriptions for the executor. -/
structure Equiv (S₁ S₂ : Schema) : Prop where
  look : ∀ n, TRel (S₁.lookup n) (S₂.lookup n)
  /-- the two interface lists of an object type contain the same interface types of the schema -/
  ifaces : ∀ n fs ifs ifs', S₁.lookup n = some (.object fs ifs) → S₂.lookup n = some (.object fs ifs') →
    ∀ tc fs', S₁.lookup tc = some (.interface fs') → ifs.contains tc = ifs'.contains tc
  impls : ∀ n fs, S₁.lookup n = some (.interface fs) → S₁.implementations n = S₂.implementations n
  query : S₁.query = S₂.query
  mutation : S₁.mutation = S₂.mutation
  subscription : S₁.subscription = S₂.subscription

/-- Two resolved object types the executor cannot tell apart. -/
def ORel (S₁ : Schema) (o₁ o₂ : ObjT) : Prop :=
  o₁.name = o₂.name ∧ o₁.fields = o₂.fields ∧
    ∀ tc fs', S₁.lookup tc = some (.interface fs') → o₁.ifaces.contains tc = o₂.ifaces.contains tc

section
variable {S₁ S₂ : Schema} (h : Equiv S₁ S₂)
include h

theorem fragmentApplies_eq {o₁ o₂ : ObjT} (ho : ORel S₁ o₁ o₂) (tc : String) :
    fragmentApplies S₁ o₁ tc = fragmentApplies S₂ o₂ tc := by
  unfold fragmentApplies
  have hl := h.look tc
  cases h1 : S₁.lookup tc with
  | none => rw [h1] at hl; generalize S₂.lookup tc = b at hl; cases hl; rfl
  | some t =>
    rw [h1] at hl
    generalize S₂.lookup tc = b at hl
    cases hl with
    | object fs ifs ifs' => simp only [ho.1]
    | same t =>
      cases t with
      | interface fs' => simp only [ho.2.2 tc fs' h1]
      | object _ _ => simp only [ho.1]
      | union ms => simp only [ho.1]
      | scalar _ => rfl
      | enum _ => rfl

theorem collectStep_eq (D : Document) {o₁ o₂ : ObjT} (ho : ORel S₁ o₁ o₂)
    {r₁ r₂ : List Selection → CState → Except Stuck CState} (hr : ∀ sels st, r₁ sels st = r₂ sels st)
    (st : CState) (sel : Selection) :
    collectStep S₁ D o₁ r₁ st sel = collectStep S₂ D o₂ r₂ st sel := by
  unfold collectStep
  cases sel with
  | field => rfl
  | spread p name dirs => simp only [fragmentApplies_eq h ho, hr]
  | inline p tc dirs sub =>
    cases tc with
    | none => simp only [hr]
    | some tc => simp only [fragmentApplies_eq h ho, hr]

theorem collectImpl_eq (D : Document) {o₁ o₂ : ObjT} (ho : ORel S₁ o₁ o₂) :
    ∀ (fuel : Nat) (sels : List Selection) (st : CState),
      collectImpl S₁ D o₁ fuel sels st = collectImpl S₂ D o₂ fuel sels st
  | 0, _, _ => rfl
  | fuel + 1, sels, st => by
    have e : collectStep S₁ D o₁ (collectImpl S₁ D o₁ fuel) = collectStep S₂ D o₂ (collectImpl S₂ D o₂ fuel) := by
      funext st sel
      exact collectStep_eq h D ho (collectImpl_eq D ho fuel) st sel
    simp only [collectImpl, e]

theorem collectFields_eq (memo : Bool) (D : Document) (fuel : Nat) {o₁ o₂ : ObjT} (ho : ORel S₁ o₁ o₂)
    (sels : List Selection) (c : Cache) :
    collectFields memo S₁ D fuel o₁ sels c = collectFields memo S₂ D fuel o₂ sels c := by
  unfold collectFields cacheKey
  simp only [ho.1, collectImpl_eq h D ho]

omit h in
theorem execItemsWith_eq {S : Schema} {o₁ o₂ : ObjT} (ho : ORel S o₁ o₂) (path : Path)
    (field : List FieldNode → FieldNode → FieldDef → Path → Cache → Out) :
    ∀ (g : Grouped) (acc : List (String × Json)) (errs : List Err) (c : Cache),
      execItemsWith o₁ path field g acc errs c = execItemsWith o₂ path field g acc errs c
  | [], _, _, _ => rfl
  | (key, fields) :: rest, acc, errs, c => by
    unfold execItemsWith
    cases fields.head? with
    | none => rfl
    | some f0 =>
      simp only [ObjT.getField, ho.1, ho.2.1]
      split
      · exact execItemsWith_eq ho path field rest _ _ _
      · cases o₂.fields.find? (fun f => f.name == f0.name) with
        | none => exact execItemsWith_eq ho path field rest _ _ _
        | some fd =>
          simp only
          split
          · exact execItemsWith_eq ho path field rest _ _ _
          · rfl

/-- Resolving an object type by name in the two descriptions. -/
theorem object?_rel (tn : String) :
    (S₁.object? tn = none ∧ S₂.object? tn = none) ∨
      ∃ o₁ o₂, S₁.object? tn = some o₁ ∧ S₂.object? tn = some o₂ ∧ ORel S₁ o₁ o₂ := by
  unfold Schema.object?
  have hl := h.look tn
  cases h1 : S₁.lookup tn with
  | none => rw [h1] at hl; generalize S₂.lookup tn = b at hl; cases hl; exact .inl ⟨rfl, rfl⟩
  | some t =>
    rw [h1] at hl
    generalize h2 : S₂.lookup tn = b at hl
    cases hl with
    | object fs ifs ifs' =>
      exact .inr ⟨_, _, rfl, rfl, rfl, rfl, fun tc fs' htc => h.ifaces tn fs ifs ifs' h1 h2 tc fs' htc⟩
    | same t =>
      cases t with
      | object fs ifs => exact .inr ⟨_, _, rfl, rfl, rfl, rfl, fun _ _ _ => rfl⟩
      | scalar _ => exact .inl ⟨rfl, rfl⟩
      | interface _ => exact .inl ⟨rfl, rfl⟩
      | union _ => exact .inl ⟨rfl, rfl⟩
      | enum _ => exact .inl ⟨rfl, rfl⟩

theorem exec_eq (memo : Bool) (D : Document) : ∀ (fuel : Nat),
    (∀ (o₁ o₂ : ObjT) (sels : List Selection) (v : RVal) (path : Path) (c : Cache), ORel S₁ o₁ o₂ →
      execSelections memo S₁ D fuel o₁ sels v path c = execSelections memo S₂ D fuel o₂ sels v path c) ∧
    (∀ (t : TypeRef) (fields : List FieldNode) (f0 : FieldNode) (v : RVal) (path : Path) (c : Cache),
      completeValue memo S₁ D fuel t fields f0 v path c = completeValue memo S₂ D fuel t fields f0 v path c)
  | 0 => ⟨fun _ _ _ _ _ _ _ => by simp [execSelections], fun _ _ _ _ _ _ => by simp [completeValue]⟩
  | fuel + 1 => by
    have ih := exec_eq memo D fuel
    refine ⟨?_, ?_⟩
    · intro o₁ o₂ sels v path c ho
      simp only [execSelections, collectFields_eq h memo D fuel ho, ih.2]
      cases collectFields memo S₂ D fuel o₂ sels c with
      | error s => rfl
      | ok gc => exact execItemsWith_eq ho path _ gc.1 [] [] gc.2
    · intro t fields f0 v path c
      cases t with
      | nonNull inner => simp only [completeValue, ih.2]
      | list inner => simp only [completeValue, ih.2]
      | named n =>
        simp only [completeValue]
        split
        · rfl
        · have hl := h.look n
          cases h1 : S₁.lookup n with
          | none => rw [h1] at hl; generalize S₂.lookup n = b at hl; cases hl; rfl
          | some td =>
            rw [h1] at hl
            generalize h2 : S₂.lookup n = b at hl
            cases hl with
            | object fs ifs ifs' =>
              exact ih.1 _ _ _ _ _ _ ⟨rfl, rfl, fun tc fs' htc => h.ifaces n fs ifs ifs' h1 h2 tc fs' htc⟩
            | same td =>
              cases td with
              | scalar k => rfl
              | enum vs => rfl
              | object fs ifs => exact ih.1 _ _ _ _ _ _ ⟨rfl, rfl, fun _ _ _ => rfl⟩
              | interface fs =>
                simp only [h.impls n fs h1]
                cases (S₂.implementations n).find? (fun t => isTypeOf t v) with
                | none => rfl
                | some tn =>
                  rcases object?_rel h tn with ⟨e1, e2⟩ | ⟨o₁, o₂, e1, e2, ho⟩
                  · simp only [e1, e2]
                  · simp only [e1, e2]; exact ih.1 _ _ _ _ _ _ ho
              | union members =>
                simp only
                cases members.find? (fun t => isTypeOf t v) with
                | none => rfl
                | some tn =>
                  rcases object?_rel h tn with ⟨e1, e2⟩ | ⟨o₁, o₂, e1, e2, ho⟩
                  · simp only [e1, e2]
                  · simp only [e1, e2]; exact ih.1 _ _ _ _ _ _ ho

/-- **execute_congr** — the executor's whole response is the same on two observationally equivalent
    schema descriptions. -/
theorem execute_congr (memo : Bool) (D : Document) (fuel : Nat) (opName : String) (root : RVal) :
    execute memo S₁ D fuel opName root = execute memo S₂ D fuel opName root := by
  unfold execute
  cases getOperation D opName with
  | error e => rfl
  | ok op =>
    simp only
    have hr : rootTypeName S₁ op.kind = rootTypeName S₂ op.kind := by
      cases op.kind <;> simp [rootTypeName, h.query, h.mutation, h.subscription]
    rw [hr]
    cases rootTypeName S₂ op.kind with
    | none => rfl
    | some rn =>
      simp only [Option.bind]
      rcases object?_rel h rn with ⟨e1, e2⟩ | ⟨o₁, o₂, e1, e2, ho⟩
      · simp only [e1, e2]
      · simp only [e1, e2, (exec_eq h memo D fuel).1 o₁ o₂ op.sels root [] [] ho]

end

end ApiFu.C13.ExecCongr
