/-
  C13 → C04, helper lemmas: how `C04.Spec.kindOf` / `possibleTypes` of the schema seen under `F`
  (`seenBy`, ToC04.lean) relate to those of the erased schema; `seenBy_equiv`: the two descriptions are
  observationally equivalent for the validation specification (`SpecCongr.Equiv`).
-/
import ApiFu.C13.Lemmas
import ApiFu.C13.ToC04
import ApiFu.C13.SpecCongr

set_option linter.unusedSimpArgs false

namespace ApiFu.C13

open SpecCongr (KRel Equiv)

/-! ### looking a name up in `seenBy` -/

theorem find?_filter_map_gen {β : Type} (l : List TypeDef) (hu : (l.map (·.name)).Nodup) (p : TypeDef → Bool)
    (g : TypeDef → β) (nm : β → String) (hg : ∀ t, nm (g t) = t.name) (n : String) :
    ((l.filter p).map g).find? (fun b => decide (nm b = n)) =
      match l.find? (fun t => t.name == n) with
      | some t => if p t then some (g t) else none
      | none => none := by
  induction l with
  | nil => simp
  | cons a l ih =>
    simp only [List.map_cons, List.nodup_cons] at hu
    have ih := ih hu.2
    by_cases hn : a.name = n
    · subst hn
      have hnone : l.find? (fun t => t.name == a.name) = none := by
        rw [List.find?_eq_none]
        intro x hx hxe
        exact hu.1 (List.mem_map.mpr ⟨x, hx, by simpa using hxe⟩)
      by_cases hp : p a
      · simp [List.filter_cons, hp, hg]
      · simp only [List.filter_cons, hp, Bool.false_eq_true, ↓reduceIte, ih, hnone, List.find?_cons, beq_self_eq_true]
    · by_cases hp : p a
      · simp [List.filter_cons, hp, hg, hn, List.find?_cons, ih]
      · simp [List.filter_cons, hp, hn, List.find?_cons, ih]

theorem filterMap_congr' {α β : Type} {l : List α} {f g : α → Option β} (h : ∀ a ∈ l, f a = g a) :
    l.filterMap f = l.filterMap g := by
  induction l with
  | nil => rfl
  | cons a l ih =>
    simp only [List.filterMap_cons, h a (List.mem_cons_self ..)]
    rw [ih (fun b hb => h b (List.mem_cons_of_mem _ hb))]

/-- The kind of the introspection type named `n`. -/
def introK (dec : Deco) (n : String) : Option C04.TypeKind :=
  (dec.intro.find? (fun t => decide (t.name = n))).map (·.kind)

/-- `kindOf` on the schema as seen under `F` is the feature-aware `namedType`: a registered type whose
    features are enabled, else the introspection types. -/
theorem kindOf_seenBy (dec : Deco) {S : Schema} (hu : (S.types.map (·.name)).Nodup) (F : Feats) (n : String) :
    C04.Spec.kindOf (seenBy dec S F) n =
      match S.find? n with
      | some t => if reqOk F t.req then some (seenKind dec F t) else introK dec n
      | none => introK dec n := by
  unfold C04.Spec.kindOf C04.Schema.find seenBy introK
  simp only [List.find?_append]
  rw [find?_filter_map_gen S.types hu _ (seenType dec F) (·.name) (fun _ => rfl) n]
  unfold Schema.find?
  cases S.types.find? (fun t => t.name == n) with
  | none => simp
  | some t => by_cases hr : reqOk F t.req = true <;> simp [hr, seenType]

theorem KRel.rfl' : ∀ (a : Option C04.TypeKind), KRel a a
  | none => .none
  | some k => .same k

/-- A name the introspection types carry is not a registered type's name. -/
theorem intro_not_registered {S : Schema} (hA : Accepted S = true) {dec : Deco} (hI : IntroNamed dec) {n : String}
    {k : C04.TypeKind} (hk : introK dec n = some k) : S.find? n = none := by
  unfold introK at hk
  cases hf : dec.intro.find? (fun t => decide (t.name = n)) with
  | none => simp [hf] at hk
  | some t =>
    have hm := List.mem_of_find?_eq_some hf
    have hn : t.name = n := by simpa using List.find?_some hf
    have hi := hI t hm
    rw [hn] at hi
    cases hs : S.find? n with
    | none => rfl
    | some u =>
      have := Accepted.noIntrospectionNames hA (find?_mem hs)
      rw [find?_name hs] at this
      simp [this] at hi

/-! ### the two descriptions, type by type -/

section
variable {S : Schema} {F : Feats} (dec : Deco)

theorem seenFields_erase (t : TypeDef) : seenFields dec top (eraseType S F t) = seenFields dec F t := by
  unfold seenFields
  show (((t.fields.filter (fun f => reqOk F f.req)).filter (fun f => reqOk top f.req)).map (seenField dec t.name)) = _
  rw [List.filter_eq_self.mpr (fun f _ => reqOk_top f.req)]

/-- The kind of a visible type in the erased schema: the same fields / values / input fields / members;
    an object's interface list loses the hidden interfaces. -/
theorem seenKind_erase (hA : Accepted S = true) {t : TypeDef} (ht : t ∈ S.types) (hv : reqOk F t.req = true) :
    KRel (some (seenKind dec F t)) (some (seenKind dec top (eraseType S F t))) := by
  unfold seenKind
  rw [seenFields_erase]
  show KRel (some (match t.kind with
      | .scalar => _ | .object => _ | .interface => _ | .union => _ | .enum => _ | .input => _))
    (some (match t.kind with
      | .scalar => _ | .object => _ | .interface => _ | .union => _ | .enum => _ | .input => _))
  cases hk : t.kind with
  | scalar => exact .same _
  | object => exact .object _ _ _
  | interface => exact .same _
  | union =>
    have hm : t.members.filter (S.visible F) = t.members :=
      List.filter_eq_self.mpr (union_members_visible hA ht hk hv)
    show KRel (some (.union t.members)) (some (.union (t.members.filter (S.visible F))))
    rw [hm]; exact .same _
  | enum => exact .same _
  | input => exact .same _

theorem seenBy_kind (hA : Accepted S = true) (n : String) :
    KRel (C04.Spec.kindOf (seenBy dec S F) n) (C04.Spec.kindOf (seenBy dec (erase S F) top) n) := by
  have hu := Accepted.nodup hA
  have hu' : ((erase S F).types.map (·.name)).Nodup := by
    show (((S.types.filter (fun t => reqOk F t.req)).map (eraseType S F)).map (·.name)).Nodup
    rw [List.map_map]
    exact sublist_map_nodup (fun t : TypeDef => t.name) List.filter_sublist hu
  rw [kindOf_seenBy dec hu, kindOf_seenBy dec hu', find?_erase hu]
  cases hf : S.find? n with
  | none => exact KRel.rfl' _
  | some t =>
    by_cases hr : reqOk F t.req = true
    · simp only [hr, if_true, eraseType_req, reqOk_top]
      exact seenKind_erase dec hA (find?_mem hf) hr
    · simp only [hr, Bool.false_eq_true, if_false]
      exact KRel.rfl' _

/-- A visible object lists an interface `n` that a request can hold (visible, or no registered type)
    exactly when its erased version does. -/
theorem iface_contains_erase (hA : Accepted S = true) {t : TypeDef} (ht : t ∈ S.types) (hk : t.kind = .object)
    {n : String} (hn : S.notHidden F n = true) :
    (t.interfaces.filter (S.visible F)).contains n = t.interfaces.contains n := by
  rw [contains_filter]
  by_cases hc : t.interfaces.contains n = true
  · have hok := Accepted.typeOk hA ht
    simp only [Schema.typeOk, hk, Bool.and_eq_true, List.all_eq_true] at hok
    have hi := hok.2 n (by simpa using hc)
    have hvis : S.visible F n = true := by
      unfold Schema.notHidden at hn
      unfold Schema.visible
      cases hf : S.find? n with
      | none => simp [hf] at hi
      | some ti => simpa [hf] using hn
    simp [hc, hvis]
  · have hc' : n ∉ t.interfaces := by simpa using hc
    simp [hc']

/-- The implementing-object test of GetPossibleTypes on one registered visible type. -/
def implOf (n : String) (t : C04.TypeDef) : Option String :=
  match t.kind with
  | .object _ ifs => if ifs.contains n then some t.name else none
  | _ => none

theorem implOf_erase (hA : Accepted S = true) {t : TypeDef} (ht : t ∈ S.types) {n : String}
    (hn : S.notHidden F n = true) :
    implOf n (seenType dec top (eraseType S F t)) = implOf n (seenType dec F t) := by
  unfold implOf seenType seenKind
  show (match (match t.kind with
      | .scalar => _ | .object => _ | .interface => _ | .union => _ | .enum => _ | .input => _ : C04.TypeKind) with
    | .object _ ifs => _ | _ => _) = (match (match t.kind with
      | .scalar => _ | .object => _ | .interface => _ | .union => _ | .enum => _ | .input => _ : C04.TypeKind) with
    | .object _ ifs => _ | _ => _)
  cases hk : t.kind with
  | object =>
    show (if (t.interfaces.filter (S.visible F)).contains n then some t.name else none)
      = (if t.interfaces.contains n then some t.name else none)
    rw [iface_contains_erase hA ht hk hn]
  | scalar => rfl
  | interface => rfl
  | union => rfl
  | enum => rfl
  | input => rfl

/-- A name whose kind look-up under `F` succeeds is one a request can hold. -/
theorem notHidden_of_kindOf (hA : Accepted S = true) (hI : IntroNamed dec) {n : String} {k : C04.TypeKind}
    (hk : C04.Spec.kindOf (seenBy dec S F) n = some k) : S.notHidden F n = true := by
  rw [kindOf_seenBy dec (Accepted.nodup hA)] at hk
  unfold Schema.notHidden
  cases hf : S.find? n with
  | none => rfl
  | some t =>
    by_cases hr : reqOk F t.req = true
    · simpa using hr
    · simp only [hf, hr, Bool.false_eq_true, if_false] at hk
      have := intro_not_registered hA hI hk
      rw [hf] at this; cases this

theorem seenBy_poss (hA : Accepted S = true) (hI : IntroNamed dec) (n : String) :
    C04.Spec.possibleTypes (seenBy dec S F) n = C04.Spec.possibleTypes (seenBy dec (erase S F) top) n := by
  have hk := seenBy_kind (F := F) dec hA n
  unfold C04.Spec.possibleTypes
  generalize C04.Spec.kindOf (seenBy dec (erase S F) top) n = k2 at hk ⊢
  cases h1 : C04.Spec.kindOf (seenBy dec S F) n with
  | none => rw [h1] at hk; cases hk; rfl
  | some k =>
    have hn := notHidden_of_kindOf dec hA hI h1
    rw [h1] at hk
    cases hk with
    | object fs ifs ifs' => rfl
    | same k =>
      cases k with
      | interface fs =>
        show (seenBy dec S F).types.filterMap (implOf n) = (seenBy dec (erase S F) top).types.filterMap (implOf n)
        show ((S.types.filter (fun t => reqOk F t.req)).map (seenType dec F) ++ dec.intro).filterMap (implOf n)
          = ((((S.types.filter (fun t => reqOk F t.req)).map (eraseType S F)).filter (fun t => reqOk top t.req)).map
              (seenType dec top) ++ dec.intro).filterMap (implOf n)
        have e : ((S.types.filter (fun t => reqOk F t.req)).map (eraseType S F)).filter (fun t => reqOk top t.req)
            = (S.types.filter (fun t => reqOk F t.req)).map (eraseType S F) :=
          List.filter_eq_self.mpr (fun t _ => reqOk_top t.req)
        rw [e]
        simp only [List.filterMap_append, List.filterMap_map, List.map_map]
        congr 1
        apply filterMap_congr'
        intro t ht
        exact (implOf_erase dec hA (List.mem_filter.mp ht).1 hn).symm
      | scalar _ => rfl
      | object _ _ => rfl
      | union _ => rfl
      | enum _ => rfl
      | input _ => rfl

theorem seenDirective_erase (hA : Accepted S = true) {d : DirectiveDef} (hd : d ∈ S.directives) :
    seenDirective dec (erase S F) top { d with args := d.args.filter (fun a => S.visible F a.ty.base) }
      = seenDirective dec S F d := by
  unfold seenDirective
  simp only [filter_shown_top, erasedDirective_args hA hd]

/-- **seenBy_equiv** — the schema a request with features `F` sees and the physically erased schema
    are observationally equivalent for the validation specification. -/
theorem seenBy_equiv (hA : Accepted S = true) (hI : IntroNamed dec) :
    Equiv (seenBy dec S F) (seenBy dec (erase S F) top) where
  kind := seenBy_kind dec hA
  poss := seenBy_poss dec hA hI
  query := rfl
  mutation := (filter_filter_root (Accepted.nodup hA) S.mutation).symm
  subscription := (filter_filter_root (Accepted.nodup hA) S.subscription).symm
  directives := by
    show S.directives.map (seenDirective dec S F)
      = (S.directives.map (fun d => { d with args := d.args.filter (fun a => S.visible F a.ty.base) })).map
          (seenDirective dec (erase S F) top)
    rw [List.map_map]
    apply List.map_congr_left
    intro d hd
    exact (seenDirective_erase dec hA hd).symm
  metaFields := rfl

end

end ApiFu.C13
