/-
  C13 — erasure lifted to a whole pipeline stage: VALIDATION.

  For every schema `S` accepted by the construction rules, every request feature set `F`, every
  decoration `dec` (defaults, directive locations, scalar coercions, introspection types — whatever the
  C13 model does not carry) and EVERY document `D`, the declarative validation specification of
  property C04 (`ApiFu.C04.Spec.valid`, all 26 rules of June-2018 §5) gives the same verdict — rule by
  rule — on
      `seenBy dec S F`                 the schema as the validator sees it under `F`
  and `seenBy dec (erase S F) top`     the physically erased schema seen with every feature enabled.

  The two descriptions are NOT equal: a visible object keeps naming the hidden interfaces it implements
  (as the Go objects do). `seenBy_equiv` shows they are observationally equivalent for the
  specification (`SpecCongr.Equiv`: equal kind look-ups up to an object's interface list, equal
  possible-type sets, equal roots / directives / meta fields); `SpecCongr.valid_congr` — a congruence
  proved over the whole specification — turns that into equal verdicts.
-/
import ApiFu.C13.Props
import ApiFu.C13.ToC04Lemmas

set_option linter.unusedSimpArgs false

namespace ApiFu.C13

open SpecCongr (KRel Equiv)

/-! ## The theorems -/

/-- **spec_valid_congr** — the validation specification reads a schema description only through the kind
    look-up (of an object never its interface list), the possible-type sets, the roots, the directive
    definitions and the meta fields: two descriptions that agree on these (`SpecCongr.Equiv`) give every
    one of the 26 rules the same answer on EVERY document (induction over selections, values, the
    fuel-bounded field collection / merge recursion and the variable-usage traversal: SpecCongr.lean). -/
theorem spec_valid_congr {S₁ S₂ : C04.Schema} (h : Equiv S₁ S₂) (D : C04.Document) :
    C04.Spec.rules S₁ D = C04.Spec.rules S₂ D ∧ C04.Spec.valid S₁ D = C04.Spec.valid S₂ D :=
  ⟨SpecCongr.rules_congr h D, SpecCongr.valid_congr h D⟩

/-- **seen_equiv_erased** — the schema a request with features `F` sees and the physically erased
    schema are observationally equivalent for the validation specification (`seenBy_equiv`). -/
theorem seen_equiv_erased (dec : Deco) (S : Schema) (F : Feats) (hA : Accepted S = true) (hI : IntroNamed dec) :
    Equiv (seenBy dec S F) (seenBy dec (erase S F) top) :=
  seenBy_equiv dec hA hI

/-- **validate_erase** — the validation verdict is that of the erased schema: for every accepted schema,
    every request feature set, every decoration and EVERY document (any nesting, fragments, variables,
    directives, abstract types), the validation specification of C04 accepts the document against the
    schema seen under `F` exactly when it accepts it against `erase S F` seen with all features. A gated
    type / field / argument type / root / directive argument is, for validation as a whole, exactly an
    undefined one. No hypothesis on the roots: with a gated query root both sides have a query root name
    that names no type. -/
theorem validate_erase (dec : Deco) (S : Schema) (F : Feats) (hA : Accepted S = true) (hI : IntroNamed dec)
    (D : C04.Document) :
    C04.Spec.valid (seenBy dec S F) D = C04.Spec.valid (seenBy dec (erase S F) top) D :=
  SpecCongr.valid_congr (seenBy_equiv dec hA hI) D

/-- **validate_erase_rules** — rule by rule: each of the 26 rules (fields defined, leaf selections,
    field merging, arguments known / unique / required, fragment type existence, composite conditions,
    fragments used, spreads defined / possible, values of correct type, directives defined / in location
    / unique, variable rules, operation type supported, …) gives the same answer, hence the same set of
    violated rules. -/
theorem validate_erase_rules (dec : Deco) (S : Schema) (F : Feats) (hA : Accepted S = true) (hI : IntroNamed dec)
    (D : C04.Document) :
    C04.Spec.rules (seenBy dec S F) D = C04.Spec.rules (seenBy dec (erase S F) top) D
    ∧ C04.Spec.violated (seenBy dec S F) D = C04.Spec.violated (seenBy dec (erase S F) top) D :=
  ⟨SpecCongr.rules_congr (seenBy_equiv dec hA hI) D, SpecCongr.violated_congr (seenBy_equiv dec hA hI) D⟩

/-- **validate_enable** — two feature sets that judge every requirement of the schema alike validate
    alike (the verdict depends on `F` only through the erased schema). -/
theorem validate_enable (dec : Deco) (S : Schema) (F F' : Feats) (hA : Accepted S = true) (hI : IntroNamed dec)
    (he : erase S F = erase S F') (D : C04.Document) :
    C04.Spec.valid (seenBy dec S F) D = C04.Spec.valid (seenBy dec S F') D := by
  rw [validate_erase dec S F hA hI, validate_erase dec S F' hA hI, he]

/-! ## Non-vacuity and negation witnesses -/

/-- `enum Mode @a {X}`, `interface Node {id}`, `interface Hidden @a {id}`, `Pub : Node & Hidden`,
    `Secret @a : Node`, `Query { ok, flag @a, node: Node }`, `Mutation @a { touch }`,
    `directive @paint(mode: Mode, n: Int)`. -/
def demoV : Schema :=
  { types := [
      mkT .scalar "ID" [], mkT .scalar "Boolean" [], mkT .scalar "Int" [],
      { mkT .enum "Mode" ["a"] with values := ["X"] },
      mkT .interface "Node" [] [idF],
      mkT .interface "Hidden" ["a"] [idF],
      mkT .object "Pub" [] [idF] ["Node", "Hidden"],
      mkT .object "Secret" ["a"] [idF] ["Node"],
      mkT .object "Query" [] [{ name := "ok", ty := .named "Boolean", req := [], args := [] },
                              { name := "flag", ty := .named "Boolean", req := ["a"], args := [] },
                              { name := "node", ty := .named "Node", req := [], args := [] }],
      mkT .object "Mutation" ["a"] [{ name := "touch", ty := .named "Boolean", req := [], args := [] }]],
    query := "Query", mutation := some "Mutation", subscription := none,
    directives := [{ name := "paint", args := [{ name := "mode", ty := .named "Mode" }, { name := "n", ty := .named "Int" }] }] }

/-- A decoration: built-in scalar coercions, no defaults, `@paint` on fields, one introspection type. -/
def demoDec : Deco :=
  { scalar := fun n => if n = "Int" then .int else if n = "Boolean" then .boolean else .id
    argDflt := fun _ _ _ => .none, inputDflt := fun _ _ => .none, dirArgDflt := fun _ _ => .none
    dirLocs := fun _ => ["FIELD"]
    intro := [{ name := "__Type", kind := .object [{ name := "name", type := .named "String", args := [] }] [] }]
    metas := [] }

def p0 : C04.Pos := ⟨1, 1⟩

/-- `{ <name> }` / `mutation { <name> }` -/
def docField (kind : Option (C04.OpKind × C04.Pos)) (name : String) (dirs : List C04.Directive := []) : C04.Document :=
  [.op kind none [] [] (.mk [.field none name p0 [] dirs none] p0)]

/-- `{ flag }` -/
def docFlag : C04.Document := docField none "flag"
/-- `mutation { touch }` -/
def docTouch : C04.Document := docField (some (.mutation, p0)) "touch"
/-- `{ ok @paint(mode: null) }` -/
def docPaint : C04.Document := docField none "ok" [{ name := "paint", pos := p0, args := [{ name := "mode", pos := p0, value := .null p0 }] }]
/-- `{ node { ... on Secret { id } } }` -/
def docOnSecret : C04.Document :=
  [.op none none [] [] (.mk [.field none "node" p0 [] []
    (some (.mk [.inline (some ("Secret", p0)) [] (.mk [.field none "id" p0 [] [] none] p0) p0] p0))] p0)]
/-- `{ node { ... on Hidden { id } } }` -/
def docOnHidden : C04.Document :=
  [.op none none [] [] (.mk [.field none "node" p0 [] []
    (some (.mk [.inline (some ("Hidden", p0)) [] (.mk [.field none "id" p0 [] [] none] p0) p0] p0))] p0)]

/-- The hypotheses of `validate_erase` are satisfiable, by a schema with a gated field, enum, interface,
    object, mutation root and directive-argument type. -/
example : Accepted demoV = true ∧ IntroNamed demoDec :=
  ⟨by decide, by intro t ht; simp only [demoDec, List.mem_singleton] at ht; subst ht; decide⟩

/-- The two sides of `validate_erase` are different descriptions (so the congruence is doing work): with
    the feature off, `Pub` still lists the hidden interface it implements; in the erased schema it does not. -/
example :
    (C04.Spec.kindOf (seenBy demoDec demoV noF) "Pub").map (fun | .object _ ifs => ifs | _ => []) = some ["Node", "Hidden"] ∧
    (C04.Spec.kindOf (seenBy demoDec (erase demoV noF) top) "Pub").map (fun | .object _ ifs => ifs | _ => []) = some ["Node"] := by
  decide

/-- The verdict really depends on the feature set: each document is valid with feature `a`, invalid
    without — on the schema as seen, and (as the theorem says) on the erased schema. -/
example :
    [docFlag, docTouch, docPaint, docOnSecret, docOnHidden].all (fun D =>
      C04.Spec.valid (seenBy demoDec demoV onlyA) D && !C04.Spec.valid (seenBy demoDec demoV noF) D
      && !C04.Spec.valid (seenBy demoDec (erase demoV noF) top) D) = true := by
  decide

/-- **validate_fields_unfixed_differs** — negation witness: a validator whose `GetField` ignored the
    field's features would accept `{ flag }` with the feature off; the erased schema rejects it. -/
theorem validate_fields_unfixed_differs :
    C04.Spec.valid (seenByFieldsUnfixed demoDec demoV noF) docFlag = true ∧
    C04.Spec.valid (seenBy demoDec (erase demoV noF) top) docFlag = false := by decide

/-- **validate_types_unfixed_differs** — a `namedType` ignoring the type's features accepts
    `... on Secret` with the feature off. -/
theorem validate_types_unfixed_differs :
    C04.Spec.valid (seenByTypesUnfixed demoDec demoV noF) docOnSecret = true ∧
    C04.Spec.valid (seenBy demoDec (erase demoV noF) top) docOnSecret = false := by decide

/-- **validate_roots_unfixed_differs** — the operation scope before fix 04 (F-13f): `mutation { touch }`
    validates although the `Mutation` root needs feature `a`. -/
theorem validate_roots_unfixed_differs :
    C04.Spec.valid (seenByRootsUnfixed demoDec demoV noF) docTouch = true ∧
    C04.Spec.valid (seenBy demoDec (erase demoV noF) top) docTouch = false := by decide

/-- **validate_directives_unfixed_differs** — directive arguments before fix 05 (F-13g):
    `{ ok @paint(mode: null) }` validates although `mode`'s type is hidden. -/
theorem validate_directives_unfixed_differs :
    C04.Spec.valid (seenByDirectivesUnfixed demoDec demoV noF) docPaint = true ∧
    C04.Spec.valid (seenBy demoDec (erase demoV noF) top) docPaint = false := by decide

end ApiFu.C13
