/-
  C13 — features. Executable model of the feature tests in

    graphql/schema/feature_set.go        IsSubsetOf                         → `reqOk`, `subReq`
    graphql/schema/object_type.go        GetField :24-29, shallowValidate :101-136, satisfyInterface :77-99
    graphql/schema/interface_type.go     GetField :18-23, shallowValidate :53-80
    graphql/schema/union_type.go         shallowValidate :43-62
    graphql/schema/input_object_type.go  shallowValidate :140-156
    graphql/schema/schema.go             New (registries namedTypes / interfaceImplementations)
    graphql/validator/type_info.go       namedType :19-24 (feature-aware lookup)
    graphql/validator/validate_fragments.go  getPossibleTypes / validateSpread (after fix 02: filtered by features)
    graphql/executor/executor.go         namedType (raw lookup), doesFragmentTypeApply, interface/union type
                                         resolution in completeValue (after fix 03: filtered by features)
    graphql/schema/introspection/introspection.go   `types`, `__type(name:)` (after fix 01), `fields`,
                                         `interfaces`, `possibleTypes` (after C10 fix 04), `inputFields`, `enumValues`

  A schema is what `schema.New` has registered: named types referring to each other *by name* (in Go by
  pointer; `schema.New` rejects two different objects with one name, so on accepted schemas names and
  pointers are in bijection). Every type the harness builds is listed in `AdditionalTypes`, so the
  registry is exactly `types`.

  A request's feature set is a predicate `Feats := String → Bool`; "all features" is `top`.
  Core Lean only (this file is linked into the driver `c13model`).
-/
namespace ApiFu.C13

/-- A type reference: a named type under list / non-null wrappers. -/
inductive TRef where
  | named (n : String)
  | list (t : TRef)
  | nonNull (t : TRef)
  deriving Repr, DecidableEq, Inhabited

/-- `schema.UnwrappedType(t).TypeName()`. -/
def TRef.base : TRef → String
  | .named n => n
  | .list t => t.base
  | .nonNull t => t.base

def TRef.isNonNull : TRef → Bool
  | .nonNull _ => true
  | _ => false

inductive Kind where
  | scalar | object | interface | union | enum | input
  deriving Repr, DecidableEq, Inhabited

structure Arg where
  name : String
  ty : TRef
  deriving Repr, DecidableEq, Inhabited

structure Field where
  name : String
  ty : TRef
  req : List String
  args : List Arg
  deprecated : Bool := false   -- `DeprecationReason != ""`
  deriving Repr, DecidableEq, Inhabited

structure TypeDef where
  kind : Kind
  name : String
  req : List String
  fields : List Field        -- object, interface   (Go: map keyed by name)
  interfaces : List String   -- object: ImplementedInterfaces
  members : List String      -- union: MemberTypes
  values : List String       -- enum
  inputs : List Arg          -- input object fields
  deprecatedValues : List String := []   -- enum values with a `DeprecationReason`
  deriving Repr, DecidableEq, Inhabited

/-- A directive definition: a name and arguments. Directives carry no required features, and
    `schema.New` has no feature rule for their argument types (directive.go:64-76 only checks names,
    self-reference and locations; input_value_definition.go that the type is an input type). -/
structure DirectiveDef where
  name : String
  args : List Arg
  deriving Repr, DecidableEq, Inhabited

structure Schema where
  types : List TypeDef
  query : String
  mutation : Option String
  subscription : Option String
  directives : List DirectiveDef := []     -- Go: map keyed by name (incl. skip / include)
  deriving Repr, DecidableEq, Inhabited

/-- The feature set of a request. -/
abbrev Feats := String → Bool

/-- All features enabled. -/
def top : Feats := fun _ => true

/-- `req.IsSubsetOf(features)` (feature_set.go:18-25): *every* required feature is enabled. -/
def reqOk (F : Feats) (req : List String) : Bool := req.all F

/-- `a.IsSubsetOf(b)` between two required-feature sets. -/
def subReq (a b : List String) : Bool := a.all (fun x => b.contains x)

/-- `s.NamedTypes()[name]` -/
def Schema.find? (S : Schema) (n : String) : Option TypeDef :=
  S.types.find? (fun t => t.name == n)

def Schema.kindOf (S : Schema) (n : String) : Option Kind := (S.find? n).map (·.kind)

/-- `t.TypeRequiredFeatures()` of the named type `n` (wrappers forward to the named type). -/
def Schema.reqOf (S : Schema) (n : String) : List String :=
  match S.find? n with
  | some t => t.req
  | none => []

/-- The named type `n` exists and its required features are enabled. -/
def Schema.visible (S : Schema) (F : Feats) (n : String) : Bool :=
  match S.find? n with
  | some t => reqOk F t.req
  | none => false

/-- `s.InterfaceImplementations(name)`: the objects listing `i` among their interfaces. -/
def Schema.impls (S : Schema) (i : String) : List String :=
  (S.types.filter (fun t => t.kind == .object && t.interfaces.contains i)).map (·.name)

/-! ## Construction-time acceptance (`schema.New`) -/

/-- `introspection.NamedTypes` (the fallback of both `namedType` functions). -/
def introspectionKind (n : String) : Option Kind :=
  if n == "__Schema" || n == "__Type" || n == "__Field" || n == "__InputValue" || n == "__EnumValue" || n == "__Directive" then some .object
  else if n == "__TypeKind" || n == "__DirectiveLocation" then some .enum
  else none


def isOutputKind : Kind → Bool
  | .input => false
  | _ => true

def isInputKind : Kind → Bool
  | .scalar | .enum | .input => true
  | _ => false

def Schema.isOutputRef (S : Schema) (t : TRef) : Bool :=
  match S.kindOf t.base with
  | some k => isOutputKind k
  | none => false

def Schema.isInputRef (S : Schema) (t : TRef) : Bool :=
  match S.kindOf t.base with
  | some k => isInputKind k
  | none => false

/-- `NonNullType.shallowValidate`: non-null does not wrap non-null. -/
def wfRef : TRef → Bool
  | .named _ => true
  | .list t => wfRef t
  | .nonNull (.nonNull _) => false
  | .nonNull t => wfRef t

/-- `ObjectType.IsSubTypeOf` etc. on named types. -/
def Schema.namedSub (S : Schema) (a b : String) : Bool :=
  a == b ||
  match S.find? a, S.find? b with
  | some ta, some tb =>
    if ta.kind == .object then
      (if tb.kind == .union then tb.members.contains a else ta.interfaces.contains b)
    else false
  | _, _ => false

/-- `Type.IsSubTypeOf` (list_type.go:28-33, nonnull_type.go:24-29, object_type.go:43-60). -/
def Schema.isSubType (S : Schema) : TRef → TRef → Bool
  | .named a, .named b => S.namedSub a b
  | .named _, _ => false
  | .list t, .list u => (TRef.list t == u) || S.isSubType t u
  | .list _, _ => false
  | .nonNull t, .nonNull u => (TRef.nonNull t == u) || S.isSubType t u
  | .nonNull t, other => S.isSubType t other

/-- The rule the property rests on (object_type.go:113-123, interface_type.go:64-74): neither the
    field's type nor any argument's type may need a feature that the field (together with its
    parent type) does not need. -/
def Schema.fieldOk (S : Schema) (t : TypeDef) (f : Field) : Bool :=
  wfRef f.ty && S.isOutputRef f.ty &&
  subReq (S.reqOf f.ty.base) (f.req ++ t.req) &&
  f.args.all (fun a => wfRef a.ty && S.isInputRef a.ty && subReq (S.reqOf a.ty.base) (f.req ++ t.req)) &&
  decide ((f.args.map (·.name)).Nodup)

/-- `hasAtLeastOneUnconditionalField`. -/
def hasUnconditional (t : TypeDef) : Bool := t.fields.any (fun f => subReq f.req t.req)

/-- `ObjectType.satisfyInterface` (object_type.go:77-99). -/
def Schema.satisfies (S : Schema) (o i : TypeDef) : Bool :=
  i.fields.all fun fi =>
    match o.fields.find? (fun f => f.name == fi.name) with
    | none => false
    | some fo =>
      S.isSubType fo.ty fi.ty && subReq fo.req fi.req &&
      fi.args.all (fun ai =>
        match fo.args.find? (fun a => a.name == ai.name) with
        | none => false
        | some ao => ao.ty == ai.ty) &&
      fo.args.all (fun ao => (fi.args.find? (fun a => a.name == ao.name)).isSome || !ao.ty.isNonNull)

def Schema.typeOk (S : Schema) (t : TypeDef) : Bool :=
  match t.kind with
  | .object =>
    decide ((t.fields.map (·.name)).Nodup) && t.fields.all (S.fieldOk t) && hasUnconditional t &&
    decide (t.interfaces.Nodup) &&
    t.interfaces.all (fun i =>
      match S.find? i with
      | some ti => ti.kind == .interface && S.satisfies t ti
      | none => false)
  | .interface =>
    decide ((t.fields.map (·.name)).Nodup) && t.fields.all (S.fieldOk t) && hasUnconditional t
  | .union =>
    !t.members.isEmpty && decide (t.members.Nodup) &&
    t.members.all (fun m =>
      match S.find? m with
      | some tm => tm.kind == .object && subReq tm.req t.req   -- no conditional members (union_type.go:49-52)
      | none => false)
  | .input =>
    !t.inputs.isEmpty && decide ((t.inputs.map (·.name)).Nodup) &&
    t.inputs.all (fun a => wfRef a.ty && S.isInputRef a.ty && subReq (S.reqOf a.ty.base) t.req)  -- input_object_type.go:149-152
  | .enum => !t.values.isEmpty && decide (t.values.Nodup)
  | .scalar => true

/-- `schema.New` accepts the definition. (schema.go:86-88 rejects every type name that is not a
    Name or begins with `__`; the model only needs — and only states — that no registered type
    carries one of the eight introspection type names. The generator never produces such names.) -/
def Accepted (S : Schema) : Bool :=
  decide ((S.types.map (·.name)).Nodup) && S.types.all S.typeOk &&
  S.types.all (fun t => (introspectionKind t.name).isNone) &&
  S.kindOf S.query == some .object &&
  (match S.mutation with
   | none => true
   | some m => S.kindOf m == some .object) &&
  (match S.subscription with
   | none => true
   | some m => S.kindOf m == some .object) &&
  (decide ((S.directives.map (·.name)).Nodup) &&
   S.directives.all (fun d =>
     decide ((d.args.map (·.name)).Nodup) && d.args.all (fun a => wfRef a.ty && S.isInputRef a.ty)))

/-- Domain of the property: the *query* root type carries no required features (a gated query root
    would have to be deleted by `erase`, leaving no schema at all — `schema.New` insists on a query
    type). Gated mutation / subscription root types are inside the domain: after fix 04 the code treats
    them as absent, which is what `erase` does. -/
def RootsUngated (S : Schema) : Bool := S.reqOf S.query == []

/-! ## Physical erasure -/

def eraseType (S : Schema) (F : Feats) (t : TypeDef) : TypeDef :=
  { t with
    fields := t.fields.filter (fun f => reqOk F f.req)
    interfaces := t.interfaces.filter (S.visible F)
    members := t.members.filter (S.visible F) }

/-- `erase S F`: gated types and gated fields are removed, together with the interface memberships
    and union members that name a removed type. Nothing else changes. -/
def erase (S : Schema) (F : Feats) : Schema :=
  { S with
    types := (S.types.filter (fun t => reqOk F t.req)).map (eraseType S F)
    mutation := S.mutation.filter (S.visible F)
    subscription := S.subscription.filter (S.visible F)
    -- an argument whose type is deleted is deleted with it
    directives := S.directives.map (fun d => { d with args := d.args.filter (fun a => S.visible F a.ty.base) }) }

/-! ## The accessors the Go code uses, each with the feature test it applies (or does not apply) -/

structure FieldSig where
  name : String
  ty : TRef
  args : List Arg
  deprecated : Bool := false
  deriving Repr, DecidableEq, Inhabited

def Field.sig (f : Field) : FieldSig := { name := f.name, ty := f.ty, args := f.args, deprecated := f.deprecated }

/-- validator `namedType(s, features, name)` (type_info.go:19-24): feature-aware. -/
def lookupF (S : Schema) (F : Feats) (n : String) : Option Kind :=
  match S.find? n with
  | some t => if reqOk F t.req then some t.kind else introspectionKind n
  | none => introspectionKind n

/-- executor `namedType(s, name)` (executor.go:575-580): NO feature test. -/
def lookupRaw (S : Schema) (n : String) : Option Kind :=
  match S.find? n with
  | some t => some t.kind
  | none => introspectionKind n

/-- `__type(name:)` after fix 01: the registered type, if its features are enabled. -/
def typeByName (S : Schema) (F : Feats) (n : String) : Option String :=
  match S.find? n with
  | some t => if reqOk F t.req then some t.name else none
  | none => none

/-- `__type(name:)` as shipped (no feature test) — kept for the negation witness. -/
def typeByNameUnfixed (S : Schema) (n : String) : Option String := (S.find? n).map (·.name)

/-- `__schema { types }` (introspection.go:68-81). -/
def typesListing (S : Schema) (F : Feats) : List String :=
  (S.types.filter (fun t => reqOk F t.req)).map (·.name)

/-- `t.GetField(name, features)` on the object / interface type named `tn`
    (object_type.go:24-29, interface_type.go:18-23): the field's own features are tested, the
    type's are not. -/
def getField (S : Schema) (F : Feats) (tn fn : String) : Option FieldSig :=
  match S.find? tn with
  | some t =>
    if t.kind == .object || t.kind == .interface then
      match t.fields.find? (fun f => f.name == fn) with
      | some f => if reqOk F f.req then some f.sig else none
      | none => none
    else none
  | none => none

/-- `__Type.fields(includeDeprecated:)` (introspection.go:230-262): a field is listed when
    `(DeprecationReason == "" || includeDeprecated) && RequiredFeatures.IsSubsetOf(ctx.Features)` —
    the two tests are independent: a field that is deprecated *and* gated stays hidden. -/
def fieldsListing (S : Schema) (F : Feats) (inc : Bool) (tn : String) : Option (List FieldSig) :=
  match S.find? tn with
  | some t =>
    if t.kind == .object || t.kind == .interface then
      some ((t.fields.filter (fun f => (!f.deprecated || inc) && reqOk F f.req)).map Field.sig)
    else none
  | none => none

/-- `__Type.interfaces` after C10 fix 04: filtered by the request's features. -/
def interfacesOf (S : Schema) (F : Feats) (tn : String) : Option (List String) :=
  match S.find? tn with
  | some t => if t.kind == .object then some (t.interfaces.filter (S.visible F)) else none
  | none => none

def interfacesOfUnfixed (S : Schema) (tn : String) : Option (List String) :=
  match S.find? tn with
  | some t => if t.kind == .object then some t.interfaces else none
  | none => none

/-- `__Type.possibleTypes` after C10 fix 04: implementations filtered by features; union members are
    returned as they are (construction forbids conditional members). -/
def possibleTypes (S : Schema) (F : Feats) (tn : String) : Option (List String) :=
  match S.find? tn with
  | some t =>
    if t.kind == .interface then some ((S.impls tn).filter (S.visible F))
    else if t.kind == .union then some t.members
    else none
  | none => none

def possibleTypesUnfixed (S : Schema) (tn : String) : Option (List String) :=
  match S.find? tn with
  | some t =>
    if t.kind == .interface then some (S.impls tn)
    else if t.kind == .union then some t.members
    else none
  | none => none

/-- `__Type.inputFields`. -/
def inputFields (S : Schema) (tn : String) : Option (List Arg) :=
  match S.find? tn with
  | some t => if t.kind == .input then some t.inputs else none
  | none => none

/-- `__Type.enumValues(includeDeprecated:)` (no feature test: enum values carry no features). -/
def enumValues (S : Schema) (inc : Bool) (tn : String) : Option (List String) :=
  match S.find? tn with
  | some t =>
    if t.kind == .enum then some (t.values.filter (fun v => inc || !t.deprecatedValues.contains v)) else none
  | none => none

/-- validator `getPossibleTypes(s, features, t)` after fix 02. -/
def spreadTypes (S : Schema) (F : Feats) (tn : String) : List String :=
  match S.find? tn with
  | some t =>
    if t.kind == .object then [t.name]
    else if t.kind == .interface then (S.impls tn).filter (S.visible F)
    else if t.kind == .union then t.members
    else []
  | none => []

def spreadTypesUnfixed (S : Schema) (tn : String) : List String :=
  match S.find? tn with
  | some t =>
    if t.kind == .object then [t.name]
    else if t.kind == .interface then S.impls tn
    else if t.kind == .union then t.members
    else []
  | none => []

/-- `validateSpread`: the fragment type and the parent type have a common possible type. -/
def spreadPossible (S : Schema) (F : Feats) (fragT parentT : String) : Bool :=
  (spreadTypes S F fragT).any (fun x => (spreadTypes S F parentT).contains x)

def spreadPossibleUnfixed (S : Schema) (fragT parentT : String) : Bool :=
  (spreadTypesUnfixed S fragT).any (fun x => (spreadTypesUnfixed S parentT).contains x)

/-- executor type resolution in `completeValue` (after fix 03): the object types tried with
    `IsTypeOf` for a value of abstract type `tn`. -/
def resolveCandidates (S : Schema) (F : Feats) (tn : String) : List String :=
  match S.find? tn with
  | some t =>
    if t.kind == .object then [t.name]
    else if t.kind == .interface then (S.impls tn).filter (S.visible F)
    else if t.kind == .union then t.members
    else []
  | none => []

def resolveCandidatesUnfixed (S : Schema) (tn : String) : List String :=
  match S.find? tn with
  | some t =>
    if t.kind == .object then [t.name]
    else if t.kind == .interface then S.impls tn
    else if t.kind == .union then t.members
    else []
  | none => []

/-- Type resolution that stops at the first implementation claiming the value and only then tests its
    features (the shape of seeded change C13-9) — kept for the negation witness. -/
def resolveTypeClaimFirst (S : Schema) (F : Feats) (abstract : String) (claimed : List String) : Option String :=
  ((resolveCandidatesUnfixed S abstract).find? (fun c => claimed.contains c)).filter (S.visible F)

/-- `doesFragmentTypeApply(objectType, fragmentType)` (executor.go:546-567): raw memberships. -/
def fragApplies (S : Schema) (objT fragT : String) : Bool :=
  match S.find? fragT with
  | some ft =>
    if ft.kind == .object then objT == fragT
    else if ft.kind == .interface then
      (match S.find? objT with
       | some ot => ot.interfaces.contains fragT
       | none => false)
    else if ft.kind == .union then ft.members.contains objT
    else false
  | none => false

/-- `DirectiveDefinition.VisibleArguments(features)` (directive.go, fix 05): an argument is shown when
    its type's required features are all enabled. -/
def dirArgShown (S : Schema) (F : Feats) (a : Arg) : Bool := reqOk F (S.reqOf a.ty.base)

/-- `__schema { directives { name args } }` (introspection.go `directives`, `__Directive.args` after fix
    05): every directive, with the arguments `VisibleArguments(ctx.Features)` shows. -/
def directivesListing (S : Schema) (F : Feats) : List DirectiveDef :=
  S.directives.map (fun d => { d with args := d.args.filter (dirArgShown S F) })

/-- `s.Directives()[name].VisibleArguments(features)` as consulted by the validator (type_info.go,
    validate_arguments.go after fix 05) and by the executor's field collection. -/
def directiveArgs (S : Schema) (F : Feats) (dn : String) : Option (List Arg) :=
  (S.directives.find? (fun d => d.name == dn)).map (fun d => d.args.filter (dirArgShown S F))

/-- The two accessors before fix 05 (no feature test) — kept for the negation witness. -/
def directivesListingUnfixed (S : Schema) : List DirectiveDef := S.directives
def directiveArgsUnfixed (S : Schema) (dn : String) : Option (List Arg) :=
  (S.directives.find? (fun d => d.name == dn)).map (·.args)

/-- Everything a request with features `F` can ask the schema, in one record. Functions taking a
    type *name typed by the client* are total over strings; functions taking a type the code holds a
    *pointer* to take the name of that type. -/
structure View where
  queryType : String
  mutationType : Option String
  subscriptionType : Option String
  lookupF : String → Option Kind
  typeByName : String → Option String
  typesListing : List String
  kindOf : String → Option Kind
  getField : String → String → Option FieldSig
  fieldsListing : Bool → String → Option (List FieldSig)
  interfacesOf : String → Option (List String)
  possibleTypes : String → Option (List String)
  inputFields : String → Option (List Arg)
  enumValues : Bool → String → Option (List String)
  spreadTypes : String → List String
  resolveCandidates : String → List String
  fragApplies : String → String → Bool
  lookupRaw : String → Option Kind
  directivesListing : List DirectiveDef
  directiveArgs : String → Option (List Arg)

def view (S : Schema) (F : Feats) : View :=
  { queryType := S.query
    -- after fix 04: `MutationType()` / `SubscriptionType()` are used only when
    -- `RequiredFeatures.IsSubsetOf(features)` (type_info.go, executor.go, introspection.go)
    mutationType := S.mutation.filter (S.visible F)
    subscriptionType := S.subscription.filter (S.visible F)
    lookupF := lookupF S F
    typeByName := typeByName S F
    typesListing := typesListing S F
    kindOf := S.kindOf
    getField := getField S F
    fieldsListing := fieldsListing S F
    interfacesOf := interfacesOf S F
    possibleTypes := possibleTypes S F
    inputFields := inputFields S
    enumValues := enumValues S
    spreadTypes := spreadTypes S F
    resolveCandidates := resolveCandidates S F
    fragApplies := fragApplies S
    lookupRaw := lookupRaw S
    directivesListing := directivesListing S F
    directiveArgs := directiveArgs S F }

/-- The root types as consulted before fix 04 (no feature test) — kept for the negation witness. -/
def viewRootsUnfixed (S : Schema) (F : Feats) : View :=
  { view S F with mutationType := S.mutation, subscriptionType := S.subscription }

/-- The directive accessors as consulted before fix 05 — kept for the negation witness. -/
def viewDirectivesUnfixed (S : Schema) (F : Feats) : View :=
  { view S F with directivesListing := directivesListingUnfixed S, directiveArgs := directiveArgsUnfixed S }

/-- `validateSpread` over a view. -/
def View.spreadPossible (v : View) (fragT parentT : String) : Bool :=
  (v.spreadTypes fragT).any (fun x => (v.spreadTypes parentT).contains x)

end ApiFu.C13
