/-
  C13 — helper lemmas for PropsPipeline.lean: the validator's description `seenBy` and the executor's
  description `execSeen` of one schema under one feature set are related by C01's `SchemaRel`.
-/
import ApiFu.C13.ToC04Lemmas
import ApiFu.C13.ToC01Lemmas
import ApiFu.C01.FromC04

set_option linter.unusedSimpArgs false

namespace ApiFu.C13

theorem trefOf_toTRef : ∀ (t : TRef), C01.trefOf (toTRef t) = toTypeRef t
  | .named _ => rfl
  | .list t => by simp [toTRef, toTypeRef, C01.trefOf, trefOf_toTRef t]
  | .nonNull t => by simp [toTRef, toTypeRef, C01.trefOf, trefOf_toTRef t]

theorem execFields_eq (dec : Deco) (F : Feats) (t : TypeDef) :
    execFields F t = (seenFields dec F t).map C01.fieldOf := by
  unfold execFields seenFields
  rw [List.map_map]
  apply List.map_congr_left
  intro f _
  simp [C01.fieldOf, seenField, execField, trefOf_toTRef]

/-- Type by type, the validator's and the executor's description of a visible type are related. -/
theorem kindRel_seen (dec : Deco) (edec : ExecDeco) (F : Feats) (t : TypeDef) :
    C01.KindRel (some (seenKind dec F t)) (execDef edec F t) := by
  unfold seenKind execDef
  rw [execFields_eq dec]
  cases t.kind with
  | scalar => exact .scalar _ _
  | object => exact .object _ _
  | interface => exact .interface _
  | union => exact .union _
  | enum => exact .enum _ _
  | input => exact .input _

/-- seenBy_schemaRel — for a request without introspection (no introspection types, no meta fields in
    the decoration) on an accepted schema with an ungated query root, what the validator sees under `F`
    and what the executor sees under `F` describe one schema (C01's `SchemaRel`). -/
theorem seenBy_schemaRel (dec : Deco) (edec : ExecDeco) (S : Schema) (F : Feats) (hA : Accepted S = true)
    (hR : RootsUngated S = true) (hi : dec.intro = []) (hm : dec.metas = []) :
    C01.SchemaRel (seenBy dec S F) (execSeen edec S F) where
  types := by
    intro n
    have hu := Accepted.nodup hA
    rw [kindOf_seenBy dec hu, lookup_execSeen edec hu]
    have hk : introK dec n = none := by simp [introK, hi]
    cases hf : S.find? n with
    | none => simp only [hk]; exact .none
    | some t =>
      by_cases hr : reqOk F t.req = true
      · simp only [hr, if_true]; exact kindRel_seen dec edec F t
      · simp only [hr, Bool.false_eq_true, if_false, hk]; exact .none
  query := rfl
  mutation := rfl
  subscription := rfl
  roots := by
    intro k r hroot
    have hu := Accepted.nodup hA
    have vis_obj : ∀ r, S.visible F r = true → S.kindOf r = some .object → C04.Spec.isObject (seenBy dec S F) r = true := by
      intro r hv hk
      unfold C04.Spec.isObject
      rw [kindOf_seenBy dec hu]
      obtain ⟨t, hf, hr⟩ := visible_iff.mp hv
      have hkt : t.kind = .object := by simpa [Schema.kindOf, hf] using hk
      simp [hf, hr, seenKind, hkt, C04.TypeKind.isObject]
    cases k with
    | query =>
      have : r = S.query := by simpa [C04.Schema.root, seenBy] using hroot.symm
      subst this
      exact vis_obj _ (query_visible hA hR) (Accepted.queryKind hA)
    | mutation =>
      have hroot' : S.mutation.filter (S.visible F) = some r := by simpa [C04.Schema.root, seenBy] using hroot
      cases hmu : S.mutation with
      | none => simp [hmu] at hroot'
      | some m =>
        have hv := filtered_root_visible hroot'
        have : m = r := by
          rw [hmu] at hroot'
          by_cases hvm : S.visible F m = true <;> simp [Option.filter, hvm] at hroot'
          exact hroot'
        subst this
        exact vis_obj _ hv (Accepted.mutationKind hA hmu)
    | subscription =>
      have hroot' : S.subscription.filter (S.visible F) = some r := by simpa [C04.Schema.root, seenBy] using hroot
      cases hmu : S.subscription with
      | none => simp [hmu] at hroot'
      | some m =>
        have hv := filtered_root_visible hroot'
        have : m = r := by
          rw [hmu] at hroot'
          by_cases hvm : S.visible F m = true <;> simp [Option.filter, hvm] at hroot'
          exact hroot'
        subst this
        exact vis_obj _ hv (Accepted.subscriptionKind hA hmu)
  noMeta := hm

/-- The type conditions a document writes: those of its fragment definitions and of its inline fragments
    (wherever they occur: `selOccs` enumerates every selection of the document). -/
def condNames (S4 : C04.Schema) (D : C04.Document) : List String :=
  (C04.Spec.fragDefs D).map (·.2.1) ++
    (C04.Spec.selOccs S4 D).filterMap (fun
      | .inline _ (some (t, _)) _ _ => some t
      | _ => none)

/-- A name the description of a request without introspection finds is a visible type of the schema. -/
theorem visible_of_find_seenBy (dec : Deco) {S : Schema} {F : Feats} (hA : Accepted S = true) (hi : dec.intro = [])
    {n : String} (h : ((seenBy dec S F).find n).isSome = true) : S.visible F n = true := by
  have hk : (C04.Spec.kindOf (seenBy dec S F) n).isSome = true := by simpa [C04.Spec.kindOf] using h
  rw [kindOf_seenBy dec (Accepted.nodup hA)] at hk
  have hn : introK dec n = none := by simp [introK, hi]
  unfold Schema.visible
  cases hf : S.find? n with
  | none => simp [hf, hn] at hk
  | some t =>
    by_cases hr : reqOk F t.req = true
    · simpa using hr
    · simp [hf, hr, hn] at hk

end ApiFu.C13
