/-
  C13 → C04: the schema description the validation specification of property C04 works on
  (`ApiFu.C04.Schema`, "the schema as visible to the request: `namedType`, `GetField` already applied
  for the request's feature set; introspection types included"), produced from a C13 schema and a
  request feature set — accessor by accessor as the Go validator consults the schema under `F`:

    * named types: `namedType(s, features, name)` (type_info.go:19-24) — a registered type whose
      required features are enabled, else `introspection.NamedTypes`;
    * fields of an object / interface: `GetField(name, features)` — the field's own features;
    * an object's `ImplementedInterfaces` and a union's `MemberTypes`: RAW, as in the Go objects (the
      validator filters possible types by looking the *implementing object* up, not by editing these lists);
    * input-object fields, enum values: as registered (they carry no features);
    * the mutation / subscription root: only when its required features are enabled (fix 04);
    * directive arguments: `VisibleArguments(features)` (fix 05).

  This is the same reading of the Go schema object as `(*built).view(fs)` in harness/cmd/c04/schema.go,
  which C04's correspondence ties to the real validator on every run.

  What the C13 model does not carry — default values (`C04.Dflt`: absent / null / value), directive
  locations, the literal coercion of scalars, the introspection types and the two meta fields — is a
  parameter (`Deco`): any decoration that is a function of the element's *name path* (type, field,
  argument). Physical erasure does not rename anything, so every theorem holds for every decoration.

  Core Lean only.
-/
import ApiFu.C13.Model
import ApiFu.C04.Spec

namespace ApiFu.C13

def toTRef : TRef → C04.TRef
  | .named n => .named n
  | .list t => .list (toTRef t)
  | .nonNull t => .nonNull (toTRef t)

/-- Everything the validation specification reads that the C13 model has no opinion about, as a
    function of the element's name path. -/
structure Deco where
  /-- literal coercion of the scalar named `n` -/
  scalar : String → C04.ScalarSpec
  /-- default of argument `a` of field `f` of type `t` -/
  argDflt : String → String → String → C04.Dflt
  /-- default of field `a` of input object `t` -/
  inputDflt : String → String → C04.Dflt
  /-- default of argument `a` of directive `d` -/
  dirArgDflt : String → String → C04.Dflt
  /-- locations of directive `d` -/
  dirLocs : String → List String
  /-- `introspection.NamedTypes` -/
  intro : List C04.TypeDef
  /-- `introspection.MetaFields` -/
  metas : List C04.FieldDef

/-- The introspection types carry introspection type names (so `schema.New` keeps them apart from every
    registered type: `Accepted`). -/
def IntroNamed (dec : Deco) : Prop := ∀ t ∈ dec.intro, (introspectionKind t.name).isSome = true

def seenArg (d : String → C04.Dflt) (a : Arg) : C04.InputDef :=
  { name := a.name, type := toTRef a.ty, dflt := d a.name }

def seenField (dec : Deco) (tn : String) (f : Field) : C04.FieldDef :=
  { name := f.name, type := toTRef f.ty, args := f.args.map (seenArg (dec.argDflt tn f.name)) }

/-- The fields `GetField(·, F)` finds on the type. -/
def seenFields (dec : Deco) (F : Feats) (t : TypeDef) : List C04.FieldDef :=
  (t.fields.filter (fun f => reqOk F f.req)).map (seenField dec t.name)

def seenKind (dec : Deco) (F : Feats) (t : TypeDef) : C04.TypeKind :=
  match t.kind with
  | .scalar => .scalar (dec.scalar t.name)
  | .object => .object (seenFields dec F t) t.interfaces
  | .interface => .interface (seenFields dec F t)
  | .union => .union t.members
  | .enum => .enum t.values
  | .input => .input (t.inputs.map (seenArg (dec.inputDflt t.name)))

def seenType (dec : Deco) (F : Feats) (t : TypeDef) : C04.TypeDef := { name := t.name, kind := seenKind dec F t }

def seenDirective (dec : Deco) (S : Schema) (F : Feats) (d : DirectiveDef) : C04.DirDef :=
  { name := d.name, locs := dec.dirLocs d.name,
    args := (d.args.filter (dirArgShown S F)).map (seenArg (dec.dirArgDflt d.name)) }

/-- **seenBy** — the schema as the validator sees it when the request's feature set is `F`. -/
def seenBy (dec : Deco) (S : Schema) (F : Feats) : C04.Schema :=
  { types := (S.types.filter (fun t => reqOk F t.req)).map (seenType dec F) ++ dec.intro
    query := S.query
    mutation := S.mutation.filter (S.visible F)
    subscription := S.subscription.filter (S.visible F)
    directives := S.directives.map (seenDirective dec S F)
    metaFields := dec.metas }

/-! ### the same reading with the feature tests of the shipped code removed one at a time
    (for the negation witnesses of `PropsValidate.lean`) -/

/-- `GetField` ignoring the field's features. -/
def seenByFieldsUnfixed (dec : Deco) (S : Schema) (F : Feats) : C04.Schema :=
  { seenBy dec S F with
    types := (S.types.filter (fun t => reqOk F t.req)).map (seenType dec top) ++ dec.intro }

/-- `namedType` ignoring the type's features. -/
def seenByTypesUnfixed (dec : Deco) (S : Schema) (F : Feats) : C04.Schema :=
  { seenBy dec S F with types := S.types.map (seenType dec F) ++ dec.intro }

/-- The operation scope taking `MutationType()` / `SubscriptionType()` untested (before fix 04). -/
def seenByRootsUnfixed (dec : Deco) (S : Schema) (F : Feats) : C04.Schema :=
  { seenBy dec S F with mutation := S.mutation, subscription := S.subscription }

/-- Directive arguments taken from `def.Arguments` (before fix 05). -/
def seenByDirectivesUnfixed (dec : Deco) (S : Schema) (F : Feats) : C04.Schema :=
  { seenBy dec S F with directives := S.directives.map (seenDirective dec S top) }

end ApiFu.C13
