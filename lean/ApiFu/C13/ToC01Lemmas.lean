/-
  C13 → C01, helper lemmas: `lookup` / `implementations` of the schema the executor sees under `F`
  (`execSeen`, ToC01.lean) against those of the erased schema; `execSeen_equiv`: the two descriptions are
  observationally equivalent for the executor model (`ExecCongr.Equiv`).
-/
import ApiFu.C13.ToC04Lemmas
import ApiFu.C13.ToC01
import ApiFu.C13.ExecCongr

set_option linter.unusedSimpArgs false

namespace ApiFu.C13

open ExecCongr (TRel)

theorem find?_filter_filterMap_gen (l : List TypeDef) (hu : (l.map (·.name)).Nodup) (p : TypeDef → Bool)
    (e : TypeDef → Option C01.TypeDef) (n : String) :
    ((l.filter p).filterMap (fun t => (e t).map (fun d => (t.name, d)))).find? (fun q => q.1 == n) =
      match l.find? (fun t => t.name == n) with
      | some t => if p t then (e t).map (fun d => (t.name, d)) else none
      | none => none := by
  induction l with
  | nil => simp
  | cons a l ih =>
    simp only [List.map_cons, List.nodup_cons] at hu
    have ih := ih hu.2
    by_cases hn : a.name = n
    · subst hn
      have hnone : l.find? (fun t => t.name == a.name) = none := by
        rw [List.find?_eq_none]
        intro x hx hxe
        exact hu.1 (List.mem_map.mpr ⟨x, hx, by simpa using hxe⟩)
      rw [hnone] at ih
      by_cases hp : p a
      · cases he : e a with
        | none => simp [List.filter_cons, hp, he, ih]
        | some d => simp [List.filter_cons, hp, he]
      · simp [List.filter_cons, hp, ih]
    · by_cases hp : p a
      · cases he : e a with
        | none => simp [List.filter_cons, hp, he, hn, List.find?_cons, ih]
        | some d => simp [List.filter_cons, hp, he, hn, List.find?_cons, ih]
      · simp [List.filter_cons, hp, hn, List.find?_cons, ih]

/-- The executor's type look-up under `F`: a registered output type whose features are enabled. -/
theorem lookup_execSeen (dec : ExecDeco) {S : Schema} (hu : (S.types.map (·.name)).Nodup) (F : Feats) (n : String) :
    (execSeen dec S F).lookup n =
      match S.find? n with
      | some t => if reqOk F t.req then execDef dec F t else none
      | none => none := by
  unfold C01.Schema.lookup execSeen execEntry
  simp only
  rw [find?_filter_filterMap_gen S.types hu _ (execDef dec F) n]
  unfold Schema.find?
  cases S.types.find? (fun t => t.name == n) with
  | none => rfl
  | some t =>
    by_cases hr : reqOk F t.req = true
    · simp only [hr, if_true]
      cases execDef dec F t <;> rfl
    · simp only [hr, Bool.false_eq_true, if_false]

theorem TRel.rfl' : ∀ (a : Option C01.TypeDef), TRel a a
  | none => .none
  | some t => .same t

section
variable {S : Schema} {F : Feats} (dec : ExecDeco)

theorem execFields_erase (t : TypeDef) : execFields top (eraseType S F t) = execFields F t := by
  unfold execFields
  show (((t.fields.filter (fun f => reqOk F f.req)).filter (fun f => reqOk top f.req)).map execField) = _
  rw [List.filter_eq_self.mpr (fun f _ => reqOk_top f.req)]

theorem execDef_erase (hA : Accepted S = true) {t : TypeDef} (ht : t ∈ S.types) (hv : reqOk F t.req = true) :
    TRel (execDef dec F t) (execDef dec top (eraseType S F t)) := by
  unfold execDef
  rw [execFields_erase]
  show TRel (match t.kind with
      | .scalar => _ | .object => _ | .interface => _ | .union => _ | .enum => _ | .input => _)
    (match t.kind with
      | .scalar => _ | .object => _ | .interface => _ | .union => _ | .enum => _ | .input => _)
  cases hk : t.kind with
  | scalar => exact .same _
  | object => exact .object _ _ _
  | interface => exact .same _
  | union =>
    have hm : t.members.filter (S.visible F) = t.members :=
      List.filter_eq_self.mpr (union_members_visible hA ht hk hv)
    show TRel (some (.union t.members)) (some (.union (t.members.filter (S.visible F))))
    rw [hm]; exact .same _
  | enum => exact .same _
  | input => exact .none

theorem erase_nodup (hu : (S.types.map (·.name)).Nodup) : ((erase S F).types.map (·.name)).Nodup := by
  show (((S.types.filter (fun t => reqOk F t.req)).map (eraseType S F)).map (·.name)).Nodup
  rw [List.map_map]
  exact sublist_map_nodup (fun t : TypeDef => t.name) List.filter_sublist hu

theorem execSeen_look (hA : Accepted S = true) (n : String) :
    TRel ((execSeen dec S F).lookup n) ((execSeen dec (erase S F) top).lookup n) := by
  have hu := Accepted.nodup hA
  rw [lookup_execSeen dec hu, lookup_execSeen dec (erase_nodup hu), find?_erase hu]
  cases hf : S.find? n with
  | none => exact .none
  | some t =>
    by_cases hr : reqOk F t.req = true
    · simp only [hr, if_true, eraseType_req, reqOk_top]
      exact execDef_erase dec hA (find?_mem hf) hr
    · simp only [hr, Bool.false_eq_true, if_false]
      exact .none

/-- What a successful look-up under `F` says about the registered type. -/
theorem lookup_execSeen_inv (hu : (S.types.map (·.name)).Nodup) {n : String} {d : C01.TypeDef}
    (h : (execSeen dec S F).lookup n = some d) :
    ∃ t, S.find? n = some t ∧ reqOk F t.req = true ∧ execDef dec F t = some d := by
  rw [lookup_execSeen dec hu] at h
  cases hf : S.find? n with
  | none => simp [hf] at h
  | some t =>
    by_cases hr : reqOk F t.req = true
    · simp only [hf, hr, if_true] at h
      exact ⟨t, rfl, hr, h⟩
    · simp [hf, hr] at h

theorem execDef_object_inv {F' : Feats} {t : TypeDef} {fs : List C01.FieldDef} {ifs : List String}
    (h : execDef dec F' t = some (.object fs ifs)) : t.kind = .object ∧ ifs = t.interfaces := by
  unfold execDef at h
  cases hk : t.kind <;> simp [hk] at h
  exact ⟨rfl, h.2.symm⟩

theorem execSeen_ifaces (hA : Accepted S = true) (n : String) (fs : List C01.FieldDef) (ifs ifs' : List String)
    (h1 : (execSeen dec S F).lookup n = some (.object fs ifs))
    (h2 : (execSeen dec (erase S F) top).lookup n = some (.object fs ifs'))
    (tc : String) (fs' : List C01.FieldDef) (htc : (execSeen dec S F).lookup tc = some (.interface fs')) :
    ifs.contains tc = ifs'.contains tc := by
  have hu := Accepted.nodup hA
  obtain ⟨t, hf, hr, hd⟩ := lookup_execSeen_inv dec hu h1
  obtain ⟨hk, rfl⟩ := execDef_object_inv dec hd
  obtain ⟨t', hf', _, hd'⟩ := lookup_execSeen_inv dec (erase_nodup hu) h2
  rw [find?_erase hu, hf] at hf'
  simp only [hr, if_true, Option.some.injEq] at hf'
  subst hf'
  obtain ⟨_, rfl⟩ := execDef_object_inv dec hd'
  obtain ⟨tt, hft, hrt, _⟩ := lookup_execSeen_inv dec hu htc
  have hn : S.notHidden F tc = true := by
    unfold Schema.notHidden; simp [hft, hrt]
  exact (iface_contains_erase hA (find?_mem hf) hk hn).symm

/-- The implementing-object test on one registered type. -/
def implC13 (n : String) (t : TypeDef) : Option String :=
  if t.kind == .object && t.interfaces.contains n then some t.name else none

theorem implementations_execSeen (F' : Feats) (S' : Schema) (n : String) :
    (execSeen dec S' F').implementations n = (S'.types.filter (fun t => reqOk F' t.req)).filterMap (implC13 n) := by
  unfold C01.Schema.implementations execSeen
  simp only [List.filterMap_filterMap]
  apply filterMap_congr'
  intro t _
  unfold execEntry execDef implC13
  cases hk : t.kind <;> simp [hk]

theorem execSeen_impls (hA : Accepted S = true) (n : String) (fs : List C01.FieldDef)
    (h1 : (execSeen dec S F).lookup n = some (.interface fs)) :
    (execSeen dec S F).implementations n = (execSeen dec (erase S F) top).implementations n := by
  have hu := Accepted.nodup hA
  obtain ⟨tt, hft, hrt, _⟩ := lookup_execSeen_inv dec hu h1
  have hn : S.notHidden F n = true := by
    unfold Schema.notHidden; simp [hft, hrt]
  rw [implementations_execSeen, implementations_execSeen]
  show _ = (((S.types.filter (fun t => reqOk F t.req)).map (eraseType S F)).filter (fun t => reqOk top t.req)).filterMap (implC13 n)
  have e : ((S.types.filter (fun t => reqOk F t.req)).map (eraseType S F)).filter (fun t => reqOk top t.req)
      = (S.types.filter (fun t => reqOk F t.req)).map (eraseType S F) :=
    List.filter_eq_self.mpr (fun t _ => reqOk_top t.req)
  rw [e, List.filterMap_map]
  apply filterMap_congr'
  intro t ht
  have htm := (List.mem_filter.mp ht).1
  show implC13 n t = implC13 n (eraseType S F t)
  unfold implC13
  by_cases hk : t.kind = .object
  · have := iface_contains_erase (F := F) hA htm hk hn
    simp only [eraseType_kind, hk, beq_self_eq_true, Bool.true_and]
    show _ = (if (t.interfaces.filter (S.visible F)).contains n = true then some t.name else none)
    rw [this]
  · have hk' : (t.kind == Kind.object) = false := by simpa using hk
    simp [eraseType_kind, hk']

/-- **execSeen_equiv** — the schema the executor sees under `F` and the physically erased schema are
    observationally equivalent for the executor model. -/
theorem execSeen_equiv (hA : Accepted S = true) :
    ExecCongr.Equiv (execSeen dec S F) (execSeen dec (erase S F) top) where
  look := execSeen_look dec hA
  ifaces := execSeen_ifaces dec hA
  impls := execSeen_impls dec hA
  query := rfl
  mutation := (filter_filter_root (Accepted.nodup hA) S.mutation).symm
  subscription := (filter_filter_root (Accepted.nodup hA) S.subscription).symm

end

end ApiFu.C13
