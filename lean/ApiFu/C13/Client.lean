/-
  C13 — client-visible functions, defined over a `View` only (they can reach the schema through the
  accessors of Model.lean and through nothing else):

    * `evalSels` / `introspect` — the answers of the introspection resolvers (introspection.go) to a
      selection tree: `__schema { types queryType mutationType }`, `__type(name:)`, and on a type
      `name kind fields interfaces possibleTypes inputFields enumValues ofType`, on a field
      `name type args`, on an input value `name type`;
    * `walk` — the type-directed walk of a selection tree done by validation (type_info.go NewTypeInfo,
      validate_fields.go field existence, validate_fragments.go type conditions and spread
      possibility): which field definitions are found, which errors are raised;
    * `exec` — the walk done by execution (executor.go executeSelections / collectFields /
      completeValue type resolution) against an arbitrary application (`world` chooses the runtime
      object type of every abstract result — it need not respect features): which resolvers run.

  Core Lean only (linked into the driver).
-/
import ApiFu.Common.Sexp
import ApiFu.C13.Model

namespace ApiFu.C13

/-- Selection trees in first-child / next-sibling form (structural recursion without nested lists).
    `tag` is the field name for introspection selections (`arg` is the name for `__type`, and
    `"true"` for `fields` / `enumValues` asked with `includeDeprecated: true`); for `walk`/`exec` it is `field` (with
    `arg` the field name), `on` (with `arg` the type condition), `group` (an inline fragment without
    type condition) or `typename`. -/
inductive Sels where
  | nil
  | cons (tag : String) (arg : String) (sub : Sels) (rest : Sels)
  deriving Repr, Inhabited

inductive Json where
  | null
  | bool (b : Bool)
  | str (s : String)
  | arr (xs : List Json)
  | obj (kvs : List (String × Json))
  deriving Inhabited

def kindName : Kind → String
  | .scalar => "SCALAR" | .object => "OBJECT" | .interface => "INTERFACE"
  | .union => "UNION" | .enum => "ENUM" | .input => "INPUT_OBJECT"

/-- What an introspection resolver's `ctx.Object` can be. -/
inductive Node where
  | root
  | schema
  | ty (t : TRef)
  | field (s : FieldSig)
  | input (a : Arg)
  | enumv (s : String)
  | directive (d : DirectiveDef)
  deriving Repr, Inhabited

def optArr {α} (f : α → Json) : Option (List α) → Json
  | none => .null
  | some xs => .arr (xs.map f)

/-- One introspection resolver call: field `tag` (argument `arg`) on the object `n`; `k` evaluates
    the sub-selection on a child object. Unknown (node, field) combinations answer `null` (such a
    query does not validate; the tie only uses valid probes). -/
def evalHead (v : View) (tag arg : String) (k : Node → List (String × Json)) : Node → Json
  | .root =>
    if tag == "__type" then
      (match v.typeByName arg with
       | some p => .obj (k (.ty (.named p)))
       | none => .null)
    else if tag == "__schema" then .obj (k .schema)
    else .null
  | .schema =>
    if tag == "types" then .arr (v.typesListing.map fun p => .obj (k (.ty (.named p))))
    else if tag == "queryType" then .obj (k (.ty (.named v.queryType)))
    else if tag == "mutationType" then
      (match v.mutationType with
       | some m => .obj (k (.ty (.named m)))
       | none => .null)
    else if tag == "subscriptionType" then
      (match v.subscriptionType with
       | some m => .obj (k (.ty (.named m)))
       | none => .null)
    else if tag == "directives" then .arr (v.directivesListing.map fun d => .obj (k (.directive d)))
    else .null
  | .ty (.named p) =>
    if tag == "name" then .str p
    else if tag == "kind" then
      (match v.kindOf p with
       | some kd => .str (kindName kd)
       | none => .null)
    else if tag == "fields" then optArr (fun s => .obj (k (.field s))) (v.fieldsListing (arg == "true") p)
    else if tag == "interfaces" then optArr (fun i => .obj (k (.ty (.named i)))) (v.interfacesOf p)
    else if tag == "possibleTypes" then optArr (fun i => .obj (k (.ty (.named i)))) (v.possibleTypes p)
    else if tag == "inputFields" then optArr (fun a => .obj (k (.input a))) (v.inputFields p)
    else if tag == "enumValues" then optArr (fun e => .obj (k (.enumv e))) (v.enumValues (arg == "true") p)
    else .null
  | .ty (.list t) =>
    if tag == "kind" then .str "LIST"
    else if tag == "ofType" then .obj (k (.ty t))
    else .null
  | .ty (.nonNull t) =>
    if tag == "kind" then .str "NON_NULL"
    else if tag == "ofType" then .obj (k (.ty t))
    else .null
  | .field s =>
    if tag == "name" then .str s.name
    else if tag == "isDeprecated" then .bool s.deprecated
    else if tag == "type" then .obj (k (.ty s.ty))
    else if tag == "args" then .arr (s.args.map fun a => .obj (k (.input a)))
    else .null
  | .input a =>
    if tag == "name" then .str a.name
    else if tag == "type" then .obj (k (.ty a.ty))
    else .null
  | .enumv e =>
    if tag == "name" then .str e else .null
  | .directive d =>
    if tag == "name" then .str d.name
    else if tag == "args" then .arr (d.args.map fun a => .obj (k (.input a)))
    else .null

/-- The introspection resolvers applied to a selection tree on the object `n`. -/
def evalSels (v : View) : Sels → Node → List (String × Json)
  | .nil, _ => []
  | .cons tag arg sub rest, n => (tag, evalHead v tag arg (evalSels v sub) n) :: evalSels v rest n

/-- The `data` of an introspection request. -/
def introspect (v : View) (q : Sels) : Json := .obj (evalSels v q .root)

inductive Event where
  | resolve (parent field : String)        -- a field definition was found (validation) / its resolver ran (execution)
  | noField (parent field : String)        -- "field f does not exist on T"
  | undefinedType (n : String)             -- "undefined type"
  | notComposite (n : String)              -- "fragments may only be defined on objects, interfaces, and unions"
  | impossible (frag parent : String)      -- "impossible fragment spread"
  | typename (parent : String)             -- __typename answered with this type name
  | unresolvable (abstract runtime : String) -- "Unable to determine object type."
  deriving Repr, DecidableEq, Inhabited

def isComposite : Kind → Bool
  | .object | .interface | .union => true
  | _ => false

/-- Validation's walk. `parent` is the selection set's scope (`none`: no type info, the enclosing
    field or type condition did not resolve). -/
def walk (v : View) : Option String → Sels → List Event
  | _, .nil => []
  | parent, .cons tag arg sub rest =>
    (if tag == "field" then
       match parent with
       | none => walk v none sub
       | some p =>
         match v.getField p arg with
         | some s => .resolve p arg :: walk v (some s.ty.base) sub
         | none => .noField p arg :: walk v none sub
     else if tag == "on" then
       match v.lookupF arg with
       | none => .undefinedType arg :: walk v none sub
       | some k =>
         if isComposite k then
           (match parent with
            | some p => if v.spreadPossible arg p then [] else [.impossible arg p]
            | none => []) ++ walk v (some arg) sub
         else .notComposite arg :: walk v none sub
     else if tag == "typename" then
       match parent with
       | some p => [.typename p]
       | none => []
     else if tag == "group" then walk v parent sub          -- inline fragment without type condition
     else []) ++ walk v parent rest

/-- The validator's checks on one directive application `@dn(args…)` as far as they depend on the
    schema: `undefined directive`, and one `undefined argument` per argument name the definition does
    not have (validate_arguments.go:15-44). -/
def directiveCheck (v : View) (dn : String) (argNames : List String) : List String :=
  match v.directiveArgs dn with
  | none => ["undefined directive"]
  | some defs => (argNames.filter (fun a => !(defs.map (·.name)).contains a)).map (fun a => "undefined argument " ++ a)

/-- Every type condition of the tree is known to the feature-aware lookup (what validation
    guarantees before execution starts). -/
def condsKnown (v : View) : Sels → Bool
  | .nil => true
  | .cons tag arg sub rest =>
    (if tag == "on" then (v.lookupF arg).isSome else true) && condsKnown v sub && condsKnown v rest

/-- Type resolution in `completeValue` (executor.go, after fix 03): the candidates — for an interface
    the implementations whose required features are enabled, in registration order — are tried in
    order, and the first whose `IsTypeOf` accepts the value is the object type. `claimed` is the set of
    object types whose `IsTypeOf` accepts the value (IsTypeOf functions may overlap). The feature test
    comes BEFORE the `IsTypeOf` test: a disabled implementation that also claims the value does not
    stop the search. -/
def View.resolveType (v : View) (abstract : String) (claimed : List String) : Option String :=
  (v.resolveCandidates abstract).find? (fun c => claimed.contains c)

/-- Execution's walk on an object of type `objT`. `world parent field` describes what the application
    returns for a composite result: `none` for null / leaf results, `some claimed` for a value that the
    `IsTypeOf` functions of exactly the object types in `claimed` accept (any list: one type, several
    overlapping ones, gated ones, none). -/
def exec (v : View) (world : String → String → Option (List String)) : String → Sels → List Event
  | _, .nil => []
  | objT, .cons tag arg sub rest =>
    (if tag == "field" then
       match v.getField objT arg with
       | none => []                                   -- executeSelections: `if fieldDef != nil`
       | some s =>
         .resolve objT arg ::
           (match world objT arg with
            | none => []
            | some claimed =>
              match v.resolveType s.ty.base claimed with
              | some rt => exec v world rt sub
              | none => [.unresolvable s.ty.base (",".intercalate claimed)])
     else if tag == "on" then
       match v.lookupRaw arg with                      -- executor namedType: raw
       | none => []
       | some _ => if v.fragApplies objT arg then exec v world objT sub else []
     else if tag == "typename" then [.typename objT]
     else if tag == "group" then exec v world objT sub
     else []) ++ exec v world objT rest

/-! ## Driver glue (not used by theorems) -/

partial def parseSelsList : List Sexp → Option Sels
  | [] => some .nil
  | .list [.atom tag, .atom arg, .list sub] :: rest => do
    let s ← parseSelsList sub
    let r ← parseSelsList rest
    pure (.cons tag arg s r)
  | _ => none

def parseSels : Sexp → Option Sels
  | .list xs => parseSelsList xs
  | _ => none

partial def Json.render : Json → String
  | .null => "null"
  | .bool b => if b then "true" else "false"
  | .str s => Sexp.quote s
  | .arr xs => "[" ++ ",".intercalate (xs.map Json.render) ++ "]"
  | .obj kvs => "{" ++ ",".intercalate (kvs.map fun (k, x) => Sexp.quote k ++ ":" ++ x.render) ++ "}"

def eventSexp : Event → Sexp
  | .resolve p f => .list [.atom "resolve", Sexp.str p, Sexp.str f]
  | .noField p f => .list [.atom "noField", Sexp.str p, Sexp.str f]
  | .undefinedType n => .list [.atom "undefinedType", Sexp.str n]
  | .notComposite n => .list [.atom "notComposite", Sexp.str n]
  | .impossible a b => .list [.atom "impossible", Sexp.str a, Sexp.str b]
  | .typename p => .list [.atom "typename", Sexp.str p]
  | .unresolvable a r => .list [.atom "unresolvable", Sexp.str a, Sexp.str r]

end ApiFu.C13
