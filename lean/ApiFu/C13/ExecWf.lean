/-
  C13 — `wfCheck` of C01 (unique type names; an object type implementing an interface has the interface's
  fields, with covariant types — stated through C01's `runtimeObjects` / `fragmentApplies`) holds for the schema
  as the executor sees it under a feature set: a consequence of `satisfyInterface` and the construction rule as
  modelled by `Accepted`.
-/
import ApiFu.C13.ExecClosed
import ApiFu.C01.Syntactic
import ApiFu.C01.Typing

set_option linter.unusedSimpArgs false

namespace ApiFu.C13

section
variable {S : Schema} {F : Feats} (edec : ExecDeco)

/-- looking a visible object up in the executor's description -/
theorem object?_execSeen (hA : Accepted S = true) {n : String} {t : TypeDef} (hf : S.find? n = some t)
    (hr : reqOk F t.req = true) (hk : t.kind = .object) :
    (execSeen edec S F).object? n = some { name := n, fields := execFields F t, ifaces := t.interfaces } := by
  unfold C01.Schema.object?
  rw [lookup_execSeen edec (Accepted.nodup hA)]
  simp [hf, hr, execDef, hk]

theorem lookup_execSeen_visible (hA : Accepted S = true) {n : String} {t : TypeDef} (hf : S.find? n = some t)
    (hr : reqOk F t.req = true) : (execSeen edec S F).lookup n = execDef edec F t := by
  rw [lookup_execSeen edec (Accepted.nodup hA)]
  simp [hf, hr]

/-- namedSub on visible types gives C01's subBase on the executor's description. -/
theorem subBase_of_namedSub (hA : Accepted S = true) {x y : String} (hx : S.visible F x = true)
    (hy : S.visible F y = true) (h : S.namedSub x y = true) : C01.subBase (execSeen edec S F) x y = true := by
  have hu := Accepted.nodup hA
  obtain ⟨tx, hfx, hrx⟩ := visible_iff.mp hx
  obtain ⟨ty, hfy, hry⟩ := visible_iff.mp hy
  unfold C01.subBase C01.runtimeObjects
  rw [lookup_execSeen_visible edec hA hfx hrx]
  unfold Schema.namedSub at h
  simp only [hfx, hfy, Bool.or_eq_true, beq_iff_eq] at h
  rw [List.all_eq_true]
  intro o' ho'
  have hly := lookup_execSeen_visible (F := F) edec hA hfy hry
  unfold C01.fragmentApplies
  rw [hly]
  have obj_name : ∀ (n : String) (o : C01.ObjT), (execSeen edec S F).object? n = some o → o.name = n := by
    intro n o ho
    unfold C01.Schema.object? at ho
    split at ho
    · simp only [Option.some.injEq] at ho; rw [← ho]
    · cases ho
  rcases h with hxy | hsub
  · -- x = y
    subst hxy
    have : ty = tx := by rw [hfx] at hfy; exact (Option.some.inj hfy).symm
    subst this
    unfold execDef at ho' ⊢
    cases hk : ty.kind with
    | object =>
      simp only [hk, List.mem_singleton] at ho'
      subst ho'
      simp [hk]
    | interface =>
      simp only [hk] at ho' ⊢
      obtain ⟨n, hn, hon⟩ := List.mem_filterMap.mp ho'
      rw [implementations_execSeen] at hn
      obtain ⟨t', ht', hi'⟩ := List.mem_filterMap.mp hn
      obtain ⟨htm, htr⟩ := List.mem_filter.mp ht'
      unfold implC13 at hi'
      by_cases hc : (t'.kind == Kind.object && t'.interfaces.contains x) = true
      · simp only [hc, if_true, Option.some.injEq] at hi'
        subst hi'
        simp only [Bool.and_eq_true, beq_iff_eq] at hc
        rw [object?_execSeen edec hA (find?_of_mem hu htm) htr hc.1] at hon
        simp only [Option.some.injEq] at hon
        subst hon
        have hmem : x ∈ t'.interfaces := by simpa using hc.2
        simp [hmem]
      · rw [if_neg hc] at hi'; cases hi'
    | union =>
      simp only [hk] at ho' ⊢
      obtain ⟨m, hm, hom⟩ := List.mem_filterMap.mp ho'
      have := obj_name m o' hom
      subst this
      simp [hm]
    | scalar => simp [hk] at ho'
    | enum => simp [hk] at ho'
    | input => simp [hk] at ho'
  · by_cases hko : tx.kind = Kind.object
    · simp only [hko, if_true] at hsub
      have ho'' : o' = { name := x, fields := execFields F tx, ifaces := tx.interfaces } := by
        unfold execDef at ho'
        simpa [hko] using ho'
      subst ho''
      by_cases hku : ty.kind = Kind.union
      · simp only [hku, if_true] at hsub
        have hmem : x ∈ ty.members := by simpa using hsub
        unfold execDef
        simp [hku, hmem]
      · simp only [hku, if_false] at hsub
        -- an implemented interface is an interface type
        have hok := Accepted.typeOk hA (find?_mem hfx)
        simp only [Schema.typeOk, hko, Bool.and_eq_true, List.all_eq_true] at hok
        have hyi := hok.2 y (by simpa using hsub)
        simp only [hfy, Bool.and_eq_true, beq_iff_eq] at hyi
        have hmem : y ∈ tx.interfaces := by simpa using hsub
        unfold execDef
        simp [hyi.1, hmem]
    · simp [hko] at hsub


omit edec in
theorem namedSub_refl (x : String) : S.namedSub x x = true := by simp [Schema.namedSub]

omit edec in
theorem namedSub_of_isSubType : ∀ (a b : TRef), S.isSubType a b = true → S.namedSub a.base b.base = true
  | .named a, .named b, h => by simpa [Schema.isSubType, TRef.base] using h
  | .named _, .list _, h => by simp [Schema.isSubType] at h
  | .named _, .nonNull _, h => by simp [Schema.isSubType] at h
  | .list t, .list u, h => by
    simp only [Schema.isSubType, Bool.or_eq_true, beq_iff_eq] at h
    rcases h with h | h
    · subst h; exact namedSub_refl _
    · exact namedSub_of_isSubType t u h
  | .list _, .named _, h => by simp [Schema.isSubType] at h
  | .list _, .nonNull _, h => by simp [Schema.isSubType] at h
  | .nonNull t, .nonNull u, h => by
    simp only [Schema.isSubType, Bool.or_eq_true, beq_iff_eq] at h
    rcases h with h | h
    · subst h; exact namedSub_refl _
    · exact namedSub_of_isSubType t u h
  | .nonNull t, .named b, h => by
    simp only [Schema.isSubType] at h
    exact namedSub_of_isSubType t (.named b) h
  | .nonNull t, .list u, h => by
    simp only [Schema.isSubType] at h
    exact namedSub_of_isSubType t (.list u) h

theorem execSeen_names_nodup (hu : (S.types.map (·.name)).Nodup) :
    ((execSeen edec S F).types.map (·.1)).Nodup := by
  unfold execSeen
  simp only
  have key : ∀ (l : List TypeDef), (l.map (·.name)).Nodup →
      ((l.filterMap (execEntry edec F)).map (·.1)).Nodup ∧
      ∀ n ∈ (l.filterMap (execEntry edec F)).map (·.1), n ∈ l.map (·.name) := by
    intro l
    induction l with
    | nil => intro _; simp
    | cons a l ih =>
      intro hn
      simp only [List.map_cons, List.nodup_cons] at hn
      obtain ⟨ih1, ih2⟩ := ih hn.2
      unfold execEntry
      cases hd : execDef edec F a with
      | none =>
        simp only [List.filterMap_cons, hd, Option.map_none]
        exact ⟨ih1, fun n hn' => List.mem_cons_of_mem _ (ih2 n hn')⟩
      | some d =>
        simp only [List.filterMap_cons, hd, Option.map_some, List.map_cons, List.nodup_cons]
        refine ⟨⟨fun hmem => hn.1 (ih2 _ hmem), ih1⟩, ?_⟩
        intro n hn'
        rcases List.mem_cons.mp hn' with rfl | h'
        · exact List.mem_cons_self ..
        · exact List.mem_cons_of_mem _ (ih2 n h')
  exact (key _ (sublist_map_nodup (fun t : TypeDef => t.name) List.filter_sublist hu)).1

/-- `wfCheck` of C01 (unique names; an object implementing an interface has the interface's fields with
    covariant types) holds for the schema as the executor sees it under `F`. -/
theorem wfCheck_execSeen (hA : Accepted S = true) : (execSeen edec S F).wfCheck = true := by
  have hu := Accepted.nodup hA
  unfold C01.Schema.wfCheck
  rw [Bool.and_eq_true]
  refine ⟨by simpa using execSeen_names_nodup edec hu, ?_⟩
  rw [List.all_eq_true]
  intro p hp
  obtain ⟨t, ht, hr, hn, hd⟩ := mem_execSeen_types edec hp
  unfold execDef at hd
  cases hk : t.kind with
  | object =>
    simp only [hk, Option.some.injEq] at hd
    rw [← hd]
    simp only [List.all_eq_true]
    intro i hi
    have hok := Accepted.typeOk hA ht
    simp only [Schema.typeOk, hk, Bool.and_eq_true, List.all_eq_true] at hok
    have hii := hok.2 i hi
    cases hfi : S.find? i with
    | none => simp [hfi] at hii
    | some ti =>
      simp only [hfi, Bool.and_eq_true, beq_iff_eq] at hii
      obtain ⟨hki, hsat⟩ := hii
      rw [lookup_execSeen edec hu, hfi]
      by_cases hri : reqOk F ti.req = true
      · simp only [hri, if_true, execDef, hki, List.all_eq_true]
        intro ifd hifd
        unfold execFields at hifd
        obtain ⟨fi, hfi', rfl⟩ := List.mem_map.mp hifd
        obtain ⟨hfim, hfir⟩ := List.mem_filter.mp hfi'
        unfold Schema.satisfies at hsat
        rw [List.all_eq_true] at hsat
        have hs := hsat fi hfim
        cases hfo : t.fields.find? (fun f => f.name == fi.name) with
        | none => simp [hfo] at hs
        | some fo =>
          simp only [hfo, Bool.and_eq_true] at hs
          have hsub := hs.1.1.1
          have hreq := hs.1.1.2
          have hfor : reqOk F fo.req = true := reqOk_of_subReq hreq hfir
          have hfom : fo ∈ t.fields := List.mem_of_find?_eq_some hfo
          have hfind : (execFields F t).find? (fun f => f.name == (execField fi).name) = some (execField fo) := by
            unfold execFields
            rw [List.find?_map]
            have e : ((fun f : C01.FieldDef => f.name == (execField fi).name) ∘ execField) = (fun f : Field => f.name == fi.name) := by
              funext f; rfl
            rw [e, find?_filter_nodup (fields_nodup hA ht (Or.inl hk)), hfo]
            simp [hfor]
          simp only [hfind]
          show C01.subBase (execSeen edec S F) (toTypeRef fo.ty).base (toTypeRef fi.ty).base = true
          rw [toTypeRef_base, toTypeRef_base]
          have hvo := (field_sigVis hA ht (Or.inl hk) hr hfom hfor).1
          have hvi := (field_sigVis hA (find?_mem hfi) (Or.inr hki) hri hfim hfir).1
          exact subBase_of_namedSub edec hA hvo hvi (namedSub_of_isSubType _ _ hsub)
      · simp only [hri, Bool.false_eq_true, if_false]
  | scalar => simp only [hk, Option.some.injEq] at hd; rw [← hd]
  | interface => simp only [hk, Option.some.injEq] at hd; rw [← hd]
  | union => simp only [hk, Option.some.injEq] at hd; rw [← hd]
  | enum => simp only [hk, Option.some.injEq] at hd; rw [← hd]
  | input => simp [hk] at hd

end
end ApiFu.C13
