/-
  C13 → C01: the schema description the executor model of property C01 works on (`ApiFu.C01.Schema`:
  output types by name — scalars with their result coercion, objects with fields and interface list,
  interfaces, unions, enums with their internal values — and the three roots), produced from a C13
  schema and a request feature set, as the Go executor consults the schema under `F`:

    * fields of an object: `GetField(name, features)` — the field's own features (executor.go
      executeSelections / subscribe);
    * an object's `ImplementedInterfaces` and a union's `MemberTypes`: RAW (`doesFragmentTypeApply`);
    * type resolution of an interface value: the implementations whose required features are enabled
      (fix 03) — here: the implementing objects among the listed types;
    * the mutation / subscription root: only when its required features are enabled (fix 04);
    * named types: the registered types whose required features are enabled. (The executor's own
      `namedType` applies no feature test — `lookupRaw`. It is consulted for type conditions only; on every
      name a validated document can hold — `validate_erase`: a hidden type condition is a validation
      error — raw and feature-aware look-up agree: `ViewAgree.lookupRaw`, `lookup_raw_differs_on_hidden`.)

  Input object types do not exist for the executor model (arguments arrive coerced). What the C13 model
  does not carry — a scalar's result coercion, an enum value's internal Go value — is a parameter
  (`ExecDeco`), a function of the element's name.

  Core Lean only.
-/
import ApiFu.C13.Model
import ApiFu.C01.Model

namespace ApiFu.C13

def toTypeRef : TRef → C01.TypeRef
  | .named n => .named n
  | .list t => .list (toTypeRef t)
  | .nonNull t => .nonNull (toTypeRef t)

structure ExecDeco where
  /-- result coercion of the scalar named `n` -/
  scalar : String → C01.ScalarKind
  /-- internal value of value `v` of enum `t` -/
  enumVal : String → String → C01.GoVal

def execField (f : Field) : C01.FieldDef := { name := f.name, type := toTypeRef f.ty }

/-- The fields `GetField(·, F)` finds on the type. -/
def execFields (F : Feats) (t : TypeDef) : List C01.FieldDef :=
  (t.fields.filter (fun f => reqOk F f.req)).map execField

def execDef (dec : ExecDeco) (F : Feats) (t : TypeDef) : Option C01.TypeDef :=
  match t.kind with
  | .scalar => some (.scalar (dec.scalar t.name))
  | .object => some (.object (execFields F t) t.interfaces)
  | .interface => some (.interface (execFields F t))
  | .union => some (.union t.members)
  | .enum => some (.enum (t.values.map (fun v => (v, dec.enumVal t.name v))))
  | .input => none

def execEntry (dec : ExecDeco) (F : Feats) (t : TypeDef) : Option (String × C01.TypeDef) :=
  (execDef dec F t).map (fun d => (t.name, d))

/-- **execSeen** — the schema as the executor sees it when the request's feature set is `F`. -/
def execSeen (dec : ExecDeco) (S : Schema) (F : Feats) : C01.Schema :=
  { types := (S.types.filter (fun t => reqOk F t.req)).filterMap (execEntry dec F)
    query := S.query
    mutation := S.mutation.filter (S.visible F)
    subscription := S.subscription.filter (S.visible F) }

/-! ### the same reading with one feature test of the shipped code removed (negation witnesses) -/

/-- executor `GetField` ignoring the field's features. -/
def execSeenFieldsUnfixed (dec : ExecDeco) (S : Schema) (F : Feats) : C01.Schema :=
  { execSeen dec S F with types := (S.types.filter (fun t => reqOk F t.req)).filterMap (execEntry dec top) }

/-- type resolution over all implementations (before fix 03): hidden object types stay listed. -/
def execSeenTypesUnfixed (dec : ExecDeco) (S : Schema) (F : Feats) : C01.Schema :=
  { execSeen dec S F with types := S.types.filterMap (execEntry dec F) }

/-- the roots untested (before fix 04). -/
def execSeenRootsUnfixed (dec : ExecDeco) (S : Schema) (F : Feats) : C01.Schema :=
  { execSeenTypesUnfixed dec S F with mutation := S.mutation, subscription := S.subscription }

end ApiFu.C13
