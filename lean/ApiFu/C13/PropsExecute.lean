/-
  C13 — erasure lifted to a whole pipeline stage: EXECUTION.

  For every schema `S` accepted by the construction rules, every request feature set `F`, every
  decoration (scalar result coercions, enum internal values), EVERY document, every root value (the
  application's behaviour: C01's worlds are trees of resolver outcomes, objects of any type — gated ones
  included — at any position), every fuel and both memo settings, the executor model of property C01
  (`ApiFu.C01.execute`: GetOperation, collectFields with its memo, executeSelections, executeField,
  completeValue with type resolution and null propagation — the transliteration of executor.go that C01
  ties to the Go code on every run) returns the same response on
      `execSeen dec S F`                the schema as the executor sees it under `F`
  and `execSeen dec (erase S F) top`    the physically erased schema, all features enabled:
  the same data, the same errors with the same paths and locations in the same order, the same stuck
  outcomes. A gated field is exactly an undefined field, a gated implementation exactly a missing one, a
  gated root exactly an unsupported operation — at any depth, through fragments and abstract types.

  As in PropsValidate.lean the two descriptions are not equal (a visible object keeps listing hidden
  interfaces); `ExecCongr.execute_congr` is a congruence proved over the whole executor model.
-/
import ApiFu.C13.PropsValidate
import ApiFu.C13.ToC01Lemmas

namespace ApiFu.C13

/-- **exec_model_congr** — the executor model reads a schema description only through the type look-up
    (of an object's interface list only which interface types of the schema it contains), the
    implementations of interface types and the roots: two descriptions agreeing on these
    (`ExecCongr.Equiv`) produce the same response for every document, root value, fuel and memo setting. -/
theorem exec_model_congr {S₁ S₂ : C01.Schema} (h : ExecCongr.Equiv S₁ S₂) (memo : Bool) (D : C01.Document)
    (fuel : Nat) (opName : String) (root : C01.RVal) :
    C01.execute memo S₁ D fuel opName root = C01.execute memo S₂ D fuel opName root :=
  ExecCongr.execute_congr h memo D fuel opName root

/-- **exec_seen_equiv_erased** — the schema the executor sees under `F` and the erased schema are
    observationally equivalent for the executor model. -/
theorem exec_seen_equiv_erased (dec : ExecDeco) (S : Schema) (F : Feats) (hA : Accepted S = true) :
    ExecCongr.Equiv (execSeen dec S F) (execSeen dec (erase S F) top) :=
  execSeen_equiv dec hA

/-- **execute_erase** — execution under `F` is execution on the erased schema: the whole response of
    the executor model, for every document (validated or not), every application behaviour, every fuel. -/
theorem execute_erase (dec : ExecDeco) (S : Schema) (F : Feats) (hA : Accepted S = true) (memo : Bool)
    (D : C01.Document) (fuel : Nat) (opName : String) (root : C01.RVal) :
    C01.execute memo (execSeen dec S F) D fuel opName root
      = C01.execute memo (execSeen dec (erase S F) top) D fuel opName root :=
  ExecCongr.execute_congr (execSeen_equiv dec hA) memo D fuel opName root

/-- **execute_enable** — the response depends on `F` only through the erased schema. -/
theorem execute_enable (dec : ExecDeco) (S : Schema) (F F' : Feats) (hA : Accepted S = true)
    (he : erase S F = erase S F') (memo : Bool) (D : C01.Document) (fuel : Nat) (opName : String) (root : C01.RVal) :
    C01.execute memo (execSeen dec S F) D fuel opName root = C01.execute memo (execSeen dec S F') D fuel opName root := by
  rw [execute_erase dec S F hA, execute_erase dec S F' hA, he]

/-! ## Non-vacuity and negation witnesses (schema `demoV` of PropsValidate.lean) -/

def demoE : ExecDeco :=
  { scalar := fun n => if n = "Int" then .int else if n = "Boolean" then .boolean else .id
    enumVal := fun _ v => .str v }

def q0 : C01.Pos := ⟨1, 1⟩

def fieldSel (name : String) (sub : List C01.Selection := []) : C01.Selection :=
  .field q0 none name name none [] sub

/-- `{ flag }` -/
def xFlag : C01.Document := { ops := [{ kind := .query, name := none, pos := q0, sels := [fieldSel "flag"] }], frags := [] }
/-- `{ node { __typename } }` -/
def xNode : C01.Document :=
  { ops := [{ kind := .query, name := none, pos := q0, sels := [fieldSel "node" [fieldSel "__typename"]] }], frags := [] }
/-- `mutation { touch }` -/
def xTouch : C01.Document := { ops := [{ kind := .mutation, name := none, pos := q0, sels := [fieldSel "touch"] }], frags := [] }

/-- An application whose `flag` is true, whose `node` is an object of the gated type `Secret`, whose
    `touch` is true. -/
def world0 : C01.RVal :=
  .obj "Query" [.mk "flag" (.val (.leaf (.bool true))), .mk "node" (.val (.obj "Secret" [])),
                .mk "touch" (.val (.leaf (.bool true)))]

/-- Top-level response keys and the number of errors. -/
def summary : Except C01.Stuck C01.Response → Option (List String × Nat)
  | .ok { data := some (.obj kvs), errors := es } => some (kvs.map (·.1), es.length)
  | .ok { data := _, errors := es } => some ([], es.length)
  | .error _ => none

/-- The response really depends on the feature set: with `a` the three requests succeed, without it
    `flag` is a blank slot, `node` cannot be resolved, `mutation` is not supported — on the schema as seen
    and (as the theorem says) on the erased schema. -/
example :
    [xFlag, xNode, xTouch].map (fun D => summary (C01.execute true (execSeen demoE demoV onlyA) D 10 "" world0))
      = [some (["flag"], 0), some (["node"], 0), some (["touch"], 0)] ∧
    [xFlag, xNode, xTouch].map (fun D => summary (C01.execute true (execSeen demoE demoV noF) D 10 "" world0))
      = [some ([""], 0), some (["node"], 1), some ([], 1)] ∧
    [xFlag, xNode, xTouch].map (fun D => summary (C01.execute true (execSeen demoE (erase demoV noF) top) D 10 "" world0))
      = [some ([""], 0), some (["node"], 1), some ([], 1)] := by
  decide

/-- The two sides of `execute_erase` are different descriptions. -/
example :
    ((execSeen demoE demoV noF).object? "Pub").map (·.ifaces) = some ["Node", "Hidden"] ∧
    ((execSeen demoE (erase demoV noF) top).object? "Pub").map (·.ifaces) = some ["Node"] := by decide

/-- **execute_fields_unfixed_differs** — an executor whose `GetField` ignored the field's features would
    resolve `flag` with the feature off; the erased schema leaves the slot blank. -/
theorem execute_fields_unfixed_differs :
    summary (C01.execute true (execSeenFieldsUnfixed demoE demoV noF) xFlag 10 "" world0) = some (["flag"], 0) ∧
    summary (C01.execute true (execSeen demoE (erase demoV noF) top) xFlag 10 "" world0) = some ([""], 0) := by
  decide

/-- **execute_types_unfixed_differs** — type resolution before fix 03 (F-13e): a value of the gated type
    `Secret` behind `node: Node` is resolved (no error); the erased schema cannot determine its type. -/
theorem execute_types_unfixed_differs :
    summary (C01.execute true (execSeenTypesUnfixed demoE demoV noF) xNode 10 "" world0) = some (["node"], 0) ∧
    summary (C01.execute true (execSeen demoE (erase demoV noF) top) xNode 10 "" world0) = some (["node"], 1) := by
  decide

/-- **execute_roots_unfixed_differs** — the roots before fix 04 (F-13f): `mutation { touch }` runs although
    the `Mutation` root needs feature `a`. -/
theorem execute_roots_unfixed_differs :
    summary (C01.execute true (execSeenRootsUnfixed demoE demoV noF) xTouch 10 "" world0) = some (["touch"], 0) ∧
    summary (C01.execute true (execSeen demoE (erase demoV noF) top) xTouch 10 "" world0) = some ([], 1) := by
  decide

end ApiFu.C13
