/-
  C13 — a disabled feature is indistinguishable from its elements not existing.

  All theorems are about the model of Model.lean / Client.lean: for EVERY schema `S` accepted by the
  construction rules (`Accepted S`, the transliteration of `schema.New`; the harness compares it with
  the real verdict on every generated schema) whose *query* root type is ungated (`RootsUngated S`;
  gated mutation / subscription roots are covered: after fix 04 the code treats them as absent), EVERY request feature set `F`, every selection tree and every application
  behaviour (`world`).

  Shape: every client-visible function reaches the schema only through the accessors of `View`
  (each transliterated with the feature test the Go code applies — after the fixes 01–03 and C10/04);
  `view_erase` shows accessor by accessor that `view S F` and `view (erase S F) top` agree on every
  name a request can hold, `view_closed` that accessors only ever hand out such names; the client
  theorems follow by induction on the selection tree.
-/
import ApiFu.C13.Lemmas

namespace ApiFu.C13

/-! ## Witness schemas (non-vacuity, negation witnesses) -/

def mkT (k : Kind) (n : String) (req : List String) (fields : List Field := []) (ifaces : List String := [])
    (members : List String := []) : TypeDef :=
  { kind := k, name := n, req := req, fields := fields, interfaces := ifaces, members := members, values := [], inputs := [] }

def idF : Field := { name := "id", ty := .named "ID", req := [], args := [] }

/-- `interface Node {id}`, `Pub : Node`, `Secret @a : Node`, `interface Hidden @a {id}`, `Both : Node & Hidden`,
    `Query { node: Node, both: Both, secret @a : Secret }`. -/
def demo : Schema :=
  { types := [
      mkT .scalar "ID" [],
      mkT .interface "Node" [] [idF],
      mkT .interface "Hidden" ["a"] [idF],
      mkT .object "Pub" [] [idF] ["Node"],
      mkT .object "Secret" ["a"] [idF] ["Node"],
      mkT .object "Both" [] [idF] ["Node", "Hidden"],
      mkT .object "Query" [] [{ name := "node", ty := .named "Node", req := [], args := [] },
                              { name := "both", ty := .named "Both", req := [], args := [] },
                              { name := "secret", ty := .named "Secret", req := ["a"], args := [] }]],
    query := "Query", mutation := none, subscription := none }

/-- Two interfaces whose only common implementation is gated (the F-13d shape). -/
def demoSpread : Schema :=
  { types := [
      mkT .scalar "ID" [],
      mkT .interface "I" [] [idF],
      mkT .interface "J" [] [idF],
      mkT .object "OnlyI" [] [idF] ["I"],
      mkT .object "OnlyJ" [] [idF] ["J"],
      mkT .object "Both" ["a"] [idF] ["I", "J"],
      mkT .object "Query" [] [{ name := "i", ty := .named "I", req := [], args := [] }]],
    query := "Query", mutation := none, subscription := none }

/-- The empty feature set. -/
def noF : Feats := fun _ => false

/-- Only feature `a`. -/
def onlyA : Feats := fun x => x == "a"

example : Accepted demo = true ∧ RootsUngated demo = true := by decide
example : Accepted demoSpread = true ∧ RootsUngated demoSpread = true := by decide
/-- Erasing really removes something from the witness. -/
example : erase demo noF ≠ demo ∧ (erase demo noF).find? "Secret" = none ∧
    ((erase demo noF).find? "Both").map (·.interfaces) = some ["Node"] := by decide

/-! ## Well-formedness is preserved -/

/-- **erase_accepted** — the physically reduced schema is again a schema `schema.New` accepts: given
    the construction-time rule (a field / argument / input field / union member may not expose a type
    needing more features than the element exposing it), deleting the gated types and fields never
    leaves a dangling reference, an object without fields, an unsatisfied interface or an empty union. -/
theorem erase_accepted (S : Schema) (F : Feats) (hA : Accepted S = true) (hR : RootsUngated S = true) :
    Accepted (erase S F) = true :=
  accepted_erase hA hR

/-- Non-vacuity, and the rule is needed: a field exposing a more-gated type is rejected, and erasing
    such a schema anyway leaves a field whose type no longer exists. -/
example :
    let bad : Schema :=
      { types := [mkT .scalar "ID" [], mkT .object "Secret" ["a"] [idF],
                  mkT .object "Query" [] [{ name := "secret", ty := .named "Secret", req := [], args := [] }]],
        query := "Query", mutation := none, subscription := none }
    Accepted bad = false ∧ Accepted (erase bad noF) = false := by decide

/-! ## The view -/

/-- `view S F` and `view (erase S F) top` answer alike: on every string for the accessors that take a
    name typed by the client, on every name that is not hidden (a visible type, or no registered type)
    for the accessors that take a type the code already holds. -/
structure ViewAgree (S : Schema) (F : Feats) : Prop where
  queryType : (view (erase S F) top).queryType = (view S F).queryType
  mutationType : (view (erase S F) top).mutationType = (view S F).mutationType
  subscriptionType : (view (erase S F) top).subscriptionType = (view S F).subscriptionType
  lookupF : ∀ n, (view (erase S F) top).lookupF n = (view S F).lookupF n
  typeByName : ∀ n, (view (erase S F) top).typeByName n = (view S F).typeByName n
  typesListing : (view (erase S F) top).typesListing = (view S F).typesListing
  kindOf : ∀ p, S.notHidden F p = true → (view (erase S F) top).kindOf p = (view S F).kindOf p
  getField : ∀ p fn, S.notHidden F p = true → (view (erase S F) top).getField p fn = (view S F).getField p fn
  fieldsListing : ∀ inc p, S.notHidden F p = true →
    (view (erase S F) top).fieldsListing inc p = (view S F).fieldsListing inc p
  interfacesOf : ∀ p, S.notHidden F p = true → (view (erase S F) top).interfacesOf p = (view S F).interfacesOf p
  possibleTypes : ∀ p, S.notHidden F p = true → (view (erase S F) top).possibleTypes p = (view S F).possibleTypes p
  inputFields : ∀ p, S.notHidden F p = true → (view (erase S F) top).inputFields p = (view S F).inputFields p
  enumValues : ∀ inc p, S.notHidden F p = true →
    (view (erase S F) top).enumValues inc p = (view S F).enumValues inc p
  spreadTypes : ∀ p, S.notHidden F p = true → (view (erase S F) top).spreadTypes p = (view S F).spreadTypes p
  resolveCandidates : ∀ p, S.notHidden F p = true →
    (view (erase S F) top).resolveCandidates p = (view S F).resolveCandidates p
  fragApplies : ∀ o f, S.notHidden F o = true → S.notHidden F f = true →
    (view (erase S F) top).fragApplies o f = (view S F).fragApplies o f
  lookupRaw : ∀ n, S.notHidden F n = true → (view (erase S F) top).lookupRaw n = (view S F).lookupRaw n

/-- **view_erase** — accessor by accessor, a request with features `F` against `S` is answered like a
    request with all features against the erased schema. -/
theorem view_erase (S : Schema) (F : Feats) (hA : Accepted S = true) : ViewAgree S F :=
  have hu := Accepted.nodup hA
  { queryType := rfl
    mutationType := erase_mutation hu
    subscriptionType := erase_subscription hu
    lookupF := lookupF_erase hu
    typeByName := typeByName_erase hu
    typesListing := typesListing_erase
    kindOf := fun _ h => kindOf_erase hu h
    getField := fun _ fn h => getField_erase hA h fn
    fieldsListing := fun inc _ h => fieldsListing_erase hu h inc
    interfacesOf := fun _ h => interfacesOf_erase hu h
    possibleTypes := fun _ h => possibleTypes_erase hA h
    inputFields := fun _ h => inputFields_erase hu h
    enumValues := fun inc _ h => enumValues_erase hu h inc
    spreadTypes := fun _ h => spreadTypes_erase hA h
    resolveCandidates := fun _ h => resolveCandidates_erase hA h
    fragApplies := fun _ _ ho hf => fragApplies_erase hA ho hf
    lookupRaw := fun _ h => lookupRaw_erase hu h }

/-- Accessors only hand out visible types: whatever a request obtains from the view (a root type, a
    listing entry, a field's type or argument type, an implemented interface, a possible type, an
    input field's type, a spread / type-resolution candidate) passes the feature test. -/
structure ViewClosed (S : Schema) (F : Feats) : Prop where
  queryType : S.visible F (view S F).queryType = true
  mutationType : ∀ m, (view S F).mutationType = some m → S.visible F m = true
  subscriptionType : ∀ m, (view S F).subscriptionType = some m → S.visible F m = true
  lookupF : ∀ n k, (view S F).lookupF n = some k → S.notHidden F n = true
  typeByName : ∀ n p, (view S F).typeByName n = some p → S.visible F p = true
  typesListing : ∀ p ∈ (view S F).typesListing, S.visible F p = true
  getField : ∀ p fn s, S.notHidden F p = true → (view S F).getField p fn = some s → SigVis S F s
  fieldsListing : ∀ inc p l, S.notHidden F p = true → (view S F).fieldsListing inc p = some l → ∀ s ∈ l, SigVis S F s
  interfacesOf : ∀ p l, (view S F).interfacesOf p = some l → ∀ i ∈ l, S.visible F i = true
  possibleTypes : ∀ p l, S.notHidden F p = true → (view S F).possibleTypes p = some l → ∀ i ∈ l, S.visible F i = true
  inputFields : ∀ p l, S.notHidden F p = true → (view S F).inputFields p = some l → ∀ a ∈ l, S.visible F a.ty.base = true
  spreadTypes : ∀ p, S.notHidden F p = true → ∀ i ∈ (view S F).spreadTypes p, S.visible F i = true
  resolveCandidates : ∀ p, S.notHidden F p = true → ∀ i ∈ (view S F).resolveCandidates p, S.visible F i = true

/-- **view_closed** — the set of visible types is closed under everything the view hands out. This is
    where the construction rule and the fixed filters (`__type`, `interfaces`, `possibleTypes`, spread
    possibility, type resolution) are used. -/
theorem view_closed (S : Schema) (F : Feats) (hA : Accepted S = true) (hR : RootsUngated S = true) :
    ViewClosed S F :=
  { queryType := query_visible hA hR
    mutationType := fun _ hm => filtered_root_visible hm
    subscriptionType := fun _ hm => filtered_root_visible hm
    lookupF := fun _ _ h => notHidden_of_lookupF hA h
    typeByName := fun _ _ h => typeByName_closed h
    typesListing := typesListing_closed (Accepted.nodup hA)
    getField := fun _ _ _ h hg => getField_closed hA h hg
    fieldsListing := fun _ _ _ h hg => fieldsListing_closed hA h hg
    interfacesOf := fun _ _ hg => interfacesOf_closed hg
    possibleTypes := fun _ _ h hg => possibleTypes_closed hA h hg
    inputFields := fun _ _ h hg => inputFields_closed hA h hg
    spreadTypes := fun _ h => spreadTypes_closed hA h
    resolveCandidates := fun _ h => spreadTypes_closed hA h }

/-! ## Introspection -/

/-- **introspect_erase** — every introspection answer (the type listing, direct lookup of a type by
    name, field lists with types and arguments, interface and possible-type listings, input fields,
    enum values, navigation from any of these to any other) is identical to that of the physically
    reduced schema, for every selection tree. -/
theorem introspect_erase (S : Schema) (F : Feats) (hA : Accepted S = true) (hR : RootsUngated S = true)
    (q : Sels) : introspect (view S F) q = introspect (view (erase S F) top) q := by
  unfold introspect
  rw [evalSels_erase hA hR q .root trivial]

/-- The same from any introspection object all of whose type names are visible. -/
theorem introspect_erase_from (S : Schema) (F : Feats) (hA : Accepted S = true) (hR : RootsUngated S = true)
    (q : Sels) (n : Node) (hn : NodeVis S F n) :
    evalSels (view S F) q n = evalSels (view (erase S F) top) q n :=
  evalSels_erase hA hR q n hn

/-- Non-vacuity: probing the gated type by name, the possible types of `Node` and the interfaces of
    `Both` with no feature enabled — `null`, only `Pub`/`Both`, only `Node`. -/
example :
    let q : Sels :=
      .cons "__type" "Secret" (.cons "name" "" .nil .nil) <|
      .cons "__type" "Node" (.cons "possibleTypes" "" (.cons "name" "" .nil .nil) .nil) <|
      .cons "__type" "Both" (.cons "interfaces" "" (.cons "name" "" .nil .nil) .nil) .nil
    introspect (view demo noF) q =
      .obj [("__type", .null),
            ("__type", .obj [("possibleTypes", .arr [.obj [("name", .str "Pub")], .obj [("name", .str "Both")]])]),
            ("__type", .obj [("interfaces", .arr [.obj [("name", .str "Node")]])])] := by
  rfl

/-! ## Directives -/

/-- A directive with an argument of a gated enum type (the F-10g / F-13g shape): `@paint(mode: Mode, n: Int)`, `Mode @a`. -/
def demoDir : Schema :=
  { types := [mkT .scalar "Int" [],
              { (mkT .enum "Mode" ["a"]) with values := ["X", "Y"] },
              mkT .object "Query" [] [{ name := "ok", ty := .named "Int", req := [], args := [] }]],
    query := "Query", mutation := none, subscription := none,
    directives := [{ name := "paint", args := [{ name := "mode", ty := .named "Mode" }, { name := "n", ty := .named "Int" }] }] }

/-- **directives_erase** — the directive listing of introspection, the argument definitions the
    validator and executor consult and the verdict on any directive application are those of the
    erased schema (where an argument of a deleted type is deleted), and the listing only hands out
    visible types. Since fix 05 (`VisibleArguments`) this needs no hypothesis beyond `Accepted`
    (`schema.New` still has no feature rule for directive arguments; the code hides them per request). -/
theorem directives_erase (S : Schema) (F : Feats) (hA : Accepted S = true) :
    (view (erase S F) top).directivesListing = (view S F).directivesListing ∧
    (∀ dn, (view (erase S F) top).directiveArgs dn = (view S F).directiveArgs dn) ∧
    (∀ dn args, directiveCheck (view (erase S F) top) dn args = directiveCheck (view S F) dn args) ∧
    (∀ d ∈ (view S F).directivesListing, ∀ a ∈ d.args, S.visible F a.ty.base = true) := by
  refine ⟨directivesListing_erase hA, directiveArgs_erase hA, ?_, directivesListing_closed hA⟩
  intro dn args
  have : (view (erase S F) top).directiveArgs dn = (view S F).directiveArgs dn := directiveArgs_erase hA dn
  simp only [directiveCheck, this]

/-- Non-vacuity: the argument of the gated enum type is hidden with the feature off (and then
    `@paint(mode:)` is an undefined argument, as in the erased schema) and shown with it on. -/
example :
    Accepted demoDir = true ∧
    ((view demoDir noF).directivesListing.map (fun d => d.args.map (·.name))) = [["n"]] ∧
    ((view demoDir onlyA).directivesListing.map (fun d => d.args.map (·.name))) = [["mode", "n"]] ∧
    directiveCheck (view demoDir noF) "paint" ["mode", "n"] = ["undefined argument mode"] ∧
    directiveCheck (view (erase demoDir noF) top) "paint" ["mode", "n"] = ["undefined argument mode"] ∧
    directiveCheck (view demoDir onlyA) "paint" ["mode", "n"] = [] := by
  decide

/-- F-10g / F-13g before fix 05: the accessors without the feature test. With the feature off the
    listing still shows the argument and names a type the feature-aware lookup hides, and the validator
    still knows the argument — while in the erased schema the argument does not exist. -/
theorem directives_unfixed_differs :
    (viewDirectivesUnfixed demoDir noF).directivesListing ≠
      (viewDirectivesUnfixed (erase demoDir noF) top).directivesListing ∧
    (view demoDir noF).lookupF "Mode" = none ∧
    directiveCheck (viewDirectivesUnfixed demoDir noF) "paint" ["mode"] = [] ∧
    directiveCheck (viewDirectivesUnfixed (erase demoDir noF) top) "paint" ["mode"] = ["undefined argument mode"] := by
  decide

/-! ## Lookups used by validation and execution -/

/-- **lookup_erase** — validation's type-directed walk (field lookup with `GetField`, type conditions
    through the feature-aware lookup, fragment-spread possibility) finds the same field definitions
    and raises the same errors against the erased schema, from every scope a request can be in. -/
theorem lookup_erase (S : Schema) (F : Feats) (hA : Accepted S = true) (sels : Sels)
    (parent : Option String) (hp : ∀ p, parent = some p → S.notHidden F p = true) :
    walk (view S F) parent sels = walk (view (erase S F) top) parent sels :=
  walk_erase hA sels parent hp

/-- … in particular from the query root. -/
theorem lookup_erase_root (S : Schema) (F : Feats) (hA : Accepted S = true) (hR : RootsUngated S = true)
    (sels : Sels) :
    walk (view S F) (some S.query) sels = walk (view (erase S F) top) (some (erase S F).query) sels :=
  walk_erase hA sels (some S.query) (by intro p hp; cases hp; exact notHidden_of_visible (query_visible hA hR))

/-- … and from the mutation / subscription root the view reports (none when the root type is gated
    and its feature is off: the operation then has no scope, in both schemas). -/
theorem lookup_erase_operation_roots (S : Schema) (F : Feats) (hA : Accepted S = true) (sels : Sels) :
    walk (view S F) (view S F).mutationType sels =
      walk (view (erase S F) top) (view (erase S F) top).mutationType sels ∧
    walk (view S F) (view S F).subscriptionType sels =
      walk (view (erase S F) top) (view (erase S F) top).subscriptionType sels := by
  have hu := Accepted.nodup hA
  rw [erase_mutation hu, erase_subscription hu]
  exact ⟨walk_erase hA sels _ (fun p hp => notHidden_of_visible (filtered_root_visible hp)),
         walk_erase hA sels _ (fun p hp => notHidden_of_visible (filtered_root_visible hp))⟩

/-- **spread_possible_erase** — the fragment-spread possibility test gives the same verdict (this is
    what fix 02 establishes; `spread_possible_unfixed_differs` below is the pre-fix counterexample). -/
theorem spread_possible_erase (S : Schema) (F : Feats) (hA : Accepted S = true) (a b : String)
    (ha : S.notHidden F a = true) (hb : S.notHidden F b = true) :
    (view (erase S F) top).spreadPossible a b = (view S F).spreadPossible a b :=
  spreadPossible_erase hA ha hb

/-- Non-vacuity: a field that exists only with the feature, and a spread that is possible only with it. -/
example :
    walk (view demo noF) (some "Query") (.cons "field" "secret" .nil .nil) = [.noField "Query" "secret"] ∧
    walk (view demo onlyA) (some "Query") (.cons "field" "secret" .nil .nil) = [.resolve "Query" "secret"] ∧
    (view demoSpread noF).spreadPossible "J" "I" = false ∧ (view demoSpread onlyA).spreadPossible "J" "I" = true := by
  decide

/-- **resolve_erase** — execution's walk (which resolvers run, which `__typename`s are answered, which
    abstract results cannot be resolved) is the same against the erased schema, for every validated
    selection tree and EVERY application behaviour `world` — including applications that return
    objects of gated types through ungated abstract fields, and applications whose `IsTypeOf` functions
    overlap (a value claimed by a gated and an ungated implementation at once, in either order). -/
theorem resolve_erase (S : Schema) (F : Feats) (hA : Accepted S = true)
    (world : String → String → Option (List String)) (sels : Sels) (objT : String)
    (ho : S.notHidden F objT = true) (hc : condsKnown (view S F) sels = true) :
    exec (view S F) world objT sels = exec (view (erase S F) top) world objT sels :=
  exec_erase hA world sels objT ho hc

/-- **gated_never_resolved** — whatever the application returns, execution under `F` only ever invokes
    resolvers of fields that exist and pass the feature test on a type that passes it; `__typename`
    and type resolution never name a hidden type. -/
theorem gated_never_resolved (S : Schema) (F : Feats) (hA : Accepted S = true) (hR : RootsUngated S = true)
    (world : String → String → Option (List String)) (sels : Sels) :
    ∀ e ∈ exec (view S F) world S.query sels, EventVisible S F e :=
  exec_events_visible hA world sels S.query (notHidden_of_visible (query_visible hA hR))

/-- The same for a mutation (executed on the root the view reports): a gated root type never runs. -/
theorem gated_never_resolved_mutation (S : Schema) (F : Feats) (hA : Accepted S = true)
    (world : String → String → Option (List String)) (sels : Sels) (m : String)
    (hm : (view S F).mutationType = some m) :
    ∀ e ∈ exec (view S F) world m sels, EventVisible S F e :=
  exec_events_visible hA world sels m (notHidden_of_visible (filtered_root_visible hm))

/-- The same for the field definitions validation finds. -/
theorem gated_never_found (S : Schema) (F : Feats) (hA : Accepted S = true) (hR : RootsUngated S = true)
    (sels : Sels) : ∀ e ∈ walk (view S F) (some S.query) sels, EventVisible S F e :=
  walk_events_visible hA sels (some S.query)
    (by intro p hp; cases hp; exact notHidden_of_visible (query_visible hA hR))

/-- Non-vacuity: an application that answers `node` with a `Secret` object while the feature is off:
    the resolver of `Query.node` runs, the result cannot be resolved, `Secret.id` never runs. -/
example :
    exec (view demo noF) (fun _ _ => some ["Secret"]) "Query"
      (.cons "field" "node" (.cons "field" "id" .nil (.cons "typename" "" .nil .nil)) .nil)
      = [.resolve "Query" "node", .unresolvable "Node" "Secret"] := by
  decide

/-- **resolve_type_erase** — type resolution itself: for every abstract type a request can hold and
    every set of object types claiming the value, the resolved object type is the erased schema's
    (and is visible). -/
theorem resolve_type_erase (S : Schema) (F : Feats) (hA : Accepted S = true) (abstract : String)
    (claimed : List String) (ha : S.notHidden F abstract = true) :
    (view (erase S F) top).resolveType abstract claimed = (view S F).resolveType abstract claimed ∧
    ∀ rt, (view S F).resolveType abstract claimed = some rt → S.visible F rt = true := by
  refine ⟨?_, ?_⟩
  · simp only [View.resolveType, view_resolveCandidates, resolveCandidates_erase hA ha]
  · intro rt h
    simp only [View.resolveType, view_resolveCandidates] at h
    exact spreadTypes_closed hA ha rt
      (by simpa [resolveCandidates_eq_spreadTypes] using List.mem_of_find?_eq_some h)

/-- `interface Node`, `Secret @a : Node` registered BEFORE `Pub : Node`. -/
def demoOverlap : Schema :=
  { types := [
      mkT .scalar "ID" [],
      mkT .interface "Node" [] [idF],
      mkT .object "Secret" ["a"] [idF] ["Node"],
      mkT .object "Pub" [] [idF] ["Node"],
      mkT .object "Query" [] [{ name := "node", ty := .named "Node", req := [], args := [] }]],
    query := "Query", mutation := none, subscription := none }

/-- Non-vacuity with overlapping `IsTypeOf`: a value claimed by the gated `Secret` (registered first)
    and by `Pub` resolves to `Pub` with the feature off — as in the erased schema — and to `Secret`
    with it on; `Pub.id` runs, `Secret.id` does not. -/
example :
    Accepted demoOverlap = true ∧
    (view demoOverlap noF).resolveType "Node" ["Secret", "Pub"] = some "Pub" ∧
    (view (erase demoOverlap noF) top).resolveType "Node" ["Secret", "Pub"] = some "Pub" ∧
    (view demoOverlap onlyA).resolveType "Node" ["Secret", "Pub"] = some "Secret" ∧
    exec (view demoOverlap noF) (fun p _ => if p == "Query" then some ["Secret", "Pub"] else none) "Query"
      (.cons "field" "node" (.cons "field" "id" .nil .nil) .nil)
      = [.resolve "Query" "node", .resolve "Pub" "id"] := by
  decide

/-- The order of the two tests matters (the shape of seeded change C13-9): stopping at the first
    implementation that claims the value and only then testing its features makes a value claimed by a
    gated implementation registered first unresolvable with the feature off, although the erased
    schema resolves it to the ungated implementation. -/
theorem resolve_claim_first_differs :
    resolveTypeClaimFirst demoOverlap noF "Node" ["Secret", "Pub"] = none ∧
    resolveTypeClaimFirst (erase demoOverlap noF) top "Node" ["Secret", "Pub"] = some "Pub" := by
  decide

/-! ## Enabling a feature -/

/-- **enable_appears** — enabling more features only ever adds: every visible type stays visible,
    every listed type stays listed, every field `GetField` finds is still found (unchanged), every
    introspected field stays. -/
theorem enable_appears (S : Schema) (F F' : Feats) (h : ∀ x, F x = true → F' x = true) :
    (∀ n, S.visible F n = true → S.visible F' n = true) ∧
    (∀ n ∈ typesListing S F, n ∈ typesListing S F') ∧
    (∀ p fn s, getField S F p fn = some s → getField S F' p fn = some s) ∧
    (∀ inc p l l', fieldsListing S F inc p = some l → fieldsListing S F' inc p = some l' → ∀ s ∈ l, s ∈ l') := by
  refine ⟨?_, ?_, ?_, ?_⟩
  · intro n hn
    obtain ⟨t, ht, hr⟩ := visible_iff.mp hn
    exact visible_iff.mpr ⟨t, ht, reqOk_mono h hr⟩
  · intro n hn
    simp only [typesListing, List.mem_map, List.mem_filter] at hn ⊢
    obtain ⟨t, ⟨ht, hr⟩, rfl⟩ := hn
    exact ⟨t, ⟨ht, reqOk_mono h hr⟩, rfl⟩
  · intro p fn s hg
    unfold getField at hg ⊢
    cases hf : S.find? p with
    | none => simp [hf] at hg
    | some t =>
      simp only [hf] at hg ⊢
      by_cases hk : (t.kind == Kind.object || t.kind == Kind.interface) = true
      · simp only [hk, ↓reduceIte] at hg ⊢
        cases hff : t.fields.find? (fun f => f.name == fn) with
        | none => simp [hff] at hg
        | some f =>
          simp only [hff] at hg ⊢
          by_cases hr : reqOk F f.req = true
          · simp only [hr, ↓reduceIte] at hg
            simp only [reqOk_mono h hr, ↓reduceIte, hg]
          · simp [hr] at hg
      · simp [hk] at hg
  · intro inc p l l' hl hl' s hs
    unfold fieldsListing at hl hl'
    cases hf : S.find? p with
    | none => simp [hf] at hl
    | some t =>
      simp only [hf] at hl hl'
      by_cases hk : (t.kind == Kind.object || t.kind == Kind.interface) = true
      · simp only [hk, ↓reduceIte, Option.some.injEq] at hl hl'
        subst hl; subst hl'
        obtain ⟨f, hfm, rfl⟩ := List.mem_map.mp hs
        have := List.mem_filter.mp hfm
        have h2 := this.2
        simp only [Bool.and_eq_true] at h2
        exact List.mem_map.mpr ⟨f, List.mem_filter.mpr ⟨this.1, by simp only [Bool.and_eq_true]; exact ⟨h2.1, reqOk_mono h h2.2⟩⟩, rfl⟩
      · simp [hk] at hl

/-- **enable_exact** — … and exactly the elements requiring a newly enabled feature appear: a type
    (a field) whose requirement is judged alike by `F` and `F'` is looked up / found alike, and a type
    is newly visible precisely when its requirement holds under `F'` but not under `F`. -/
theorem enable_exact (S : Schema) (F F' : Feats) :
    (∀ n, (∀ t, S.find? n = some t → reqOk F t.req = reqOk F' t.req) → lookupF S F n = lookupF S F' n) ∧
    (∀ p fn, (∀ t f, S.find? p = some t → f ∈ t.fields → f.name = fn → reqOk F f.req = reqOk F' f.req) →
        getField S F p fn = getField S F' p fn) ∧
    (∀ n, (S.visible F' n = true ∧ S.visible F n = false) ↔
        ∃ t, S.find? n = some t ∧ reqOk F' t.req = true ∧ reqOk F t.req = false) := by
  refine ⟨?_, ?_, ?_⟩
  · intro n hn
    unfold lookupF
    cases hf : S.find? n with
    | none => rfl
    | some t => simp only [hn t hf]
  · intro p fn hp
    unfold getField
    cases hf : S.find? p with
    | none => rfl
    | some t =>
      simp only
      cases hff : t.fields.find? (fun f => f.name == fn) with
      | none => rfl
      | some f =>
        have := hp t f hf (List.mem_of_find?_eq_some hff) (by simpa using List.find?_some hff)
        simp only [this]
  · intro n
    unfold Schema.visible
    cases hf : S.find? n with
    | none => simp
    | some t => simp

/-- Non-vacuity: with `a` enabled the witness shows `Secret`, `Hidden` and `Query.secret`, and
    nothing else changes. -/
example :
    typesListing demo noF = ["ID", "Node", "Pub", "Both", "Query"] ∧
    typesListing demo onlyA = ["ID", "Node", "Hidden", "Pub", "Secret", "Both", "Query"] ∧
    (getField demo noF "Query" "secret").isSome = false ∧ (getField demo onlyA "Query" "secret").isSome = true := by
  decide

/-- Non-vacuity for `includeDeprecated`: a field that is deprecated *and* gated is listed only when
    `includeDeprecated` is given **and** the feature is enabled (the two tests are independent). -/
example :
    let S : Schema :=
      { types := [mkT .scalar "ID" [],
                  mkT .object "Query" [] [idF, { name := "old", ty := .named "ID", req := ["a"], args := [], deprecated := true }]],
        query := "Query", mutation := none, subscription := none }
    (fieldsListing S noF true "Query").map (·.map (·.name)) = some ["id"] ∧
    (fieldsListing S onlyA true "Query").map (·.map (·.name)) = some ["id", "old"] ∧
    (fieldsListing S onlyA false "Query").map (·.map (·.name)) = some ["id"] := by
  decide

/-! ## Negation witnesses: the accessors as shipped (before the fixes), and the one that stays raw -/

/-- F-13a: `__type(name:)` without a feature test shows a gated type that the erased schema does not have. -/
theorem type_by_name_unfixed_differs :
    typeByNameUnfixed demo "Secret" ≠ typeByNameUnfixed (erase demo noF) "Secret" := by decide

/-- F-13b: unfiltered `possibleTypes` lists a gated implementation. -/
theorem possible_types_unfixed_differs :
    possibleTypesUnfixed demo "Node" ≠ possibleTypesUnfixed (erase demo noF) "Node" := by decide

/-- F-13c: unfiltered `interfaces` lists a gated interface. -/
theorem interfaces_unfixed_differs :
    interfacesOfUnfixed demo "Both" ≠ interfacesOfUnfixed (erase demo noF) "Both" := by decide

/-- F-13d: with unfiltered implementations a spread whose only common possible type is gated is
    "possible" under `F` and impossible in the erased schema. -/
theorem spread_possible_unfixed_differs :
    spreadPossibleUnfixed demoSpread "J" "I" = true ∧ spreadPossibleUnfixed (erase demoSpread noF) "J" "I" = false := by
  decide

/-- F-13e: unfiltered type resolution accepts a gated implementation (its resolvers would then run). -/
theorem resolve_candidates_unfixed_differs :
    resolveCandidatesUnfixed demo "Node" ≠ resolveCandidatesUnfixed (erase demo noF) "Node" := by decide

/-- The executor's raw `namedType` stays unfixed in the code: it does tell a hidden type from a
    missing one. It is harmless because execution only runs on validated documents, whose type
    conditions all went through the feature-aware lookup (`ViewAgree.lookupRaw`, `resolve_erase`). -/
theorem lookup_raw_differs_on_hidden :
    lookupRaw demo "Secret" ≠ lookupRaw (erase demo noF) "Secret" ∧ lookupF demo noF "Secret" = none := by
  decide

/-- `GetField` does not test the *type's* features either: called on a hidden type it finds the field.
    It is harmless because no accessor hands out a hidden type (`view_closed`). -/
theorem get_field_on_hidden_type :
    (getField demo noF "Secret" "id").isSome = true ∧ getField (erase demo noF) top "Secret" "id" = none := by
  decide

/-- A mutation root type that itself requires feature `a` (the F-13f shape). -/
def demoGatedRoot : Schema :=
  { types := [
      mkT .scalar "Int" [],
      mkT .object "Mutation" ["a"] [{ name := "touch", ty := .named "Int", req := [], args := [] }],
      mkT .object "Query" [] [{ name := "ok", ty := .named "Int", req := [], args := [] }]],
    query := "Query", mutation := some "Mutation", subscription := none }

/-- F-13f (fixed by 04): a gated mutation root is inside the theorems' domain. With the feature off
    the view reports no mutation type — as the erased schema, which has none — and a mutation
    operation has no scope (validation: "unsupported operation type"; nothing is found or resolved). -/
example :
    Accepted demoGatedRoot = true ∧ RootsUngated demoGatedRoot = true ∧
    (view demoGatedRoot noF).mutationType = none ∧ (erase demoGatedRoot noF).mutation = none ∧
    (view demoGatedRoot onlyA).mutationType = some "Mutation" ∧
    walk (view demoGatedRoot noF) (view demoGatedRoot noF).mutationType (.cons "field" "touch" .nil .nil) = [] := by
  decide

/-- F-13f before the fix: the root types consulted without a feature test. With the feature off the
    root type is still reported and its fields are still found, while the erased schema has no
    mutation type at all. -/
theorem gated_root_unfixed_differs :
    (viewRootsUnfixed demoGatedRoot noF).mutationType ≠ (viewRootsUnfixed (erase demoGatedRoot noF) top).mutationType ∧
    walk (viewRootsUnfixed demoGatedRoot noF) (viewRootsUnfixed demoGatedRoot noF).mutationType
      (.cons "field" "touch" .nil .nil) = [.resolve "Mutation" "touch"] := by
  decide

/-- The part of the hypothesis that remains: a gated *query* root. `schema.New` accepts it, `erase`
    leaves a schema whose query type does not exist (not accepted) — there is nothing to compare with. -/
theorem gated_query_root_not_erasable :
    let S : Schema :=
      { types := [mkT .scalar "Int" [], mkT .object "Query" ["a"] [{ name := "ok", ty := .named "Int", req := [], args := [] }]],
        query := "Query", mutation := none, subscription := none }
    Accepted S = true ∧ RootsUngated S = false ∧ Accepted (erase S noF) = false := by
  decide

end ApiFu.C13
