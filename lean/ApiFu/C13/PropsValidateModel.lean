/-
  C13 — validation as the VALIDATOR MODEL of property C04 performs it.

  `ApiFu.C04.Model.accepts` is the verdict of C04's executable model of `validator.ValidateDocument`
  (the transliteration of graphql/validator/*.go that C04's correspondence compares with the Go code on
  every run). C04 proves `accepts_eq_valid`: on inputs satisfying its input hypotheses (`InputOk2`:
  well-formed schema description, proper types, distinct node positions, distinct argument names — the
  check C04's driver reports per case as `(hyp ok)`), the model accepts exactly the documents the 26
  rules allow. Composed with `validate_erase` the erasure statement reaches the validator model itself.
-/
import ApiFu.C13.PropsValidate
import ApiFu.C04.PropsVerdict

namespace ApiFu.C13

/-- **validator_model_erase** — the validator model accepts a document against the schema seen under
    `F` exactly when it accepts it against the physically erased schema, for every accepted schema,
    feature set, decoration and every document within C04's input hypotheses on both descriptions. -/
theorem validator_model_erase (dec : Deco) (S : Schema) (F : Feats) (hA : Accepted S = true) (hI : IntroNamed dec)
    (D : C04.Document) (h1 : C04.InputOk2 (seenBy dec S F) D) (h2 : C04.InputOk2 (seenBy dec (erase S F) top) D) :
    C04.Model.accepts (seenBy dec S F) D = C04.Model.accepts (seenBy dec (erase S F) top) D := by
  rw [C04.accepts_eq_valid h1, C04.accepts_eq_valid h2]
  exact validate_erase dec S F hA hI D

/-- `{ flag }` with the positions a parser assigns. -/
def docFlagP : C04.Document :=
  [.op none none [] [] (.mk [.field none "flag" ⟨1, 3⟩ [] [] none] ⟨1, 1⟩)]

/-- Non-vacuity: the input hypotheses hold on both descriptions of the witness schema, the validator
    model rejects `{ flag }` with the feature off (on both) and accepts it with the feature on. -/
example :
    C04.InputOk2 (seenBy demoDec demoV noF) docFlagP ∧ C04.InputOk2 (seenBy demoDec (erase demoV noF) top) docFlagP ∧
    C04.Model.accepts (seenBy demoDec demoV noF) docFlagP = false ∧
    C04.Model.accepts (seenBy demoDec (erase demoV noF) top) docFlagP = false ∧
    C04.Model.accepts (seenBy demoDec demoV onlyA) docFlagP = true :=
  ⟨C04.inputOk2_of_hyp (by decide), C04.inputOk2_of_hyp (by decide), by decide, by decide, by decide⟩

end ApiFu.C13
