/-
  C13 — `closedCheck` of C01 (every field type and union member of the description is in the description)
  holds for the schema as the executor sees it under a feature set: a consequence of the construction rule of
  `schema.New` (`Accepted`), which C13 models and ties to the real verdict.
-/
import ApiFu.C13.PipelineLemmas
import ApiFu.C01.Lemmas

set_option linter.unusedSimpArgs false

namespace ApiFu.C13

theorem toTypeRef_base : ∀ (t : TRef), (toTypeRef t).base = t.base
  | .named _ => rfl
  | .list t => by simp [toTypeRef, C01.TypeRef.base, TRef.base, toTypeRef_base t]
  | .nonNull t => by simp [toTypeRef, C01.TypeRef.base, TRef.base, toTypeRef_base t]

section
variable {S : Schema} {F : Feats} (edec : ExecDeco)

/-- A visible output type is a type of the executor's description. -/
theorem lookup_isSome_of_visible_output (hA : Accepted S = true) {n : String} (hv : S.visible F n = true)
    (ho : ∀ t, S.find? n = some t → t.kind ≠ .input) : ((execSeen edec S F).lookup n).isSome = true := by
  rw [lookup_execSeen edec (Accepted.nodup hA)]
  obtain ⟨t, hf, hr⟩ := visible_iff.mp hv
  have hk := ho t hf
  simp only [hf, hr, if_true]
  unfold execDef
  cases hkk : t.kind <;> simp_all

theorem object?_isSome_of_visible_object (hA : Accepted S = true) {n : String} {t : TypeDef} (hf : S.find? n = some t)
    (hr : reqOk F t.req = true) (hk : t.kind = .object) : ((execSeen edec S F).object? n).isSome = true := by
  unfold C01.Schema.object?
  rw [lookup_execSeen edec (Accepted.nodup hA)]
  simp [hf, hr, execDef, hk]

/-- The entries of the executor's description come from visible registered types. -/
theorem mem_execSeen_types {p : String × C01.TypeDef} (h : p ∈ (execSeen edec S F).types) :
    ∃ t, t ∈ S.types ∧ reqOk F t.req = true ∧ p.1 = t.name ∧ execDef edec F t = some p.2 := by
  unfold execSeen at h
  simp only [List.mem_filterMap, List.mem_filter] at h
  obtain ⟨t, ⟨ht, hr⟩, he⟩ := h
  unfold execEntry at he
  cases hd : execDef edec F t with
  | none => simp [hd] at he
  | some d =>
    simp only [hd, Option.map_some, Option.some.injEq] at he
    subst he
    exact ⟨t, ht, hr, rfl, hd⟩

/-- `closedCheck` of C01 (every field type and union member of the description is in the description) holds
    for the schema as the executor sees it under `F` — by the construction rule of `schema.New`. -/
theorem closedCheck_execSeen (hA : Accepted S = true) : (execSeen edec S F).closedCheck = true := by
  have hu := Accepted.nodup hA
  unfold C01.Schema.closedCheck
  rw [List.all_eq_true]
  intro p hp
  obtain ⟨t, ht, hr, hn, hd⟩ := mem_execSeen_types edec hp
  have hft := find?_of_mem hu ht
  unfold execDef at hd
  cases hk : t.kind with
  | object =>
    simp only [hk, Option.some.injEq] at hd
    rw [← hd]
    simp only [Bool.and_eq_true, List.all_eq_true]
    refine ⟨?_, ?_⟩
    · intro fd hfd
      unfold execFields at hfd
      obtain ⟨f, hf, rfl⟩ := List.mem_map.mp hfd
      obtain ⟨hfm, hfr⟩ := List.mem_filter.mp hf
      have hsig := field_sigVis hA ht (Or.inl hk) hr hfm hfr
      have hok := fieldOk_of_mem hA ht (Or.inl hk) hfm
      simp only [Schema.fieldOk, Bool.and_eq_true] at hok
      have hout := hok.1.1.1.2
      show ((execSeen edec S F).lookup (toTypeRef f.ty).base).isSome = true
      rw [toTypeRef_base]
      apply lookup_isSome_of_visible_output edec hA hsig.1
      intro tb htb hkb
      have htb' : S.find? f.ty.base = some tb := htb
      unfold Schema.isOutputRef Schema.kindOf at hout
      simp [htb', hkb, isOutputKind] at hout
    · rw [hn]; exact object?_isSome_of_visible_object edec hA hft hr hk
  | union =>
    simp only [hk, Option.some.injEq] at hd
    rw [← hd]
    simp only [List.all_eq_true]
    intro m hm
    have hok := Accepted.typeOk hA ht
    simp only [Schema.typeOk, hk, Bool.and_eq_true, List.all_eq_true] at hok
    have hmm := hok.2 m hm
    cases hfm : S.find? m with
    | none => simp [hfm] at hmm
    | some tm =>
      simp only [hfm, Bool.and_eq_true, beq_iff_eq] at hmm
      exact object?_isSome_of_visible_object edec hA hfm (reqOk_of_subReq hmm.2 hr) hmm.1
  | scalar => simp only [hk, Option.some.injEq] at hd; rw [← hd]
  | interface => simp only [hk, Option.some.injEq] at hd; rw [← hd]
  | enum => simp only [hk, Option.some.injEq] at hd; rw [← hd]
  | input => simp [hk] at hd

end
end ApiFu.C13
