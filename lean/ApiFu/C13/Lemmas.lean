/-
  C13 — helper lemmas: how `find?`, visibility, implementations and sub-typing of `erase S F` relate
  to those of `S`.
-/
import ApiFu.C13.Model
import ApiFu.C13.Client

set_option linter.unusedSimpArgs false

namespace ApiFu.C13

/-! ### feature tests -/

@[simp] theorem reqOk_top (req : List String) : reqOk top req = true := by
  simp [reqOk, top]

theorem reqOk_of_subReq {F : Feats} {a b : List String} (h : subReq a b = true) (hb : reqOk F b = true) :
    reqOk F a = true := by
  simp only [reqOk, subReq, List.all_eq_true] at *
  intro x hx
  have := h x hx
  exact hb x (by simpa using this)

theorem reqOk_append {F : Feats} {a b : List String} : reqOk F (a ++ b) = (reqOk F a && reqOk F b) := by
  simp [reqOk, List.all_append]

/-- Monotonicity: enabling more features keeps every satisfied requirement satisfied. -/
theorem reqOk_mono {F F' : Feats} (h : ∀ x, F x = true → F' x = true) {req : List String}
    (hr : reqOk F req = true) : reqOk F' req = true := by
  simp only [reqOk, List.all_eq_true] at *
  exact fun x hx => h x (hr x hx)

/-! ### `find?` under unique names -/

theorem find?_name {S : Schema} {n : String} {t : TypeDef} (h : S.find? n = some t) : t.name = n := by
  have := List.find?_some h
  simpa using this

theorem find?_mem {S : Schema} {n : String} {t : TypeDef} (h : S.find? n = some t) : t ∈ S.types :=
  List.mem_of_find?_eq_some h

theorem find?_of_mem_aux {l : List TypeDef} (hu : (l.map (·.name)).Nodup) {t : TypeDef} (ht : t ∈ l) :
    l.find? (fun x => x.name == t.name) = some t := by
  induction l with
  | nil => cases ht
  | cons a l ih =>
    simp only [List.map_cons, List.nodup_cons] at hu
    rcases List.mem_cons.mp ht with rfl | ht
    · simp
    · have hne : a.name ≠ t.name := by
        intro he
        exact hu.1 (he ▸ List.mem_map.mpr ⟨t, ht, rfl⟩)
      simp [List.find?_cons, hne, ih hu.2 ht]

/-- With unique names a registered type is what its name looks up. -/
theorem find?_of_mem {S : Schema} (hu : (S.types.map (·.name)).Nodup) {t : TypeDef} (ht : t ∈ S.types) :
    S.find? t.name = some t := find?_of_mem_aux hu ht

theorem find?_filter_map_aux (l : List TypeDef) (hu : (l.map (·.name)).Nodup) (p : TypeDef → Bool)
    (g : TypeDef → TypeDef) (hg : ∀ t, (g t).name = t.name) (n : String) :
    ((l.filter p).map g).find? (fun t => t.name == n) =
      match l.find? (fun t => t.name == n) with
      | some t => if p t then some (g t) else none
      | none => none := by
  induction l with
  | nil => simp
  | cons a l ih =>
    simp only [List.map_cons, List.nodup_cons] at hu
    have ih := ih hu.2
    by_cases hn : a.name = n
    · subst hn
      have hnone : l.find? (fun t => t.name == a.name) = none := by
        rw [List.find?_eq_none]
        intro x hx hxe
        exact hu.1 (List.mem_map.mpr ⟨x, hx, by simpa using hxe⟩)
      by_cases hp : p a
      · simp [List.filter_cons, hp, hg]
      · simp only [List.filter_cons, hp, Bool.false_eq_true, ↓reduceIte, ih, hnone, List.find?_cons, beq_self_eq_true]
    · by_cases hp : p a
      · simp [List.filter_cons, hp, hg, hn, List.find?_cons, ih]
      · simp [List.filter_cons, hp, hn, List.find?_cons, ih]

theorem eraseType_name (S : Schema) (F : Feats) (t : TypeDef) : (eraseType S F t).name = t.name := rfl
theorem eraseType_kind (S : Schema) (F : Feats) (t : TypeDef) : (eraseType S F t).kind = t.kind := rfl
theorem eraseType_req (S : Schema) (F : Feats) (t : TypeDef) : (eraseType S F t).req = t.req := rfl

/-- Looking a name up in the erased schema: the erased version of the type if it is visible. -/
theorem find?_erase {S : Schema} (hu : (S.types.map (·.name)).Nodup) (F : Feats) (n : String) :
    (erase S F).find? n =
      match S.find? n with
      | some t => if reqOk F t.req then some (eraseType S F t) else none
      | none => none := by
  unfold Schema.find? erase
  exact find?_filter_map_aux S.types hu _ _ (eraseType_name S F) n

/-- "Not hidden": the name is either a visible type or no registered type at all. These are the
    names a request can hold: what the feature-aware lookup returns, what listings return, or a
    string the registry does not know. -/
def Schema.notHidden (S : Schema) (F : Feats) (n : String) : Bool :=
  match S.find? n with
  | some t => reqOk F t.req
  | none => true

theorem notHidden_of_visible {S : Schema} {F : Feats} {n : String} (h : S.visible F n = true) :
    S.notHidden F n = true := by
  unfold Schema.visible at h; unfold Schema.notHidden
  split <;> simp_all

theorem visible_iff {S : Schema} {F : Feats} {n : String} :
    S.visible F n = true ↔ ∃ t, S.find? n = some t ∧ reqOk F t.req = true := by
  unfold Schema.visible
  split <;> simp_all

/-- On a name that is not hidden, the erased schema finds the erased type (or nothing). -/
theorem find?_erase_notHidden {S : Schema} (hu : (S.types.map (·.name)).Nodup) {F : Feats} {n : String}
    (h : S.notHidden F n = true) : (erase S F).find? n = (S.find? n).map (eraseType S F) := by
  rw [find?_erase hu]
  unfold Schema.notHidden at h
  split <;> simp_all

theorem visible_erase {S : Schema} (hu : (S.types.map (·.name)).Nodup) (F : Feats) (n : String) :
    (erase S F).visible top n = S.visible F n := by
  unfold Schema.visible
  rw [find?_erase hu]
  cases h : S.find? n with
  | none => simp
  | some t =>
    by_cases hr : reqOk F t.req <;> simp [hr, eraseType_req]

theorem kindOf_erase {S : Schema} (hu : (S.types.map (·.name)).Nodup) {F : Feats} {n : String}
    (h : S.notHidden F n = true) : (erase S F).kindOf n = S.kindOf n := by
  unfold Schema.kindOf
  rw [find?_erase_notHidden hu h]
  cases S.find? n <;> simp [eraseType_kind]

theorem reqOf_erase {S : Schema} (hu : (S.types.map (·.name)).Nodup) {F : Feats} {n : String}
    (h : S.notHidden F n = true) : (erase S F).reqOf n = S.reqOf n := by
  unfold Schema.reqOf
  rw [find?_erase_notHidden hu h]
  cases S.find? n <;> simp [eraseType_req]

/-- Visibility of a registered type is its own feature test. -/
theorem visible_of_mem {S : Schema} (hu : (S.types.map (·.name)).Nodup) (F : Feats) {t : TypeDef}
    (ht : t ∈ S.types) : S.visible F t.name = reqOk F t.req := by
  unfold Schema.visible
  rw [find?_of_mem hu ht]

/-- Implementations of a visible interface in the erased schema: the visible implementations. -/
theorem impls_erase {S : Schema} (hu : (S.types.map (·.name)).Nodup) {F : Feats} {i : String}
    (hi : S.visible F i = true) : (erase S F).impls i = (S.impls i).filter (S.visible F) := by
  unfold Schema.impls erase
  simp only [List.filter_map, List.map_map, List.filter_filter]
  have h1 : ∀ t ∈ S.types,
      (((fun t => t.kind == Kind.object && t.interfaces.contains i) ∘ eraseType S F) t && reqOk F t.req) =
      ((S.visible F ∘ fun x => x.name) t && (t.kind == Kind.object && t.interfaces.contains i)) := by
    intro t ht
    simp only [Function.comp, eraseType_kind, visible_of_mem hu F ht]
    have : (eraseType S F t).interfaces.contains i = t.interfaces.contains i := by
      simp only [eraseType, List.contains_eq_mem, List.mem_filter, hi, and_true]
    rw [this]
    cases reqOk F t.req <;> simp
  rw [List.filter_congr h1]
  rfl

/-! ### the construction rule and what it gives -/

theorem Accepted.nodup {S : Schema} (h : Accepted S = true) : (S.types.map (·.name)).Nodup := by
  simp only [Accepted, Bool.and_eq_true, decide_eq_true_eq] at h
  exact h.1.1.1.1.1.1

theorem Accepted.typeOk {S : Schema} (h : Accepted S = true) {t : TypeDef} (ht : t ∈ S.types) :
    S.typeOk t = true := by
  simp only [Accepted, Bool.and_eq_true, List.all_eq_true] at h
  exact h.1.1.1.1.1.2 t ht

theorem Accepted.noIntrospectionNames {S : Schema} (h : Accepted S = true) {t : TypeDef} (ht : t ∈ S.types) :
    introspectionKind t.name = none := by
  simp only [Accepted, Bool.and_eq_true, List.all_eq_true] at h
  simpa using h.1.1.1.1.2 t ht

theorem Accepted.queryKind {S : Schema} (h : Accepted S = true) : S.kindOf S.query = some .object := by
  simp only [Accepted, Bool.and_eq_true, beq_iff_eq] at h
  exact h.1.1.1.2

theorem Accepted.mutationKind {S : Schema} (h : Accepted S = true) {m : String} (hm : S.mutation = some m) :
    S.kindOf m = some .object := by
  simp only [Accepted, Bool.and_eq_true, beq_iff_eq, hm] at h
  exact h.1.1.2

theorem Accepted.subscriptionKind {S : Schema} (h : Accepted S = true) {m : String} (hm : S.subscription = some m) :
    S.kindOf m = some .object := by
  simp only [Accepted, Bool.and_eq_true, beq_iff_eq, hm] at h
  exact h.1.2

theorem Accepted.directivesNodup {S : Schema} (h : Accepted S = true) : (S.directives.map (·.name)).Nodup := by
  simp only [Accepted, Bool.and_eq_true, decide_eq_true_eq] at h
  exact h.2.1

theorem Accepted.directiveOk {S : Schema} (h : Accepted S = true) {d : DirectiveDef} (hd : d ∈ S.directives) :
    (d.args.map (·.name)).Nodup ∧ ∀ a ∈ d.args, wfRef a.ty = true ∧ S.isInputRef a.ty = true := by
  simp only [Accepted, Bool.and_eq_true, decide_eq_true_eq, List.all_eq_true] at h
  have := h.2.2 d hd
  exact ⟨this.1, fun a ha => this.2 a ha⟩

theorem visible_of_root {S : Schema} {F : Feats} {n : String} (hk : S.kindOf n = some .object) (hq : S.reqOf n = []) :
    S.visible F n = true := by
  unfold Schema.kindOf at hk
  unfold Schema.reqOf at hq
  unfold Schema.visible
  cases h : S.find? n with
  | none => simp [h] at hk
  | some t => simp_all [reqOk]

/-- A visible union's members are all visible (no conditional members). -/
theorem union_members_visible {S : Schema} (hA : Accepted S = true) {F : Feats} {t : TypeDef}
    (ht : t ∈ S.types) (hk : t.kind = .union) (hv : reqOk F t.req = true) :
    ∀ m ∈ t.members, S.visible F m = true := by
  intro m hm
  have := Accepted.typeOk hA ht
  simp only [Schema.typeOk, hk, Bool.and_eq_true, List.all_eq_true] at this
  have hm' := this.2 m hm
  unfold Schema.visible
  split at hm'
  · next tm h =>
    simp only [Bool.and_eq_true] at hm'
    simp [h, reqOk_of_subReq hm'.2 hv]
  · simp at hm'

/-! ### accessor by accessor: `view S F` against `view (erase S F) top` -/

section accessors
variable {S : Schema} {F : Feats}

theorem lookupF_erase (hu : (S.types.map (·.name)).Nodup) (n : String) :
    lookupF (erase S F) top n = lookupF S F n := by
  unfold lookupF
  rw [find?_erase hu]
  cases h : S.find? n with
  | none => simp
  | some t => by_cases hr : reqOk F t.req <;> simp [hr, eraseType_kind, eraseType_req]

theorem typeByName_erase (hu : (S.types.map (·.name)).Nodup) (n : String) :
    typeByName (erase S F) top n = typeByName S F n := by
  unfold typeByName
  rw [find?_erase hu]
  cases h : S.find? n with
  | none => simp
  | some t => by_cases hr : reqOk F t.req <;> simp [hr, eraseType_name, eraseType_req]

theorem typesListing_erase : typesListing (erase S F) top = typesListing S F := by
  unfold typesListing erase
  simp [List.filter_map, eraseType_req, Function.comp_def, eraseType_name]

theorem lookupRaw_erase (hu : (S.types.map (·.name)).Nodup) {n : String} (h : S.notHidden F n = true) :
    lookupRaw (erase S F) n = lookupRaw S n := by
  unfold lookupRaw
  rw [find?_erase_notHidden hu h]
  cases S.find? n <;> simp [eraseType_kind]

theorem find?_filter_of_find? {α} {l : List α} {q p : α → Bool} {a : α} (h : l.find? q = some a) (hp : p a = true) :
    (l.filter p).find? q = some a := by
  induction l with
  | nil => simp at h
  | cons b l ih =>
    by_cases hq : q b
    · have : b = a := by simpa [List.find?_cons, hq] using h
      subst this
      simp [List.filter_cons, hp, hq]
    · have h' : l.find? q = some a := by simpa [List.find?_cons, hq] using h
      by_cases hpb : p b
      · simp [List.filter_cons, hpb, List.find?_cons, hq, ih h']
      · simp [List.filter_cons, hpb, ih h']

theorem find?_filter_nodup {l : List Field} (hu : (l.map (·.name)).Nodup) (p : Field → Bool) (fn : String) :
    (l.filter p).find? (fun f => f.name == fn) =
      match l.find? (fun f => f.name == fn) with
      | some f => if p f then some f else none
      | none => none := by
  induction l with
  | nil => simp
  | cons a l ih =>
    simp only [List.map_cons, List.nodup_cons] at hu
    have ih := ih hu.2
    by_cases hn : a.name = fn
    · subst hn
      have hnone : l.find? (fun t => t.name == a.name) = none := by
        rw [List.find?_eq_none]
        intro x hx hxe
        exact hu.1 (List.mem_map.mpr ⟨x, hx, by simpa using hxe⟩)
      by_cases hp : p a
      · simp [List.filter_cons, hp]
      · simp only [List.filter_cons, hp, Bool.false_eq_true, ↓reduceIte, ih, hnone, List.find?_cons, beq_self_eq_true]
    · by_cases hp : p a
      · simp [List.filter_cons, hp, hn, List.find?_cons, ih]
      · simp [List.filter_cons, hp, hn, List.find?_cons, ih]

theorem fields_nodup (hA : Accepted S = true) {t : TypeDef} (ht : t ∈ S.types)
    (hk : t.kind = .object ∨ t.kind = .interface) : (t.fields.map (·.name)).Nodup := by
  have := Accepted.typeOk hA ht
  rcases hk with hk | hk <;>
    simp only [Schema.typeOk, hk, Bool.and_eq_true, decide_eq_true_eq] at this
  · exact this.1.1.1.1
  · exact this.1.1

theorem getField_erase (hA : Accepted S = true) {p : String} (h : S.notHidden F p = true) (fn : String) :
    getField (erase S F) top p fn = getField S F p fn := by
  unfold getField
  rw [find?_erase_notHidden (Accepted.nodup hA) h]
  cases hf : S.find? p with
  | none => simp
  | some t =>
    simp only [Option.map_some, eraseType_kind]
    by_cases hk : (t.kind == Kind.object || t.kind == Kind.interface) = true
    · have hk' : t.kind = .object ∨ t.kind = .interface := by simpa using hk
      simp only [hk, ↓reduceIte, eraseType]
      rw [find?_filter_nodup (fields_nodup hA (find?_mem hf) hk')]
      cases t.fields.find? (fun f => f.name == fn) with
      | none => simp
      | some f => by_cases hr : reqOk F f.req <;> simp [hr]
    · simp [hk]

theorem fieldsListing_erase (hu : (S.types.map (·.name)).Nodup) {p : String} (h : S.notHidden F p = true)
    (inc : Bool) : fieldsListing (erase S F) top inc p = fieldsListing S F inc p := by
  unfold fieldsListing
  rw [find?_erase_notHidden hu h]
  cases hf : S.find? p with
  | none => simp
  | some t =>
    simp only [Option.map_some, eraseType_kind]
    by_cases hk : (t.kind == Kind.object || t.kind == Kind.interface) = true
    · simp only [hk, ↓reduceIte, eraseType, List.filter_filter, reqOk_top, Bool.and_true, Option.some.injEq]
    · simp only [hk, Bool.false_eq_true, ↓reduceIte]

theorem interfacesOf_erase (hu : (S.types.map (·.name)).Nodup) {p : String} (h : S.notHidden F p = true) :
    interfacesOf (erase S F) top p = interfacesOf S F p := by
  unfold interfacesOf
  rw [find?_erase_notHidden hu h]
  cases hf : S.find? p with
  | none => simp
  | some t =>
    simp only [Option.map_some, eraseType_kind]
    by_cases hk : (t.kind == Kind.object) = true
    · have : (erase S F).visible top = S.visible F := funext (visible_erase hu F)
      simp only [hk, ↓reduceIte, eraseType, List.filter_filter, this, Bool.and_self]
    · simp only [hk, Bool.false_eq_true, ↓reduceIte]

theorem visible_of_find?_notHidden {p : String} {t : TypeDef} (hf : S.find? p = some t)
    (h : S.notHidden F p = true) : reqOk F t.req = true ∧ S.visible F p = true := by
  unfold Schema.notHidden at h
  unfold Schema.visible
  simp_all

theorem possibleTypes_erase (hA : Accepted S = true) {p : String} (h : S.notHidden F p = true) :
    possibleTypes (erase S F) top p = possibleTypes S F p := by
  have hu := Accepted.nodup hA
  unfold possibleTypes
  rw [find?_erase_notHidden hu h]
  cases hf : S.find? p with
  | none => simp
  | some t =>
    have ⟨hr, hv⟩ := visible_of_find?_notHidden hf h
    have hvis : (erase S F).visible top = S.visible F := funext (visible_erase hu F)
    simp only [Option.map_some, eraseType_kind]
    by_cases hi : (t.kind == Kind.interface) = true
    · simp [hi, impls_erase hu hv, hvis, List.filter_filter]
    · simp only [hi, Bool.false_eq_true, ↓reduceIte]
      by_cases hun : (t.kind == Kind.union) = true
      · simp only [hun, ↓reduceIte, eraseType, Option.some.injEq]
        exact List.filter_eq_self.mpr (union_members_visible hA (find?_mem hf) (by simpa using hun) hr)
      · simp [hun]

theorem spreadTypes_erase (hA : Accepted S = true) {p : String} (h : S.notHidden F p = true) :
    spreadTypes (erase S F) top p = spreadTypes S F p := by
  have hu := Accepted.nodup hA
  unfold spreadTypes
  rw [find?_erase_notHidden hu h]
  cases hf : S.find? p with
  | none => simp
  | some t =>
    have ⟨hr, hv⟩ := visible_of_find?_notHidden hf h
    have hvis : (erase S F).visible top = S.visible F := funext (visible_erase hu F)
    simp only [Option.map_some, eraseType_kind, eraseType_name]
    by_cases ho : (t.kind == Kind.object) = true
    · simp [ho]
    · simp only [ho, Bool.false_eq_true, ↓reduceIte]
      by_cases hi : (t.kind == Kind.interface) = true
      · simp [hi, impls_erase hu hv, hvis, List.filter_filter]
      · simp only [hi, Bool.false_eq_true, ↓reduceIte]
        by_cases hun : (t.kind == Kind.union) = true
        · simp only [hun, ↓reduceIte, eraseType]
          exact List.filter_eq_self.mpr (union_members_visible hA (find?_mem hf) (by simpa using hun) hr)
        · simp [hun]

theorem resolveCandidates_eq_spreadTypes (S : Schema) (F : Feats) : resolveCandidates S F = spreadTypes S F := rfl

theorem resolveCandidates_erase (hA : Accepted S = true) {p : String} (h : S.notHidden F p = true) :
    resolveCandidates (erase S F) top p = resolveCandidates S F p := by
  simp only [resolveCandidates_eq_spreadTypes]
  exact spreadTypes_erase hA h

theorem inputFields_erase (hu : (S.types.map (·.name)).Nodup) {p : String} (h : S.notHidden F p = true) :
    inputFields (erase S F) p = inputFields S p := by
  unfold inputFields
  rw [find?_erase_notHidden hu h]
  cases S.find? p <;> simp [eraseType]

theorem enumValues_erase (hu : (S.types.map (·.name)).Nodup) {p : String} (h : S.notHidden F p = true)
    (inc : Bool) : enumValues (erase S F) inc p = enumValues S inc p := by
  unfold enumValues
  rw [find?_erase_notHidden hu h]
  cases S.find? p <;> simp [eraseType]

theorem fragApplies_erase (hA : Accepted S = true) {o f : String} (ho : S.notHidden F o = true)
    (hf : S.notHidden F f = true) : fragApplies (erase S F) o f = fragApplies S o f := by
  have hu := Accepted.nodup hA
  unfold fragApplies
  rw [find?_erase_notHidden hu hf, find?_erase_notHidden hu ho]
  cases hff : S.find? f with
  | none => simp
  | some ft =>
    have ⟨hr, hv⟩ := visible_of_find?_notHidden hff hf
    simp only [Option.map_some, eraseType_kind]
    by_cases hob : (ft.kind == Kind.object) = true
    · simp [hob]
    · simp only [hob, Bool.false_eq_true, ↓reduceIte]
      by_cases hi : (ft.kind == Kind.interface) = true
      · simp only [hi, ↓reduceIte]
        cases S.find? o with
        | none => simp
        | some ot => simp [eraseType, hv]
      · simp only [hi, Bool.false_eq_true, ↓reduceIte]
        by_cases hun : (ft.kind == Kind.union) = true
        · simp only [hun, ↓reduceIte, eraseType]
          rw [List.filter_eq_self.mpr (union_members_visible hA (find?_mem hff) (by simpa using hun) hr)]
        · simp [hun]

end accessors

/-! ### closure: what the accessors hand out is visible -/

/-- The type and argument types of a field signature are visible. -/
def SigVis (S : Schema) (F : Feats) (s : FieldSig) : Prop :=
  S.visible F s.ty.base = true ∧ ∀ a ∈ s.args, S.visible F a.ty.base = true

section closure
variable {S : Schema} {F : Feats}

theorem visible_of_ref {n : String} {need : List String}
    (hk : (S.kindOf n).isSome = true) (hs : subReq (S.reqOf n) need = true) (hn : reqOk F need = true) :
    S.visible F n = true := by
  unfold Schema.kindOf at hk
  unfold Schema.reqOf at hs
  unfold Schema.visible
  cases h : S.find? n with
  | none => simp [h] at hk
  | some t =>
    simp only [h] at hs
    exact reqOk_of_subReq hs hn

theorem isOutputRef_isSome {t : TRef} (h : S.isOutputRef t = true) : (S.kindOf t.base).isSome = true := by
  unfold Schema.isOutputRef at h
  cases hk : S.kindOf t.base <;> simp_all

theorem isInputRef_isSome {t : TRef} (h : S.isInputRef t = true) : (S.kindOf t.base).isSome = true := by
  unfold Schema.isInputRef at h
  cases hk : S.kindOf t.base <;> simp_all

theorem fieldOk_of_mem (hA : Accepted S = true) {t : TypeDef} (ht : t ∈ S.types)
    (hk : t.kind = .object ∨ t.kind = .interface) {f : Field} (hf : f ∈ t.fields) : S.fieldOk t f = true := by
  have := Accepted.typeOk hA ht
  rcases hk with hk | hk <;>
    simp only [Schema.typeOk, hk, Bool.and_eq_true, List.all_eq_true] at this
  · exact this.1.1.1.2 f hf
  · exact this.1.2 f hf

/-- **The construction rule at work**: a visible field of a visible type only mentions visible types. -/
theorem field_sigVis (hA : Accepted S = true) {t : TypeDef} (ht : t ∈ S.types)
    (hk : t.kind = .object ∨ t.kind = .interface) (hv : reqOk F t.req = true)
    {f : Field} (hf : f ∈ t.fields) (hfv : reqOk F f.req = true) : SigVis S F f.sig := by
  have hok := fieldOk_of_mem hA ht hk hf
  simp only [Schema.fieldOk, Bool.and_eq_true, List.all_eq_true] at hok
  have hneed : reqOk F (f.req ++ t.req) = true := by simp [reqOk_append, hv, hfv]
  refine ⟨visible_of_ref (isOutputRef_isSome hok.1.1.1.2) hok.1.1.2 hneed, ?_⟩
  intro a ha
  have := hok.1.2 a ha
  exact visible_of_ref (isInputRef_isSome this.1.2) this.2 hneed

theorem getField_closed (hA : Accepted S = true) {p fn : String} {s : FieldSig}
    (h : S.notHidden F p = true) (hg : getField S F p fn = some s) : SigVis S F s := by
  unfold getField at hg
  cases hf : S.find? p with
  | none => simp [hf] at hg
  | some t =>
    have ⟨hr, _⟩ := visible_of_find?_notHidden hf h
    simp only [hf] at hg
    by_cases hk : (t.kind == Kind.object || t.kind == Kind.interface) = true
    · simp only [hk, ↓reduceIte] at hg
      cases hff : t.fields.find? (fun f => f.name == fn) with
      | none => simp [hff] at hg
      | some f =>
        simp only [hff] at hg
        by_cases hfr : reqOk F f.req = true
        · simp only [hfr, ↓reduceIte, Option.some.injEq] at hg
          subst hg
          exact field_sigVis hA (find?_mem hf) (by simpa using hk) hr (List.mem_of_find?_eq_some hff) hfr
        · simp [hfr] at hg
    · simp [hk] at hg

theorem fieldsListing_closed (hA : Accepted S = true) {p : String} {l : List FieldSig} {inc : Bool}
    (h : S.notHidden F p = true) (hg : fieldsListing S F inc p = some l) : ∀ s ∈ l, SigVis S F s := by
  unfold fieldsListing at hg
  cases hf : S.find? p with
  | none => simp [hf] at hg
  | some t =>
    have ⟨hr, _⟩ := visible_of_find?_notHidden hf h
    simp only [hf] at hg
    by_cases hk : (t.kind == Kind.object || t.kind == Kind.interface) = true
    · simp only [hk, ↓reduceIte, Option.some.injEq] at hg
      subst hg
      intro s hs
      obtain ⟨f, hfm, rfl⟩ := List.mem_map.mp hs
      have := List.mem_filter.mp hfm
      have h2 : reqOk F f.req = true := by
        have := this.2
        simp only [Bool.and_eq_true] at this
        exact this.2
      exact field_sigVis hA (find?_mem hf) (by simpa using hk) hr this.1 h2
    · simp [hk] at hg

theorem interfacesOf_closed {p : String} {l : List String} (hg : interfacesOf S F p = some l) :
    ∀ i ∈ l, S.visible F i = true := by
  unfold interfacesOf at hg
  cases hf : S.find? p with
  | none => simp [hf] at hg
  | some t =>
    simp only [hf] at hg
    by_cases hk : (t.kind == Kind.object) = true
    · simp only [hk, ↓reduceIte, Option.some.injEq] at hg
      subst hg
      intro i hi
      exact (List.mem_filter.mp hi).2
    · simp [hk] at hg

theorem spreadTypes_closed (hA : Accepted S = true) {p : String} (h : S.notHidden F p = true) :
    ∀ i ∈ spreadTypes S F p, S.visible F i = true := by
  unfold spreadTypes
  cases hf : S.find? p with
  | none => simp
  | some t =>
    have ⟨hr, hv⟩ := visible_of_find?_notHidden hf h
    simp only
    by_cases ho : (t.kind == Kind.object) = true
    · simp only [ho, ↓reduceIte, List.mem_singleton, forall_eq]
      rw [find?_name hf]; exact hv
    · simp only [ho, Bool.false_eq_true, ↓reduceIte]
      by_cases hi : (t.kind == Kind.interface) = true
      · simp only [hi, ↓reduceIte]
        intro i him
        exact (List.mem_filter.mp him).2
      · simp only [hi, Bool.false_eq_true, ↓reduceIte]
        by_cases hun : (t.kind == Kind.union) = true
        · simp only [hun, ↓reduceIte]
          exact union_members_visible hA (find?_mem hf) (by simpa using hun) hr
        · simp [hun]

theorem possibleTypes_closed (hA : Accepted S = true) {p : String} {l : List String}
    (h : S.notHidden F p = true) (hg : possibleTypes S F p = some l) : ∀ i ∈ l, S.visible F i = true := by
  unfold possibleTypes at hg
  cases hf : S.find? p with
  | none => simp [hf] at hg
  | some t =>
    have ⟨hr, hv⟩ := visible_of_find?_notHidden hf h
    simp only [hf] at hg
    by_cases hi : (t.kind == Kind.interface) = true
    · simp only [hi, ↓reduceIte, Option.some.injEq] at hg
      subst hg
      intro i him
      exact (List.mem_filter.mp him).2
    · simp only [hi, Bool.false_eq_true, ↓reduceIte] at hg
      by_cases hun : (t.kind == Kind.union) = true
      · simp only [hun, ↓reduceIte, Option.some.injEq] at hg
        subst hg
        exact union_members_visible hA (find?_mem hf) (by simpa using hun) hr
      · simp [hun] at hg

theorem inputFields_closed (hA : Accepted S = true) {p : String} {l : List Arg}
    (h : S.notHidden F p = true) (hg : inputFields S p = some l) : ∀ a ∈ l, S.visible F a.ty.base = true := by
  unfold inputFields at hg
  cases hf : S.find? p with
  | none => simp [hf] at hg
  | some t =>
    have ⟨hr, _⟩ := visible_of_find?_notHidden hf h
    simp only [hf] at hg
    by_cases hk : (t.kind == Kind.input) = true
    · simp only [hk, ↓reduceIte, Option.some.injEq] at hg
      subst hg
      intro a ha
      have := Accepted.typeOk hA (find?_mem hf)
      simp only [Schema.typeOk, (by simpa using hk : t.kind = .input), Bool.and_eq_true, List.all_eq_true] at this
      have := this.2 a ha
      exact visible_of_ref (isInputRef_isSome this.1.2) this.2 hr
    · simp [hk] at hg

theorem typesListing_closed (hu : (S.types.map (·.name)).Nodup) : ∀ n ∈ typesListing S F, S.visible F n = true := by
  intro n hn
  unfold typesListing at hn
  obtain ⟨t, ht, rfl⟩ := List.mem_map.mp hn
  have := List.mem_filter.mp ht
  rw [visible_of_mem hu F this.1]; exact this.2

theorem typeByName_closed {n p : String} (h : typeByName S F n = some p) : S.visible F p = true := by
  unfold typeByName at h
  cases hf : S.find? n with
  | none => simp [hf] at h
  | some t =>
    simp only [hf] at h
    by_cases hr : reqOk F t.req = true
    · simp only [hr, ↓reduceIte, Option.some.injEq] at h
      subst h
      rw [find?_name hf]
      unfold Schema.visible; simp [hf, hr]
    · simp [hr] at h

theorem query_visible (hA : Accepted S = true) (hR : RootsUngated S = true) : S.visible F S.query = true := by
  simp only [RootsUngated, beq_iff_eq] at hR
  exact visible_of_root (Accepted.queryKind hA) hR

/-- A root type the view reports passed the feature test. -/
theorem filtered_root_visible {o : Option String} {m : String} (hm : o.filter (S.visible F) = some m) :
    S.visible F m = true := by
  cases o with
  | none => simp [Option.filter] at hm
  | some x =>
    by_cases hv : S.visible F x = true
    · simp only [Option.filter, hv, ↓reduceIte, Option.some.injEq] at hm
      subst hm; exact hv
    · simp [Option.filter, hv] at hm

end closure

/-! ### clients: introspection -/

/-- Every type name an introspection object carries is visible. -/
def NodeVis (S : Schema) (F : Feats) : Node → Prop
  | .root => True
  | .schema => True
  | .ty t => S.visible F t.base = true
  | .field s => SigVis S F s
  | .input a => S.visible F a.ty.base = true
  | .enumv _ => True
  | .directive d => ∀ a ∈ d.args, S.visible F a.ty.base = true

theorem optArr_congr {α} {f g : α → Json} {o : Option (List α)}
    (h : ∀ l, o = some l → ∀ x ∈ l, f x = g x) : optArr f o = optArr g o := by
  cases o with
  | none => rfl
  | some l =>
    simp only [optArr]
    congr 1
    exact List.map_congr_left (h l rfl)

theorem filter_filter_root {S : Schema} {F : Feats} (hu : (S.types.map (·.name)).Nodup) (o : Option String) :
    (o.filter (S.visible F)).filter ((erase S F).visible top) = o.filter (S.visible F) := by
  have hvis : (erase S F).visible top = S.visible F := funext (visible_erase hu F)
  rw [hvis]
  cases o with
  | none => rfl
  | some x => by_cases hv : S.visible F x = true <;> simp [Option.filter, hv]

/-- The mutation root the view reports: the same against the erased schema. -/
theorem erase_mutation {S : Schema} {F : Feats} (hu : (S.types.map (·.name)).Nodup) :
    (view (erase S F) top).mutationType = (view S F).mutationType :=
  filter_filter_root hu S.mutation

theorem erase_subscription {S : Schema} {F : Feats} (hu : (S.types.map (·.name)).Nodup) :
    (view (erase S F) top).subscriptionType = (view S F).subscriptionType :=
  filter_filter_root hu S.subscription

/-! ### directives (after fix 05: arguments of hidden types are not shown) -/

/-- For a directive argument of an accepted schema, "shown" (`VisibleArguments`) is "its type is visible". -/
theorem shown_eq_visible {S : Schema} {F : Feats} (hA : Accepted S = true) {d : DirectiveDef}
    (hd : d ∈ S.directives) {a : Arg} (ha : a ∈ d.args) : dirArgShown S F a = S.visible F a.ty.base := by
  have hin := ((Accepted.directiveOk hA hd).2 a ha).2
  have hk := isInputRef_isSome hin
  unfold dirArgShown Schema.reqOf Schema.visible
  unfold Schema.kindOf at hk
  cases h : S.find? a.ty.base with
  | none => simp [h] at hk
  | some t => rfl

theorem dirArgShown_top (S : Schema) (_a : Arg) : dirArgShown S top _a = true := by
  simp [dirArgShown]

theorem filter_shown_top (S : Schema) (l : List Arg) : l.filter (dirArgShown S top) = l :=
  List.filter_eq_self.mpr (fun a _ => dirArgShown_top S a)

theorem erasedDirective_args {S : Schema} {F : Feats} (hA : Accepted S = true) {d : DirectiveDef}
    (hd : d ∈ S.directives) :
    d.args.filter (fun a => S.visible F a.ty.base) = d.args.filter (dirArgShown S F) :=
  List.filter_congr (fun _ ha => (shown_eq_visible hA hd ha).symm)

theorem directivesListing_erase {S : Schema} {F : Feats} (hA : Accepted S = true) :
    directivesListing (erase S F) top = directivesListing S F := by
  unfold directivesListing
  show (S.directives.map (fun d => { d with args := d.args.filter (fun a => S.visible F a.ty.base) })).map
      (fun d => { d with args := d.args.filter (dirArgShown (erase S F) top) }) = _
  rw [List.map_map]
  apply List.map_congr_left
  intro d hd
  simp only [Function.comp, filter_shown_top, erasedDirective_args hA hd]

theorem directiveArgs_erase {S : Schema} {F : Feats} (hA : Accepted S = true) (dn : String) :
    directiveArgs (erase S F) top dn = directiveArgs S F dn := by
  unfold directiveArgs
  show ((S.directives.map (fun d => { d with args := d.args.filter (fun a => S.visible F a.ty.base) })).find?
      (fun d => d.name == dn)).map (fun d => d.args.filter (dirArgShown (erase S F) top)) = _
  rw [List.find?_map]
  simp only [Function.comp_def, Option.map_map, filter_shown_top]
  cases hf : S.directives.find? (fun d => d.name == dn) with
  | none => rfl
  | some d =>
    simp only [Option.map_some, Function.comp]
    rw [erasedDirective_args hA (List.mem_of_find?_eq_some hf)]

/-- The directive listing only names visible types. -/
theorem directivesListing_closed {S : Schema} {F : Feats} (hA : Accepted S = true) :
    ∀ d ∈ directivesListing S F, ∀ a ∈ d.args, S.visible F a.ty.base = true := by
  intro d' hd' a ha
  unfold directivesListing at hd'
  obtain ⟨d, hd, rfl⟩ := List.mem_map.mp hd'
  have := List.mem_filter.mp ha
  rw [← shown_eq_visible hA hd this.1]; exact this.2

theorem evalHead_erase {S : Schema} {F : Feats} (hA : Accepted S = true) (hR : RootsUngated S = true)
    (tag arg : String) (k k' : Node → List (String × Json))
    (hk : ∀ n, NodeVis S F n → k n = k' n) (n : Node) (hn : NodeVis S F n) :
    evalHead (view S F) tag arg k n = evalHead (view (erase S F) top) tag arg k' n := by
  have hu := Accepted.nodup hA
  cases n with
  | root =>
    simp only [evalHead, view, typeByName_erase hu]
    have hs : k .schema = k' .schema := hk _ (show NodeVis S F .schema from trivial)
    cases htb : typeByName S F arg with
    | none => simp only [hs]
    | some p => simp only [hk _ (show NodeVis S F (.ty (.named p)) from typeByName_closed htb), hs]
  | schema =>
    have hmE := erase_mutation (S := S) (F := F) hu
    have hsE := erase_subscription (S := S) (F := F) hu
    simp only [view] at hmE hsE
    simp only [evalHead, view, typesListing_erase, hmE, hsE, directivesListing_erase hA]
    have hdl : (directivesListing S F).map (fun d => Json.obj (k (.directive d))) =
        (directivesListing S F).map (fun d => Json.obj (k' (.directive d))) :=
      List.map_congr_left (fun d hd => by
        rw [hk _ (show NodeVis S F (.directive d) from directivesListing_closed hA d hd)])
    rw [hdl]
    have h1 : (typesListing S F).map (fun p => Json.obj (k (.ty (.named p)))) =
        (typesListing S F).map (fun p => Json.obj (k' (.ty (.named p)))) :=
      List.map_congr_left (fun p hp => by rw [hk _ (show NodeVis S F (.ty (.named p)) from typesListing_closed hu p hp)])
    have h2 : k (.ty (.named S.query)) = k' (.ty (.named S.query)) :=
      hk _ (show NodeVis S F (.ty (.named S.query)) from query_visible hA hR)
    have h3 : (erase S F).query = S.query := rfl
    rw [h1, h2, h3]
    have hM : ∀ m, S.mutation.filter (S.visible F) = some m → k (.ty (.named m)) = k' (.ty (.named m)) :=
      fun m hm => hk _ (show NodeVis S F (.ty (.named m)) from filtered_root_visible hm)
    have hS : ∀ m, S.subscription.filter (S.visible F) = some m → k (.ty (.named m)) = k' (.ty (.named m)) :=
      fun m hm => hk _ (show NodeVis S F (.ty (.named m)) from filtered_root_visible hm)
    cases hm : S.mutation.filter (S.visible F) with
    | none =>
      cases hs : S.subscription.filter (S.visible F) with
      | none => rfl
      | some s => simp only [hS s hs]
    | some m =>
      cases hs : S.subscription.filter (S.visible F) with
      | none => simp only [hM m hm]
      | some s => simp only [hM m hm, hS s hs]
  | ty t =>
    cases t with
    | named p =>
      have hv : S.visible F p = true := hn
      have hnh := notHidden_of_visible hv
      simp only [evalHead, view, kindOf_erase hu hnh, fieldsListing_erase hu hnh, interfacesOf_erase hu hnh,
        possibleTypes_erase hA hnh, inputFields_erase hu hnh, enumValues_erase hu hnh]
      have e1 : optArr (fun s => Json.obj (k (.field s))) (fieldsListing S F (arg == "true") p) =
          optArr (fun s => Json.obj (k' (.field s))) (fieldsListing S F (arg == "true") p) :=
        optArr_congr (fun l hl s hs => by rw [hk _ (show NodeVis S F (.field s) from fieldsListing_closed hA hnh hl s hs)])
      have e2 : optArr (fun i => Json.obj (k (.ty (.named i)))) (interfacesOf S F p) =
          optArr (fun i => Json.obj (k' (.ty (.named i)))) (interfacesOf S F p) :=
        optArr_congr (fun l hl i hi => by rw [hk _ (show NodeVis S F (.ty (.named i)) from interfacesOf_closed hl i hi)])
      have e3 : optArr (fun i => Json.obj (k (.ty (.named i)))) (possibleTypes S F p) =
          optArr (fun i => Json.obj (k' (.ty (.named i)))) (possibleTypes S F p) :=
        optArr_congr (fun l hl i hi => by rw [hk _ (show NodeVis S F (.ty (.named i)) from possibleTypes_closed hA hnh hl i hi)])
      have e4 : optArr (fun a => Json.obj (k (.input a))) (inputFields S p) =
          optArr (fun a => Json.obj (k' (.input a))) (inputFields S p) :=
        optArr_congr (fun l hl a ha => by rw [hk _ (show NodeVis S F (.input a) from inputFields_closed hA hnh hl a ha)])
      have e5 : optArr (fun e => Json.obj (k (.enumv e))) (enumValues S (arg == "true") p) =
          optArr (fun e => Json.obj (k' (.enumv e))) (enumValues S (arg == "true") p) :=
        optArr_congr (fun l _ e _ => by rw [hk _ (show NodeVis S F (.enumv e) from trivial)])
      rw [e1, e2, e3, e4, e5]
    | list t => simp only [evalHead, hk _ (show NodeVis S F (.ty t) from hn)]
    | nonNull t => simp only [evalHead, hk _ (show NodeVis S F (.ty t) from hn)]
  | field s =>
    have hs : SigVis S F s := hn
    simp only [evalHead, hk _ (show NodeVis S F (.ty s.ty) from hs.1)]
    have : s.args.map (fun a => Json.obj (k (.input a))) = s.args.map (fun a => Json.obj (k' (.input a))) :=
      List.map_congr_left (fun a ha => by rw [hk _ (show NodeVis S F (.input a) from hs.2 a ha)])
    rw [this]
  | input a => simp only [evalHead, hk _ (show NodeVis S F (.ty a.ty) from hn)]
  | enumv e => rfl
  | directive d =>
    have hd : ∀ a ∈ d.args, S.visible F a.ty.base = true := hn
    simp only [evalHead]
    have : d.args.map (fun a => Json.obj (k (.input a))) = d.args.map (fun a => Json.obj (k' (.input a))) :=
      List.map_congr_left (fun a ha => by rw [hk _ (show NodeVis S F (.input a) from hd a ha)])
    rw [this]

theorem evalSels_erase {S : Schema} {F : Feats} (hA : Accepted S = true) (hR : RootsUngated S = true)
    (sels : Sels) : ∀ n, NodeVis S F n → evalSels (view S F) sels n = evalSels (view (erase S F) top) sels n := by
  induction sels with
  | nil => intro n _; rfl
  | cons tag arg sub rest ihs ihr =>
    intro n hn
    simp only [evalSels]
    rw [evalHead_erase hA hR tag arg _ _ ihs n hn, ihr n hn]

/-! ### clients: validation walk, execution walk -/

@[simp] theorem view_getField (S : Schema) (F : Feats) : (view S F).getField = getField S F := rfl
@[simp] theorem view_lookupF (S : Schema) (F : Feats) : (view S F).lookupF = lookupF S F := rfl
@[simp] theorem view_lookupRaw (S : Schema) (F : Feats) : (view S F).lookupRaw = lookupRaw S := rfl
@[simp] theorem view_fragApplies (S : Schema) (F : Feats) : (view S F).fragApplies = fragApplies S := rfl
@[simp] theorem view_resolveCandidates (S : Schema) (F : Feats) : (view S F).resolveCandidates = resolveCandidates S F := rfl
@[simp] theorem view_spreadTypes (S : Schema) (F : Feats) : (view S F).spreadTypes = spreadTypes S F := rfl

theorem notHidden_of_lookupF {S : Schema} {F : Feats} (hA : Accepted S = true) {n : String} {k : Kind}
    (h : lookupF S F n = some k) : S.notHidden F n = true := by
  unfold lookupF at h
  unfold Schema.notHidden
  cases hf : S.find? n with
  | none => rfl
  | some t =>
    simp only [hf] at h ⊢
    by_cases hr : reqOk F t.req = true
    · exact hr
    · simp only [hr, Bool.false_eq_true, ↓reduceIte] at h
      have := Accepted.noIntrospectionNames hA (find?_mem hf)
      rw [find?_name hf] at this
      rw [this] at h
      cases h

theorem spreadPossible_erase {S : Schema} {F : Feats} (hA : Accepted S = true) {a b : String}
    (ha : S.notHidden F a = true) (hb : S.notHidden F b = true) :
    (view (erase S F) top).spreadPossible a b = (view S F).spreadPossible a b := by
  simp only [View.spreadPossible, view_spreadTypes, spreadTypes_erase hA ha, spreadTypes_erase hA hb]

theorem walk_erase {S : Schema} {F : Feats} (hA : Accepted S = true) (sels : Sels) :
    ∀ parent : Option String, (∀ p, parent = some p → S.notHidden F p = true) →
      walk (view S F) parent sels = walk (view (erase S F) top) parent sels := by
  have hu := Accepted.nodup hA
  induction sels with
  | nil => intro _ _; rfl
  | cons tag arg sub rest ihs ihr =>
    intro parent hp
    simp only [walk]
    rw [ihr parent hp]
    congr 1
    have hnone := ihs none (by intro p h; cases h)
    by_cases hf : (tag == "field") = true
    · simp only [hf, ↓reduceIte]
      cases parent with
      | none => exact hnone
      | some p =>
        have hpn := hp p rfl
        simp only [view_getField]
        rw [getField_erase hA hpn]
        cases hg : getField S F p arg with
        | none => simp only [hnone]
        | some s =>
          have := getField_closed hA hpn hg
          simp only [ihs (some s.ty.base) (by intro q hq; cases hq; exact notHidden_of_visible this.1)]
    · simp only [hf, Bool.false_eq_true, ↓reduceIte]
      by_cases ho : (tag == "on") = true
      · simp only [ho, ↓reduceIte]
        simp only [view_lookupF, lookupF_erase hu arg]
        cases hlk : lookupF S F arg with
        | none => simp only [hnone]
        | some k =>
          have harg : S.notHidden F arg = true := notHidden_of_lookupF hA hlk
          simp only
          by_cases hc : isComposite k = true
          · simp only [hc, ↓reduceIte]
            rw [ihs (some arg) (by intro q hq; cases hq; exact harg)]
            congr 1
            cases parent with
            | none => rfl
            | some p => simp only [spreadPossible_erase hA harg (hp p rfl)]
          · simp only [hc, Bool.false_eq_true, ↓reduceIte, hnone]
      · simp only [ho, Bool.false_eq_true, ↓reduceIte, ihs parent hp]

/-- The field `f` of type `p` exists, and both it and `p` pass the feature test. -/
def fieldVisible (S : Schema) (F : Feats) (p f : String) : Prop :=
  ∃ t fd, S.find? p = some t ∧ reqOk F t.req = true ∧ fd ∈ t.fields ∧ fd.name = f ∧ reqOk F fd.req = true

theorem getField_fieldVisible {S : Schema} {F : Feats} {p fn : String} {s : FieldSig}
    (h : S.notHidden F p = true) (hg : getField S F p fn = some s) : fieldVisible S F p fn := by
  unfold getField at hg
  cases hf : S.find? p with
  | none => simp [hf] at hg
  | some t =>
    have ⟨hr, _⟩ := visible_of_find?_notHidden hf h
    simp only [hf] at hg
    by_cases hk : (t.kind == Kind.object || t.kind == Kind.interface) = true
    · simp only [hk, ↓reduceIte] at hg
      cases hff : t.fields.find? (fun f => f.name == fn) with
      | none => simp [hff] at hg
      | some f =>
        simp only [hff] at hg
        by_cases hfr : reqOk F f.req = true
        · exact ⟨t, f, hf, hr, List.mem_of_find?_eq_some hff, by simpa using List.find?_some hff, hfr⟩
        · simp [hfr] at hg
    · simp [hk] at hg

/-- What an event may mention: only visible fields are found / resolved, `__typename` and type
    resolution only ever name types that are not hidden. -/
def EventVisible (S : Schema) (F : Feats) : Event → Prop
  | .resolve p f => fieldVisible S F p f
  | .typename p => S.notHidden F p = true
  | .unresolvable a _ => S.notHidden F a = true
  | _ => True

theorem walk_events_visible {S : Schema} {F : Feats} (hA : Accepted S = true) (sels : Sels) :
    ∀ parent : Option String, (∀ p, parent = some p → S.notHidden F p = true) →
      ∀ e ∈ walk (view S F) parent sels, EventVisible S F e := by
  induction sels with
  | nil => intro _ _ e he; cases he
  | cons tag arg sub rest ihs ihr =>
    intro parent hp e he
    simp only [walk, List.mem_append] at he
    have hnone := ihs none (by intro p h; cases h)
    rcases he with he | he
    · by_cases hf : (tag == "field") = true
      · simp only [hf, ↓reduceIte] at he
        cases parent with
        | none => exact hnone e he
        | some p =>
          have hpn := hp p rfl
          simp only [view_getField] at he
          cases hg : getField S F p arg with
          | none =>
            simp only [hg, List.mem_cons] at he
            rcases he with rfl | he
            · trivial
            · exact hnone e he
          | some s =>
            simp only [hg, List.mem_cons] at he
            rcases he with rfl | he
            · exact getField_fieldVisible hpn hg
            · exact ihs (some s.ty.base) (by intro q hq; cases hq; exact notHidden_of_visible (getField_closed hA hpn hg).1) e he
      · simp only [hf, Bool.false_eq_true, ↓reduceIte] at he
        by_cases ho : (tag == "on") = true
        · simp only [ho, ↓reduceIte] at he
          simp only [view_lookupF] at he
          cases hlk : lookupF S F arg with
          | none =>
            simp only [hlk, List.mem_cons] at he
            rcases he with rfl | he
            · trivial
            · exact hnone e he
          | some k =>
            have harg : S.notHidden F arg = true := notHidden_of_lookupF hA hlk
            simp only [hlk] at he
            by_cases hc : isComposite k = true
            · simp only [hc, ↓reduceIte, List.mem_append] at he
              rcases he with he | he
              · cases parent with
                | none => cases he
                | some p =>
                  simp only at he
                  split at he
                  · cases he
                  · simp only [List.mem_singleton] at he; subst he; trivial
              · exact ihs (some arg) (by intro q hq; cases hq; exact harg) e he
            · simp only [hc, Bool.false_eq_true, ↓reduceIte, List.mem_cons] at he
              rcases he with rfl | he
              · trivial
              · exact hnone e he
        · simp only [ho, Bool.false_eq_true, ↓reduceIte] at he
          by_cases hty : (tag == "typename") = true
          · simp only [hty, ↓reduceIte] at he
            cases parent with
            | none => cases he
            | some p => simp only [List.mem_singleton] at he; subst he; exact hp p rfl
          · simp only [hty, Bool.false_eq_true, ↓reduceIte] at he
            split at he
            · exact ihs parent hp e he
            · cases he
    · exact ihr parent hp e he

theorem condsKnown_cons {v : View} {tag arg : String} {sub rest : Sels} (h : condsKnown v (.cons tag arg sub rest) = true) :
    (tag == "on" → (v.lookupF arg).isSome = true) ∧ condsKnown v sub = true ∧ condsKnown v rest = true := by
  simp only [condsKnown, Bool.and_eq_true] at h
  refine ⟨?_, h.1.2, h.2⟩
  intro ht
  simpa [ht] using h.1.1

theorem exec_erase {S : Schema} {F : Feats} (hA : Accepted S = true) (world : String → String → Option (List String))
    (sels : Sels) : ∀ objT, S.notHidden F objT = true → condsKnown (view S F) sels = true →
      exec (view S F) world objT sels = exec (view (erase S F) top) world objT sels := by
  have hu := Accepted.nodup hA
  induction sels with
  | nil => intro _ _ _; rfl
  | cons tag arg sub rest ihs ihr =>
    intro objT ho hc
    obtain ⟨hon, hcs, hcr⟩ := condsKnown_cons hc
    simp only [exec]
    rw [ihr objT ho hcr]
    congr 1
    by_cases hf : (tag == "field") = true
    · simp only [hf, ↓reduceIte, view_getField, view_resolveCandidates]
      rw [getField_erase hA ho]
      cases hg : getField S F objT arg with
      | none => rfl
      | some s =>
        have hs := getField_closed hA ho hg
        have hsn := notHidden_of_visible hs.1
        simp only [View.resolveType, view_resolveCandidates, resolveCandidates_erase hA hsn]
        cases hw : world objT arg with
        | none => rfl
        | some claimed =>
          simp only
          cases hfind : (resolveCandidates S F s.ty.base).find? (fun c => claimed.contains c) with
          | none => rfl
          | some rt =>
            have hrt : S.visible F rt = true :=
              spreadTypes_closed hA hsn rt
                (by simpa [resolveCandidates_eq_spreadTypes] using List.mem_of_find?_eq_some hfind)
            have := ihs rt (notHidden_of_visible hrt) hcs
            simp only [this]
    · simp only [hf, Bool.false_eq_true, ↓reduceIte]
      by_cases hoo : (tag == "on") = true
      · simp only [hoo, ↓reduceIte]
        have hsome := hon hoo
        simp only [view_lookupF] at hsome
        cases hlk : lookupF S F arg with
        | none => simp [hlk] at hsome
        | some k =>
          have harg : S.notHidden F arg = true := notHidden_of_lookupF hA hlk
          have := ihs objT ho hcs
          simp only [view_lookupRaw, view_fragApplies, lookupRaw_erase hu harg, fragApplies_erase hA ho harg, this]
      · simp only [hoo, Bool.false_eq_true, ↓reduceIte, ihs objT ho hcs]

theorem exec_events_visible {S : Schema} {F : Feats} (hA : Accepted S = true) (world : String → String → Option (List String))
    (sels : Sels) : ∀ objT, S.notHidden F objT = true →
      ∀ e ∈ exec (view S F) world objT sels, EventVisible S F e := by
  induction sels with
  | nil => intro _ _ e he; cases he
  | cons tag arg sub rest ihs ihr =>
    intro objT ho e he
    simp only [exec, List.mem_append] at he
    rcases he with he | he
    · by_cases hf : (tag == "field") = true
      · simp only [hf, ↓reduceIte, view_getField, view_resolveCandidates] at he
        cases hg : getField S F objT arg with
        | none => simp [hg] at he
        | some s =>
          have hs := getField_closed hA ho hg
          have hsn := notHidden_of_visible hs.1
          simp only [hg, List.mem_cons] at he
          rcases he with rfl | he
          · exact getField_fieldVisible ho hg
          · cases hw : world objT arg with
            | none => simp [hw] at he
            | some claimed =>
              simp only [hw, View.resolveType, view_resolveCandidates] at he
              cases hfind : (resolveCandidates S F s.ty.base).find? (fun c => claimed.contains c) with
              | some rt =>
                have hrt : S.visible F rt = true :=
                  spreadTypes_closed hA hsn rt
                    (by simpa [resolveCandidates_eq_spreadTypes] using List.mem_of_find?_eq_some hfind)
                simp only [hfind] at he
                exact ihs rt (notHidden_of_visible hrt) e he
              | none =>
                simp only [hfind, List.mem_singleton] at he
                subst he
                exact hsn
      · simp only [hf, Bool.false_eq_true, ↓reduceIte] at he
        by_cases hoo : (tag == "on") = true
        · simp only [hoo, ↓reduceIte] at he
          simp only [view_lookupRaw] at he
          cases hlk : lookupRaw S arg with
          | none => simp [hlk] at he
          | some k =>
            simp only [hlk] at he
            split at he
            · exact ihs objT ho e he
            · cases he
        · simp only [hoo, Bool.false_eq_true, ↓reduceIte] at he
          by_cases hty : (tag == "typename") = true
          · simp only [hty, ↓reduceIte, List.mem_singleton] at he; subst he; exact ho
          · simp only [hty, Bool.false_eq_true, ↓reduceIte] at he
            split at he
            · exact ihs objT ho e he
            · cases he
    · exact ihr objT ho e he

/-! ### `erase` preserves acceptance -/

section eraseAccepted
variable {S : Schema} {F : Feats}

theorem contains_filter (l : List String) (p : String → Bool) (a : String) :
    (l.filter p).contains a = (l.contains a && p a) := by
  simp only [List.contains_eq_mem, List.mem_filter]
  by_cases h1 : a ∈ l <;> by_cases h2 : p a = true <;> simp [h1, h2]

theorem find?_visible {n : String} (h : S.visible F n = true) : ∃ t, S.find? n = some t ∧ reqOk F t.req = true :=
  visible_iff.mp h

theorem namedSub_erase (hu : (S.types.map (·.name)).Nodup) {a b : String}
    (ha : S.visible F a = true) (hb : S.visible F b = true) :
    (erase S F).namedSub a b = S.namedSub a b := by
  obtain ⟨ta, hta, _⟩ := find?_visible ha
  obtain ⟨tb, htb, _⟩ := find?_visible hb
  unfold Schema.namedSub
  rw [find?_erase_notHidden hu (notHidden_of_visible ha), find?_erase_notHidden hu (notHidden_of_visible hb), hta, htb]
  simp only [Option.map_some, eraseType_kind]
  congr 1
  by_cases ho : (ta.kind == Kind.object) = true
  · simp only [ho, ↓reduceIte]
    by_cases hun : (tb.kind == Kind.union) = true
    · simp only [hun, ↓reduceIte, eraseType, contains_filter, ha, Bool.and_true]
    · simp only [hun, Bool.false_eq_true, ↓reduceIte, eraseType, contains_filter, hb, Bool.and_true]
  · simp only [ho, Bool.false_eq_true, ↓reduceIte]

theorem isSubType_erase (hu : (S.types.map (·.name)).Nodup) (a : TRef) :
    ∀ b : TRef, S.visible F a.base = true → S.visible F b.base = true →
      (erase S F).isSubType a b = S.isSubType a b := by
  induction a with
  | named n =>
    intro b ha hb
    cases b with
    | named m => simp only [Schema.isSubType]; exact namedSub_erase hu ha hb
    | list u => simp only [Schema.isSubType]
    | nonNull u => simp only [Schema.isSubType]
  | list t ih =>
    intro b ha hb
    cases b with
    | named m => simp only [Schema.isSubType]
    | list u => simp only [Schema.isSubType]; rw [ih u ha hb]
    | nonNull u => simp only [Schema.isSubType]
  | nonNull t ih =>
    intro b ha hb
    cases b with
    | named m => simp only [Schema.isSubType]; exact ih _ ha hb
    | list u => simp only [Schema.isSubType]; exact ih _ ha hb
    | nonNull u => simp only [Schema.isSubType]; rw [ih u ha hb]

theorem isOutputRef_erase (hu : (S.types.map (·.name)).Nodup) {t : TRef} (h : S.visible F t.base = true) :
    (erase S F).isOutputRef t = S.isOutputRef t := by
  unfold Schema.isOutputRef
  rw [kindOf_erase hu (notHidden_of_visible h)]

theorem isInputRef_erase (hu : (S.types.map (·.name)).Nodup) {t : TRef} (h : S.visible F t.base = true) :
    (erase S F).isInputRef t = S.isInputRef t := by
  unfold Schema.isInputRef
  rw [kindOf_erase hu (notHidden_of_visible h)]

theorem fieldOk_erase (hA : Accepted S = true) {t : TypeDef} (ht : t ∈ S.types)
    (hk : t.kind = .object ∨ t.kind = .interface) (hv : reqOk F t.req = true)
    {f : Field} (hf : f ∈ t.fields) (hfv : reqOk F f.req = true) :
    (erase S F).fieldOk (eraseType S F t) f = true := by
  have hu := Accepted.nodup hA
  have hok := fieldOk_of_mem hA ht hk hf
  have hsv := field_sigVis hA ht hk hv hf hfv
  simp only [Schema.fieldOk, Bool.and_eq_true, List.all_eq_true, decide_eq_true_eq] at hok ⊢
  have h1 : S.visible F f.ty.base = true := hsv.1
  refine ⟨⟨⟨⟨hok.1.1.1.1, ?_⟩, ?_⟩, ?_⟩, hok.2⟩
  · rw [isOutputRef_erase hu h1]; exact hok.1.1.1.2
  · rw [reqOf_erase hu (notHidden_of_visible h1), eraseType_req]; exact hok.1.1.2
  · intro a ha
    have hav : S.visible F a.ty.base = true := hsv.2 a ha
    have := hok.1.2 a ha
    rw [isInputRef_erase hu hav, reqOf_erase hu (notHidden_of_visible hav), eraseType_req]
    exact this

theorem hasUnconditional_erase {t : TypeDef} (hv : reqOk F t.req = true) (h : hasUnconditional t = true) :
    hasUnconditional (eraseType S F t) = true := by
  simp only [hasUnconditional, List.any_eq_true] at h ⊢
  obtain ⟨f, hf, hs⟩ := h
  exact ⟨f, List.mem_filter.mpr ⟨hf, reqOk_of_subReq hs hv⟩, hs⟩

theorem satisfies_erase (hA : Accepted S = true) {o i : TypeDef} (ho : o ∈ S.types) (hi : i ∈ S.types)
    (hko : o.kind = .object) (hki : i.kind = .interface) (hvo : reqOk F o.req = true) (hvi : reqOk F i.req = true)
    (h : S.satisfies o i = true) : (erase S F).satisfies (eraseType S F o) (eraseType S F i) = true := by
  have hu := Accepted.nodup hA
  simp only [Schema.satisfies, List.all_eq_true] at h ⊢
  intro fi hfi
  have hfi' := List.mem_filter.mp hfi
  have h0 := h fi hfi'.1
  cases hfo : o.fields.find? (fun f => f.name == fi.name) with
  | none => simp [hfo] at h0
  | some fo =>
    simp only [hfo, Bool.and_eq_true] at h0
    have hfor : reqOk F fo.req = true := reqOk_of_subReq h0.1.1.2 hfi'.2
    have : (eraseType S F o).fields.find? (fun f => f.name == fi.name) = some fo :=
      find?_filter_of_find? hfo hfor
    simp only [this, Bool.and_eq_true]
    have hfom := List.mem_of_find?_eq_some hfo
    have v1 := (field_sigVis hA ho (Or.inl hko) hvo hfom hfor).1
    have v2 := (field_sigVis hA hi (Or.inr hki) hvi hfi'.1 hfi'.2).1
    refine ⟨⟨⟨?_, h0.1.1.2⟩, h0.1.2⟩, h0.2⟩
    rw [show (fo.sig).ty = fo.ty from rfl] at v1
    rw [show (fi.sig).ty = fi.ty from rfl] at v2
    rw [isSubType_erase hu fo.ty fi.ty v1 v2]; exact h0.1.1.1

theorem sublist_map_nodup {α β} {l l' : List α} (f : α → β) (hs : l'.Sublist l) (h : (l.map f).Nodup) :
    (l'.map f).Nodup := List.Nodup.sublist (hs.map f) h

theorem typeOk_erase (hA : Accepted S = true) {t : TypeDef} (ht : t ∈ S.types) (hv : reqOk F t.req = true) :
    (erase S F).typeOk (eraseType S F t) = true := by
  have hu := Accepted.nodup hA
  have hok := Accepted.typeOk hA ht
  unfold Schema.typeOk at hok ⊢
  rw [eraseType_kind]
  cases hk : t.kind with
  | scalar => rfl
  | enum => simpa [hk, eraseType] using hok
  | input =>
    simp only [hk, Bool.and_eq_true, List.all_eq_true, decide_eq_true_eq] at hok ⊢
    refine ⟨⟨hok.1.1, hok.1.2⟩, ?_⟩
    intro a ha
    have hav : S.visible F a.ty.base = true := by
      have := hok.2 a ha
      exact visible_of_ref (isInputRef_isSome this.1.2) this.2 hv
    have := hok.2 a ha
    rw [isInputRef_erase hu hav, reqOf_erase hu (notHidden_of_visible hav), eraseType_req]
    exact this
  | union =>
    simp only [hk, Bool.and_eq_true, List.all_eq_true, decide_eq_true_eq] at hok ⊢
    have hmem : (eraseType S F t).members = t.members :=
      List.filter_eq_self.mpr (union_members_visible hA ht hk hv)
    rw [hmem]
    refine ⟨⟨hok.1.1, hok.1.2⟩, ?_⟩
    intro m hm
    have hmv := union_members_visible hA ht hk hv m hm
    obtain ⟨tm, htm, _⟩ := find?_visible hmv
    have := hok.2 m hm
    rw [find?_erase_notHidden hu (notHidden_of_visible hmv), htm]
    simpa [htm, eraseType_kind, eraseType_req] using this
  | interface =>
    simp only [hk, Bool.and_eq_true, List.all_eq_true, decide_eq_true_eq] at hok ⊢
    refine ⟨⟨?_, ?_⟩, hasUnconditional_erase hv hok.2⟩
    · exact sublist_map_nodup _ List.filter_sublist hok.1.1
    · intro f hf
      have := List.mem_filter.mp hf
      exact fieldOk_erase hA ht (Or.inr hk) hv this.1 this.2
  | object =>
    simp only [hk, Bool.and_eq_true, List.all_eq_true, decide_eq_true_eq] at hok ⊢
    refine ⟨⟨⟨⟨?_, ?_⟩, hasUnconditional_erase hv hok.1.1.2⟩, ?_⟩, ?_⟩
    · exact sublist_map_nodup _ List.filter_sublist hok.1.1.1.1
    · intro f hf
      have := List.mem_filter.mp hf
      exact fieldOk_erase hA ht (Or.inl hk) hv this.1 this.2
    · exact List.Nodup.sublist List.filter_sublist hok.1.2
    · intro i hi
      have hi' := List.mem_filter.mp hi
      obtain ⟨ti, hti, hvi⟩ := find?_visible hi'.2
      have h0 := hok.2 i hi'.1
      simp only [hti, Bool.and_eq_true, beq_iff_eq] at h0
      rw [find?_erase_notHidden hu (notHidden_of_visible hi'.2), hti]
      simp only [Option.map_some, eraseType_kind, Bool.and_eq_true, beq_iff_eq]
      exact ⟨h0.1, satisfies_erase hA ht (find?_mem hti) hk h0.1 hv hvi h0.2⟩

theorem accepted_erase (hA : Accepted S = true) (hR : RootsUngated S = true) : Accepted (erase S F) = true := by
  have hu := Accepted.nodup hA
  have hq : S.notHidden F S.query = true := notHidden_of_visible (query_visible hA hR)
  simp only [Accepted, Bool.and_eq_true, List.all_eq_true, decide_eq_true_eq, beq_iff_eq]
  refine ⟨⟨⟨⟨⟨⟨?_, ?_⟩, ?_⟩, ?_⟩, ?_⟩, ?_⟩, ⟨?_, ?_⟩⟩
  · have : (erase S F).types.map (·.name) = (S.types.filter (fun t => reqOk F t.req)).map (·.name) := by
      simp [erase, List.map_map, Function.comp_def, eraseType_name]
    rw [this]
    exact sublist_map_nodup _ List.filter_sublist hu
  · intro t' ht'
    obtain ⟨t, ht, rfl⟩ := List.mem_map.mp ht'
    have := List.mem_filter.mp ht
    exact typeOk_erase hA this.1 this.2
  · intro t' ht'
    obtain ⟨t, ht, rfl⟩ := List.mem_map.mp ht'
    have := List.mem_filter.mp ht
    rw [eraseType_name, Accepted.noIntrospectionNames hA this.1]
    rfl
  · rw [show (erase S F).query = S.query from rfl, kindOf_erase hu hq]
    exact Accepted.queryKind hA
  · show (match S.mutation.filter (S.visible F) with
      | none => true
      | some m => (erase S F).kindOf m == some Kind.object) = true
    cases hm : S.mutation.filter (S.visible F) with
    | none => rfl
    | some m =>
      have hv := filtered_root_visible hm
      have hsome : S.mutation = some m := by
        cases hmm : S.mutation with
        | none => simp [hmm, Option.filter] at hm
        | some x =>
          by_cases hx : S.visible F x = true
          · simp only [hmm, Option.filter, hx, ↓reduceIte, Option.some.injEq] at hm; rw [hm]
          · simp [hmm, Option.filter, hx] at hm
      simp only
      rw [kindOf_erase hu (notHidden_of_visible hv)]
      simpa using Accepted.mutationKind hA hsome
  · show (match S.subscription.filter (S.visible F) with
      | none => true
      | some m => (erase S F).kindOf m == some Kind.object) = true
    cases hm : S.subscription.filter (S.visible F) with
    | none => rfl
    | some m =>
      have hv := filtered_root_visible hm
      have hsome : S.subscription = some m := by
        cases hmm : S.subscription with
        | none => simp [hmm, Option.filter] at hm
        | some x =>
          by_cases hx : S.visible F x = true
          · simp only [hmm, Option.filter, hx, ↓reduceIte, Option.some.injEq] at hm; rw [hm]
          · simp [hmm, Option.filter, hx] at hm
      simp only
      rw [kindOf_erase hu (notHidden_of_visible hv)]
      simpa using Accepted.subscriptionKind hA hsome
  · have : (erase S F).directives.map (·.name) = S.directives.map (·.name) := by
      simp [erase, List.map_map, Function.comp_def]
    rw [this]
    exact Accepted.directivesNodup hA
  · intro d' hd'
    have hd'' : d' ∈ S.directives.map (fun d => { d with args := d.args.filter (fun a => S.visible F a.ty.base) }) := hd'
    obtain ⟨d, hd, rfl⟩ := List.mem_map.mp hd''
    have hok := Accepted.directiveOk hA hd
    refine ⟨sublist_map_nodup _ List.filter_sublist hok.1, ?_⟩
    intro a ha
    have ha' := List.mem_filter.mp ha
    have := hok.2 a ha'.1
    refine ⟨this.1, ?_⟩
    rw [isInputRef_erase hu ha'.2]
    exact this.2

end eraseAccepted

end ApiFu.C13
