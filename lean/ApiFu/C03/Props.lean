/-
  C03 — property theorems. C03 is composite; the parts are proved where their models live:

    * scanner never stalls (every Scan iteration consumes ≥ 1 rune)      → ApiFu.C07 (scanner_progress …)
    * parser: recursion counter balanced, depth guard is an ordinary error → ApiFu.C06 / ApiFu.C12
    * merge check terminates on cyclic fragments (memo)                    → ApiFu.C04 / ApiFu.C12
    * `if` argument of @skip/@include is a non-null Boolean                → ApiFu.C05 (coerced_conforms)
    * executor: data null ⇒ an error was recorded; every future resolves   → ApiFu.C01 / ApiFu.C02
  This file proves the glue that belongs to no other property. Every statement is over all inputs
  of the (finite-branching, but unbounded in the counts) models in Model.lean.
-/
import ApiFu.C03.Model

namespace ApiFu.C03

/-- **parser_never_repanics** — ParseDocument only re-raises values that are not `*parser.Error`;
    since every raise site in parser.go raises a `*parser.Error` (inventory obligation), it returns. -/
theorem parser_never_repanics (r : Option Raised) (h : r ≠ some .foreign) :
    recoverDoc r ≠ .repanicked := by
  cases r with
  | none => simp [recoverDoc]
  | some x => cases x <;> simp_all [recoverDoc]

/-- **null_data_has_errors** — for every combination of stage outcomes except the root selection set
    resolving to `(nil, nil)`, a response without data, or with null data, carries ≥ 1 error. -/
theorem null_data_has_errors (s : Stages) (h : s.exec ≠ .rootNil) :
    ((respond s).hasDataKey = false ∨ (respond s).dataIsNull = true) → (respond s).nErrors > 0 := by
  unfold respond
  by_cases hp : s.parseErrs > 0
  · simp [hp]
  · by_cases hv : s.validationErrs > 0
    · simp [hp, hv]
    · simp only [hp, hv, ↓reduceIte]
      cases he : s.exec <;> simp_all [executeRequest]

/-- The excluded case really is the only hole: `(nil, nil)` from the root gives `"data":null` and no
    errors. (The executor models of C01/C02 show the root future never resolves that way.) -/
theorem rootNil_is_the_only_hole (s : Stages) (hp : s.parseErrs = 0) (hv : s.validationErrs = 0)
    (h : (respond s).dataIsNull = true ∧ (respond s).nErrors = 0) : s.exec = .rootNil := by
  unfold respond at h
  simp only [hp, hv, Nat.lt_irrefl, ↓reduceIte] at h
  cases he : s.exec <;> simp_all [executeRequest]

/-- **respond_admissible** — the acceptor used by the correspondence accepts exactly what the envelope
    produces (for every stage outcome but the hole). -/
theorem respond_admissible (s : Stages) (h : s.exec ≠ .rootNil) :
    admissible
      { parseErrs := s.parseErrs, validationErrs := s.validationErrs,
        setupOk := s.exec ≠ .setupError, rootTypeOk := s.exec ≠ .noRootType }
      (respond s) = true := by
  unfold admissible respond
  by_cases hp : s.parseErrs > 0
  · simp [hp]
  · by_cases hv : s.validationErrs > 0
    · simp [hp, hv]
    · simp only [hp, hv, ↓reduceIte]
      cases he : s.exec <;> simp_all [executeRequest]

/-- **admissible_sound** — every shape the acceptor accepts satisfies the property's clause
    "no (or null) data ⇒ errors non-empty". -/
theorem admissible_sound (p : PreStages) (sh : Shape) (h : admissible p sh = true) :
    (sh.hasDataKey = false ∨ sh.dataIsNull = true) → sh.nErrors > 0 := by
  unfold admissible at h
  by_cases hp : p.parseErrs > 0
  · simp only [hp, ↓reduceIte, beq_iff_eq] at h
    subst h; intro _; exact hp
  · by_cases hv : p.validationErrs > 0
    · simp only [hp, hv, ↓reduceIte, beq_iff_eq] at h
      subst h; intro _; exact hv
    · simp only [hp, hv, ↓reduceIte] at h
      by_cases hs : (!p.setupOk || !p.rootTypeOk) = true
      · simp only [hs, ↓reduceIte, beq_iff_eq] at h
        subst h; intro _; decide
      · simp only [hs, Bool.false_eq_true, ↓reduceIte, Bool.and_eq_true] at h
        intro hd
        rcases hd with hd | hd
        · simp [hd] at h
        · have := h.2; simp [hd] at this; omega

/-- **filters_total_on_conforming** — given what C05 guarantees for `if: Boolean!`, neither filter's
    type assertion can fail. -/
theorem filters_total_on_conforming (v : ArgVal) (h : conformsBooleanNonNull v = true) :
    includeFilter v ≠ .panicked ∧ skipFilter v ≠ .panicked := by
  cases v <;> simp_all [conformsBooleanNonNull, includeFilter, skipFilter]

/-- And they panic on everything else — which is why the guarantee is needed (F-03b was exactly a
    `nilValue` reaching the filter). -/
theorem filters_panic_otherwise (v : ArgVal) (h : conformsBooleanNonNull v = false) :
    includeFilter v = .panicked ∧ skipFilter v = .panicked := by
  cases v <;> simp_all [conformsBooleanNonNull, includeFilter, skipFilter]

/-- **skip_include_semantics** — on a Boolean the two filters are each other's negation. -/
theorem skip_include_semantics (b : Bool) : skipFilter (.bool b) = .keep (!b) ∧ includeFilter (.bool b) = .keep b := by
  simp [skipFilter, includeFilter]

/-- **float_result_serialisable** — whatever a resolver returns for a Float field, the coerced result
    is a finite number or a field error; a non-finite value never reaches json.Marshal. -/
theorem float_result_serialisable (v : FloatIn) : coerceFloat v ≠ .nonFinite := by
  cases v <;> simp [coerceFloat]

/-- Non-vacuity: a parse error, a validation error, a failed non-null root field and a successful
    execution produce the four different envelope shapes. -/
example :
    respond { parseErrs := 2, validationErrs := 0, exec := .rootNil } = { hasDataKey := false, dataIsNull := false, nErrors := 2 } ∧
    respond { parseErrs := 0, validationErrs := 3, exec := .rootNil } = { hasDataKey := false, dataIsNull := false, nErrors := 3 } ∧
    respond { parseErrs := 0, validationErrs := 0, exec := .rootError 1 } = { hasDataKey := true, dataIsNull := true, nErrors := 2 } ∧
    respond { parseErrs := 0, validationErrs := 0, exec := .rootData 1 } = { hasDataKey := true, dataIsNull := false, nErrors := 1 } := by
  decide

end ApiFu.C03
