/-
  C03 — the WebSocket entry (graphqlws.go HandleStart; graphql/transport/graphql{,transport}ws/connection.go
  handleMessage), as far as "no panic, every operation answered, every answer an envelope" depends on it.

  The read loop of a connection has no recover, so a panic in anything it calls ends the server process.
  What it calls is: json decoding of the frame (errors are values), the dispatch below, and HandleStart,
  which runs the shared pipeline (ParseAndValidate, Subscribe / execute — C03/Model.lean, Composite.lean) and
  then looks at what graphql.Subscribe handed back. Core Lean only.
-/
import ApiFu.C03.Model

namespace ApiFu.C03

/-! ## 1. Frame dispatch (handleMessage) -/

inductive Proto where
  | old      -- graphql-ws (subscriptions-transport-ws)
  | new      -- graphql-transport-ws
  deriving Repr, DecidableEq

/-- A client frame, by what handleMessage distinguishes. `start` is "start" / "subscribe", `stop` is
    "stop" / "complete"; `payloadOk` says whether the payload decodes into {query, variables, operationName}. -/
inductive ClientFrame where
  | malformed                    -- json.Unmarshal of the frame failed
  | init
  | start (payloadOk : Bool)
  | stop
  | terminate                    -- "connection_terminate" (only known to the old protocol)
  | ping
  | pong
  | unknown                      -- any other type string
  deriving Repr, DecidableEq

inductive Action where
  | ignore
  | ack                          -- HandleInit (no hook configured: nil) → connection_ack (+ ka in the old protocol)
  | runStart
  | runStop
  | pongReply
  | close (code : Nat)           -- beginClosing
  deriving Repr, DecidableEq

def dispatch : Proto → Bool → ClientFrame → Action
  | .old, _, .malformed => .ignore
  | .old, _, .init => .ack
  | .old, didInit, .start ok => if !didInit then .ignore else if !ok then .ignore else .runStart
  | .old, didInit, .stop => if didInit then .runStop else .ignore
  | .old, _, .terminate => .close 1000
  | .old, _, .ping => .ignore
  | .old, _, .pong => .ignore
  | .old, _, .unknown => .ignore
  | .new, _, .malformed => .close 4400
  | .new, _, .init => .ack
  | .new, didInit, .start ok => if !didInit then .ignore else if !ok then .close 4400 else .runStart
  | .new, didInit, .stop => if didInit then .runStop else .ignore
  | .new, _, .terminate => .close 4400
  | .new, didInit, .ping => if didInit then .pongReply else .ignore
  | .new, _, .pong => .ignore
  | .new, _, .unknown => .close 4400

/-- What a client sees between sending one frame and the completion of a probe operation sent after it
    (with a connection_init in between if there was none before): the close code if the connection is
    closed, else how many acks and pongs arrived and whether the frame's own operation was answered. -/
structure Obs where
  closeCode : Option Nat
  acks : Nat
  pongs : Nat
  started : Bool
  deriving Repr, DecidableEq

def observe (didInit : Bool) : Action → Obs
  | .close c => { closeCode := some c, acks := if didInit then 1 else 0, pongs := 0, started := false }
  | .ack => { closeCode := none, acks := 2, pongs := 0, started := false }
  | .pongReply => { closeCode := none, acks := 1, pongs := 1, started := false }
  | .runStart => { closeCode := none, acks := 1, pongs := 0, started := true }
  | .ignore => { closeCode := none, acks := 1, pongs := 0, started := false }
  | .runStop => { closeCode := none, acks := 1, pongs := 0, started := false }   -- no subscription of that id: nothing to see

/-- While a connection closes, frames queued behind the close may or may not go out; only the close code
    is then a function of the frame — and the close frame itself is lost when the server's socket is reset
    (observed as code 0). -/
def obsMatches (want got : Obs) : Bool :=
  if want.closeCode.isSome then (want.closeCode == got.closeCode || got.closeCode == some 0) else want == got

/-! ## 2. HandleStart -/

/-- What graphql.Subscribe hands back for a document that passed ParseAndValidate. -/
inductive SubscribeResult where
  | errors (n : Nat)              -- len(errs) = n + 1: setup / argument coercion failed, or the resolver returned an error
  | stream (events : List Shape)  -- a non-nil *SubscriptionSourceStream; the shapes of the responses to its events
  | nilStream                     -- (*SubscriptionSourceStream)(nil)
  | other                         -- a nil interface, or any other dynamic type
  deriving Repr

inductive Frame where
  | data (sh : Shape)             -- "data" / "next" with the marshalled response as payload
  | complete
  deriving Repr, DecidableEq

inductive StartOutcome where
  | frames (fs : List Frame)      -- what is sent for the operation's id, in order
  | ignored                       -- the id already names a running subscription: the start is dropped
  | panicked                      -- unrecovered panic on the read loop
  deriving Repr

def errorsOnly (n : Nat) : Shape := { hasDataKey := false, dataIsNull := false, nErrors := n }

/-- graphqlws.go HandleStart (since 6db6045). `pvErrs` = len(errs) of ParseAndValidate incl. the cost rule,
    `exec` = shape of api.execute's response (Request.Document set: the data key is always there). -/
def handleStart (pvErrs : Nat) (isSub idRunning : Bool) (sub : SubscribeResult) (exec : Shape) : StartOutcome :=
  if pvErrs > 0 then .frames [.data (errorsOnly pvErrs), .complete]
  else if isSub then
    if idRunning then .ignored
    else match sub with
      | .errors n => .frames [.data (errorsOnly (n + 1)), .complete]
      | .stream events => .frames (events.map .data ++ [.complete])
      | .nilStream => .frames [.data (errorsOnly 1), .complete]
      | .other => .frames [.data (errorsOnly 1), .complete]
  else .frames [.data exec, .complete]

/-- The same function before 6db6045: `sourceStream.(*SubscriptionSourceStream)` and the dereference after it. -/
def handleStartBefore (pvErrs : Nat) (isSub idRunning : Bool) (sub : SubscribeResult) (exec : Shape) : StartOutcome :=
  if pvErrs > 0 then .frames [.data (errorsOnly pvErrs), .complete]
  else if isSub then
    if idRunning then .ignored
    else match sub with
      | .errors n => .frames [.data (errorsOnly (n + 1)), .complete]
      | .stream events => .frames (events.map .data ++ [.complete])
      | .nilStream => .panicked
      | .other => .panicked
  else .frames [.data exec, .complete]

/-! ## 3. The acceptor of the correspondence -/

/-- The clause "no (or null) data ⇒ errors non-empty", as a test. -/
def envOk (sh : Shape) : Bool := !((!sh.hasDataKey || sh.dataIsNull) && sh.nErrors == 0)

/-- What the harness saw the subscription resolver return when it was asked to subscribe (it is the
    harness's own resolver), if it was asked at all. -/
inductive SubSeen where
  | notCalled
  | error
  | stream (events : Nat)
  | nilStream
  | other
  deriving Repr, DecidableEq

def isErrorsOnly (sh : Shape) : Bool := !sh.hasDataKey && sh.nErrors > 0

def allData : List Frame → Option (List Shape)
  | [] => some []
  | .data sh :: rest => (allData rest).map (sh :: ·)
  | .complete :: _ => none

/-- Are `obs` (the frames received for the operation's id on a fresh connection) frames HandleStart can send? -/
def wsAccept (isSub : Bool) (seen : SubSeen) (obs : List Frame) : Bool :=
  match seen with
  | .notCalled =>
    match obs with
    | [.data sh, .complete] => if isSub then isErrorsOnly sh else (envOk sh && (sh.hasDataKey || sh.nErrors > 0))
    | _ => false
  | .error =>
    match obs with
    | [.data sh, .complete] => isSub && isErrorsOnly sh
    | _ => false
  | .stream k =>
    isSub && (match obs.getLast?, allData obs.dropLast with
      | some .complete, some shapes => shapes.length == k && shapes.all (fun sh => sh.hasDataKey && envOk sh)
      | _, _ => false)
  | .nilStream => isSub && obs == [.data (errorsOnly 1), .complete]
  | .other => isSub && obs == [.data (errorsOnly 1), .complete]

end ApiFu.C03
