/-
  C03 — models of the guards that stand between a request and a crash / an unserialisable or
  error-less response. C03 is a composite property: termination and crash-freedom of the scanner,
  parser, validator, coercion and executor are carried by the models of C07, C06/C12, C04, C05,
  C01/C02 (see Props.lean for the index). This file models the pieces that belong to no other
  property:

    1. the recover() in ParseDocument / ParseValue (parser.go:25-37, 53-65): which raised values are
       turned into errors and which are re-raised;
    2. the response envelope: graphql.ParseAndValidate + graphql.Execute + executor.ExecuteRequest +
       executeQuery/executeMutation/executeSubscriptionEvent (graphql.go:286-383,
       executor.go:41-52, 124-150, 203-211) as a relation between stage outcomes and the *shape* of
       the response (data key present? data null? how many errors?);
    3. the @skip/@include collection filters (schema/builtins.go:242-268): a single-value type
       assertion on the coerced `if` argument;
    4. Float result coercion (schema/builtins.go:73-106): which Go values become a JSON number.
-/
namespace ApiFu.C03

/-! ## 1. recover() in ParseDocument -/

/-- What a production of the parser can raise: every `panic` in parser.go is `panic(p.errorf(…))`,
    i.e. a `*parser.Error` (the panic-site inventory checks that on every run); `foreign` stands for
    any other value. -/
inductive Raised where
  | syntaxError | foreign
  deriving Repr, DecidableEq

inductive ParseOutcome where
  | returned                 -- no panic: (document, scanner errors)
  | returnedWithError        -- recovered a *Error: (nil, errors ++ [err])
  | repanicked               -- `panic(r)`: the caller crashes
  deriving Repr, DecidableEq

/-- `defer func() { if r := recover(); r != nil { if err, ok := r.(*Error); ok {…} else { panic(r) } } }()` -/
def recoverDoc : Option Raised → ParseOutcome
  | none => .returned
  | some .syntaxError => .returnedWithError
  | some .foreign => .repanicked

/-! ## 2. The response envelope -/

/-- Outcome of executor.ExecuteRequest's stages, as far as the envelope depends on them. -/
inductive ExecStage where
  | setupError            -- GetOperation or CoerceVariableValues failed        → (nil, [err])
  | noRootType            -- "This schema cannot perform …"                      → (nil, [err])
  | rootError (caught : Nat)   -- root selection set resolved to an error        → (nil, caught ++ [err])
  | rootData (caught : Nat)    -- root selection set resolved to a non-nil map   → (map, caught)
  | rootNil               -- wait returned (nil, nil)                             → (nil, nil)
  deriving Repr, DecidableEq

structure Stages where
  parseErrs : Nat          -- len(parser.ParseDocument errors)
  validationErrs : Nat     -- len(validator.ValidateDocument errors) (only looked at when parseErrs = 0)
  exec : ExecStage         -- only looked at when both are 0
  deriving Repr

/-- The observable shape of a `graphql.Response` after json.Marshal. -/
structure Shape where
  hasDataKey : Bool        -- Response.Data != nil (`omitempty` drops a nil pointer)
  dataIsNull : Bool        -- the pointed-to *OrderedMap is nil → `"data":null`
  nErrors : Nat
  deriving Repr, DecidableEq

def executeRequest : ExecStage → Bool × Nat       -- (data map is nil, number of errors)
  | .setupError => (true, 1)
  | .noRootType => (true, 1)
  | .rootError caught => (true, caught + 1)
  | .rootData caught => (false, caught)
  | .rootNil => (true, 0)

/-- graphql.Execute (with Request.Document == nil). -/
def respond (s : Stages) : Shape :=
  if s.parseErrs > 0 then { hasDataKey := false, dataIsNull := false, nErrors := s.parseErrs }
  else if s.validationErrs > 0 then { hasDataKey := false, dataIsNull := false, nErrors := s.validationErrs }
  else
    let r := executeRequest s.exec
    { hasDataKey := true, dataIsNull := r.1, nErrors := r.2 }

/-- What the harness can observe *before* execution: the two error counts, whether operation
    selection + variable coercion succeed, and whether the schema has the root type. -/
structure PreStages where
  parseErrs : Nat
  validationErrs : Nat
  setupOk : Bool
  rootTypeOk : Bool
  deriving Repr

/-- Acceptor used by the correspondence: is `sh` a shape the envelope can produce for these
    pre-execution outcomes, for some way the root selection set resolves *other than (nil, nil)*? -/
def admissible (p : PreStages) (sh : Shape) : Bool :=
  if p.parseErrs > 0 then sh == { hasDataKey := false, dataIsNull := false, nErrors := p.parseErrs }
  else if p.validationErrs > 0 then sh == { hasDataKey := false, dataIsNull := false, nErrors := p.validationErrs }
  else if !p.setupOk || !p.rootTypeOk then sh == { hasDataKey := true, dataIsNull := true, nErrors := 1 }
  else sh.hasDataKey && (if sh.dataIsNull then sh.nErrors ≥ 1 else true)

/-! ## 3. @skip / @include filters -/

/-- The dynamic value found under `arguments["if"]`. -/
inductive ArgVal where
  | absent | nilValue | bool (b : Bool) | other
  deriving Repr, DecidableEq

inductive Filtered where
  | keep (b : Bool)       -- the filter returned b (true = keep the selection)
  | panicked              -- `arguments["if"].(bool)` on a non-bool
  deriving Repr, DecidableEq

def includeFilter : ArgVal → Filtered
  | .bool b => .keep b
  | _ => .panicked

def skipFilter : ArgVal → Filtered
  | .bool b => .keep (!b)
  | _ => .panicked

/-- `Conforms Boolean! v`: what C05's coercion guarantees for the `if: Boolean!` argument. -/
def conformsBooleanNonNull : ArgVal → Bool
  | .bool _ => true
  | _ => false

/-! ## 4. Float result coercion -/

/-- The Go values a resolver can hand to a `Float` field, by what matters to coerceFloat. -/
inductive FloatIn where
  | boolean | integer            -- bool, (u)int8…(u)int64, (u)int
  | finiteFloat | nan | posInf | negInf     -- float32 / float64
  | other                        -- strings, nil, structs, slices, …
  deriving Repr, DecidableEq

inductive FloatOut where
  | number         -- a finite float64: json.Marshal succeeds
  | nonFinite      -- NaN or ±Inf: json.Marshal fails ("unsupported value")
  | rejected       -- coerceFloat returned nil → a field error
  deriving Repr, DecidableEq

def coerceFloat : FloatIn → FloatOut
  | .boolean => .number
  | .integer => .number
  | .finiteFloat => .number
  | .nan => .rejected
  | .posInf => .rejected
  | .negInf => .rejected
  | .other => .rejected

end ApiFu.C03
