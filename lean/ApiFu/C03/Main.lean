/-
  C03 model driver. One S-expression per line:
    (admissible <parseErrs> <validationErrs> <setupOk> <rootTypeOk> <hasDataKey> <dataIsNull> <nErrors>) → true | false
    (filter skip|include absent|nil|true|false|other)   → (keep true|false) | panicked
    (float boolean|integer|finite|nan|posinf|neginf|other) → number | nonFinite | rejected
    (recover none|syntaxError|foreign) → returned | returnedWithError | repanicked
    (wsaccept <isSub> notCalled|error|nilStream|other|(stream k) (<frame>*))  frame = c | (d <hasDataKey> <dataIsNull> <nErrors>) → true | false
    (wsdispatch old|new <didInit> <kind> <closeCode|-> <acks> <pongs> <started>) → true | (expected …)
-/
import ApiFu.Common.Sexp
import ApiFu.Common.Loop
import ApiFu.C03.Model
import ApiFu.C03.Ws

open ApiFu ApiFu.C03

def boolOf (s : String) : Option Bool := if s == "true" then some true else if s == "false" then some false else none

def handle (line : String) : String :=
  match Sexp.parse line with
  | some (Sexp.list [Sexp.atom "admissible", pe, ve, so, ro, hd, dn, ne]) =>
    match pe.nat?, ve.nat?, so.atom?.bind boolOf, ro.atom?.bind boolOf, hd.atom?.bind boolOf, dn.atom?.bind boolOf, ne.nat? with
    | some pe, some ve, some so, some ro, some hd, some dn, some ne =>
      toString (admissible { parseErrs := pe, validationErrs := ve, setupOk := so, rootTypeOk := ro }
                 { hasDataKey := hd, dataIsNull := dn, nErrors := ne })
    | _, _, _, _, _, _, _ => "bad-op"
  | some (Sexp.list [Sexp.atom "filter", Sexp.atom which, Sexp.atom v]) =>
    let av : Option ArgVal := match v with
      | "absent" => some .absent | "nil" => some .nilValue | "true" => some (.bool true)
      | "false" => some (.bool false) | "other" => some .other | _ => none
    match av, which with
    | some av, "skip" => (match skipFilter av with | .keep b => s!"(keep {b})" | .panicked => "panicked")
    | some av, "include" => (match includeFilter av with | .keep b => s!"(keep {b})" | .panicked => "panicked")
    | _, _ => "bad-op"
  | some (Sexp.list [Sexp.atom "float", Sexp.atom v]) =>
    let fv : Option FloatIn := match v with
      | "boolean" => some .boolean | "integer" => some .integer | "finite" => some .finiteFloat | "nan" => some .nan
      | "posinf" => some .posInf | "neginf" => some .negInf | "other" => some .other | _ => none
    match fv with
    | some fv => (match coerceFloat fv with | .number => "number" | .nonFinite => "nonFinite" | .rejected => "rejected")
    | none => "bad-op"
  | some (Sexp.list [Sexp.atom "recover", Sexp.atom v]) =>
    let r : Option (Option Raised) := match v with
      | "none" => some none | "syntaxError" => some (some .syntaxError) | "foreign" => some (some .foreign) | _ => none
    match r with
    | some r => (match recoverDoc r with | .returned => "returned" | .returnedWithError => "returnedWithError" | .repanicked => "repanicked")
    | none => "bad-op"
  | some (Sexp.list [Sexp.atom "wsaccept", isSub, seen, Sexp.list frames]) =>
    let seen? : Option SubSeen := match seen with
      | Sexp.atom "notCalled" => some .notCalled | Sexp.atom "error" => some .error
      | Sexp.atom "nilStream" => some .nilStream | Sexp.atom "other" => some .other
      | Sexp.list [Sexp.atom "stream", k] => k.nat?.map .stream
      | _ => none
    let frame? : Sexp → Option Frame
      | Sexp.atom "c" => some .complete
      | Sexp.list [Sexp.atom "d", hd, dn, ne] =>
        match hd.atom?.bind boolOf, dn.atom?.bind boolOf, ne.nat? with
        | some hd, some dn, some ne => some (.data { hasDataKey := hd, dataIsNull := dn, nErrors := ne })
        | _, _, _ => none
      | _ => none
    match isSub.atom?.bind boolOf, seen?, frames.mapM frame? with
    | some isSub, some seen, some fs => toString (wsAccept isSub seen fs)
    | _, _, _ => "bad-op"
  | some (Sexp.list [Sexp.atom "wsdispatch", Sexp.atom proto, didInit, Sexp.atom kind, Sexp.atom close, acks, pongs, started]) =>
    let p? : Option Proto := match proto with | "old" => some .old | "new" => some .new | _ => none
    let f? : Option ClientFrame := match kind with
      | "malformed" => some .malformed | "init" => some .init | "start-ok" => some (.start true)
      | "start-bad" => some (.start false) | "stop" => some .stop | "terminate" => some .terminate
      | "ping" => some .ping | "pong" => some .pong | "unknown" => some .unknown | _ => none
    let close? : Option (Option Nat) := if close == "-" then some none else if close == "abrupt" then some (some 0) else close.toNat?.map some
    match p?, didInit.atom?.bind boolOf, f?, close?, acks.nat?, pongs.nat?, started.atom?.bind boolOf with
    | some p, some di, some f, some cl, some a, some po, some st =>
      let want := observe di (dispatch p di f)
      let got : Obs := { closeCode := cl, acks := a, pongs := po, started := st }
      if obsMatches want got then "true" else s!"(expected close={want.closeCode} acks={want.acks} pongs={want.pongs} started={want.started})"
    | _, _, _, _, _, _, _ => "bad-op"
  | _ => "bad-op"

def main : IO Unit := lineLoopPure handle
