/-
  C03 — the composite part: crash-freedom, termination and "null data ⇒ errors" of the stages are
  proved in the models of the properties that own those stages. This file imports those theorem
  modules and re-states, under C03 names, exactly the facts C03 relies on, so that `./check C03`
  fails to build (and reports the obligation) when one of them disappears or stops checking, and so
  that the axiom audit of C03 covers them. `type_of%` keeps each statement identical to its owner's.
-/
import ApiFu.C01.Props
import ApiFu.C02.Props
import ApiFu.C05.Props
import ApiFu.C06.Props
import ApiFu.C07.Props
import ApiFu.C12.Props

namespace ApiFu.C03

/-- Scanner: every `Scan` iteration entered with input left consumes ≥ 1 element (no endless loop in
    `for s.Scan()`), for every input including invalid UTF-8. Owner: C07. -/
theorem scanner_never_stalls : type_of% @ApiFu.C07.scanner_progress := @ApiFu.C07.scanner_progress

/-- Scanner: `Scan()` returns false only when the whole input has been consumed. Owner: C07. -/
theorem scanner_stops_only_at_end : type_of% @ApiFu.C07.scan_stops_only_at_end := @ApiFu.C07.scan_stops_only_at_end

/-- Parser: every production returns with the recursion counter at its entry value, so the Go call
    stack is at most `maxRecursion` production frames high. Owner: C06/C12. -/
theorem parser_counter_balanced : type_of% @ApiFu.C12.rec_balanced := @ApiFu.C12.rec_balanced

/-- Parser: never out of fuel (total), and nesting beyond the limit is the ordinary recovered
    "maximum recursion depth exceeded" error. Owner: C12. -/
theorem parser_deep_is_error : type_of% @ApiFu.C12.deep_is_error := @ApiFu.C12.deep_is_error

/-- Parser: a returned document is never partial and no scanner error is lost. Owner: C06. -/
theorem parser_sound : type_of% @ApiFu.C06.parse_sound := @ApiFu.C06.parse_sound

/-- Coercion: every argument a resolver *or directive filter* observes conforms to its declared type —
    in particular the `if: Boolean!` of @skip/@include is a Bool (with `filters_total_on_conforming`
    this discharges the two type assertions in schema/builtins.go). Owner: C05. -/
theorem arguments_conform : type_of% @ApiFu.C05.arguments_conform := @ApiFu.C05.arguments_conform

/-- Executor: completing a value at a Non-Null type never yields null. Owner: C01. -/
theorem nonnull_never_null : type_of% @ApiFu.C01.nonnull_never_null := @ApiFu.C01.nonnull_never_null

/-- Executor: a request-level failure gives no data and exactly one error. Owner: C01. -/
theorem exec_request_error : type_of% @ApiFu.C01.exec_request_error := @ApiFu.C01.exec_request_error

/-- Executor: leaf values in data are the result coercion of what the resolver returned (no
    non-finite float, no out-of-range Int). Owner: C01. -/
theorem leaf_coercion : type_of% @ApiFu.C01.leaf_coercion := @ApiFu.C01.leaf_coercion

/-- Futures: execution with promises always finishes (never stuck, fuel never exhausted) for every
    request, async subset and schedule. Owner: C02. -/
theorem async_execution_terminates : type_of% @ApiFu.C02.execution_terminates := @ApiFu.C02.execution_terminates

/-- Futures: at most one idle round per promise created. Owner: C02. -/
theorem async_idle_rounds_bounded : type_of% @ApiFu.C02.idle_rounds_le_promises := @ApiFu.C02.idle_rounds_le_promises

/-- Futures: a finished execution never went through a crash branch of the combinators. Owner: C02. -/
theorem async_no_crash_branch : type_of% @ApiFu.C02.no_crash_branch := @ApiFu.C02.no_crash_branch

/-- Futures: no object in data has a blank / missing / unset response key. Owner: C02. -/
theorem async_no_blank_key : type_of% @ApiFu.C02.no_blank_key := @ApiFu.C02.no_blank_key

/-- **exec_no_data_has_errors** — the executor model (C01, with or without the memo, every schema,
    document, fuel, operation name, root value): whenever it answers without data, it answers with at
    least one error. Together with `null_data_has_errors` this closes the envelope's hole for the
    modelled executor: `rootNil` has no counterpart in `execute`. -/
theorem exec_no_data_has_errors (memo : Bool) (S : ApiFu.C01.Schema) (D : ApiFu.C01.Document) (fuel : Nat)
    (opName : String) (root : ApiFu.C01.RVal) (resp : ApiFu.C01.Response)
    (h : ApiFu.C01.execute memo S D fuel opName root = .ok resp) (hd : resp.data = none) :
    resp.errors ≠ [] := by
  unfold ApiFu.C01.execute at h
  split at h
  · cases h; simp
  · split at h
    · cases h; simp
    · simp only at h
      split at h
      · cases h; simp at hd
      · cases h; simp
      · cases h

end ApiFu.C03
