/-
  C03 — theorems about the WebSocket entry (model: Ws.lean). Property theorems only.
-/
import ApiFu.C03.Ws

namespace ApiFu.C03

/-- The clause of the property about one response shape. -/
def EnvelopeOk (sh : Shape) : Prop := (sh.hasDataKey = false ∨ sh.dataIsNull = true) → sh.nErrors > 0

theorem envOk_iff (sh : Shape) : envOk sh = true ↔ EnvelopeOk sh := by
  unfold envOk EnvelopeOk
  cases h1 : sh.hasDataKey <;> cases h2 : sh.dataIsNull <;> simp <;> omega

/-- **ws_start_never_panics** — whatever the pipeline reports and whatever the subscription resolver hands
    back (a stream, a nil stream pointer, nil, a value of any other type, errors), HandleStart does not panic
    on the connection's read loop. -/
theorem ws_start_never_panics (pvErrs : Nat) (isSub idRunning : Bool) (sub : SubscribeResult) (exec : Shape) :
    handleStart pvErrs isSub idRunning sub exec ≠ .panicked := by
  unfold handleStart
  by_cases hp : pvErrs > 0
  · simp [hp]
  · cases isSub <;> cases idRunning <;> cases sub <;> simp [hp]

/-- **ws_start_panicked_before_fix** — the function as it stood before 6db6045 does panic, exactly when a
    validated subscription's resolver hands back something that is not a non-nil stream (finding F-03h).
    (Also shows that the model can express the failure `ws_start_never_panics` excludes.) -/
theorem ws_start_panicked_before_fix (idRunning : Bool) (sub : SubscribeResult) (exec : Shape) :
    handleStartBefore 0 true idRunning sub exec = .panicked ↔
      idRunning = false ∧ (sub = .nilStream ∨ sub = .other) := by
  unfold handleStartBefore
  cases idRunning <;> cases sub <;> simp

/-- **ws_start_answered** — a start that is not dropped (the id is not a running subscription's) is answered
    on its id, and the answer ends with `complete`. -/
theorem ws_start_answered (pvErrs : Nat) (isSub idRunning : Bool) (sub : SubscribeResult) (exec : Shape)
    (h : isSub = false ∨ idRunning = false ∨ pvErrs > 0) :
    ∃ fs, handleStart pvErrs isSub idRunning sub exec = .frames fs ∧ fs.getLast? = some .complete := by
  unfold handleStart
  by_cases hp : pvErrs > 0
  · simp [hp]
  · cases isSub
    · simp [hp]
    · cases idRunning
      · cases sub <;> simp [hp]
      · rcases h with h | h | h <;> simp_all

/-- **ws_query_one_response** — a query or mutation is answered with exactly one response frame and `complete`. -/
theorem ws_query_one_response (pvErrs : Nat) (idRunning : Bool) (sub : SubscribeResult) (exec : Shape) :
    ∃ sh, handleStart pvErrs false idRunning sub exec = .frames [.data sh, .complete] := by
  unfold handleStart
  by_cases hp : pvErrs > 0
  · exact ⟨errorsOnly pvErrs, by simp [hp]⟩
  · exact ⟨exec, by simp [hp]⟩

/-- **ws_frames_envelope** — every response frame HandleStart sends satisfies "no (or null) data ⇒ errors
    non-empty", provided the responses of the shared pipeline do (Props.null_data_has_errors). -/
theorem ws_frames_envelope (pvErrs : Nat) (isSub idRunning : Bool) (sub : SubscribeResult) (exec : Shape)
    (hexec : EnvelopeOk exec)
    (hev : ∀ evs, sub = .stream evs → ∀ sh ∈ evs, EnvelopeOk sh)
    (fs : List Frame) (h : handleStart pvErrs isSub idRunning sub exec = .frames fs) :
    ∀ sh, Frame.data sh ∈ fs → EnvelopeOk sh := by
  unfold handleStart at h
  by_cases hp : pvErrs > 0
  · simp only [hp, ↓reduceIte, StartOutcome.frames.injEq] at h
    subst h
    intro sh hm
    simp at hm
    subst hm
    intro _; exact hp
  · simp only [hp, ↓reduceIte] at h
    cases isSub
    · simp only [Bool.false_eq_true, ↓reduceIte, StartOutcome.frames.injEq] at h
      subst h
      intro sh hm
      simp at hm
      subst hm
      exact hexec
    · simp only [↓reduceIte] at h
      cases idRunning
      · simp only [Bool.false_eq_true, ↓reduceIte] at h
        cases sub with
        | errors n =>
          simp only [StartOutcome.frames.injEq] at h
          subst h
          intro sh hm; simp at hm; subst hm
          intro _; simp [errorsOnly]
        | stream evs =>
          simp only [StartOutcome.frames.injEq] at h
          subst h
          intro sh hm
          simp at hm
          exact hev evs rfl sh hm
        | nilStream =>
          simp only [StartOutcome.frames.injEq] at h
          subst h
          intro sh hm; simp at hm; subst hm
          intro _; simp [errorsOnly]
        | other =>
          simp only [StartOutcome.frames.injEq] at h
          subst h
          intro sh hm; simp at hm; subst hm
          intro _; simp [errorsOnly]
      · simp at h

/-- What the harness sees of the subscription resolver, as a function of the model's inputs. -/
def seenOf (pvErrs : Nat) (isSub idRunning : Bool) (resolverCalled : Bool) : SubscribeResult → SubSeen
  | .errors _ => if pvErrs = 0 ∧ isSub ∧ !idRunning ∧ resolverCalled then .error else .notCalled
  | .stream evs => if pvErrs = 0 ∧ isSub ∧ !idRunning then .stream evs.length else .notCalled
  | .nilStream => if pvErrs = 0 ∧ isSub ∧ !idRunning then .nilStream else .notCalled
  | .other => if pvErrs = 0 ∧ isSub ∧ !idRunning then .other else .notCalled

theorem allData_map (evs : List Shape) : allData (evs.map Frame.data) = some evs := by
  induction evs with
  | nil => rfl
  | cons e es ih => simp [allData, ih]

/-- **ws_accept_complete** — the acceptor of the correspondence accepts everything HandleStart sends on a
    fresh connection (so a rejected observation means the code has left the model). -/
theorem ws_accept_complete (pvErrs : Nat) (isSub : Bool) (called : Bool) (sub : SubscribeResult) (exec : Shape)
    (hexec : EnvelopeOk exec) (hkey : exec.hasDataKey = true)
    (hev : ∀ evs, sub = .stream evs → ∀ sh ∈ evs, sh.hasDataKey = true ∧ EnvelopeOk sh)
    (fs : List Frame) (h : handleStart pvErrs isSub false sub exec = .frames fs) :
    wsAccept isSub (seenOf pvErrs isSub false called sub) fs = true := by
  unfold handleStart at h
  by_cases hp : pvErrs > 0
  · have hp0 : pvErrs ≠ 0 := by omega
    simp only [hp, ↓reduceIte, StartOutcome.frames.injEq] at h
    subst h
    cases sub <;> cases isSub <;>
      simp [seenOf, hp0, wsAccept, isErrorsOnly, errorsOnly, envOk, hp]
  · have hp0 : pvErrs = 0 := by omega
    subst hp0
    simp only [Nat.lt_irrefl, ↓reduceIte] at h
    cases isSub
    · simp only [Bool.false_eq_true, ↓reduceIte, StartOutcome.frames.injEq] at h
      subst h
      have := (envOk_iff exec).mpr hexec
      cases sub <;> simp [seenOf, wsAccept, this, hkey]
    · simp only [↓reduceIte, Bool.false_eq_true] at h
      cases sub with
      | errors n =>
        simp only [StartOutcome.frames.injEq] at h
        subst h
        cases called <;> simp [seenOf, wsAccept, isErrorsOnly, errorsOnly]
      | stream evs =>
        simp only [StartOutcome.frames.injEq] at h
        subst h
        simp only [seenOf, wsAccept, Bool.not_false, and_self, ↓reduceIte, Bool.true_and]
        simp only [List.getLast?_append, List.getLast?_singleton, Option.some_or, List.dropLast_concat,
          allData_map, List.all_eq_true, Bool.and_eq_true, beq_iff_eq, true_and]
        intro sh hm
        have := hev evs rfl sh hm
        exact ⟨this.1, (envOk_iff sh).mpr this.2⟩
      | nilStream =>
        simp only [StartOutcome.frames.injEq] at h
        subst h
        simp [seenOf, wsAccept]
      | other =>
        simp only [StartOutcome.frames.injEq] at h
        subst h
        simp [seenOf, wsAccept]

theorem allData_mem {fs : List Frame} {shs : List Shape} (h : allData fs = some shs) :
    ∀ sh, Frame.data sh ∈ fs → sh ∈ shs := by
  induction fs generalizing shs with
  | nil => intro sh hm; simp at hm
  | cons f rest ih =>
    cases f with
    | complete => simp [allData] at h
    | data s =>
      simp only [allData, Option.map_eq_some_iff] at h
      obtain ⟨r, hr, rfl⟩ := h
      intro sh hm
      simp only [List.mem_cons, Frame.data.injEq] at hm
      rcases hm with hm | hm
      · simp [hm]
      · exact List.mem_cons_of_mem _ (ih hr sh hm)

/-- **ws_accept_sound** — every observation the acceptor accepts is an answer of the kind the property
    asks for: it ends with `complete`, every response frame in it satisfies the envelope clause, and an
    operation that is not a subscription got exactly one response. -/
theorem ws_accept_sound (isSub : Bool) (seen : SubSeen) (obs : List Frame) (h : wsAccept isSub seen obs = true) :
    obs.getLast? = some .complete ∧ (∀ sh, Frame.data sh ∈ obs → EnvelopeOk sh) ∧
      (isSub = false → ∃ sh, obs = [.data sh, .complete]) := by
  unfold wsAccept at h
  cases seen with
  | notCalled =>
    match obs, h with
    | [.data sh, .complete], h =>
      refine ⟨rfl, ?_, fun _ => ⟨sh, rfl⟩⟩
      intro s hm
      simp at hm
      subst hm
      cases isSub
      · simp only [Bool.false_eq_true, ↓reduceIte, Bool.and_eq_true] at h
        exact (envOk_iff s).mp h.1
      · simp only [↓reduceIte, isErrorsOnly, Bool.and_eq_true, Bool.not_eq_eq_eq_not, Bool.not_true,
          decide_eq_true_eq] at h
        intro _; exact h.2
  | error =>
    match obs, h with
    | [.data sh, .complete], h =>
      simp only [Bool.and_eq_true, isErrorsOnly, Bool.not_eq_eq_eq_not, Bool.not_true, decide_eq_true_eq] at h
      refine ⟨rfl, ?_, fun hs => by simp [hs] at h⟩
      intro s hm
      simp at hm
      subst hm
      intro _; exact h.2.2
  | stream k =>
    simp only [Bool.and_eq_true] at h
    obtain ⟨hs, h⟩ := h
    refine ⟨?_, ?_, fun hf => by simp [hf] at hs⟩
    · cases hl : obs.getLast? with
      | none => simp [hl] at h
      | some f => cases f <;> simp_all
    · cases hl : obs.getLast? with
      | none => simp [hl] at h
      | some f =>
        cases f with
        | data _ => simp [hl] at h
        | complete =>
          cases hd : allData obs.dropLast with
          | none => simp [hl, hd] at h
          | some shs =>
            simp only [hl, hd, Bool.and_eq_true, beq_iff_eq, List.all_eq_true] at h
            intro sh hm
            have hne : obs ≠ [] := by intro hn; simp [hn] at hl
            have hobs : obs = obs.dropLast ++ [Frame.complete] := by
              have h1 := List.dropLast_concat_getLast hne
              have h2 : obs.getLast hne = Frame.complete := by
                have := List.getLast?_eq_some_getLast hne
                rw [hl] at this
                exact (Option.some.inj this).symm
              rw [h2] at h1
              exact h1.symm
            rw [hobs] at hm
            simp only [List.mem_append, List.mem_singleton, reduceCtorEq, or_false] at hm
            exact (envOk_iff sh).mp (h.2 sh (allData_mem hd sh hm)).2
  | nilStream =>
    simp only [Bool.and_eq_true, beq_iff_eq] at h
    obtain ⟨hs, rfl⟩ := h
    refine ⟨rfl, ?_, fun hf => by simp [hf] at hs⟩
    intro s hm; simp at hm; subst hm; intro _; simp [errorsOnly]
  | other =>
    simp only [Bool.and_eq_true, beq_iff_eq] at h
    obtain ⟨hs, rfl⟩ := h
    refine ⟨rfl, ?_, fun hf => by simp [hf] at hs⟩
    intro s hm; simp at hm; subst hm; intro _; simp [errorsOnly]

/-- **ws_start_needs_init** — in both protocols an operation is only started on an initialised connection
    and with a payload that decodes; nothing else reaches HandleStart. -/
theorem ws_start_needs_init (p : Proto) (didInit : Bool) (f : ClientFrame) :
    dispatch p didInit f = .runStart ↔ didInit = true ∧ f = .start true := by
  cases p <;> cases didInit <;> cases f <;> simp [dispatch]
  all_goals (rename_i ok; cases ok <;> simp)

/-- **ws_new_protocol_closes_on_junk** — graphql-transport-ws answers every frame it cannot use with a
    4400 close (never by ignoring it), the old protocol ignores it; neither starts anything. -/
theorem ws_junk_never_starts (p : Proto) (didInit : Bool) (f : ClientFrame)
    (h : f = .malformed ∨ f = .unknown ∨ f = .start false) :
    dispatch p didInit f = (match p with | .old => .ignore | .new => if f = .start false ∧ didInit = false then .ignore else .close 4400) := by
  rcases h with h | h | h <;> subst h <;> cases p <;> cases didInit <;> simp [dispatch]

/-- **ws_observe_separates** — what the dispatch tie observes determines the action, except that dropping
    a frame and stopping an operation that does not exist look the same (as they are, to a client), and that
    a reset connection (observed code 0) only says "some close". -/
theorem ws_observe_separates (didInit : Bool) (a b : Action)
    (h : obsMatches (observe didInit a) (observe didInit b) = true) (hb : ∀ c, b = .close c → c ≠ 0) :
    a = b ∨ ((a = .ignore ∨ a = .runStop) ∧ (b = .ignore ∨ b = .runStop)) := by
  cases a <;> cases b <;> cases didInit <;> simp_all [observe, obsMatches]

-- non-vacuity: a stream with two events is accepted, and its hypotheses hold
example : wsAccept true (.stream 2)
    [.data { hasDataKey := true, dataIsNull := false, nErrors := 0 },
     .data { hasDataKey := true, dataIsNull := true, nErrors := 1 }, .complete] = true := by decide
example : wsAccept true .other [.complete] = false := by decide
example : wsAccept false .notCalled [.complete] = false := by decide

end ApiFu.C03
