/-
  C17 — `mime.ParseMediaType` (go1.23 mime/mediatype.go) as far as `NewRequestFromHTTP` uses it:
  `switch mediaType, _, _ := mime.ParseMediaType(header); mediaType` — only the first result, the
  error is ignored, and only equality with "application/json" / "application/graphql" matters.

    base, _, _ := strings.Cut(v, ";")
    mediatype = strings.TrimSpace(strings.ToLower(base))
    checkMediaTypeDisposition(mediatype)  error → ""      (cannot fail when mediatype is one of the two)
    parameter loop over the rest:
       consumeMediaParam fails  → mediatype, ErrInvalidMediaParameter   (media type still returned!)
                                  (a lone trailing ";" ends the loop without error)
       same key again with a different value → "", "duplicate parameter name"

  So the class is json / graphql iff the trimmed, lower-cased base equals the name *and* the
  parameter loop does not end in the duplicate error. Transliterated here: `strings.Cut`,
  `TrimSpace` / `TrimLeftFunc(unicode.IsSpace)` over UTF-8 (`spaceLen`), `strings.ToLower` as far as
  it can produce an ASCII letter (ASCII upper case, U+0130 İ → i, U+212A K → k — yes,
  `APPLİCATION/JSON` is JSON), `consumeToken`, `consumeValue` (quoted strings, the MSIE backslash
  rule, CR / LF), `consumeMediaParam`, the duplicate rule (full lower-cased key, continuation keys
  `name*0` live in a map of their own but are keyed by the full key: the same rule). Core Lean only.
-/
import ApiFu.C17.Model
import ApiFu.C17.Json

namespace ApiFu.C17.Mime
open ApiFu.C17 ApiFu.C17.Json

/-- Length of the UTF-8 encoding of a `unicode.IsSpace` rune at the head (0: none).
    ASCII: HT LF VT FF CR SP; U+0085, U+00A0; U+1680, U+2000–U+200A, U+2028, U+2029, U+202F, U+205F, U+3000. -/
def spaceLen : Bytes → Nat
  | c :: rest =>
    if c = 9 || c = 10 || c = 11 || c = 12 || c = 13 || c = 32 then 1
    else match c, rest with
      | 0xC2, c1 :: _ => if c1 = 0x85 || c1 = 0xA0 then 2 else 0
      | 0xE1, c1 :: c2 :: _ => if c1 = 0x9A && c2 = 0x80 then 3 else 0
      | 0xE2, c1 :: c2 :: _ =>
        if c1 = 0x80 && ((0x80 ≤ c2 && c2 ≤ 0x8A) || c2 = 0xA8 || c2 = 0xA9 || c2 = 0xAF) then 3
        else if c1 = 0x81 && c2 = 0x9F then 3 else 0
      | 0xE3, c1 :: c2 :: _ => if c1 = 0x80 && c2 = 0x80 then 3 else 0
      | _, _ => 0
  | [] => 0

/-- `strings.TrimLeftFunc(s, unicode.IsSpace)`. -/
def trimLeft : Nat → Bytes → Bytes
  | 0, s => s
  | fuel + 1, s =>
    match spaceLen s with
    | 0 => s
    | n => trimLeft fuel (s.drop n)

def trimL (s : Bytes) : Bytes := trimLeft (s.length + 1) s

/-- `strings.ToLower` rune by rune, as far as the result can be an ASCII byte: `some c` for a rune
    that lowers to the ASCII byte `c` (with the number of bytes consumed), `none` for any other rune
    (it lowers to a non-ASCII rune or is invalid UTF-8: never equal to an ASCII name). -/
def lowerHead : Bytes → Option (Nat × Nat)
  | c :: rest =>
    if c < 0x80 then some (if 65 ≤ c && c ≤ 90 then c + 32 else c, 1)
    else match c, rest with
      | 0xC4, 0xB0 :: _ => some (105, 2)               -- U+0130 İ → i
      | 0xE2, 0x84 :: 0xAA :: _ => some (107, 3)       -- U+212A K → k
      | _, _ => none
  | [] => none

/-- Does `TrimSpace(ToLower(base))` equal the ASCII, lower-case, space-free `name`?
    (`base` already left-trimmed.) After the name only spaces may follow. -/
def matchName : Nat → Bytes → Bytes → Bool
  | 0, _, _ => false
  | fuel + 1, base, [] => allSpaces (fuel + 1) base
  | fuel + 1, base, n :: name =>
    match lowerHead base with
    | some (c, k) => c = n && matchName fuel (base.drop k) name
    | none => false
where
  allSpaces : Nat → Bytes → Bool
    | 0, s => s = []
    | fuel + 1, s => if s = [] then true else match spaceLen s with
      | 0 => false
      | n => allSpaces fuel (s.drop n)

def baseIs (name base : Bytes) : Bool := matchName (base.length + name.length + 2) (trimL base) name

/-- `strings.Cut(v, ";")`: before, and the rest *from the semicolon on* (Go continues with `v[len(base):]`). -/
def cutSemi : Bytes → Bytes × Bytes
  | [] => ([], [])
  | c :: t => if c = 59 then ([], c :: t) else let (a, b) := cutSemi t; (c :: a, b)

def isTSpecial (c : Nat) : Bool :=
  c = 40 || c = 41 || c = 60 || c = 62 || c = 64 || c = 44 || c = 59 || c = 58 || c = 92 || c = 34 ||
  c = 47 || c = 91 || c = 93 || c = 63 || c = 61

/-- `isTokenChar` (bytes ≥ 0x80 belong to non-ASCII or invalid runes: not token characters). -/
def isTokenChar (c : Nat) : Bool := c > 0x20 && c < 0x7F && !isTSpecial c

/-- `consumeToken`. -/
def consumeToken : Bytes → Bytes × Bytes
  | [] => ([], [])
  | c :: t => if isTokenChar c then let (a, b) := consumeToken t; (c :: a, b) else ([], c :: t)

/-- The quoted-string loop of `consumeValue` (after the opening quote): value and rest, `none` when
    there is no closing quote or a CR / LF comes first. -/
def quoted : Nat → Bytes → Option (Bytes × Bytes)
  | 0, _ => none
  | _, [] => none
  | fuel + 1, r :: t =>
    if r = 34 then some ([], t)
    else match t with
      | n :: t' =>
        if r = 92 && isTSpecial n then (quoted fuel t').map fun (v, rest) => (n :: v, rest)
        else if r = 13 || r = 10 then none
        else (quoted fuel t).map fun (v, rest) => (r :: v, rest)
      | [] => if r = 13 || r = 10 then none else (quoted fuel t).map fun (v, rest) => (r :: v, rest)

/-- `consumeValue`: `none` stands for `("", v)` (nothing consumed). -/
def consumeValue (v : Bytes) : Option (Bytes × Bytes) :=
  match v with
  | [] => none
  | 34 :: t => quoted (t.length + 1) t
  | _ =>
    let (tok, rest) := consumeToken v
    if tok = [] then none else some (tok, rest)

/-- `consumeMediaParam`: `none` for `("", "", v)`. The key is lower-cased (ASCII: it is a token). -/
def consumeMediaParam (v : Bytes) : Option (Bytes × Bytes × Bytes) :=
  match trimL v with
  | 59 :: r1 =>
    let (param, r2) := consumeToken (trimL r1)
    if param = [] then none else
    match trimL r2 with
    | 61 :: r3 =>
      let r4 := trimL r3
      match consumeValue r4 with
      | some (value, rest) => some (lowerAscii param, value, rest)
      | none =>
        -- `if value == "" && rest2 == rest { return "", "", v }`: an empty quoted string `""` is a value
        none
    | _ => none
  | _ => none

inductive ParamsEnd where
  | ok | invalid | duplicate
  deriving Repr, DecidableEq

/-- The parameter loop of `ParseMediaType`. -/
def paramsLoop : Nat → Bytes → List (Bytes × Bytes) → ParamsEnd
  | 0, _, _ => .ok
  | fuel + 1, v, seen =>
    let v := trimL v
    if v = [] then .ok else
    match consumeMediaParam v with
    | none =>
      -- `if strings.TrimSpace(rest) == ";" { break }` (rest = v here)
      match v with
      | 59 :: t => if trimL t = [] then .ok else .invalid
      | _ => .invalid
    | some (key, value, rest) =>
      match seen.lookup key with
      | some old => if old = value then paramsLoop fuel rest seen else .duplicate
      | none => paramsLoop fuel rest ((key, value) :: seen)

def nameJson : Bytes := [97, 112, 112, 108, 105, 99, 97, 116, 105, 111, 110, 47, 106, 115, 111, 110]
def nameGraphql : Bytes := [97, 112, 112, 108, 105, 99, 97, 116, 105, 111, 110, 47, 103, 114, 97, 112, 104, 113, 108]

/-- The media-type class the `switch` of `NewRequestFromHTTP` sees (`.other` also stands for "" and
    for every other media type: the switch treats them alike). -/
def mediaOf (header : Bytes) : Media :=
  let (base, rest) := cutSemi header
  let dup := paramsLoop (rest.length + 1) rest [] = .duplicate
  if dup then .other
  else if baseIs nameJson base then .json
  else if baseIs nameGraphql base then .graphql
  else .other

end ApiFu.C17.Mime
