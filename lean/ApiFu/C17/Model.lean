/-
  C17 — model of the request envelopes of api-fu and of the two pipelines behind them.

  What is transliterated (Go as written, quirks included):

  * `graphql.NewRequestFromHTTP`                      graphql/graphql.go:189-245   → `decideHTTP`
  * `graphqlws.Connection.handleMessage` (start)      graphql/transport/graphqlws/connection.go:151-204           → `wsDecide .graphqlWs`
  * `graphqltransportws.Connection.handleMessage`     graphql/transport/graphqltransportws/connection.go:151-184  → `wsDecide .transportWs`
  * `API.ServeGraphQL`                                api.go:224-265               → `serveGraphQL`
  * `graphqlWSHandler.HandleInit / HandleStart`       graphqlws.go:39-129          → `handleInit`, `handleStart`
  * `Config.graphqlSchemaDefinition / graphqlSchema`  config.go:139-171            → `Api.schema`

  What is a parameter (never an axiom):

  * the JSON / URL / MIME decoders of the Go standard library and of json-iterator: the fields of
    `Codec` (outcomes only: *error*, *null*, *object* …). The decision logic is a function of those
    outcomes (`AbsHttp`, `WsMsg`), which is exactly what the driver is asked about;
  * the shared pipeline pieces `ParseAndValidate` (with the cost rule), `IsSubscription`, the
    configured `execute` function: the fields of `Pipeline`;
  * the schema builder, `SchemaDefinition.Clone` and the preprocess hook: the fields of `SchemaOps`.

  Core Lean only (linked into the driver `c17model`).
-/
namespace ApiFu.C17

/-! ## Abstract request: what a transport hands to the pipeline -/

/-- The transport-filled part of `graphql.Request`. `J` is the type of decoded JSON objects
    (`map[string]interface{}`); `none` is the nil map. -/
structure Req (J : Type) where
  query : String
  operationName : String
  variables : Option J
  extensions : Option J
  deriving Repr, DecidableEq

/-! ## HTTP envelope -/

/-- `r.Method` as `NewRequestFromHTTP` distinguishes it. -/
inductive Method where
  | get | post | other
  deriving Repr, DecidableEq

/-- Go compares `r.Method` with `http.MethodGet` / `http.MethodPost` byte for byte. -/
def Method.ofString (s : String) : Method :=
  if s = "GET" then .get else if s = "POST" then .post else .other

/-- First result of `mime.ParseMediaType(Content-Type)` as the switch distinguishes it
    (`unparsable`: the error case, where the returned media type is ""). -/
inductive Media where
  | json | graphql | other | unparsable
  deriving Repr, DecidableEq

/-- The five error returns of `NewRequestFromHTTP`, in source order. -/
inductive Reject where
  | malformedVariables      -- graphql.go:202
  | malformedExtensions     -- graphql.go:210
  | malformedBody           -- graphql.go:225
  | invalidContentType      -- graphql.go:236
  | methodNotAllowed        -- graphql.go:239
  deriving Repr, DecidableEq

/-- The status code returned with each error (`http.StatusBadRequest`, `http.StatusMethodNotAllowed`). -/
def Reject.status : Reject → Nat
  | .malformedVariables => 400
  | .malformedExtensions => 400
  | .malformedBody => 400
  | .invalidContentType => 400
  | .methodNotAllowed => 405

/-- The error text (becomes the body written by `http.Error` in `ServeGraphQL`). -/
def Reject.message : Reject → String
  | .malformedVariables => "malformed variables parameter"
  | .malformedExtensions => "malformed extensions parameter"
  | .malformedBody => "malformed request body"
  | .invalidContentType => "invalid content-type"
  | .methodNotAllowed => "method not allowed"

/-- Outcome of `json.Unmarshal(text, &m)` for a nil `m : map[string]interface{}`:
    error, JSON `null` (the map stays nil), or an object. -/
inductive MapOutcome (J : Type) where
  | bad
  | null
  | obj (j : J)
  deriving Repr, DecidableEq

/-- A JSON-valued URL parameter (`variables`, `extensions`): absent, present but empty, or present
    and non-empty with the outcome of decoding it. (`url.Values.Get` cannot tell the first two
    apart; they are kept apart here so that the evidence shows both were exercised.) -/
inductive JsonParam (J : Type) where
  | absent
  | empty
  | nonempty (o : MapOutcome J)
  deriving Repr, DecidableEq

/-- Outcome of `json.NewDecoder(r.Body).Decode(&body)` for the anonymous struct of graphql.go:217-222:
    error, or the four members (absent / `null` members are "" resp. the nil map). -/
inductive BodyOutcome (J : Type) where
  | bad
  | ok (query operationName : String) (variables extensions : Option J)
  deriving Repr, DecidableEq

/-- An HTTP request as far as `NewRequestFromHTTP` looks at it, decoders already applied. -/
structure AbsHttp (J : Type) where
  method : Method
  pQuery : Option String            -- URL parameter `query` (none = absent)
  pVariables : JsonParam J
  pOperationName : Option String
  pExtensions : JsonParam J
  media : Media
  jsonBody : BodyOutcome J          -- outcome of decoding the body as the JSON envelope
  rawBody : String                  -- the body as text (`ioutil.ReadAll`, error ignored)
  deriving Repr

/-- `if s := Get(name); s != "" { if err := json.Unmarshal(...) { return 400 } }`:
    absent and empty are skipped (the map stays nil), `null` leaves the map nil. -/
def JsonParam.value {J : Type} : JsonParam J → Option (Option J)
  | .absent => some none
  | .empty => some none
  | .nonempty .bad => none
  | .nonempty .null => some none
  | .nonempty (.obj j) => some (some j)

/-- `graphql.NewRequestFromHTTP`, branch by branch. -/
def decideHTTP {J : Type} (h : AbsHttp J) : Except Reject (Req J) :=
  match h.method with
  | .get =>
    -- req.Query = r.URL.Query().Get("query")
    let query := h.pQuery.getD ""
    match h.pVariables.value with
    | none => .error .malformedVariables
    | some vars =>
      let op := h.pOperationName.getD ""
      match h.pExtensions.value with
      | none => .error .malformedExtensions
      | some exts => .ok { query := query, operationName := op, variables := vars, extensions := exts }
  | .post =>
    -- req.Query = r.URL.Query().Get("query"); every surviving branch below overwrites it
    let _urlQuery := h.pQuery.getD ""
    match h.media with
    | .json =>
      match h.jsonBody with
      | .bad => .error .malformedBody
      | .ok q op vars exts =>
        -- the JSON members overwrite unconditionally (an empty `query` member wins over `?query=`)
        .ok { query := q, operationName := op, variables := vars, extensions := exts }
    | .graphql =>
      -- body, _ := ioutil.ReadAll(r.Body); req.Query = string(body)
      .ok { query := h.rawBody, operationName := "", variables := none, extensions := none }
    | .other => .error .invalidContentType
    | .unparsable => .error .invalidContentType
  | .other => .error .methodNotAllowed

/-! ## WebSocket start / subscribe envelopes -/

inductive WsKind where
  | graphqlWs          -- subprotocol "graphql-ws", message type "start"
  | transportWs        -- subprotocol "graphql-transport-ws", message type "subscribe"
  deriving Repr, DecidableEq

/-- Outcome of `jsoniter.Unmarshal(msg.Payload, &payload)` for the struct of connection.go:195-199 /
    175-179: error (also for an absent payload: empty input), or the three members. -/
inductive PayloadOutcome (J : Type) where
  | bad
  | ok (query : String) (variables : Option J) (operationName : String)
  deriving Repr, DecidableEq

/-- An incoming text frame, decoders applied: not a JSON message at all (`json.Unmarshal(data, &msg)`
    fails), or an operation-starting message (`start` resp. `subscribe`) with its id and payload.
    Other message types belong to C08. -/
inductive WsMsg (J : Type) where
  | undecodable
  | start (id : String) (payload : PayloadOutcome J)
  deriving Repr, DecidableEq

/-- What `handleMessage` does with it. -/
inductive WsAct (J : Type) where
  | ignore                                   -- return without any effect
  | close (code : Nat) (text : String)       -- beginClosing(code, text)
  | handleStart (id query : String) (variables : Option J) (operationName : String)
  deriving Repr, DecidableEq

/-- `handleMessage` of both WebSocket transports, restricted to operation-starting messages. -/
def wsDecide {J : Type} (k : WsKind) (didInit : Bool) : WsMsg J → WsAct J
  | .undecodable =>
    match k with
    | .graphqlWs => .ignore                                      -- "ignore malformed messages"
    | .transportWs => .close 4400 "unable to deserialize message"
  | .start id p =>
    if !didInit then .ignore else
    match p with
    | .bad =>
      match k with
      | .graphqlWs => .ignore
      | .transportWs => .close 4400 "unable to deserialize payload"
    | .ok q vars op => .handleStart id q vars op

/-! ## The pipelines

  The pipeline pieces run application code (resolvers, cost functions, the `Execute` hook) and so
  have effects — the property speaks about them ("nothing is executed"). They are therefore
  *monadic* parameters: `m` is any monad; an exchange in which no piece is invoked is literally
  `pure …`. -/

/-- The pieces both pipelines call. `Doc` = validated document, `Resp` = `*graphql.Response`,
    `Ctx` = the Go context the resolvers see, `Feat` = `graphql.FeatureSet`, `Cost` = `graphql.FieldCost`. -/
structure Pipeline (m : Type → Type) (J Schema Feat Cost Ctx Doc Resp : Type) where
  /-- `graphql.ParseAndValidate(query, schema, features, req.ValidateCost(-1, &info.Cost, defaultCost))`;
      the cost rule closes over `OperationName` and `VariableValues` (and runs the schema's cost
      functions). Errors come back already wrapped as `&graphql.Response{Errors: errs}`; success
      carries the document and `info.Cost`. -/
  parseAndValidate : String → Schema → Feat → String → Option J → Cost → m (Except Resp (Doc × Nat))
  /-- `graphql.IsSubscription(doc, operationName)` (pure: inspects the document). -/
  isSubscription : Doc → String → Bool
  /-- `api.execute(req, &info)` (`Config.Execute`, by default `graphql.Execute`): runs resolvers. -/
  execute : Ctx → Schema → Feat → Doc → Req J → Nat → m Resp

/-- `SchemaDefinition`-level operations of config.go:139-171. `Schema` stands for the built schema
    *as the pipeline can observe it* (two builds that no request can tell apart are equal). -/
structure SchemaOps (Def Schema : Type) where
  build : Def → Schema                -- graphql.NewSchema
  clone : Def → Def                   -- SchemaDefinition.Clone (deep_copy.go)

/-- An `API` value: configuration as far as the two pipelines read it. -/
structure Api (Def Feat Cost Ctx : Type) where
  definition : Def
  preprocess : Option (Def → Def)      -- Config.PreprocessGraphQLSchemaDefinition
  featuresFn : Option (Ctx → Feat)     -- Config.Features
  nilFeatures : Feat                   -- the zero FeatureSet
  defaultCost : Cost                   -- Config.DefaultFieldCost

/-- config.go:154-160: with a preprocess hook the definition is cloned, the hook runs on the clone. -/
def Api.schema {Def Schema Feat Cost Ctx : Type} (S : SchemaOps Def Schema)
    (a : Api Def Feat Cost Ctx) : Schema :=
  match a.preprocess with
  | none => S.build a.definition
  | some f => S.build (f (S.clone a.definition))

/-- `if api.config.Features != nil { req.Features = api.config.Features(ctx) }` -/
def Api.features {Def Feat Cost Ctx : Type} (a : Api Def Feat Cost Ctx) (ctx : Ctx) : Feat :=
  match a.featuresFn with
  | none => a.nilFeatures
  | some f => f ctx

section pipelines
variable {m : Type → Type} [Monad m] {J Def Schema Feat Cost Ctx Doc Resp : Type}

/-- The one computation every transport is supposed to perform for a query or mutation:
    parse + validate with the cost rule, then execute. -/
def core (P : Pipeline m J Schema Feat Cost Ctx Doc Resp) (schema : Schema) (feat : Feat) (cost : Cost)
    (ctx : Ctx) (req : Req J) : m Resp := do
  match ← P.parseAndValidate req.query schema feat req.operationName req.variables cost with
  | .error resp => pure resp
  | .ok (doc, c) => P.execute ctx schema feat doc req c

/-- What an HTTP exchange produces. -/
inductive HttpOut (Resp : Type) where
  | error (status : Nat) (body : String)     -- http.Error(w, err.Error(), code)
  | ok (resp : Resp)                         -- 200, JSON body of the response
  deriving Repr, DecidableEq

/-- `API.ServeGraphQL` (api.go:224-265) without persisted-query storage, after the envelope decoders. -/
def serveGraphQL (P : Pipeline m J Schema Feat Cost Ctx Doc Resp) (S : SchemaOps Def Schema)
    (a : Api Def Feat Cost Ctx) (ctx : Ctx) (h : AbsHttp J) : m (HttpOut Resp) :=
  match decideHTTP h with
  | .error rj => pure (.error rj.status rj.message)
  | .ok req => do
    let schema := a.schema S
    let feat := a.features ctx
    -- execute := func(req) { ParseAndValidate(…cost rule…) → errors | api.execute(req, &info) }
    match ← P.parseAndValidate req.query schema feat req.operationName req.variables a.defaultCost with
    | .error resp => pure (.ok resp)
    | .ok (doc, c) => do
      let resp ← P.execute ctx schema feat doc req c
      pure (.ok resp)

/-- What a `start` / `subscribe` produces on the connection. -/
inductive WsOut (Resp : Type) where
  | nothing                                   -- message ignored
  | closed (code : Nat) (text : String)
  | dataThenComplete (id : String) (resp : Resp)   -- SendData(id, resp); SendComplete(id)
  | subscription (id : String)                -- the subscribe branch (C08)
  deriving Repr, DecidableEq

/-- `graphqlWSHandler.HandleInit`: the connection's feature set is computed once, from the
    connection context. -/
def handleInit (a : Api Def Feat Cost Ctx) (connCtx : Ctx) : Feat := a.features connCtx

/-- `graphqlWSHandler.HandleStart` (graphqlws.go:52-129). -/
def handleStart (P : Pipeline m J Schema Feat Cost Ctx Doc Resp) (S : SchemaOps Def Schema)
    (a : Api Def Feat Cost Ctx) (connCtx : Ctx) (connFeat : Feat)
    (id query : String) (variables : Option J) (operationName : String) : m (WsOut Resp) := do
  let schema := a.schema S
  -- Extensions is not set on this path
  let req : Req J := { query := query, operationName := operationName, variables := variables, extensions := none }
  match ← P.parseAndValidate req.query schema connFeat req.operationName req.variables a.defaultCost with
  | .error resp => pure (.dataThenComplete id resp)
  | .ok (doc, c) =>
    if P.isSubscription doc operationName then pure (.subscription id)
    else do
      let resp ← P.execute connCtx schema connFeat doc req c
      pure (.dataThenComplete id resp)

/-- A whole `start` / `subscribe` exchange on an initialised (or not) connection. -/
def serveWS (P : Pipeline m J Schema Feat Cost Ctx Doc Resp) (S : SchemaOps Def Schema)
    (a : Api Def Feat Cost Ctx) (k : WsKind) (didInit : Bool) (connCtx : Ctx) (msg : WsMsg J) : m (WsOut Resp) :=
  match wsDecide k didInit msg with
  | .ignore => pure .nothing
  | .close code text => pure (.closed code text)
  | .handleStart id q vars op => handleStart P S a connCtx (handleInit a connCtx) id q vars op

end pipelines

/-! ## Concrete envelopes and codecs

  The decoders of the Go standard library / json-iterator are *parameters*. A concrete request is
  raw text; `Codec` turns it into outcomes; `abstractHTTP` / `abstractWS` apply it exactly where
  the Go code applies the corresponding decoder. -/

structure HttpReq where
  method : String
  rawQuery : String          -- r.URL.RawQuery
  contentType : String       -- r.Header.Get("Content-Type")
  body : String
  deriving Repr, DecidableEq

/-- Decoders (outcomes only). -/
structure Codec (J : Type) where
  /-- `r.URL.Query()[name]`, first value (`none`: the parameter is absent). -/
  urlGet : String → String → Option String
  /-- `mime.ParseMediaType` as the switch sees it. -/
  mediaType : String → Media
  /-- `json.Unmarshal([]byte(s), &m)` into a nil map. -/
  unmarshalMap : String → MapOutcome J
  /-- `json.NewDecoder(body).Decode(&struct)` of graphql.go:217-224. -/
  decodeBody : String → BodyOutcome J
  /-- `json.Unmarshal(frame, &msg)` of both connections: `none` on error, else the message type,
      id and raw payload (absent payload = `none`). -/
  decodeMessage : String → Option (String × String × Option String)
  /-- `jsoniter.Unmarshal(payload, &struct)` of both connections. -/
  decodePayload : String → PayloadOutcome J

def jsonParam {J : Type} (c : Codec J) (rawQuery name : String) : JsonParam J :=
  match c.urlGet rawQuery name with
  | none => .absent
  | some s => if s = "" then .empty else .nonempty (c.unmarshalMap s)

def abstractHTTP {J : Type} (c : Codec J) (h : HttpReq) : AbsHttp J :=
  { method := Method.ofString h.method
    pQuery := c.urlGet h.rawQuery "query"
    pVariables := jsonParam c h.rawQuery "variables"
    pOperationName := c.urlGet h.rawQuery "operationName"
    pExtensions := jsonParam c h.rawQuery "extensions"
    media := c.mediaType h.contentType
    jsonBody := c.decodeBody h.body
    rawBody := h.body }

/-- `graphql.NewRequestFromHTTP` on a concrete request. -/
def newRequestFromHTTP {J : Type} (c : Codec J) (h : HttpReq) : Except Reject (Req J) :=
  decideHTTP (abstractHTTP c h)

/-- The message type that starts an operation. -/
def WsKind.startType : WsKind → String
  | .graphqlWs => "start"
  | .transportWs => "subscribe"

/-- A text frame as `wsDecide` sees it; `none`: some other message type (not modelled here). -/
def abstractWS {J : Type} (c : Codec J) (k : WsKind) (frame : String) : Option (WsMsg J) :=
  match c.decodeMessage frame with
  | none => some .undecodable
  | some (ty, id, payload) =>
    if ty = k.startType then
      match payload with
      | none => some (.start id .bad)              -- jsoniter.Unmarshal(nil, …) fails
      | some p => some (.start id (c.decodePayload p))
    else none

end ApiFu.C17
