/-
  C17 — helper lemmas, and a concrete lawful codec (`packCodec` / `packEncoders`) over real strings
  showing that the `Lawful` hypothesis of the theorems is satisfiable. The codec is not JSON: it is a
  length-prefixed packing of string lists (each item: its length in unary, a bar, the item). What
  matters for the theorems is only the left-inverse laws, which it has.
-/
import ApiFu.C17.Model
import ApiFu.C17.Spec
import ApiFu.C17.UrlCodec

namespace ApiFu.C17

/-! ## Small facts about the model -/

theorem JsonParam.value_none {J : Type} {p : JsonParam J} (h : p.value = none) : p = .nonempty .bad := by
  cases p with
  | absent => simp [JsonParam.value] at h
  | empty => simp [JsonParam.value] at h
  | nonempty o => cases o <;> simp [JsonParam.value] at h ⊢

theorem JsonParam.value_some_of_ne_bad {J : Type} {p : JsonParam J} (h : p ≠ .nonempty .bad) :
    ∃ v, p.value = some v := by
  cases p with
  | absent => exact ⟨_, rfl⟩
  | empty => exact ⟨_, rfl⟩
  | nonempty o =>
    cases o with
    | bad => exact absurd rfl h
    | null => exact ⟨_, rfl⟩
    | obj j => exact ⟨_, rfl⟩

theorem getParams_nodup {J : Type} (e : Encoders J) (r : Req J) : ((getParams e r).map Prod.fst).Nodup := by
  obtain ⟨q, op, v, x⟩ := r
  cases v <;> cases x <;> simp [getParams] <;> decide

/-! ## Packing string lists -/

def packOne (s : List Char) : List Char := List.replicate s.length 'a' ++ '|' :: s

def packL : List (List Char) → List Char
  | [] => []
  | s :: rest => packOne s ++ packL rest

def unpackL : Nat → List Char → Option (List (List Char))
  | 0, _ => none
  | _ + 1, [] => some []
  | fuel + 1, c :: cs =>
    let n := ((c :: cs).takeWhile (· == 'a')).length
    match (c :: cs).drop n with
    | '|' :: rest =>
      if rest.length < n then none
      else (unpackL fuel (rest.drop n)).map (rest.take n :: ·)
    | _ => none

theorem takeWhile_replicate_a (n : Nat) (t : List Char) :
    (List.replicate n 'a' ++ '|' :: t).takeWhile (· == 'a') = List.replicate n 'a' := by
  induction n with
  | zero => simp
  | succ n ih => simp [List.replicate_succ, ih]

theorem packOne_ne_nil (s : List Char) (t : List Char) : packOne s ++ t ≠ [] := by
  simp [packOne]

theorem unpackL_pack (l : List (List Char)) : ∀ fuel, l.length < fuel → unpackL fuel (packL l) = some l := by
  induction l with
  | nil =>
    intro fuel hf
    cases fuel with
    | zero => omega
    | succ f => rfl
  | cons s rest ih =>
    intro fuel hf
    cases fuel with
    | zero => omega
    | succ f =>
      have hrest := ih f (by simp at hf; omega)
      have hshape : packL (s :: rest) = List.replicate s.length 'a' ++ '|' :: (s ++ packL rest) := by
        simp [packL, packOne]
      rw [hshape]
      cases hcs : List.replicate s.length 'a' ++ '|' :: (s ++ packL rest) with
      | nil => simp at hcs
      | cons c cs =>
        unfold unpackL
        simp only
        rw [← hcs, takeWhile_replicate_a]
        simp only [List.length_replicate]
        have hdrop : (List.replicate s.length 'a' ++ '|' :: (s ++ packL rest)).drop s.length = '|' :: (s ++ packL rest) := by
          simp
        rw [hdrop]
        simp only
        have hlen : ¬ (s ++ packL rest).length < s.length := by simp
        rw [if_neg hlen]
        rw [List.drop_left, List.take_left, hrest]
        rfl

def packS (l : List String) : String := String.ofList (packL (l.map String.toList))

def unpackS (s : String) : Option (List String) :=
  (unpackL (s.length + 1) s.toList).map (·.map String.ofList)

theorem packL_length_ge (l : List (List Char)) : l.length ≤ (packL l).length := by
  induction l with
  | nil => simp [packL]
  | cons s rest ih => simp [packL, packOne]; omega

theorem unpackS_packS (l : List String) : unpackS (packS l) = some l := by
  unfold unpackS packS
  rw [String.toList_ofList, String.length_ofList]
  rw [unpackL_pack]
  · simp
  · have := packL_length_ge (l.map String.toList)
    simp at this
    simp
    omega

/-! ## The codec -/

def lookupFlat : List String → String → Option String
  | k' :: v :: rest, k => if k == k' then some v else lookupFlat rest k
  | _, _ => none

def flatten : List (String × String) → List String
  | [] => []
  | (k, v) :: rest => k :: v :: flatten rest

theorem lookupFlat_flatten (kvs : List (String × String)) (k : String) :
    lookupFlat (flatten kvs) k = kvs.lookup k := by
  induction kvs with
  | nil => rfl
  | cons kv rest ih =>
    obtain ⟨k', v⟩ := kv
    simp only [flatten, lookupFlat, List.lookup]
    cases hk : k == k' <;> simp [ih]

def optEnc : Option String → String
  | none => "n"
  | some j => "s" ++ j

def optDec (s : String) : Option (Option String) :=
  match s.toList with
  | ['n'] => some none
  | 's' :: rest => some (some (String.ofList rest))
  | _ => none

theorem optDec_optEnc (o : Option String) : optDec (optEnc o) = some o := by
  cases o with
  | none => rfl
  | some j => simp [optEnc, optDec, String.toList_append, String.ofList_toList]

def packEncoders : Encoders String where
  urlEncode kvs := packS (flatten kvs)
  marshalMap j := "m" ++ j
  encodeBody r := packS [r.query, r.operationName, optEnc r.variables, optEnc r.extensions]
  encodePayload q v op := packS [q, optEnc v, op]
  encodeMessage ty id p := packS [ty, id, p]

def packCodec : Codec String where
  urlGet raw k :=
    match unpackS raw with
    | some l => lookupFlat l k
    | none => none
  mediaType s := if s = "application/json" then .json else if s = "application/graphql" then .graphql else .other
  unmarshalMap s :=
    match s.toList with
    | 'm' :: rest => .obj (String.ofList rest)
    | _ => if s = "null" then .null else .bad
  decodeBody s :=
    match unpackS s with
    | some [q, op, v, e] =>
      match optDec v, optDec e with
      | some v, some e => .ok q op v e
      | _, _ => .bad
    | _ => .bad
  decodeMessage s :=
    match unpackS s with
    | some [ty, id, p] => some (ty, id, some p)
    | _ => none
  decodePayload s :=
    match unpackS s with
    | some [q, v, op] =>
      match optDec v with
      | some v => .ok q v op
      | none => .bad
    | _ => .bad

theorem pack_lawful : Lawful packCodec packEncoders where
  url_get kvs k _ := by
    simp only [packCodec, packEncoders, unpackS_packS, lookupFlat_flatten]
  map_roundtrip j := by
    simp [packCodec, packEncoders, String.toList_append, String.ofList_toList]
  map_nonempty j := by
    intro h
    have := congrArg String.toList h
    simp [packEncoders, String.toList_append] at this
  body_roundtrip r := by
    simp only [packCodec, packEncoders, unpackS_packS, optDec_optEnc]
  media_json := by simp [packCodec]
  media_graphql := by simp [packCodec]
  message_roundtrip ty id p := by
    simp only [packCodec, packEncoders, unpackS_packS]
  payload_roundtrip q v op := by
    simp only [packCodec, packEncoders, unpackS_packS, optDec_optEnc]

/-- The same codec with its URL functions replaced by the net/url transliteration. -/
def goPackCodec : Codec String where
  urlGet := Url.goUrlGet
  mediaType := packCodec.mediaType
  unmarshalMap := packCodec.unmarshalMap
  decodeBody := packCodec.decodeBody
  decodeMessage := packCodec.decodeMessage
  decodePayload := packCodec.decodePayload

def goPackEncoders : Encoders String where
  urlEncode := Url.goUrlEncode
  marshalMap := packEncoders.marshalMap
  encodeBody := packEncoders.encodeBody
  encodePayload := packEncoders.encodePayload
  encodeMessage := packEncoders.encodeMessage

end ApiFu.C17
