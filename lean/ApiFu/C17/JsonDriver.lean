/-
  C17 driver operations for the byte-level JSON model (`Json.lean`). Byte strings travel as
  `x` followed by hex digits.

    (jpost x<hex body>)      → bad | (env x<query> x<operationName> <map> <map>)
    (jpayload x<hex>)        → bad | (env x<query> x<operationName> <map> nil)
    (jmap x<hex text>)       → bad | <map>
    (jframe x<hex frame>)    → bad | (msg x<id> x<type> nil|(raw x<payload>))
    (jmedia x<hex header>)   → json | graphql | other   (Mime.mediaOf: what the Content-Type switch sees)
    (jwf x<hex>)             → bad | true | false     (JsonTame.wellFormedEnvelope of the first value)
        map := nil | (obj (x<key> <val>) …)      keys sorted bytewise (Go maps are unordered)
        val := null | true | false | (num "<literal>") | (str x<bytes>) | (arr <val> …) | (obj …)
-/
import ApiFu.Common.Sexp
import ApiFu.C17.Json
import ApiFu.C17.JsonTame
import ApiFu.C17.Mime

namespace ApiFu.C17.Json
open ApiFu

def hexDigitChar (n : Nat) : Char := Char.ofNat (if n < 10 then 48 + n else 87 + n)

def toHex (b : Bytes) : String :=
  String.ofList ('x' :: b.flatMap fun c => [hexDigitChar (c / 16), hexDigitChar (c % 16)])

def ofHexChars : List Char → Option Bytes
  | [] => some []
  | a :: b :: t =>
    if isHex a.toNat && isHex b.toNat then (ofHexChars t).map fun r => (hexVal a.toNat * 16 + hexVal b.toNat) :: r else none
  | _ => none

def ofHex (s : String) : Option Bytes :=
  match s.toList with
  | 'x' :: t => ofHexChars t
  | _ => none

def bytesLt : Bytes → Bytes → Bool
  | [], [] => false
  | [], _ :: _ => true
  | _ :: _, [] => false
  | a :: s, b :: t => a < b || (a == b && bytesLt s t)

def insertSorted (k : Bytes) (x : Sexp) : List (Bytes × Sexp) → List (Bytes × Sexp)
  | [] => [(k, x)]
  | (k', x') :: t => if bytesLt k k' then (k, x) :: (k', x') :: t else (k', x') :: insertSorted k x t

mutual
  def valSexp : JVal → Sexp
    | .null => Sexp.atom "null"
    | .tru => Sexp.atom "true"
    | .fls => Sexp.atom "false"
    | .num lit => Sexp.node "num" [Sexp.str (String.ofList (lit.map Char.ofNat))]
    | .str s => Sexp.node "str" [Sexp.atom (toHex s)]
    | .arr xs => Sexp.node "arr" (listSexp xs)
    | .obj ms => Sexp.node "obj" ((memsSexp ms []).map Prod.snd)
  def listSexp : JList → List Sexp
    | .nil => []
    | .cons v t => valSexp v :: listSexp t
  def memsSexp : JMems → List (Bytes × Sexp) → List (Bytes × Sexp)
    | .nil, acc => acc
    | .cons k v t, acc => memsSexp t (insertSorted k (Sexp.list [Sexp.atom (toHex k), valSexp v]) acc)
end

def mapSexp : Option JMems → Sexp
  | none => Sexp.atom "nil"
  | some ms => valSexp (.obj ms)

def envSexp (e : Env) : Sexp :=
  Sexp.node "env" [Sexp.atom (toHex e.query), Sexp.atom (toHex e.operationName), mapSexp e.variables, mapSexp e.extensions]

def jsonHandle (op : String) (arg : String) : String :=
  match ofHex arg with
  | none => "bad-op"
  | some b =>
    if op = "jpost" then
      match postDecode b with
      | none => "bad"
      | some e => toString (envSexp e)
    else if op = "jpayload" then
      match wsPayloadDecode b with
      | none => "bad"
      | some e => toString (envSexp e)
    else if op = "jmap" then
      match getMapDecode b with
      | none => "bad"
      | some m => toString (mapSexp m)
    else if op = "jframe" then
      match decodeMsg b with
      | none => "bad"
      | some m =>
        let p := match m.payload with
          | none => Sexp.atom "nil"
          | some raw => Sexp.node "raw" [Sexp.atom (toHex raw)]
        toString (Sexp.node "msg" [Sexp.atom (toHex m.id), Sexp.atom (toHex m.type), p])
    else if op = "jmedia" then
      match Mime.mediaOf b with
      | .json => "json"
      | .graphql => "graphql"
      | _ => "other"
    else if op = "jwf" then
      -- is the envelope (first value of the bytes) in the class of transport_same_request_bytes_wellformed?
      match parseFirst b with
      | none => "bad"
      | some (v, _) => if wellFormedEnvelope v then "true" else "false"
    else "bad-op"

end ApiFu.C17.Json
