/-
  C17 — the property at byte level, end to end: the same envelope bytes as an HTTP POST
  application/json body and as the payload of a WebSocket start / subscribe frame yield the same
  response computation. Everything between the wire and the shared pipeline is modelled
  (mime, encoding/json, json-iterator); the pipeline itself (`core`) is the one parameter.
-/
import ApiFu.C17.Props
import ApiFu.C17.JsonBridge
import ApiFu.C17.JsonProps
import ApiFu.C17.JsonTame
import ApiFu.C17.MimeProps

namespace ApiFu.C17.Json
open ApiFu.C17

section
variable {m : Type → Type} [Monad m] [LawfulMonad m] {Def Schema Feat Cost Ctx Doc Resp : Type}

/-- **transports_agree_bytes** — let `b` be any byte string whose envelope is well-formed text
    (`wellFormedEnvelope`, decidable) and carries no `extensions`; send it (1) as the body of a POST
    whose Content-Type `mime.ParseMediaType` reads as application/json — URL arbitrary — and (2) as
    the payload of a start / subscribe frame `f` (any frame bytes that encoding/json decodes to that
    type with payload `b`; id arbitrary) on an initialised connection of either WebSocket protocol,
    for the same principal (`ctx`). If both decoders accept `b` and the operation is not a
    subscription, then both exchanges are the *same* computation `core` on the *same* request —
    delivered as a 200 response resp. as one data frame + complete: same response, same effects. -/
theorem transports_agree_bytes (P : Pipeline m JMems Schema Feat Cost Ctx Doc Resp) (S : SchemaOps Def Schema)
    (a : Api Def Feat Cost Ctx) (ctx : Ctx) (b : Bytes) (h : HttpRaw) (k : WsKind) (f : Bytes) (msg : Msg)
    (r w : Env)
    (hpost : h.method = .post) (hct : Mime.mediaOf h.contentType = .json) (hbody : h.body = b)
    (hframe : decodeMsg f = some msg) (htype : msg.type = startTypeB k) (hpayload : msg.payload = some b)
    (hp : postDecode b = some r) (hw : wsPayloadDecode b = some w)
    (hwf : ∀ v rest, parseFirst b = some (v, rest) → wellFormedEnvelope v = true)
    (hext : r.extensions = none)
    (hsub : ∀ doc, P.isSubscription doc (latin1 r.operationName) = false) :
    let req : Req JMems := { query := latin1 r.query, operationName := latin1 r.operationName,
                             variables := r.variables, extensions := none }
    let run := core P (a.schema S) (a.features ctx) a.defaultCost ctx req
    serveGraphQL P S a ctx (abstractBytes h.toBytes) = HttpOut.ok <$> run ∧
    (abstractFrame k f).map (serveWS P S a k true ctx) = some (WsOut.dataThenComplete (latin1 msg.id) <$> run) := by
  obtain ⟨hq, ho, hv⟩ := transport_same_request_bytes_wellformed b r w hp hw hwf
  constructor
  · rw [serveGraphQL_eq_core]
    have : decideHTTP (abstractBytes h.toBytes) =
        .ok { query := latin1 r.query, operationName := latin1 r.operationName, variables := r.variables, extensions := none } := by
      simp [HttpRaw.toBytes, decideHTTP, abstractBytes, hpost, hct, hbody, bodyOutcome, hp, hext]
    rw [this]
  · simp only [abstractFrame, hframe, htype, if_true, Option.map_some, payloadOutcome, hpayload, hw]
    simp only [serveWS, wsDecide, Bool.not_true, Bool.false_eq_true, if_false, handleInit]
    rw [handleStart_eq_core P S a ctx (a.features ctx) _ _ _ _ (by rw [← ho]; exact hsub)]
    rw [← hq, ← ho, ← hv]

end

/-- Non-vacuity: the frame `{"type":"start","id":"1","payload":<sampleBody>}` decodes to a start
    message with id "1" whose payload is exactly `sampleBody`, which both decoders accept, which is
    well-formed and carries no extensions. -/
def sampleFrame : Bytes :=
  [123, 34, 116, 121, 112, 101, 34, 58, 34, 115, 116, 97, 114, 116, 34, 44, 34, 105, 100, 34, 58, 34, 49, 34, 44,
   34, 112, 97, 121, 108, 111, 97, 100, 34, 58] ++ sampleBody ++ [125]

example : (decodeMsg sampleFrame).map (·.type) = some (startTypeB .graphqlWs) ∧
    (decodeMsg sampleFrame).map (·.payload) = some (some sampleBody) ∧
    (decodeMsg sampleFrame).map (·.id) = some [49] ∧
    (postDecode sampleBody).map (·.extensions.isNone) = some true ∧
    (wsPayloadDecode sampleBody).isSome = true ∧
    Mime.mediaOf (Mime.nameJson ++ [59, 32, 99, 104, 97, 114, 115, 101, 116, 61, 117, 116, 102, 45, 56]) = .json := by decide

end ApiFu.C17.Json
