/-
  C17 — property theorems. All of them hold for every monad `m` of pipeline effects, every codec
  (decoders are parameters), every pipeline, every API configuration, every request.
-/
import ApiFu.C17.Model
import ApiFu.C17.Spec
import ApiFu.C17.Lemmas
import ApiFu.C17.UrlCodec

namespace ApiFu.C17

/-! ## 1. Status codes -/

/-- **reject_status_4xx** — every error return of `NewRequestFromHTTP` carries a 4xx status. -/
theorem reject_status_4xx (rj : Reject) : 400 ≤ rj.status ∧ rj.status < 500 := by
  cases rj <;> simp [Reject.status]

/-- **reject_status_exact** — the status is 405 exactly for an unsupported method and 400 for every
    other refusal. -/
theorem reject_status_exact (rj : Reject) :
    (rj.status = 405 ↔ rj = .methodNotAllowed) ∧ (rj.status = 400 ↔ rj ≠ .methodNotAllowed) := by
  cases rj <;> simp [Reject.status]

/-! ## 2. `NewRequestFromHTTP` against the declarative envelope -/

/-- **decideHTTP_ok_iff** — the model of `NewRequestFromHTTP` returns request `r` exactly when the
    declarative envelope says `h` carries `r` (GET parameters / JSON body / graphql body). -/
theorem decideHTTP_ok_iff {J : Type} (h : AbsHttp J) (r : Req J) :
    decideHTTP h = .ok r ↔ Accepts h r := by
  constructor
  · intro hd
    unfold decideHTTP at hd
    split at hd
    · rename_i hm
      split at hd
      · cases hd
      · rename_i v hv
        split at hd
        · cases hd
        · rename_i e he
          cases hd
          exact Accepts.get h v e hm hv he
    · rename_i hm
      simp only at hd
      split at hd
      · rename_i hmedia
        split at hd
        · cases hd
        · rename_i q op v e hb
          cases hd
          exact Accepts.postJson h q op v e hm hmedia hb
      · rename_i hmedia
        cases hd
        exact Accepts.postGraphql h hm hmedia
      · cases hd
      · cases hd
    · cases hd
  · intro ha
    cases ha with
    | get v e hm hv he => simp [decideHTTP, hm, hv, he]
    | postJson q op v e hm hmedia hb => simp [decideHTTP, hm, hmedia, hb]
    | postGraphql hm hmedia => simp [decideHTTP, hm, hmedia]

/-- **decideHTTP_error_iff** — it refuses with reason `rj` (hence with `rj.status`, `rj.message`)
    exactly when the declarative envelope refuses for that reason: the status code and message are
    exact per branch. -/
theorem decideHTTP_error_iff {J : Type} (h : AbsHttp J) (rj : Reject) :
    decideHTTP h = .error rj ↔ Rejects h rj := by
  constructor
  · intro hd
    unfold decideHTTP at hd
    split at hd
    · rename_i hm
      split at hd
      · rename_i hv
        cases hd
        refine Rejects.variables h hm ?_
        exact JsonParam.value_none hv
      · rename_i v hv
        split at hd
        · rename_i he
          cases hd
          refine Rejects.extensions h hm ?_ (JsonParam.value_none he)
          intro hbad
          simp [hbad, JsonParam.value] at hv
        · cases hd
    · rename_i hm
      simp only at hd
      split at hd
      · rename_i hmedia
        split at hd
        · rename_i hb
          cases hd
          exact Rejects.body h hm hmedia hb
        · cases hd
      · cases hd
      · rename_i hmedia
        cases hd
        exact Rejects.contentType h hm (by simp [hmedia]) (by simp [hmedia])
      · rename_i hmedia
        cases hd
        exact Rejects.contentType h hm (by simp [hmedia]) (by simp [hmedia])
    · rename_i hm
      cases hd
      exact Rejects.method h hm
  · intro hr
    cases hr with
    | method hm => simp [decideHTTP, hm]
    | contentType hm h1 h2 =>
      cases hmedia : h.media <;> simp_all [decideHTTP]
    | body hm hmedia hb => simp [decideHTTP, hm, hmedia, hb]
    | variables hm hv => simp [decideHTTP, hm, hv, JsonParam.value]
    | extensions hm hv he =>
      have : ∃ v, h.pVariables.value = some v := JsonParam.value_some_of_ne_bad hv
      obtain ⟨v, hv'⟩ := this
      simp only [decideHTTP, hm, hv']
      simp [he, JsonParam.value]

/-- **malformed_iff_rejected** — the model refuses a request exactly when the property statement
    calls its envelope malformed (bad JSON, unsupported content type, unsupported method): nothing
    well-formed is refused, nothing malformed is let through. -/
theorem malformed_iff_rejected {J : Type} (h : AbsHttp J) :
    Malformed h ↔ ∃ rj, decideHTTP h = .error rj := by
  constructor
  · intro hm
    rcases hm with hm | ⟨hm, h1, h2⟩ | ⟨hm, h1, h2⟩ | ⟨hm, hv | he⟩
    · exact ⟨_, (decideHTTP_error_iff h _).2 (Rejects.method h hm)⟩
    · exact ⟨_, (decideHTTP_error_iff h _).2 (Rejects.contentType h hm h1 h2)⟩
    · exact ⟨_, (decideHTTP_error_iff h _).2 (Rejects.body h hm h1 h2)⟩
    · exact ⟨_, (decideHTTP_error_iff h _).2 (Rejects.variables h hm hv)⟩
    · by_cases hv : h.pVariables = .nonempty .bad
      · exact ⟨_, (decideHTTP_error_iff h _).2 (Rejects.variables h hm hv)⟩
      · exact ⟨_, (decideHTTP_error_iff h _).2 (Rejects.extensions h hm hv he)⟩
  · rintro ⟨rj, hd⟩
    have hr := (decideHTTP_error_iff h rj).1 hd
    cases hr with
    | method hm => exact Or.inl hm
    | contentType hm h1 h2 => exact Or.inr (Or.inl ⟨hm, h1, h2⟩)
    | body hm h1 h2 => exact Or.inr (Or.inr (Or.inl ⟨hm, h1, h2⟩))
    | variables hm hv => exact Or.inr (Or.inr (Or.inr ⟨hm, Or.inl hv⟩))
    | extensions hm _ he => exact Or.inr (Or.inr (Or.inr ⟨hm, Or.inr he⟩))

/-- **post_ignores_url_parameters** — on POST nothing of the query string survives: the `query`
    parameter is read and then overwritten on every accepting branch (also by an absent or empty
    `query` member — the quirk noted in the design), the other three are never read. -/
theorem post_ignores_url_parameters {J : Type} (h : AbsHttp J) (hm : h.method = .post)
    (q o : Option String) (v x : JsonParam J) :
    decideHTTP { h with pQuery := q, pVariables := v, pOperationName := o, pExtensions := x } = decideHTTP h := by
  simp [decideHTTP, hm]

/-- **get_ignores_body_and_content_type** — on GET neither the body nor the Content-Type header is
    looked at. -/
theorem get_ignores_body_and_content_type {J : Type} (h : AbsHttp J) (hm : h.method = .get)
    (media : Media) (jb : BodyOutcome J) (raw : String) :
    decideHTTP { h with media := media, jsonBody := jb, rawBody := raw } = decideHTTP h := by
  simp [decideHTTP, hm]

section pipelines
variable {m : Type → Type} [Monad m] [LawfulMonad m] {J Def Schema Feat Cost Ctx Doc Resp : Type}

/-! ## 3. Both pipelines are the one `core` computation -/

/-- **serveGraphQL_eq_core** — `API.ServeGraphQL` answers a refused envelope with its status and
    message *without running anything* (`pure`), and an accepted one with the response of `core`
    on the decoded request, the API's schema, the features of the request context and the
    configured default cost. -/
theorem serveGraphQL_eq_core (P : Pipeline m J Schema Feat Cost Ctx Doc Resp) (S : SchemaOps Def Schema)
    (a : Api Def Feat Cost Ctx) (ctx : Ctx) (h : AbsHttp J) :
    serveGraphQL P S a ctx h =
      match decideHTTP h with
      | .error rj => pure (.error rj.status rj.message)
      | .ok req => HttpOut.ok <$> core P (a.schema S) (a.features ctx) a.defaultCost ctx req := by
  unfold serveGraphQL core
  cases decideHTTP h with
  | error rj => rfl
  | ok req =>
    simp only [map_eq_pure_bind, bind_assoc]
    congr 1
    funext x
    match x with
    | .error resp => simp
    | .ok (doc, c) => simp

/-- **handleStart_eq_core** — for an operation that is not a subscription, `HandleStart` sends
    exactly one data frame carrying the response of `core` on (query, operationName, variables)
    with the connection's features and the configured default cost, then `complete`. -/
theorem handleStart_eq_core (P : Pipeline m J Schema Feat Cost Ctx Doc Resp) (S : SchemaOps Def Schema)
    (a : Api Def Feat Cost Ctx) (connCtx : Ctx) (connFeat : Feat) (id q : String) (v : Option J) (op : String)
    (hsub : ∀ doc, P.isSubscription doc op = false) :
    handleStart P S a connCtx connFeat id q v op =
      WsOut.dataThenComplete id <$>
        core P (a.schema S) connFeat a.defaultCost connCtx { query := q, operationName := op, variables := v, extensions := none } := by
  unfold handleStart core
  simp only [map_eq_pure_bind, bind_assoc]
  congr 1
  funext x
  match x with
  | .error resp => simp
  | .ok (doc, c) => simp [hsub doc]

/-! ## 4. Malformed envelopes: 4xx / ignored / closed, and nothing runs -/

/-- **malformed_envelope_4xx** — a malformed HTTP envelope (bad JSON in the body or in the
    `variables` / `extensions` parameter, unsupported content type, unsupported method) is answered
    with a status in 4xx, and the whole exchange is `pure`: no pipeline piece — parser, validator,
    cost functions, resolvers, the `Execute` hook — is invoked, whatever they are. -/
theorem malformed_envelope_4xx (P : Pipeline m J Schema Feat Cost Ctx Doc Resp) (S : SchemaOps Def Schema)
    (a : Api Def Feat Cost Ctx) (ctx : Ctx) (h : AbsHttp J) (hm : Malformed h) :
    ∃ rj : Reject, serveGraphQL P S a ctx h = pure (.error rj.status rj.message) ∧
      400 ≤ rj.status ∧ rj.status < 500 ∧ Rejects h rj := by
  obtain ⟨rj, hd⟩ := (malformed_iff_rejected h).1 hm
  refine ⟨rj, ?_, (reject_status_4xx rj).1, (reject_status_4xx rj).2, (decideHTTP_error_iff h rj).1 hd⟩
  rw [serveGraphQL_eq_core, hd]

omit [LawfulMonad m] in
/-- **ws_malformed_nothing_executed** — a frame that is not a message, a start / subscribe whose
    payload does not decode, or one that arrives before `connection_init`, is ignored
    (graphql-ws, and graphql-transport-ws before init) or closes the connection with 4400
    (graphql-transport-ws); either way the exchange is `pure`: nothing is executed. -/
theorem ws_malformed_nothing_executed (P : Pipeline m J Schema Feat Cost Ctx Doc Resp) (S : SchemaOps Def Schema)
    (a : Api Def Feat Cost Ctx) (k : WsKind) (didInit : Bool) (ctx : Ctx) (msg : WsMsg J)
    (hm : WsMalformed didInit msg) :
    serveWS P S a k didInit ctx msg = pure .nothing ∨
    ∃ text, serveWS P S a k didInit ctx msg = pure (.closed 4400 text) := by
  cases msg with
  | undecodable =>
    cases k
    · left; rfl
    · right; exact ⟨_, rfl⟩
  | start id p =>
    rcases hm with hi | hp
    · left; subst hi; rfl
    · subst hp
      cases didInit
      · left; rfl
      · cases k
        · left; rfl
        · right; exact ⟨_, rfl⟩

/-- **ws_wellformed_reaches_handler** — conversely a start / subscribe with a decodable payload on
    an initialised connection always reaches `HandleStart` with exactly the decoded members. -/
theorem ws_wellformed_reaches_handler {J : Type} (k : WsKind) (id q : String) (v : Option J) (op : String) :
    wsDecide k true (.start id (.ok q v op)) = .handleStart id q v op := by
  cases k <;> rfl

/-! ## 5. Every transport decodes what the client encoded -/

/-- **transport_same_request** — for every request `r` and every transport `t` that has room for
    `r`, decoding what a client encoded gives back exactly `r` (for HTTP: the request handed to
    the pipeline; for WebSocket: the arguments of `HandleStart`), provided the JSON / URL / MIME
    encoders are left inverses of the server's decoders. Whatever else the concrete request
    carries (`Extras`: a body on GET, a query string on POST, the operation id) is irrelevant. -/
theorem transport_same_request {J : Type} (c : Codec J) (e : Encoders J) (law : Lawful c e)
    (x : Extras) (t : Transport) (r : Req J) (hc : canCarry t r) :
    decode c true (encode e x t r) =
      match t with
      | .httpGet | .httpPostJson | .httpPostGraphql => .request r
      | .graphqlWs | .transportWs => .wsStart x.id r := by
  cases t with
  | httpGet =>
    have hnd : ((getParams e r).map Prod.fst).Nodup := getParams_nodup e r
    have hq := law.url_get (getParams e r) "query" hnd
    have ho := law.url_get (getParams e r) "operationName" hnd
    have hv := law.url_get (getParams e r) "variables" hnd
    have hx := law.url_get (getParams e r) "extensions" hnd
    obtain ⟨q, op, v, ex⟩ := r
    simp only [decode, encode, newRequestFromHTTP, abstractHTTP, jsonParam, hq, ho, hv, hx]
    cases v <;> cases ex <;>
      simp [getParams, List.lookup, decideHTTP, Method.ofString, JsonParam.value, law.map_roundtrip, law.map_nonempty]
  | httpPostJson =>
    obtain ⟨q, op, v, ex⟩ := r
    simp [decode, encode, newRequestFromHTTP, abstractHTTP, decideHTTP, Method.ofString, law.media_json, law.body_roundtrip]
  | httpPostGraphql =>
    obtain ⟨q, op, v, ex⟩ := r
    obtain ⟨h1, h2, h3⟩ := hc
    simp only at h1 h2 h3
    subst h1 h2 h3
    simp [decode, encode, newRequestFromHTTP, abstractHTTP, decideHTTP, Method.ofString, law.media_graphql]
  | graphqlWs =>
    obtain ⟨q, op, v, ex⟩ := r
    have h3 : ex = none := hc
    subst h3
    simp [decode, encode, abstractWS, law.message_roundtrip, law.payload_roundtrip, WsKind.startType, wsDecide]
  | transportWs =>
    obtain ⟨q, op, v, ex⟩ := r
    have h3 : ex = none := hc
    subst h3
    simp [decode, encode, abstractWS, law.message_roundtrip, law.payload_roundtrip, WsKind.startType, wsDecide]

/-! ## 5b. The URL half of the codec hypothesis is a theorem -/

/-- **goUrl_lawful** — for the byte-level transliteration of Go's net/url (`QueryEscape`,
    `QueryUnescape`, `ParseQuery`, `Values.Get`; `UrlCodec.lean`, tied to the real package by the
    harness) the `url_get` law holds outright: `URL.Query()` finds under each name the first value
    a client escaped for it — for all names and values, including `&`, `=`, `;`, `%`, `+`, spaces
    and non-ASCII text. -/
theorem goUrl_lawful (kvs : List (String × String)) (k : String) :
    Url.goUrlGet (Url.goUrlEncode kvs) k = kvs.lookup k :=
  Url.goUrl_get_encode kvs k

/-- The JSON / MIME half of `Lawful` (what remains a hypothesis). -/
structure JsonLawful {J : Type} (c : Codec J) (e : Encoders J) : Prop where
  map_roundtrip : ∀ j, c.unmarshalMap (e.marshalMap j) = .obj j
  map_nonempty : ∀ j, e.marshalMap j ≠ ""
  body_roundtrip : ∀ r : Req J, c.decodeBody (e.encodeBody r) = .ok r.query r.operationName r.variables r.extensions
  media_json : c.mediaType "application/json" = .json
  media_graphql : c.mediaType "application/graphql" = .graphql
  message_roundtrip : ∀ ty id p, c.decodeMessage (e.encodeMessage ty id p) = some (ty, id, some p)
  payload_roundtrip : ∀ q v op, c.decodePayload (e.encodePayload q v op) = .ok q v op

/-- **lawful_of_goUrl** — a codec whose URL functions are the net/url transliteration is lawful as
    soon as its JSON / MIME half is: `transport_same_request` and everything after it then rest on
    the JSON / MIME laws alone. -/
theorem lawful_of_goUrl {J : Type} (c : Codec J) (e : Encoders J)
    (hget : c.urlGet = Url.goUrlGet) (henc : e.urlEncode = Url.goUrlEncode) (hj : JsonLawful c e) :
    Lawful c e where
  url_get kvs k _ := by rw [hget, henc]; exact Url.goUrl_get_encode kvs k
  map_roundtrip := hj.map_roundtrip
  map_nonempty := hj.map_nonempty
  body_roundtrip := hj.body_roundtrip
  media_json := hj.media_json
  media_graphql := hj.media_graphql
  message_roundtrip := hj.message_roundtrip
  payload_roundtrip := hj.payload_roundtrip

/-! ## 6. Hence every transport yields the response of `core` -/

/-- **transport_same_response** — for every API configuration, every request `r` (valid or not:
    parse and validation errors are responses of `core` too) that is not a subscription, and every
    transport `t` that can carry it, serving what the client encoded *is* the shared computation
    `core` on `r` — same schema, same features (those of the context `ctx` the request / the
    connection carries), same default cost — wrapped the way `t` delivers responses (HTTP 200 body;
    one data frame then complete). -/
theorem transport_same_response (P : Pipeline m J Schema Feat Cost Ctx Doc Resp) (S : SchemaOps Def Schema)
    (a : Api Def Feat Cost Ctx) (c : Codec J) (e : Encoders J) (law : Lawful c e) (ctx : Ctx)
    (x : Extras) (t : Transport) (r : Req J) (hc : canCarry t r)
    (hsub : ∀ doc, P.isSubscription doc r.operationName = false) :
    serve P S a c ctx true (encode e x t r) =
      deliver t x <$> core P (a.schema S) (a.features ctx) a.defaultCost ctx r := by
  have hreq := transport_same_request c e law x t r hc
  cases t with
  | httpGet =>
    simp only [encode, decode] at hreq
    simp only [encode, serve, serveGraphQL_eq_core]
    split at hreq
    · rename_i r' hr'
      simp only [newRequestFromHTTP] at hr'
      cases hreq
      rw [hr']
      simp only [Functor.map_map]
      rfl
    · cases hreq
  | httpPostJson =>
    simp only [encode, decode] at hreq
    simp only [encode, serve, serveGraphQL_eq_core]
    split at hreq
    · rename_i r' hr'
      simp only [newRequestFromHTTP] at hr'
      cases hreq
      rw [hr']
      simp only [Functor.map_map]
      rfl
    · cases hreq
  | httpPostGraphql =>
    simp only [encode, decode] at hreq
    simp only [encode, serve, serveGraphQL_eq_core]
    split at hreq
    · rename_i r' hr'
      simp only [newRequestFromHTTP] at hr'
      cases hreq
      rw [hr']
      simp only [Functor.map_map]
      rfl
    · cases hreq
  | graphqlWs =>
    obtain ⟨q, op, v, ex⟩ := r
    have h3 : ex = none := hc
    subst h3
    simp only [encode, serve, abstractWS, law.message_roundtrip, law.payload_roundtrip, WsKind.startType,
      if_true, serveWS, wsDecide, Bool.not_true, Bool.false_eq_true, if_false, handleInit]
    rw [handleStart_eq_core P S a ctx (a.features ctx) x.id q v op hsub]
    simp only [Functor.map_map]
    rfl
  | transportWs =>
    obtain ⟨q, op, v, ex⟩ := r
    have h3 : ex = none := hc
    subst h3
    simp only [encode, serve, abstractWS, law.message_roundtrip, law.payload_roundtrip, WsKind.startType,
      if_true, serveWS, wsDecide, Bool.not_true, Bool.false_eq_true, if_false, handleInit]
    rw [handleStart_eq_core P S a ctx (a.features ctx) x.id q v op hsub]
    simp only [Functor.map_map]
    rfl

/-- **transports_agree** — the property itself: two transports that can both carry `r` deliver the
    same GraphQL response content, and perform the same effects (the equation is between the two
    whole computations in `m`). -/
theorem transports_agree (P : Pipeline m J Schema Feat Cost Ctx Doc Resp) (S : SchemaOps Def Schema)
    (a : Api Def Feat Cost Ctx) (c : Codec J) (e : Encoders J) (law : Lawful c e) (ctx : Ctx)
    (x₁ x₂ : Extras) (t₁ t₂ : Transport) (r : Req J) (h₁ : canCarry t₁ r) (h₂ : canCarry t₂ r)
    (hsub : ∀ doc, P.isSubscription doc r.operationName = false) :
    Served.response <$> serve P S a c ctx true (encode e x₁ t₁ r) =
    Served.response <$> serve P S a c ctx true (encode e x₂ t₂ r) := by
  rw [transport_same_response P S a c e law ctx x₁ t₁ r h₁ hsub,
      transport_same_response P S a c e law ctx x₂ t₂ r h₂ hsub]
  simp only [Functor.map_map]
  congr 1
  funext resp
  cases t₁ <;> cases t₂ <;> rfl

/-- One request of a history: who asks (context), over what, which operation. -/
structure HistItem (J Ctx : Type) where
  ctx : Ctx
  extras : Extras
  transport : Transport
  req : Req J

/-- The reference for a history: `core` on each request with the features of *that* request's
    context, delivered the way its transport delivers — no reference to earlier requests. -/
def coreAll (P : Pipeline m J Schema Feat Cost Ctx Doc Resp) (S : SchemaOps Def Schema)
    (a : Api Def Feat Cost Ctx) : List (HistItem J Ctx) → m (List (Served Resp))
  | [] => pure []
  | i :: rest => do
    let o ← deliver i.transport i.extras <$> core P (a.schema S) (a.features i.ctx) a.defaultCost i.ctx i.req
    let os ← coreAll P S a rest
    pure (o :: os)

/-- **history_same_responses** — serving any sequence of requests on one API value (transports,
    callers' contexts / features, variables, operation names varying freely between them) answers
    each request with `core` on *that* request under the features of *that* request's context: the
    i-th answer does not depend on which requests came before or how they were carried. -/
theorem history_same_responses (P : Pipeline m J Schema Feat Cost Ctx Doc Resp) (S : SchemaOps Def Schema)
    (a : Api Def Feat Cost Ctx) (c : Codec J) (e : Encoders J) (law : Lawful c e)
    (items : List (HistItem J Ctx))
    (hc : ∀ i ∈ items, canCarry i.transport i.req)
    (hsub : ∀ i ∈ items, ∀ doc, P.isSubscription doc i.req.operationName = false) :
    serveAll P S a c true (items.map fun i => (i.ctx, encode e i.extras i.transport i.req)) = coreAll P S a items := by
  induction items with
  | nil => rfl
  | cons i rest ih =>
    have h1 := transport_same_response P S a c e law i.ctx i.extras i.transport i.req
      (hc i (by simp)) (hsub i (by simp))
    have h2 := ih (fun j hj => hc j (by simp [hj])) (fun j hj => hsub j (by simp [hj]))
    simp only [List.map_cons, serveAll, coreAll, h1, h2]

/-- **ws_features_from_connection_context** — the one place where the WebSocket path differs by
    construction: its features are those of the *connection* context at `connection_init`, the HTTP
    path's those of each request's context. Both paths compute `core` with the same features exactly
    when `Config.Features` gives the same answer on the two contexts (in particular when there is
    no `Features` function). -/
theorem ws_features_from_connection_context (a : Api Def Feat Cost Ctx) (reqCtx connCtx : Ctx)
    (h : ∀ f, a.featuresFn = some f → f reqCtx = f connCtx) :
    a.features reqCtx = handleInit a connCtx := by
  unfold handleInit Api.features
  cases hf : a.featuresFn with
  | none => rfl
  | some f => exact h f hf

/-! ## 7. The preprocess (clone) path -/

/-- **clone_path_same** — relative to the hypotheses "a clone builds a schema with the same
    observable behaviour" (C10's clone theorems) and "the hook does not change observable
    behaviour" (an identity-like hook: documentation only), an API configured with a
    `PreprocessGraphQLSchemaDefinition` hook has the same schema as the one configured without, hence
    serves every wire message identically. -/
theorem clone_path_same (P : Pipeline m J Schema Feat Cost Ctx Doc Resp) (S : SchemaOps Def Schema)
    (a : Api Def Feat Cost Ctx) (f : Def → Def)
    (hclone : ∀ d, S.build (S.clone d) = S.build d)
    (hhook : ∀ d, S.build (f d) = S.build d)
    (c : Codec J) (ctx : Ctx) (didInit : Bool) (w : Wire) :
    ({ a with preprocess := some f }).schema S = ({ a with preprocess := none }).schema S ∧
    serve P S { a with preprocess := some f } c ctx didInit w =
      serve P S { a with preprocess := none } c ctx didInit w := by
  have hs : ({ a with preprocess := some f }).schema S = ({ a with preprocess := none }).schema S := by
    simp [Api.schema, hhook, hclone]
  refine ⟨hs, ?_⟩
  cases w with
  | http h =>
    simp only [serve, serveGraphQL_eq_core, hs, Api.features]
  | ws k frame =>
    simp only [serve]
    cases abstractWS c k frame with
    | none => rfl
    | some msg =>
      simp only [serveWS, handleStart, handleInit, Api.features, hs]

end pipelines

/-! ## 8. Non-vacuity: the hypotheses are satisfiable, the conclusions are not trivial -/

/-- A lawful codec / encoder pair exists over real strings (`Lemmas.lean`: a length-prefixed
    packing), so `Lawful` is not an empty hypothesis. -/
example : ∃ (c : Codec String) (e : Encoders String), Lawful c e := ⟨packCodec, packEncoders, pack_lawful⟩

/-- The net/url transliteration together with the packing codec's JSON half is lawful, so
    `lawful_of_goUrl`'s hypotheses are satisfiable too. -/
example : Lawful goPackCodec goPackEncoders :=
  lawful_of_goUrl goPackCodec goPackEncoders rfl rfl
    { map_roundtrip := fun j => by simp only [goPackCodec, goPackEncoders]; exact pack_lawful.map_roundtrip j
      map_nonempty := fun j => by simp only [goPackEncoders]; exact pack_lawful.map_nonempty j
      body_roundtrip := fun r => by simp only [goPackCodec, goPackEncoders]; exact pack_lawful.body_roundtrip r
      media_json := by simp only [goPackCodec]; exact pack_lawful.media_json
      media_graphql := by simp only [goPackCodec]; exact pack_lawful.media_graphql
      message_roundtrip := fun ty id p => by
        simp only [goPackCodec, goPackEncoders]; exact pack_lawful.message_roundtrip ty id p
      payload_roundtrip := fun q v op => by
        simp only [goPackCodec, goPackEncoders]; exact pack_lawful.payload_roundtrip q v op }

/-- The URL law on a concrete query string with everything that needs escaping. -/
example : Url.goUrlGet (Url.goUrlEncode [("query", "{ a(x: \"ü&=;%+ \") }"), ("variables", "{\"k\":1}")]) "query"
    = some "{ a(x: \"ü&=;%+ \") }" := by
  rw [Url.goUrl_get_encode]
  rfl

/-- Instantiating `transports_agree` with that codec, the identity monad and a pipeline that echoes
    its request: GET and graphql-transport-ws deliver the same (non-trivial) response. -/
example :
    let P : Pipeline Id String Unit Unit Unit Unit String String :=
      { parseAndValidate := fun q _ _ _ _ _ => if q = "" then .error "syntax error" else .ok (q, 0)
        isSubscription := fun _ _ => false
        execute := fun _ _ _ doc req _ => doc ++ "/" ++ req.operationName ++ "/" ++ (req.variables.getD "-") }
    let S : SchemaOps Unit Unit := { build := id, clone := id }
    let a : Api Unit Unit Unit Unit := { definition := (), preprocess := none, featuresFn := none, nilFeatures := (), defaultCost := () }
    let r : Req String := { query := "{a}", operationName := "Q", variables := some "{\"x\":1}", extensions := none }
    Served.response <$> serve P S a packCodec () true (encode packEncoders {} .httpGet r) = (some "{a}/Q/{\"x\":1}" : Id _) ∧
    Served.response <$> serve P S a packCodec () true (encode packEncoders {} .transportWs r) = (some "{a}/Q/{\"x\":1}" : Id _) := by
  intro P S a r
  have h1 := transport_same_response P S a packCodec packEncoders pack_lawful () {} .httpGet r trivial (fun _ => rfl)
  have h2 := transport_same_response P S a packCodec packEncoders pack_lawful () {} .transportWs r rfl (fun _ => rfl)
  rw [h1, h2]
  exact ⟨rfl, rfl⟩

/-- Malformed envelopes exist and are refused with the exact code: an unsupported method gives 405,
    an undecodable `variables` parameter 400. -/
example :
    decideHTTP ({ method := .other, pQuery := some "{a}", pVariables := .absent, pOperationName := none,
                  pExtensions := .absent, media := .json, jsonBody := .bad, rawBody := "" } : AbsHttp String)
      = .error .methodNotAllowed ∧
    decideHTTP ({ method := .get, pQuery := some "{a}", pVariables := .nonempty .bad, pOperationName := none,
                  pExtensions := .absent, media := .json, jsonBody := .bad, rawBody := "" } : AbsHttp String)
      = .error .malformedVariables := by
  exact ⟨rfl, rfl⟩

/-- The quirks are in the model: a POST body's (empty) `query` member wins over `?query=`, and an
    empty `variables` parameter is skipped rather than decoded. -/
example :
    decideHTTP ({ method := .post, pQuery := some "{a}", pVariables := .nonempty .bad, pOperationName := none,
                  pExtensions := .absent, media := .json, jsonBody := .ok "" "" none none, rawBody := "{}" } : AbsHttp String)
      = .ok { query := "", operationName := "", variables := none, extensions := none } ∧
    decideHTTP ({ method := .get, pQuery := some "{a}", pVariables := .empty, pOperationName := none,
                  pExtensions := .absent, media := .unparsable, jsonBody := .bad, rawBody := "" } : AbsHttp String)
      = .ok { query := "{a}", operationName := "", variables := none, extensions := none } := by
  exact ⟨rfl, rfl⟩

end ApiFu.C17
