import ApiFu.C17.Model
namespace ApiFu.C17
theorem placeholder_status : ∀ r : Reject, 400 ≤ r.status ∧ r.status < 500 := by
  intro r; cases r <;> simp [Reject.status]
end ApiFu.C17
